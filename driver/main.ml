(* Model-side runner: reads request lines, evaluates them with the extracted Coq model
   (Model.run_line) and prints one canonical line per request. The oracle [ask] is a round trip
   to the Rust primitive server (harness/target/.../primsrv). *)
open Model

let coq_of_char (c : char) : ascii =
  let n = Char.code c in
  let b i = (n lsr i) land 1 = 1 in
  Ascii (b 0, b 1, b 2, b 3, b 4, b 5, b 6, b 7)

let char_of_coq (a : ascii) : char =
  match a with
  | Ascii (b0, b1, b2, b3, b4, b5, b6, b7) ->
    let v b i = if b then 1 lsl i else 0 in
    Char.chr (v b0 0 + v b1 1 + v b2 2 + v b3 3 + v b4 4 + v b5 5 + v b6 6 + v b7 7)

let coq_of_string (s : Stdlib.String.t) : string =
  let r = ref EmptyString in
  for i = Stdlib.String.length s - 1 downto 0 do
    r := String (coq_of_char s.[i], !r)
  done;
  !r

let string_of_coq (s : string) : Stdlib.String.t =
  let b = Buffer.create 64 in
  let rec go = function
    | EmptyString -> ()
    | String (a, r) -> Buffer.add_char b (char_of_coq a); go r in
  go s;
  Buffer.contents b

let () =
  let primsrv = try Sys.getenv "PRIMSRV" with Not_found -> "primsrv" in
  let (pin, pout) = Unix.open_process primsrv in
  let asks = ref 0 in
  let ask (q : string) : string =
    incr asks;
    output_string pout (string_of_coq q);
    output_char pout '\n';
    flush pout;
    coq_of_string (input_line pin) in
  (try
     while true do
       let line = input_line stdin in
       if line <> "" then begin
         let r = try string_of_coq (run_line ask (coq_of_string line))
           with Stack_overflow -> "MODEL_STACK_OVERFLOW" in
         print_string r; print_char '\n'
       end
     done
   with End_of_file -> ());
  flush stdout;
  ignore (Unix.close_process (pin, pout))
