//! Shared wire formats for the correspondence harness.
//!
//! Values on the wire
//!   f64      16 hex digits of the bit pattern (every NaN is printed as 7ff8000000000000)
//!   i64      decimal
//!   Decimal  [-]<coefficient>/<scale>
//!   Complex  <re bits>,<im bits>
//!   Number   I<decimal> | F<bits>
//! Expressions: code points in lower-case hex separated by '.', the empty string is "".
use num_complex::Complex;
use rust_decimal::Decimal;
use string_calculator::Number;

pub fn dec_expr(s: &str) -> Option<String> {
    if s.is_empty() || s == "-" {
        return Some(String::new());
    }
    let mut out = String::new();
    for part in s.split('.') {
        let cp = u32::from_str_radix(part, 16).ok()?;
        out.push(char::from_u32(cp)?);
    }
    Some(out)
}

pub fn f64_to_wire(x: f64) -> String {
    if x.is_nan() {
        "7ff8000000000000".to_string()
    } else {
        format!("{:016x}", x.to_bits())
    }
}
pub fn f64_from_wire(s: &str) -> Option<f64> {
    Some(f64::from_bits(u64::from_str_radix(s, 16).ok()?))
}
pub fn dec_to_wire(d: Decimal) -> String {
    let u = d.unpack();
    let coef: u128 = ((u.hi as u128) << 64) | ((u.mid as u128) << 32) | (u.lo as u128);
    format!("{}{}/{}", if u.negative { "-" } else { "" }, coef, u.scale)
}
pub fn dec_from_wire(s: &str) -> Option<Decimal> {
    let (neg, rest) = match s.strip_prefix('-') {
        Some(r) => (true, r),
        None => (false, s),
    };
    let (c, sc) = rest.split_once('/')?;
    let coef: u128 = c.parse().ok()?;
    let scale: u32 = sc.parse().ok()?;
    if coef >> 96 != 0 || scale > 28 {
        return None;
    }
    let mut d = Decimal::from_parts(
        coef as u32,
        (coef >> 32) as u32,
        (coef >> 64) as u32,
        neg,
        scale,
    );
    // from_parts drops the sign of a zero; -0 exists (it is what `-Decimal::ZERO` returns)
    d.set_sign_negative(neg);
    Some(d)
}
pub fn cpx_to_wire(c: Complex<f64>) -> String {
    format!("{},{}", f64_to_wire(c.re), f64_to_wire(c.im))
}
pub fn cpx_from_wire(s: &str) -> Option<Complex<f64>> {
    let (a, b) = s.split_once(',')?;
    Some(Complex::new(f64_from_wire(a)?, f64_from_wire(b)?))
}
pub fn num_to_wire(n: &Number) -> String {
    match n {
        Number::Integer(i) => format!("I{}", i),
        Number::Float(f) => format!("F{}", f64_to_wire(*f)),
    }
}
pub fn num_from_wire(s: &str) -> Option<Number> {
    if let Some(r) = s.strip_prefix('I') {
        Some(Number::Integer(r.parse().ok()?))
    } else if let Some(r) = s.strip_prefix('F') {
        Some(Number::Float(f64_from_wire(r)?))
    } else {
        None
    }
}

/// Canonicalise a `{:?}` dump of a token or an AST: every numeric payload is rewritten in wire
/// form, everything else is kept (spaces removed). `ev` selects the payload type.
pub fn canon_debug(ev: &str, s: &str) -> String {
    // numeric payloads appear as:  Number(<x>) | Num(<x>) | Superscript(<x>)
    //   f64:      <x> = float
    //   i64:      <x> = int
    //   decimal:  <x> = decimal text
    //   complex:  <x> = Complex { re: f, im: f }
    //   number:   <x> = Integer(i) | Float(f)
    let mut out = String::new();
    let b: Vec<char> = s.chars().collect();
    let mut i = 0;
    let heads = ["Number(", "Num(", "Superscript("];
    'outer: while i < b.len() {
        for h in heads.iter() {
            let hc: Vec<char> = h.chars().collect();
            if i + hc.len() <= b.len()
                && b[i..i + hc.len()] == hc[..]
                && (i == 0 || !b[i - 1].is_alphanumeric())
            {
                // find the matching close paren
                let start = i + hc.len();
                let mut depth = 1;
                let mut j = start;
                while j < b.len() {
                    if b[j] == '(' {
                        depth += 1;
                    } else if b[j] == ')' {
                        depth -= 1;
                        if depth == 0 {
                            break;
                        }
                    }
                    j += 1;
                }
                let inner: String = b[start..j].iter().collect();
                out.push_str(h);
                out.push_str(&canon_payload(ev, &inner));
                out.push(')');
                i = j + 1;
                continue 'outer;
            }
        }
        if b[i] != ' ' {
            out.push(b[i]);
        }
        i += 1;
    }
    out
}

fn canon_payload(ev: &str, inner: &str) -> String {
    let pf = |t: &str| -> String {
        match t.trim().parse::<f64>() {
            Ok(x) => f64_to_wire(x),
            Err(_) => format!("?{}", t),
        }
    };
    match ev {
        "f64" => pf(inner),
        "i64" => inner.trim().to_string(),
        "decimal" => match inner.trim().parse::<Decimal>() {
            Ok(d) => dec_to_wire(d),
            Err(_) => format!("?{}", inner),
        },
        "complex" => {
            // Complex { re: 1.0, im: 0.0 }
            let t = inner.trim();
            let t = t.trim_start_matches("Complex").trim();
            let t = t.trim_start_matches('{').trim_end_matches('}');
            let mut re = String::new();
            let mut im = String::new();
            for part in t.split(',') {
                let part = part.trim();
                if let Some(r) = part.strip_prefix("re:") {
                    re = pf(r);
                } else if let Some(r) = part.strip_prefix("im:") {
                    im = pf(r);
                }
            }
            format!("{},{}", re, im)
        }
        "number" => {
            let t = inner.trim();
            if let Some(r) = t.strip_prefix("Integer(") {
                format!("I{}", r.trim_end_matches(')'))
            } else if let Some(r) = t.strip_prefix("Float(") {
                format!("F{}", pf(r.trim_end_matches(')')))
            } else {
                format!("?{}", t)
            }
        }
        _ => inner.to_string(),
    }
}
