//! Runs the real crate on a case file and prints one canonical line per case.
//!
//! Input lines (tab separated):  <ev> <mode> <placeholder> <expr>
//!   ev   = f64 | i64 | decimal | complex | number
//!   mode = eval | tokens | ast | from_f64 | from_f64_raw (NaN payload bits kept) | from_i64
//! Output:  OK <payload> #<ticks> | ERR #<ticks> | PANIC | BUDGET | TIMEOUT | BAD
use sc_harness::*;
use std::io::{BufRead, Write};
use std::panic::{catch_unwind, AssertUnwindSafe};
use std::sync::mpsc;
use std::time::Duration;
use string_calculator::verif_hooks as vh;
use string_calculator::*;

fn run_case(line: &str, budget: u64) -> String {
    let f: Vec<&str> = line.split('\t').collect();
    if f.len() != 4 {
        return "BAD".into();
    }
    let (ev, mode, ph, ex) = (f[0], f[1], f[2], f[3]);
    let expr = match dec_expr(ex) {
        Some(e) => e,
        None => return "BAD".into(),
    };
    vh::reset(budget);
    let r = catch_unwind(AssertUnwindSafe(|| -> Option<Result<String, ()>> {
        Some(match (ev, mode) {
            ("f64", "eval") => eval_f64(expr, f64_from_wire(ph)?)
                .map(f64_to_wire)
                .map_err(|_| ()),
            ("i64", "eval") => eval_i64(expr, ph.parse().ok()?)
                .map(|v| v.to_string())
                .map_err(|_| ()),
            ("decimal", "eval") => eval_decimal(expr, dec_from_wire(ph)?)
                .map(dec_to_wire)
                .map_err(|_| ()),
            ("complex", "eval") => eval_complex(expr, cpx_from_wire(ph)?)
                .map(cpx_to_wire)
                .map_err(|_| ()),
            ("number", "eval") => eval_number(expr, num_from_wire(ph)?)
                .map(|n| num_to_wire(&n))
                .map_err(|_| ()),
            ("f64", "tokens") => toks(ev, vh::tokens_f64(&expr)),
            ("i64", "tokens") => toks(ev, vh::tokens_i64(&expr)),
            ("decimal", "tokens") => toks(ev, vh::tokens_decimal(&expr)),
            ("complex", "tokens") => toks(ev, vh::tokens_complex(&expr)),
            ("number", "tokens") => toks(ev, vh::tokens_number(&expr)),
            ("f64", "ast") => vh::ast_f64(&expr, f64_from_wire(ph)?)
                .map(|s| canon_debug(ev, &s))
                .map_err(|_| ()),
            ("i64", "ast") => vh::ast_i64(&expr, ph.parse().ok()?)
                .map(|s| canon_debug(ev, &s))
                .map_err(|_| ()),
            ("decimal", "ast") => vh::ast_decimal(&expr, dec_from_wire(ph)?)
                .map(|s| canon_debug(ev, &s))
                .map_err(|_| ()),
            ("complex", "ast") => vh::ast_complex(&expr, cpx_from_wire(ph)?)
                .map(|s| canon_debug(ev, &s))
                .map_err(|_| ()),
            ("number", "ast") => vh::ast_number(&expr, num_from_wire(ph)?)
                .map(|s| canon_debug(ev, &s))
                .map_err(|_| ()),
            ("number", "from_f64") => Ok(num_to_wire(&Number::from(f64_from_wire(ph)?))),
            ("number", "from_f64_raw") => Ok(match Number::from(f64_from_wire(ph)?) {
                Number::Integer(i) => format!("I{}", i),
                Number::Float(f) => format!("F{:016x}", f.to_bits()),
            }),
            ("number", "from_i64") => Ok(num_to_wire(&Number::from(ph.parse::<i64>().ok()?))),
            _ => return None,
        })
    }));
    let ticks = vh::ticks();
    match r {
        Ok(Some(Ok(s))) => format!("OK {} #{}", s, ticks),
        Ok(Some(Err(()))) => format!("ERR #{}", ticks),
        Ok(None) => "BAD".into(),
        Err(p) => {
            let msg = if let Some(s) = p.downcast_ref::<&str>() {
                s.to_string()
            } else if let Some(s) = p.downcast_ref::<String>() {
                s.clone()
            } else {
                String::new()
            };
            if msg == "verif:budget" {
                "BUDGET".into()
            } else {
                "PANIC".into()
            }
        }
    }
}

fn toks(ev: &str, t: Option<Vec<String>>) -> Result<String, ()> {
    match t {
        Some(v) => Ok(v
            .iter()
            .map(|s| canon_debug(ev, s))
            .collect::<Vec<_>>()
            .join(" ")),
        None => Err(()),
    }
}

fn spawn_worker(budget: u64) -> (mpsc::Sender<String>, mpsc::Receiver<String>) {
    let (tx_in, rx_in) = mpsc::channel::<String>();
    let (tx_out, rx_out) = mpsc::channel::<String>();
    std::thread::Builder::new()
        .stack_size(64 << 20)
        .spawn(move || {
            while let Ok(line) = rx_in.recv() {
                let r = run_case(&line, budget);
                if tx_out.send(r).is_err() {
                    break;
                }
            }
        })
        .unwrap();
    (tx_in, rx_out)
}

fn main() {
    std::panic::set_hook(Box::new(|_| {}));
    let args: Vec<String> = std::env::args().collect();
    // impl_runner [budget] [timeout_ms]
    let budget: u64 = args.get(1).and_then(|s| s.parse().ok()).unwrap_or(u64::MAX);
    let timeout_ms: u64 = args.get(2).and_then(|s| s.parse().ok()).unwrap_or(5000);
    let stdin = std::io::stdin();
    let stdout = std::io::stdout();
    let mut out = std::io::BufWriter::new(stdout.lock());
    let (mut tx, mut rx) = spawn_worker(budget);
    let mut timeouts = 0;
    for line in stdin.lock().lines() {
        let line = match line {
            Ok(l) => l,
            Err(_) => break,
        };
        if line.is_empty() {
            continue;
        }
        if timeouts >= 12 {
            writeln!(out, "SKIPPED").unwrap();
            continue;
        }
        tx.send(line).unwrap();
        match rx.recv_timeout(Duration::from_millis(timeout_ms)) {
            Ok(r) => writeln!(out, "{}", r).unwrap(),
            Err(_) => {
                writeln!(out, "TIMEOUT").unwrap();
                timeouts += 1;
                let w = spawn_worker(budget);
                tx = w.0;
                rx = w.1;
            }
        }
    }
    out.flush().unwrap();
    // hung workers (if any) must not keep the process alive
    std::process::exit(0);
}
