//! Oracle server: evaluates std / rust_decimal / num_complex primitives exactly as the crate
//! under test links them. One request per line: `<op> <arg>...`, one reply per line.
//! Replies: a wire value, `none` (an Option::None / Err) or `panic`.
use num_complex::Complex;
use rust_decimal::prelude::*;
use rust_decimal::{Decimal, MathematicalOps};
use sc_harness::*;
use std::io::{BufRead, Write};
use std::panic::{catch_unwind, AssertUnwindSafe};

fn f1(op: &str, x: f64) -> Option<f64> {
    Some(match op {
        "sin" => x.sin(),
        "cos" => x.cos(),
        "tan" => x.tan(),
        "sinh" => x.sinh(),
        "cosh" => x.cosh(),
        "tanh" => x.tanh(),
        "asin" => x.asin(),
        "acos" => x.acos(),
        "atan" => x.atan(),
        "asinh" => x.asinh(),
        "acosh" => x.acosh(),
        "atanh" => x.atanh(),
        "ln" => x.ln(),
        "log10" => x.log10(),
        "exp" => x.exp(),
        "exp2" => x.exp2(),
        "sqrt" => x.sqrt(),
        "floor" => x.floor(),
        "ceil" => x.ceil(),
        "round" => x.round(),
        "trunc" => x.trunc(),
        "abs" => x.abs(),
        "neg" => -x,
        "signum" => x.signum(),
        _ => return None,
    })
}
fn f2(op: &str, x: f64, y: f64) -> Option<f64> {
    Some(match op {
        "add" => x + y,
        "sub" => x - y,
        "mul" => x * y,
        "div" => x / y,
        "rem" => x % y,
        "pow" => x.powf(y),
        "atan2" => x.atan2(y),
        "log" => x.log(y),
        "min" => x.min(y),
        "max" => x.max(y),
        _ => return None,
    })
}
fn d1(op: &str, x: Decimal) -> Option<Option<Decimal>> {
    Some(match op {
        "dneg" => Some(-x),
        "dabs" => Some(x.abs()),
        "dfloor" => Some(x.floor()),
        "dceil" => Some(x.ceil()),
        "dround" => Some(x.round()),
        "dtrunc" => Some(x.trunc()),
        "dsignum" => Some(x.signum()),
        "dln" => x.checked_ln(),
        "dlog10" => x.checked_log10(),
        "dexp" => x.checked_exp(),
        "dsqrt" => x.sqrt(),
        "dsin" => x.checked_sin(),
        "dnorm" => Some(x.normalize()),
        _ => return None,
    })
}
fn d2(op: &str, x: Decimal, y: Decimal) -> Option<Option<Decimal>> {
    Some(match op {
        "dadd" => x.checked_add(y),
        "dsub" => x.checked_sub(y),
        "dmul" => x.checked_mul(y),
        "ddiv" => x.checked_div(y),
        "drem" => x.checked_rem(y),
        "dpowd" => x.checked_powd(y),
        "dmin" => Some(x.min(y)),
        "dmax" => Some(x.max(y)),
        _ => return None,
    })
}
fn c1(op: &str, x: Complex<f64>) -> Option<Complex<f64>> {
    Some(match op {
        "csin" => x.sin(),
        "ccos" => x.cos(),
        "ctan" => x.tan(),
        "csinh" => x.sinh(),
        "ccosh" => x.cosh(),
        "ctanh" => x.tanh(),
        "casin" => x.asin(),
        "cacos" => x.acos(),
        "catan" => x.atan(),
        "casinh" => x.asinh(),
        "cacosh" => x.acosh(),
        "catanh" => x.atanh(),
        "csqrt" => x.sqrt(),
        "cln" => x.ln(),
        "clb" => x.log(2.0),
        "cexp" => x.exp(),
        "cexp2" => x.exp2(),
        "cneg" => -x,
        "cabs" => Complex::new(x.norm(), 0.0),
        "cinv1" => 1.0 / x,
        _ => return None,
    })
}
fn c2(op: &str, x: Complex<f64>, y: Complex<f64>) -> Option<Complex<f64>> {
    Some(match op {
        "cadd" => x + y,
        "csub" => x - y,
        "cmul" => x * y,
        "cdiv" => x / y,
        "cpowc" => x.powc(y),
        _ => return None,
    })
}

fn handle(line: &str) -> Option<String> {
    let f: Vec<&str> = line.split_whitespace().collect();
    let op = *f.first()?;
    let od = |r: Option<Decimal>| r.map(dec_to_wire).unwrap_or_else(|| "none".into());
    if op.starts_with('d') && op != "div" && !op.starts_with("display") {
        // decimal family
        match op {
            "dparse" => {
                // argument: the literal text as hex code points
                let s = dec_expr(f.get(1).copied().unwrap_or(""))?;
                return Some(od(s.parse::<Decimal>().ok()));
            }
            "dcmp" => {
                let a = dec_from_wire(f.get(1)?)?;
                let b = dec_from_wire(f.get(2)?)?;
                return Some(match a.cmp(&b) {
                    std::cmp::Ordering::Less => "-1".into(),
                    std::cmp::Ordering::Equal => "0".into(),
                    std::cmp::Ordering::Greater => "1".into(),
                });
            }
            "dtoi64" => {
                let a = dec_from_wire(f.get(1)?)?;
                return Some(a.to_i64().map(|v| v.to_string()).unwrap_or("none".into()));
            }
            "dtoi32" => {
                let a = dec_from_wire(f.get(1)?)?;
                return Some(a.to_i32().map(|v| v.to_string()).unwrap_or("none".into()));
            }
            "dnew" => {
                // Decimal::new(num, scale): panics when scale > 28
                let n: i64 = f.get(1)?.parse().ok()?;
                let s: u32 = f.get(2)?.parse().ok()?;
                return Some(od(Decimal::try_new(n, s).ok()));
            }
            "ddisplay" => {
                let a = dec_from_wire(f.get(1)?)?;
                return Some(a.to_string());
            }
            _ => {}
        }
        if f.len() == 2 {
            return Some(od(d1(op, dec_from_wire(f[1])?)?));
        }
        if f.len() == 3 {
            return Some(od(d2(op, dec_from_wire(f[1])?, dec_from_wire(f[2])?)?));
        }
        return None;
    }
    if op.starts_with('c') && op != "cos" && op != "cosh" && op != "ceil" {
        if f.len() == 2 {
            return Some(cpx_to_wire(c1(op, cpx_from_wire(f[1])?)?));
        }
        if f.len() == 3 {
            return Some(cpx_to_wire(c2(op, cpx_from_wire(f[1])?, cpx_from_wire(f[2])?)?));
        }
        return None;
    }
    match op {
        "powi" => {
            let x = f64_from_wire(f.get(1)?)?;
            let n: i32 = f.get(2)?.parse().ok()?;
            return Some(f64_to_wire(x.powi(n)));
        }
        "parse_f64" => {
            let s = dec_expr(f.get(1).copied().unwrap_or(""))?;
            return Some(s.parse::<f64>().map(f64_to_wire).unwrap_or("none".into()));
        }
        "parse_i64" => {
            let s = dec_expr(f.get(1).copied().unwrap_or(""))?;
            return Some(
                s.parse::<i64>()
                    .map(|v| v.to_string())
                    .unwrap_or("none".into()),
            );
        }
        "i2f" => {
            let n: i64 = f.get(1)?.parse().ok()?;
            return Some(f64_to_wire(n as f64));
        }
        "f2i" => {
            let x = f64_from_wire(f.get(1)?)?;
            return Some((x as i64).to_string());
        }
        "f2i32" => {
            let x = f64_from_wire(f.get(1)?)?;
            return Some((x as i32).to_string());
        }
        "f2usize" => {
            let x = f64_from_wire(f.get(1)?)?;
            return Some((x as usize).to_string());
        }
        "display_f64" => {
            let x = f64_from_wire(f.get(1)?)?;
            return Some(format!("{}", x));
        }
        "display_cpx" => {
            let x = cpx_from_wire(f.get(1)?)?;
            return Some(format!("{}", x));
        }
        "lt" | "le" | "eq" | "tcmp" => {
            let x = f64_from_wire(f.get(1)?)?;
            let y = f64_from_wire(f.get(2)?)?;
            return Some(match op {
                "lt" => ((x < y) as i32).to_string(),
                "le" => ((x <= y) as i32).to_string(),
                "eq" => ((x == y) as i32).to_string(),
                _ => match x.total_cmp(&y) {
                    std::cmp::Ordering::Less => "-1".into(),
                    std::cmp::Ordering::Equal => "0".into(),
                    std::cmp::Ordering::Greater => "1".into(),
                },
            });
        }
        "iadd" | "isub" | "imul" | "idiv" | "irem" | "iremeuclid" | "ipow" | "ishl" | "ishr" | "iand" | "ior" => {
            let x: i64 = f.get(1)?.parse().ok()?;
            let y: i64 = f.get(2)?.parse().ok()?;
            let o = |r: Option<i64>| r.map(|v| v.to_string()).unwrap_or("none".into());
            return Some(match op {
                "iadd" => o(x.checked_add(y)),
                "isub" => o(x.checked_sub(y)),
                "iand" => (x & y).to_string(),
                "ior" => (x | y).to_string(),
                "imul" => o(x.checked_mul(y)),
                "idiv" => o(x.checked_div(y)),
                "irem" => o(if y == 0 { None } else { Some(x.wrapping_rem(y)) }),
                "iremeuclid" => o(x.checked_rem_euclid(y)),
                "ipow" => match u32::try_from(y) {
                    Ok(e) => o(x.checked_pow(e)),
                    Err(_) => "skip".into(),
                },
                "ishl" => {
                    if (0..=63).contains(&y) {
                        o(i64::try_from((x as i128) << y).ok())
                    } else {
                        "skip".into()
                    }
                }
                _ => {
                    if (0..=63).contains(&y) {
                        (x >> y).to_string()
                    } else {
                        "skip".into()
                    }
                }
            });
        }
        "ineg" | "iabs" | "isignum" => {
            let x: i64 = f.get(1)?.parse().ok()?;
            let o = |r: Option<i64>| r.map(|v| v.to_string()).unwrap_or("none".into());
            return Some(match op {
                "ineg" => o(x.checked_neg()),
                "iabs" => o(x.checked_abs()),
                _ => x.signum().to_string(),
            });
        }
        "is_ws" => {
            let cp = u32::from_str_radix(f.get(1)?, 16).ok()?;
            let c = char::from_u32(cp)?;
            let s: String = [c].iter().collect();
            return Some(if s.split_whitespace().next().is_none() { "1" } else { "0" }.into());
        }
        _ => {}
    }
    if f.len() == 2 {
        return Some(f64_to_wire(f1(op, f64_from_wire(f[1])?)?));
    }
    if f.len() == 3 {
        return Some(f64_to_wire(f2(op, f64_from_wire(f[1])?, f64_from_wire(f[2])?)?));
    }
    None
}

fn main() {
    std::panic::set_hook(Box::new(|_| {}));
    let stdin = std::io::stdin();
    let stdout = std::io::stdout();
    let mut out = stdout.lock();
    for line in stdin.lock().lines() {
        let line = match line {
            Ok(l) => l,
            Err(_) => break,
        };
        let r = catch_unwind(AssertUnwindSafe(|| handle(&line)));
        let s = match r {
            Ok(Some(s)) => s,
            Ok(None) => "bad".into(),
            Err(_) => "panic".into(),
        };
        writeln!(out, "{}", s).unwrap();
        out.flush().unwrap();
    }
}
