//! Call histories and concurrent calls (C16): the whole case list is evaluated
//!   (1) sequentially in the given order (one long history in one process),
//!   (2) sequentially in reverse order,
//!   (3) concurrently on N threads, each thread walking the list in its own pseudo-random order.
//! One line per case is printed: the sequential result if all runs agree, otherwise
//! `NONDET <seq> | <other> (<where>)`.
use sc_harness::*;
use std::io::{BufRead, Write};
use std::panic::{catch_unwind, AssertUnwindSafe};
use std::sync::Arc;
use string_calculator::*;

fn eval_case(line: &str) -> String {
    let f: Vec<&str> = line.split('\t').collect();
    if f.len() != 4 {
        return "BAD".into();
    }
    let (ev, ph, ex) = (f[0], f[2], f[3]);
    let expr = match dec_expr(ex) {
        Some(e) => e,
        None => return "BAD".into(),
    };
    let r = catch_unwind(AssertUnwindSafe(|| -> Option<Result<String, ()>> {
        Some(match ev {
            "f64" => eval_f64(expr, f64_from_wire(ph)?).map(f64_to_wire).map_err(|_| ()),
            "i64" => eval_i64(expr, ph.parse().ok()?).map(|v| v.to_string()).map_err(|_| ()),
            "decimal" => eval_decimal(expr, dec_from_wire(ph)?).map(dec_to_wire).map_err(|_| ()),
            "complex" => eval_complex(expr, cpx_from_wire(ph)?).map(cpx_to_wire).map_err(|_| ()),
            "number" => eval_number(expr, num_from_wire(ph)?).map(|n| num_to_wire(&n)).map_err(|_| ()),
            _ => return None,
        })
    }));
    match r {
        Ok(Some(Ok(s))) => format!("OK {}", s),
        Ok(Some(Err(()))) => "ERR".into(),
        Ok(None) => "BAD".into(),
        Err(_) => "PANIC".into(),
    }
}

/// cold start: in a fresh process, all threads are released together by a barrier and each walks the case list in its own
/// rotation; nothing is evaluated before. Prints the result of thread 0 for each case, or `NONDET a | b (thread t)`.
fn cold(threads: usize, lines: Vec<String>) {
    let lines = Arc::new(lines);
    let n = lines.len();
    let barrier = Arc::new(std::sync::Barrier::new(threads));
    let mut handles = vec![];
    for t in 0..threads {
        let lines = Arc::clone(&lines);
        let barrier = Arc::clone(&barrier);
        handles.push(std::thread::Builder::new().stack_size(32 << 20).spawn(move || {
            string_calculator::verif_hooks::reset(u64::MAX);
            let mut out = vec![String::new(); n];
            barrier.wait();
            for i in 0..n {
                let j = (i + t * 3) % n;
                out[j] = eval_case(&lines[j]);
            }
            out
        }).unwrap());
    }
    let results: Vec<Vec<String>> = handles.into_iter().map(|h| h.join().unwrap()).collect();
    let stdout = std::io::stdout();
    let mut o = std::io::BufWriter::new(stdout.lock());
    for j in 0..n {
        let mut line = results[0][j].clone();
        for (t, r) in results.iter().enumerate().skip(1) {
            if r[j] != results[0][j] {
                line = format!("NONDET {} | {} (thread {}, cold start)", results[0][j], r[j], t);
                break;
            }
        }
        writeln!(o, "{}", line).unwrap();
    }
    o.flush().unwrap();
}

fn main() {
    std::panic::set_hook(Box::new(|_| {}));
    let args: Vec<String> = std::env::args().collect();
    if args.get(1).map(|s| s.as_str()) == Some("cold") {
        let threads: usize = args.get(2).and_then(|s| s.parse().ok()).unwrap_or(16);
        let stdin = std::io::stdin();
        let lines: Vec<String> = stdin.lock().lines().map_while(Result::ok).filter(|l| !l.is_empty()).collect();
        cold(threads, lines);
        return;
    }
    let threads: usize = args.get(1).and_then(|s| s.parse().ok()).unwrap_or(16);
    let stdin = std::io::stdin();
    let lines: Vec<String> = stdin.lock().lines().map_while(Result::ok).filter(|l| !l.is_empty()).collect();
    let lines = Arc::new(lines);
    let n = lines.len();
    string_calculator::verif_hooks::reset(u64::MAX);
    let seq: Vec<String> = lines.iter().map(|l| eval_case(l)).collect();
    let mut diff: Vec<Option<String>> = vec![None; n];
    // reverse order
    for i in (0..n).rev() {
        let r = eval_case(&lines[i]);
        if r != seq[i] && diff[i].is_none() {
            diff[i] = Some(format!("{} (reverse order)", r));
        }
    }
    // concurrent
    let mut handles = vec![];
    for t in 0..threads {
        let lines = Arc::clone(&lines);
        handles.push(std::thread::Builder::new().stack_size(32 << 20).spawn(move || {
            string_calculator::verif_hooks::reset(u64::MAX);
            let n = lines.len();
            let mut out: Vec<(usize, String)> = Vec::with_capacity(n);
            // a per-thread permutation: i -> (a*i + b) mod n with a coprime to n
            let mut a = 2 * t + 1;
            while n > 0 && gcd(a, n) != 1 {
                a += 2;
            }
            let b = 7919 * (t + 1);
            for i in 0..n {
                let j = (a * i + b) % n;
                out.push((j, eval_case(&lines[j])));
            }
            out
        }).unwrap());
    }
    for (t, h) in handles.into_iter().enumerate() {
        for (j, r) in h.join().unwrap() {
            if r != seq[j] && diff[j].is_none() {
                diff[j] = Some(format!("{} (thread {})", r, t));
            }
        }
    }
    let stdout = std::io::stdout();
    let mut out = std::io::BufWriter::new(stdout.lock());
    for i in 0..n {
        match &diff[i] {
            None => writeln!(out, "{}", seq[i]).unwrap(),
            Some(d) => writeln!(out, "NONDET {} | {}", seq[i], d).unwrap(),
        }
    }
    out.flush().unwrap();
}

fn gcd(a: usize, b: usize) -> usize {
    if b == 0 { a } else { gcd(b, a % b) }
}
