//! stack_probe <evaluator> <stack_kib> <hex-expression>: evaluates one expression on a thread with the given stack size.
//! Exit 0 when the call returns (Ok or Err); a stack overflow kills the process with SIGSEGV/SIGABRT.
//! Used to measure the native stack a deeply nested input of <= 256 characters needs (DESIGN, partial clause of C01).
use sc_harness::*;
use string_calculator::*;
fn main() {
    let a: Vec<String> = std::env::args().collect();
    let ev = a[1].clone();
    let kib: usize = a[2].parse().unwrap();
    // `-` as the third argument: the hex expression comes on standard input (inputs beyond the argv limit)
    let hex = if a[3] == "-" {
        let mut t = String::new();
        std::io::Read::read_to_string(&mut std::io::stdin(), &mut t).unwrap();
        t.trim().to_string()
    } else {
        a[3].clone()
    };
    let expr = dec_expr(&hex).unwrap();
    let h = std::thread::Builder::new()
        .stack_size(kib * 1024)
        .spawn(move || {
            string_calculator::verif_hooks::reset(u64::MAX);
            match ev.as_str() {
                "f64" => eval_f64(expr, 0.0).is_ok(),
                "i64" => eval_i64(expr, 0).is_ok(),
                "decimal" => eval_decimal(expr, rust_decimal::Decimal::ZERO).is_ok(),
                "complex" => eval_complex(expr, num_complex::Complex::new(0.0, 0.0)).is_ok(),
                _ => eval_number(expr, Number::Integer(0)).is_ok(),
            }
        })
        .unwrap();
    let r = h.join().unwrap();
    println!("returned ok={}", r);
}
