//! stack_probe <evaluator> <stack_kib> <hex-expression>: evaluates one expression on a thread with the given stack size.
//! Exit 0 when the call returns (Ok or Err); a stack overflow kills the process with SIGSEGV/SIGABRT.
//! Used to measure the native stack a deeply nested input of <= 256 characters needs (DESIGN, partial clause of C01).
use sc_harness::*;
use string_calculator::*;
fn main() {
    let a: Vec<String> = std::env::args().collect();
    let ev = a[1].clone();
    let kib: usize = a[2].parse().unwrap();
    let expr = dec_expr(&a[3]).unwrap();
    let h = std::thread::Builder::new()
        .stack_size(kib * 1024)
        .spawn(move || {
            string_calculator::verif_hooks::reset(u64::MAX);
            match ev.as_str() {
                "f64" => eval_f64(expr, 0.0).is_ok(),
                "i64" => eval_i64(expr, 0).is_ok(),
                "decimal" => eval_decimal(expr, rust_decimal::Decimal::ZERO).is_ok(),
                "complex" => eval_complex(expr, num_complex::Complex::new(0.0, 0.0)).is_ok(),
                _ => eval_number(expr, Number::Integer(0)).is_ok(),
            }
        })
        .unwrap();
    let r = h.join().unwrap();
    println!("returned ok={}", r);
}
