#!/usr/bin/env python3
"""One-shot helper that produced the cfg-guarded hook commit in /repo (kept for the record).
Adds only lines; every added statement is guarded by #[cfg(feature = "verif_hooks")]."""
import re, sys, pathlib
R = pathlib.Path('/repo/src')
TICK = '#[cfg(feature = "verif_hooks")]\n{ind}crate::verif_hooks::tick();\n'
def ins_after(path, pats):
    src = path.read_text().split('\n')
    out = []
    n = 0
    for line in src:
        out.append(line)
        for p in pats:
            if re.search(p, line):
                ind = re.match(r'\s*', line).group(0) + '    '
                out.append(ind + '#[cfg(feature = "verif_hooks")]')
                out.append(ind + 'crate::verif_hooks::tick();')
                n += 1
                break
    path.write_text('\n'.join(out))
    return n
for ev in ['f64','i64','decimal','complex','number']:
    d = R / ('eval_'+ev)
    print(ev, 'tok', ins_after(d/'tokenizer.rs', [r'fn next\(&mut self\) -> Option<Token> \{$']))
    print(ev, 'par', ins_after(d/'parser.rs', [r'^    fn generate_ast\(&mut self, oper_prec: OperatorCategory\) -> Result<Node, ParseError> \{$',
        r'^        while oper_prec < self\.current_token\.get_oper_prec\(\) \{$', r'^        loop \{$', r'^        for i in 0\.\.n \{$']))
    print(ev, 'ast', ins_after(d/'ast.rs', [r'^pub fn eval\(expr: Node\) -> Result<.*> \{$', r'^\s+for i in 2\.\.=.*\{$', r'^\s+for _ in 0\.\.iterations \{$',
        r'^\s+while n > .*\{$', r'^\s+while b != 0 \{$']))
