#!/bin/bash
# usage: tools/try_seed.sh <patch.diff> <Cxx> [Cyy ...]   -- apply to /repo, run the quick checks, revert
set -u
P=$1; shift
cd /verif
rm -rf build/evidence.keep; cp -r evidence build/evidence.keep
git -C /repo apply "$P" || { echo "patch does not apply"; exit 2; }
for pid in "$@"; do
  ./check $pid --tier quick 2>&1 | grep -E "VIOLATION|KNOWN|obligations" 
done
git -C /repo checkout -- .
python3 -c "import sys; sys.path.insert(0, 'tools'); import vlib; vlib.build_harness(release=True)" >/dev/null 2>&1   # harness back on the unchanged tree
rm -rf evidence; mv build/evidence.keep evidence   # evidence must describe the unchanged tree
git -C /repo status --short | head -3
