#!/usr/bin/env python3
"""Case generators for the correspondence / violation-search streams.
All randomness comes from one SplitMix64 state (seeded by VERIF_SEED)."""
import itertools, struct

class Rng:
    def __init__(self, seed):
        self.s = seed & 0xFFFFFFFFFFFFFFFF
    def next(self):
        self.s = (self.s + 0x9E3779B97F4A7C15) & 0xFFFFFFFFFFFFFFFF
        z = self.s
        z = ((z ^ (z >> 30)) * 0xBF58476D1CE4E5B9) & 0xFFFFFFFFFFFFFFFF
        z = ((z ^ (z >> 27)) * 0x94D049BB133111EB) & 0xFFFFFFFFFFFFFFFF
        return z ^ (z >> 31)
    def below(self, n):
        return self.next() % n
    def choice(self, l):
        return l[self.below(len(l))]
    def chance(self, num, den):
        return self.below(den) < num

def enc(s):
    return '.'.join('%x' % ord(c) for c in s) if s else '-'

def f2w(x):
    if x != x:
        return '7ff8000000000000'
    return '%016x' % struct.unpack('>Q', struct.pack('>d', x))[0]

def w2f(w):
    return struct.unpack('>d', struct.pack('>Q', int(w, 16)))[0]

EVS = ['f64', 'i64', 'decimal', 'complex', 'number']

# ---------------------------------------------------------------- vocabulary (spellings)
F1 = {
    'f64': ['abs', 'floor', 'ceil', 'round', 'sin', 'cos', 'tan', 'sinh', 'cosh', 'tanh', 'asin', 'acos', 'atan',
            'arsinh', 'arcosh', 'artanh', 'asinh', 'acosh', 'atanh', 'sqrt', 'exp', 'exp2', 'ln', 'lb', 'w', 'lambert_w',
            'sgn', 'sign', 'signum', 'trunc', 'truncate'],
    'i64': ['abs', 'sqrt', 'exp', 'exp2', 'ln', 'lb', 'sgn', 'sign', 'signum'],
    'decimal': ['abs', 'floor', 'ceil', 'round', 'sqrt', 'exp', 'exp2', 'ln', 'lb', 'w', 'lambert_w', 'sgn', 'sign',
                'signum', 'trunc', 'truncate'],
    'complex': ['abs', 'sin', 'cos', 'tan', 'sinh', 'cosh', 'tanh', 'asin', 'acos', 'atan', 'arsinh', 'arcosh', 'artanh',
                'asinh', 'acosh', 'atanh', 'sqrt', 'exp', 'exp2', 'ln', 'lb'],
}
F1['number'] = F1['f64']
F2 = {
    'f64': ['atan2', 'mod', 'pow', 'root', 'log', 'ilog'],
    'i64': ['root', 'pow', 'log', 'mod'],
    'decimal': ['mod', 'pow', 'root', 'log', 'ilog'],
    'complex': ['pow', 'root', 'log'],
}
F2['number'] = F2['f64']
FV = {
    'f64': ['min', 'max', 'avg', 'med', 'median'],
    'i64': ['min', 'max', 'avg', 'med', 'median', 'gcd', 'lcm'],
    'decimal': ['min', 'max', 'avg', 'med', 'median'],
    'complex': [],
}
FV['number'] = FV['f64']
BINOPS = {   # spelling -> level
    'f64': {'+': 4, '-': 4, '*': 5, '/': 5, '%': 5, '^': 6},
    'i64': {'|': 1, '&': 2, '<<': 3, '>>': 3, '+': 4, '-': 4, '*': 5, '/': 5, '%': 5, '^': 6},
    'decimal': {'+': 4, '-': 4, '*': 5, '/': 5, '%': 5, '^': 6},
    'complex': {'+': 4, '-': 4, '*': 5, '/': 5, '^': 6},
}
BINOPS['number'] = BINOPS['f64']
CONSTS = {'f64': ['pi', 'π', 'e'], 'i64': [], 'decimal': ['pi', 'π', 'e'], 'complex': ['pi', 'π', 'e'], 'number': ['pi', 'π', 'e']}
POSTFIX5 = {'f64': ['°', 'rad'], 'i64': [], 'decimal': [], 'complex': ['°', 'rad'], 'number': ['°', 'rad']}
HAS_BANG = {'f64': True, 'i64': True, 'decimal': True, 'complex': False, 'number': True}
HAS_FLOORBR = {'f64': True, 'i64': False, 'decimal': True, 'complex': False, 'number': True}
SUP = '⁰¹²³⁴⁵⁶⁷⁸⁹'
ALL_NAMES = sorted(set(sum(F1.values(), []) + sum(F2.values(), []) + sum(FV.values(), [])))

# ---------------------------------------------------------------- operand pools
I64_POOL = [0, 1, 2, 3, 5, 7, 10, 63, 64, 2**31 - 1, 2**31, 2**32 - 1, 2**32, 3037000499, 3037000500, 2**53, 2**53 + 1,
            2**62, 2**63 - 1, 2**63 - 2]
F64_LITS = ['0', '1', '2', '3', '0.5', '1.5', '2.5', '0.1', '0.2', '0.3', '10', '100', '.5', '7.', '1000000', '170', '171',
            '9007199254740992', '9007199254740993', '9223372036854775807', '9223372036854775808',
            '179769313486231570000000000000000000000000000000000000000000000000000000000000000000000000000000000000000000000000000000000000000000000000000000000000000000000000000000000000000000000000000000000000000000000000000000000000000000000000000000000000000000000000000000000000000000000000000000000000000000000000000',
            '0.000000000000000000000000000000000000000000000000000000000000000000000000000000000000000000000000000000000000000000000000000000000000000000000000000000000000000000000000000000000000000000000000000000000000000000000000000000000000000000000000000000000000000000000000000000000000000000000000000000000000000000000000000000000004940656458412465',
            '4.35', '0.7', '12.75', '255', '1e', ]
F64_LITS = [x for x in F64_LITS if x != '1e']
F64_PH = [0.0, -0.0, 1.0, -1.0, 0.5, -0.5, 2.5, -2.5, 1e308, -1e308, 5e-324, 2.0**53, 2.0**63, -(2.0**63), float('inf'),
          float('-inf'), float('nan'), 3.0, 170.0, 171.0, 1e18, 0.1, -0.7, 1.5e-323, 2.2250738585072014e-308, 1.7976931348623157e308,
          0.49999999999999994, 4503599627370496.5, -1.5, 9007199254740993.0]
DEC_LITS = ['0', '1', '2', '3', '0.1', '0.2', '0.3', '1.10', '2.50', '0.5', '10', '100', '7.', '.5', '1.5',
            '79228162514264337593543950335', '7922816251426433759354395033.5', '0.0000000000000000000000000001',
            '1234567890123456789012345678', '12345678901234567890123456789', '39614081257132168796771975168',
            '0.9999999999999999999999999999', '3.1415926535897932384626433833']
DEC_PH = ['0/0', '1/0', '-1/0', '15/1', '-15/1', '79228162514264337593543950335/0', '-79228162514264337593543950335/0',
          '1/28', '100/2', '0/5', '-0/0', '5/1', '25/1']
NUM_PH = ['I0', 'I1', 'I-1', 'I9223372036854775807', 'I-9223372036854775808', 'I5', 'F' + f2w(0.5), 'F' + f2w(-2.5),
          'F' + f2w(float('nan')), 'F' + f2w(float('inf')), 'F' + f2w(-0.0), 'F' + f2w(2.0**63), 'F' + f2w(3.0), 'I20', 'I21']

def default_ph(ev):
    return {'f64': f2w(0.0), 'i64': '0', 'decimal': '0/0', 'complex': f2w(0.0) + ',' + f2w(0.0), 'number': 'I0'}[ev]

def ph_pool(ev):
    if ev == 'f64':
        return [f2w(x) for x in F64_PH]
    if ev == 'i64':
        return [str(x) for x in I64_POOL] + [str(-x) for x in I64_POOL if x] + [str(-2**63)]
    if ev == 'decimal':
        return DEC_PH
    if ev == 'complex':
        vals = [0.0, -0.0, 1.0, -1.5, float('inf'), float('nan'), 2.0, 0.5]
        return [f2w(a) + ',' + f2w(b) for a in vals for b in vals][:40]
    return NUM_PH

def lit_pool(ev, exact=False):
    if ev == 'i64':
        return [str(x) for x in I64_POOL]
    if ev == 'decimal':
        return DEC_LITS
    if ev == 'complex':
        return ['0', '1', '2', '0.5', '1.5', '3', '2i', '0.5i', '1.5i', 'i', '10', '.5i', '7.']
    if ev == 'number':
        return F64_LITS[:20] + [str(x) for x in I64_POOL]
    return F64_LITS

SMALL_LITS = {'f64': ['0', '1', '2', '3', '0.5', '1.5', '4', '10'], 'i64': ['0', '1', '2', '3', '5', '7', '10', '63'],
              'decimal': ['0', '1', '2', '3', '0.5', '1.5', '0.1', '10'], 'complex': ['0', '1', '2', '3', '0.5', 'i', '2i', '1.5i'],
              'number': ['0', '1', '2', '3', '0.5', '1.5', '4', '10']}

# ---------------------------------------------------------------- grammar-directed random expressions
class ExprGen:
    """Random well-formed expressions following the stratified grammar of DESIGN.md §3.3:
         Or > And > Shift > Add > Mul > Pow > Un > Post > Prim, with juxtaposition."""
    def __init__(self, rng, ev, lits=None, allow_ans=True, allow_juxt=True, allow_sup=True, funcs=True,
                 allow_consts=True, allow_post=True, allow_bang=True, f1=None, f2=None, fv=None, ops=None, ws=False):
        self.r, self.ev = rng, ev
        self.lits = lits or lit_pool(ev)
        self.allow_ans, self.allow_juxt, self.allow_sup = allow_ans, allow_juxt, allow_sup
        self.funcs, self.allow_consts, self.allow_post = funcs, allow_consts, allow_post
        self.allow_bang = allow_bang and HAS_BANG[ev]
        self.f1 = F1[ev] if f1 is None else f1
        self.f2 = F2[ev] if f2 is None else f2
        self.fv = FV[ev] if fv is None else fv
        self.ops = BINOPS[ev] if ops is None else ops
        self.levels = sorted(set(self.ops.values()))

    def expr(self, d):
        return self.level(0, d)

    def level(self, li, d):
        """parse level index li in self.levels (binary operators of that level, left assoc)"""
        if li >= len(self.levels):
            return self.unary(d)
        lvl = self.levels[li]
        if lvl == 6:
            return self.powlevel(li, d)
        s = self.level(li + 1, d)
        ops = [o for o, l in self.ops.items() if l == lvl]
        n = 0
        while d > 0 and self.r.chance(1, 3) and n < 3:
            if lvl == 5 and self.allow_post and POSTFIX5[self.ev] and self.r.chance(1, 4):
                s += self.r.choice(POSTFIX5[self.ev])
            else:
                s += self.r.choice(ops) + self.level(li + 1, d - 1)
            n += 1
        return s

    def powlevel(self, li, d):
        s = self.unary(d)
        n = 0
        while d > 0 and self.r.chance(1, 4) and n < 2:
            if self.allow_sup and self.r.chance(1, 3):
                s += ''.join(self.r.choice(SUP) for _ in range(1 + self.r.below(2)))
                # a superscript run must not be adjacent to another run
                if self.r.chance(1, 2):
                    break
            else:
                s += '^' + self.unary(d - 1)
            n += 1
        return s

    def unary(self, d):
        s = ''
        while self.r.chance(1, 6):
            s += self.r.choice(['-', '-', '+'])
        return s + self.post(d)

    def post(self, d):
        s, cap = self.prim(d)
        while self.allow_bang and self.r.chance(1, 8):
            s += '!'
            cap = True
            if self.allow_juxt and d > 0 and self.r.chance(1, 4):
                s += self.juxt(d - 1)
        return s

    def juxt(self, d):
        """the right factor of an implicit product: starts with ( ⌊ ⌈ or a function name"""
        k = self.r.below(3)
        if k == 0 or not self.funcs:
            s = self.group(d)
        elif k == 1 and HAS_FLOORBR[self.ev]:
            s = self.group(d, floorbr=True)
        else:
            s = self.call(d)
        # any ^, superscript and ! suffixes
        if self.r.chance(1, 4):
            s += '^' + self.unary(max(d - 1, 0))
        return s

    def group(self, d, floorbr=False):
        if floorbr and HAS_FLOORBR[self.ev]:
            l, rr = self.r.choice([('⌊', '⌋'), ('⌈', '⌉')])
        else:
            l, rr = '(', ')'
        s = l + self.expr(max(d - 1, 0)) + rr
        if self.allow_juxt and d > 0 and self.r.chance(1, 6):
            s += self.juxt(d - 1)
        return s

    def call(self, d):
        kinds = []
        if self.f1:
            kinds += ['1'] * 3
        if self.f2:
            kinds += ['2'] * 2
        if self.fv:
            kinds += ['v'] * 2
        if not kinds:
            return self.group(d)
        k = self.r.choice(kinds)
        dd = max(d - 1, 0)
        if k == '1':
            s = self.r.choice(self.f1) + '(' + self.expr(dd) + ')'
        elif k == '2':
            s = self.r.choice(self.f2) + '(' + self.expr(dd) + ',' + self.expr(dd) + ')'
        else:
            n = 1 + self.r.below(4)
            s = self.r.choice(self.fv) + '(' + ','.join(self.expr(dd) for _ in range(n)) + ')'
        if self.allow_juxt and d > 0 and self.r.chance(1, 8):
            s += self.juxt(d - 1)
        return s

    def prim(self, d):
        c = self.r.below(12)
        if d <= 0 or c < 5:
            if self.allow_ans and self.r.chance(1, 6):
                return '@', False
            if self.allow_consts and CONSTS[self.ev] and self.r.chance(1, 8):
                return self.r.choice(CONSTS[self.ev]), False
            s = self.r.choice(self.lits)
            if s == '@':
                return s, False
            if self.allow_juxt and d > 0 and self.r.chance(1, 8):
                s += self.juxt(d - 1)
            return s, True
        if c < 8 or not self.funcs:
            return self.group(d, floorbr=self.r.chance(1, 4)), True
        return self.call(d), True

def mutate(rng, s):
    """near-miss mutation of an expression string: drop / duplicate / swap / replace one character"""
    if not s:
        return s
    k = rng.below(5)
    i = rng.below(len(s))
    if k == 0:
        return s[:i] + s[i + 1:]
    if k == 1:
        return s[:i] + s[i] + s[i:]
    if k == 2 and len(s) > 1:
        j = rng.below(len(s))
        l = list(s)
        l[i], l[j] = l[j], l[i]
        return ''.join(l)
    if k == 3:
        return s[:i] + rng.choice(list('()+-*/^!,@.1e°⌊⌋⌈⌉²πxi &|<>%')) + s[i + 1:]
    return s[:i] + rng.choice(list('()+-*/^!,@.1e°⌊⌋⌈⌉²πxi &|<>%')) + s[i:]

# ---------------------------------------------------------------- exhaustive short token sequences
def token_alphabet(ev, small=False):
    """one representative spelling per token class + every operator"""
    a = ['1', '2', '@', '(', ')', ',', '-', '+', '*', '^']
    if not small:
        a += ['/']
        a += [o for o in BINOPS[ev] if o not in a]
    if HAS_BANG[ev]:
        a.append('!')
    if not small:
        a += POSTFIX5[ev][:2]
        a += CONSTS[ev][:1]
    a += ['²']
    if HAS_FLOORBR[ev]:
        a += ['⌊', '⌋'] if small else ['⌊', '⌋', '⌈', '⌉']
    a += ['abs(', 'pow(']
    if FV[ev]:
        a += ['min(', 'avg('] if not small else ['min(']
    if ev == 'complex':
        a += ['i']
    if not small:
        a += ['#', 'gcd(' if ev != 'i64' else 'sin(']     # a foreign character, a foreign keyword
    return a

def token_sequences(ev, maxlen, small=False):
    a = token_alphabet(ev, small)
    for n in range(0, maxlen + 1):
        for t in itertools.product(a, repeat=n):
            yield ''.join(t)

def short_strings(alphabet, maxlen):
    for n in range(0, maxlen + 1):
        for t in itertools.product(alphabet, repeat=n):
            yield ''.join(t)
