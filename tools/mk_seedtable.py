#!/usr/bin/env python3
"""rewrites the seed table of DESIGN.md (between the SEEDTABLE markers) from seeded/*/meta.json"""
import glob, json, os, re
ROOT = os.path.dirname(os.path.dirname(os.path.abspath(__file__)))
rows = ["| seed | property | change | caught by |", "|---|---|---|---|"]
for f in sorted(glob.glob(os.path.join(ROOT, 'seeded/*/meta.json'))):
    m = json.load(open(f)); sid = f.split('/')[-2]
    esc = lambda t: t.replace('|', '\\|').replace('\n', ' ')
    rows.append("| `%s` | %s | %s | %s |" % (sid, m['property'], esc(m['breaks']), esc(m['detected_by'])))
p = os.path.join(ROOT, 'DESIGN.md')
s = open(p).read()
s = re.sub(r'(<!-- SEEDTABLE:BEGIN[^\n]*-->\n).*?(<!-- SEEDTABLE:END -->)', lambda m: m.group(1) + '\n'.join(rows) + '\n' + m.group(2), s, flags=re.S)
open(p, 'w').write(s)
print(len(rows) - 2, 'seeds')
