#!/bin/bash
# runs every claimed check on /repo's working tree (quick tier unless TIER is set); used to refresh evidence before committing.
# refuses when /repo has uncommitted changes (evidence must describe the unchanged tree).
cd "$(dirname "$0")/.."
if [ -n "$(git -C /repo status --porcelain)" ]; then echo "/repo is dirty: refusing"; exit 2; fi
TIER=${TIER:-quick}
rc=0
for p in ${@:-C01 C02 C03 C04 C05 C06 C07 C08 C09 C10 C11 C12 C13 C14 C15 C16 C17 C18 C19 C20}; do
  ./check $p --tier $TIER > build/run_$p.log 2>&1; r=$?
  echo "$p exit $r $(grep -E 'VIOLATION|KNOWN-FINDING' build/run_$p.log | head -3 | tr '\n' ' ') $(tail -1 build/run_$p.log)"
  [ $r -ne 0 ] && rc=1
done
python3 - <<'PY'
import json,glob
for f in sorted(glob.glob('evidence/C*.json')):
    e=json.load(open(f)); c=e.get('coverage',{})
    if c.get('obligations')!=c.get('discharged') or e.get('violations',0): print('BAD EVIDENCE',f,c.get('obligations'),c.get('discharged'),e.get('violations'))
PY
exit $rc
