#!/usr/bin/env python3
"""one-shot generator of the keyword lemmas in coq/Props (the output is committed, not regenerated)"""
import sys
sys.path.insert(0, 'tools')
import gen
EV = {'f64': ('lt_f64', 'f64'), 'i64': ('lt_i64', 'Z'), 'decimal': ('lt_decimal', 'dec'), 'complex': ('lt_complex', 'cpx'), 'number': ('lt_number', 'number')}
ALIAS = [('pi', 'π'), ('sgn(', 'sign('), ('sgn(', 'signum('), ('med(', 'median('), ('trunc(', 'truncate('), ('w(', 'lambert_w('),
         ('asinh(', 'arsinh('), ('acosh(', 'arcosh('), ('atanh(', 'artanh(')]
def cps(s):
    return '[' + '; '.join(str(ord(c)) for c in s) + ']'
def names(ev):
    return set(gen.F1[ev]) | set(gen.F2[ev]) | set(gen.FV[ev])
allnames = set()
for ev in EV:
    allnames |= names(ev)
mode = sys.argv[1]
out = []
if mode == 'foreign':
    for ev, (lt, V) in EV.items():
        foreign = sorted(allnames - names(ev))
        if ev == 'complex':
            foreign = [f for f in foreign if not f.startswith('i')]   # 'i' is the imaginary unit there
        for i, f in enumerate(foreign):
            out.append('Lemma foreign_%s_%s : forall (conv : lit -> option %s) rest, lex_step %s conv (%s ++ rest) = None.' % (ev, f, V, lt, cps(f + '(')))
            out.append('Proof. intros. vm_compute. reflexivity. Qed.')
        ops = {'f64': '&|<>#$', 'number': '&|<>#$', 'decimal': '&|<>°#$', 'complex': '&|<>!%⌊⌈⌋⌉#$', 'i64': '°⌊⌈⌋⌉π.#$'}[ev]
        for c in ops:
            out.append('Lemma foreign_%s_char_%d : forall (conv : lit -> option %s) rest, lex_step %s conv (%d :: rest) = None \\/ (exists c rest\', rest = c :: rest\' /\\ %d = c /\\ (c = 60 \\/ c = 62)%%N).' % (ev, ord(c), V, lt, ord(c), ord(c))
                       if (ev == 'i64' and c in '<>') else
                       'Lemma foreign_%s_char_%d : forall (conv : lit -> option %s) rest, lex_step %s conv (%d :: rest) = None.' % (ev, ord(c), V, lt, ord(c)))
            out.append('Proof. intros. vm_compute. reflexivity. Qed.')
elif mode == 'alias':
    for ev, (lt, V) in EV.items():
        nm = names(ev) | set(gen.CONSTS[ev])
        for a, b in ALIAS:
            if a.rstrip('(') in nm and b.rstrip('(') in nm:
                tail = '40 :: rest' if a.endswith('(') else 'rest'
                ka = a.rstrip('(').replace('π', 'pi_sym'); kb = b.rstrip('(').replace('π', 'pi_sym')
                out.append('Lemma alias_%s_%s_%s : forall (conv : lit -> option %s) rest,\n  lex_step %s conv (%s ++ rest) = lex_step %s conv (%s ++ rest) /\\ exists k, lex_step %s conv (%s ++ rest) = Some (TK k, %s).' % (
                    ev, ka, kb, V, lt, cps(a), lt, cps(b), lt, cps(a), tail))
                out.append('Proof. intros. split; [vm_compute; reflexivity|eexists; vm_compute; reflexivity]. Qed.')
print('\n'.join(out))
