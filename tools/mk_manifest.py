#!/usr/bin/env python3
"""writes MANIFEST.json from the list of claimed properties below"""
import json, os
ROOT = os.path.dirname(os.path.dirname(os.path.abspath(__file__)))
props = [json.loads(l) for l in open(os.path.join(ROOT, 'properties.jsonl'))]
CLAIMS = json.load(open(os.path.join(ROOT, 'tools/claims.json')))
checks, na = [], []
for p in props:
    pid = p['id']
    c = CLAIMS.get(pid)
    if not c or not c.get('claimed'):
        na.append({'property_id': pid, 'reason': (c or {}).get('reason', 'check under construction (build phase in progress)')})
        continue
    checks.append({
        'property_id': pid,
        'quick_cmd': './check %s --tier quick' % pid,
        'thorough_cmd': './check %s --tier thorough' % pid,
        'evidence_file': '/verif/evidence/%s.json' % pid,
        'replay_cmd_template': './check %s --replay {path}' % pid,
        'engine': 'coq-model',
        'level_claimed': {'category': 'proof', 'text': c['text'], 'design_ref': c.get('design_ref', 'DESIGN.md section 4')},
        'level_note': c['note'],
        'technique': c.get('technique', 'machine-checked proof in Coq 8.16 about an executable model, tied to the source by a table translator and a differential correspondence check'),
    })
m = {
    'version': 1,
    'setup_cmd': './setup.sh',
    'hooks': {'guard': 'cargo feature verif_hooks',
              'enable': 'harness/Cargo.toml depends on string_calculator = { path = "/repo", features = ["verif_hooks"] }',
              'baseline_off_cmd': 'cd /repo && cargo test --workspace --no-fail-fast --offline',
              'source_commits': ['be0e4fe'], 'add_only': True},
    'engines': [{'name': 'coq-model', 'path': 'coq/', 'serves_properties': [c['property_id'] for c in checks],
                 'kind_free_text': 'Coq 8.16.1 development (model + theorems), tables regenerated from /repo by tools/translate.py, extracted OCaml runner compared with the real crate by tools/streams.py'}],
    'checks': checks,
    'not_applicable': na,
    'notes': 'See DESIGN.md. Every check rebuilds the tables, the Coq development, the extracted model and the harness from /repo\'s working tree.',
}
json.dump(m, open(os.path.join(ROOT, 'MANIFEST.json'), 'w'), indent=1)
print(len(checks), 'claimed,', len(na), 'not claimed')
