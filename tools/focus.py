#!/usr/bin/env python3
"""Focused search for a failing input.

When the text of an evaluator (`eval_*/ast.rs`) differs from the text the hand-written model mirrors, the
translator localises the difference: which arms of the `match` in `eval` changed (by node constructor), whether
anything outside the match changed, and which numeric literals are new anywhere in the sources.  The search for a
concrete failing input then concentrates on the constructs that reach the changed arms: dense operand grids
(every small integer, every exponent / shift count / digit count 0..70, the boundary pools, the new constants and
their neighbours), every child construct under the changed node and every parent above it, both operand orders,
literal and placeholder operands, long argument lists.  This is exploration support for the violation report,
never part of the proof."""
import gen

BIN = {'Add': ['%s+%s'], 'Subtract': ['%s-%s'], 'Multiply': ['%s*%s', '(%s)(%s)'], 'Divide': ['%s/%s'],
       'Modulo': ['%s%%%s', 'mod(%s,%s)'], 'Pow': ['%s^%s', 'pow(%s,%s)'], 'Root': ['root(%s,%s)'], 'Log': ['log(%s,%s)'],
       'ILog': ['ilog(%s,%s)'], 'Atan2': ['atan2(%s,%s)'], 'And': ['%s&%s'], 'Or': ['%s|%s'], 'LeftShift': ['%s<<%s'],
       'RightShift': ['%s>>%s']}
UN = {'Negative': ['-%s', '(-%s)'], 'Factorial': ['%s!'], 'Abs': ['abs(%s)'], 'Floor': ['floor(%s)', '⌊%s⌋'],
      'Ceil': ['ceil(%s)', '⌈%s⌉'], 'Round': ['round(%s)'], 'Truncate': ['trunc(%s)', 'truncate(%s)'],
      'Sign': ['sgn(%s)', 'sign(%s)', 'signum(%s)'], 'LambertW': ['w(%s)', 'lambert_w(%s)'], 'Sqrt': ['sqrt(%s)'], 'Ln': ['ln(%s)'],
      'Lb': ['lb(%s)'], 'Exp': ['exp(%s)'], 'Exp2': ['exp2(%s)'], 'Sin': ['sin(%s)'], 'Cos': ['cos(%s)'], 'Tan': ['tan(%s)'],
      'Sinh': ['sinh(%s)'], 'Cosh': ['cosh(%s)'], 'Tanh': ['tanh(%s)'], 'Asin': ['asin(%s)'], 'Acos': ['acos(%s)'],
      'Atan': ['atan(%s)'], 'Arsinh': ['arsinh(%s)', 'asinh(%s)'], 'Arcosh': ['arcosh(%s)', 'acosh(%s)'],
      'Artanh': ['artanh(%s)', 'atanh(%s)']}
AGG = {'Min': ['min'], 'Max': ['max'], 'Avg': ['avg'], 'Med': ['med', 'median'], 'Gcd': ['gcd'], 'Lcm': ['lcm']}

def wrap(x):
    return x if x.isdigit() or x == '@' else '(' + x + ')'

def neigh(lits):
    out = []
    for l in lits:
        try:
            if '.' in l or 'e' in l:
                continue
            k = int(l)
        except ValueError:
            continue
        if k < 10**19:
            out += [k - 1, k, k + 1]
    return out

def base_pool(ev, extra):
    """operands as expression texts"""
    if ev == 'i64':
        ints = list(range(-18, 19)) + list(range(19, 71)) + [2**31 - 1, 2**31, 2**32 - 1, 2**32, 3037000499, 3037000500, 2**53, 2**62 - 1, 2**62,
                                                          2**63 - 2, 2**63 - 1, -(2**62), -(2**63) + 1] + extra
        out = [str(k) if k >= 0 else '(-%d)' % -k for k in dict.fromkeys(ints) if -(2**63) < k < 2**63] + ['(-9223372036854775807-1)']
        return out
    if ev == 'decimal':
        ints = list(range(-12, 13)) + [26, 27, 28, 29, 30, 64, 100, 128, 10**9, 10**18, 10**27, 10**28] + extra
        out = [str(k) if k >= 0 else '(-%d)' % -k for k in dict.fromkeys(ints) if abs(k) < 2**96]
        out += ['0.5', '1.5', '2.5', '(-0.5)', '(-2.5)', '0.1', '0.10', '1.50', '0.0000000000000000000000000001', '79228162514264337593543950335',
                '7.9228162514264337593543950335', '(-79228162514264337593543950335)', '0.3333333333333333333333333333', '(-0)', '(-0.00)',
                '1.0000000000000000000000000001', '0.9999999999999999999999999999', '12345.6789', '27.5', '170', '171', '2.718281828459045235', '0.367879441171442322']
        return out
    if ev == 'complex':
        out = [str(k) if k >= 0 else '(-%d)' % -k for k in list(range(-4, 5)) + [10, 100]]
        out += ['i', '(-i)', '2i', '(1+i)', '(1-i)', '(-1+i)', '(3+4i)', '0.5', '(0.5i)', '(0.3-0.7i)', '1.0000000000000002', '(1' + '0' * 200 + ')', '(0.' + '0' * 200 + '1)',
                '(1' + '0' * 200 + 'i)', '(2+0i)', '(0i)']
        return out
    # f64 / number
    ints = list(range(-12, 13)) + [20, 21, 22, 63, 64, 100, 127, 128, 169, 170, 171, 172, 255, 256, 1000, 45, 90, 180, 270, 360, 720, 1080, -90, -180, -360, 2**31, 2**32, 2**53 - 1, 2**53, 2**53 + 1, 2**62, 2**63 - 1] + extra
    out = [str(k) if k >= 0 else '(-%d)' % -k for k in dict.fromkeys(ints) if abs(k) < 2**63]
    out += ['0.5', '1.5', '2.5', '3.5', '(-0.5)', '(-1.5)', '(-2.5)', '0.1', '0.3', '0.49999999999999994', '1.0000000000000002', '0.9999999999999999', '170.5', '(-170.5)', '0.0001',
            '1' + '0' * 22, '1' + '0' * 308, '0.' + '0' * 307 + '3', '0.' + '0' * 322 + '5', '(1/0)', '(-1/0)', '(0/0)', '(-0.0)', '9007199254740993', '4503599627370496.5',
            '2.718281828459045', '3.141592653589793', '0.36787944117144233', '(-0.36787944117144233)', '(-0.3678794411714424)', '9223372036854775808', '(-9223372036854775808)',
            '18446744073709551616', '1.7976931348623157' + '0' * 292]
    if ev == 'number':
        out += ['2.0', '3.0', '(-2.0)', '9223372036854775807', '(-9223372036854775807-1)', '9223372036854775807.0', '4611686018427387904', '3037000500', '4294967296']
    return out

def small_pool(ev):
    return {'i64': ['0', '1', '2', '3', '(-1)', '(-2)', '7', '63', '64', '9223372036854775807', '(-9223372036854775807-1)', '21'],
            'decimal': ['0', '1', '2', '3', '(-1)', '0.5', '(-2.5)', '28', '27', '79228162514264337593543950335', '0.0000000000000000000000000001', '1.50'],
            'complex': ['0', '1', '2', '(-1)', 'i', '(1+i)', '0.5', '(0.3-0.7i)'],
            'f64': ['0', '1', '2', '3', '(-1)', '0.5', '(-2.5)', '170', '171', '(1/0)', '(0/0)', '(-0.0)'],
            'number': ['0', '1', '2', '3', '(-1)', '0.5', '(-2.5)', '170', '171', '(1/0)', '(0/0)', '21', '20', '9223372036854775807', '2.0']}[ev]

def case(ev, ph, expr):
    return (ev, 'eval', ph if ph is not None else gen.default_ph(ev), gen.enc(expr))

def unary_children(ev):
    u = [f + '(%s)' for f in gen.F1[ev]] + ['(%s)' + pf for pf in (['!'] if gen.HAS_BANG[ev] else []) + gen.POSTFIX5[ev] + ['²']] + ['(-%s)']
    if gen.HAS_FLOORBR[ev]:
        u += ['⌊%s⌋', '⌈%s⌉']
    return u

def parents(ev):
    ps = ['-%s', '%s+1', '1-%s', '2*%s', '%s/2', '2/%s', '%s^2', '2^%s', 'abs(%s)', '(%s)(2)', '%s²'] + ['%s' + o.replace('%', '%%') + '3' for o in gen.BINOPS[ev]] + ['3' + o.replace('%', '%%') + '%s' for o in gen.BINOPS[ev]]
    ps += [f + '(%s)' for f in gen.F1[ev][:40]] + [f + '(%s,2)' for f in gen.F2[ev]] + [f + '(2,%s)' for f in gen.F2[ev]] + [f + '(1,%s,3)' for f in gen.FV[ev]]
    if gen.HAS_BANG[ev]:
        ps.append('(%s)!')
    if gen.HAS_FLOORBR[ev]:
        ps += ['⌊%s⌋', '⌈%s⌉']
    return ps

def focused_cases(changes, rng, limit=500000):
    """changes = report['evaluator_changes'] of the translator"""
    out = []
    extra_all = []
    for k, v in changes.items():
        if isinstance(v, dict):
            extra_all += neigh(v.get('new_literals', []))
    for ev in ('f64', 'i64', 'decimal', 'complex', 'number'):
        ch = changes.get(ev)
        if not isinstance(ch, dict):
            continue
        arms = list(ch.get('arms', []))
        if ch.get('other_changed') and not arms:
            arms = list(BIN) + list(UN) + list(AGG)         # a helper changed: every construct, thinner grids
        thin = len(arms) > 6
        pool = base_pool(ev, extra_all)
        sp = small_pool(ev)
        if thin:
            pool = sp + pool[::5]
        phs = gen.ph_pool(ev)
        U, P = unary_children(ev), parents(ev)
        have_un = set(gen.F1[ev]) | {'-', '!'}
        for arm in arms:
            if arm in BIN:
                forms = []
                for f in BIN[arm]:
                    if f[0].isalpha():
                        if f.split('(')[0] in gen.F2[ev]:
                            forms.append(f)
                    elif f == '(%s)(%s)' or f.replace('%s', '').replace('%%', '%') in gen.BINOPS[ev]:
                        forms.append(f)
                for f in forms:
                    for a in pool:
                        for b in pool:
                            out.append(case(ev, None, f % (a, b)))
                    if not thin:
                        # volume: a random first operand (integers of every bit length / decimals with 1-4 fractional digits) against
                        # small second operands and the reverse: last-bit differences for a small fraction of operands
                        seconds = ['2', '2', '2', '2', '3', '0.5', '10', '(-1)', '7', '(-2)', '1.5', '64', '0.1'] if ev not in ('i64',) else ['2', '2', '2', '3', '10', '(-1)', '7', '(-2)', '63', '5']
                        for _ in range(60000 // max(1, len(forms))):
                            if ev in ('i64', 'number') and rng.chance(2, 3):
                                v = rng.below(1 << (1 + rng.below(63))) + 1
                                a = str(v) if rng.chance(1, 2) else '(-%d)' % v
                            elif ev == 'i64':
                                a = str(rng.below(100000))
                            else:
                                d = 1 + rng.below(4)
                                mag = rng.below(2000 * 10 ** d) + 1
                                a = '%d.%s' % (mag // 10 ** d, str(mag % 10 ** d).rjust(d, '0'))
                                if rng.chance(1, 3):
                                    a = '(-' + a + ')'
                            b = rng.choice(seconds)
                            out.append(case(ev, None, f % (a, b)))
                            if rng.chance(1, 3):
                                out.append(case(ev, None, f % (b, a)))
                    for p in phs:
                        for b in sp:
                            out.append(case(ev, p, f % ('@', b)))
                            out.append(case(ev, p, f % (b, '@')))
                        out.append(case(ev, p, f % ('@', '@')))
                    for u1 in U:
                        for u2 in (U if not thin else [u1]):
                            for a in sp[:6]:
                                for b in sp[:6]:
                                    out.append(case(ev, None, f % (u1 % a, u2 % b)))
                    for pr in P:
                        for a in sp:
                            for b in sp:
                                out.append(case(ev, None, pr % ('(' + f % (a, b) + ')')))
                    for a in sp[:8]:
                        for b in sp[:8]:
                            for c in sp[:8]:
                                out.append(case(ev, None, f % (f % (a, b), c) if f[0].isalpha() or f[0] == '(' else f % (a, b) + (f.replace('%s', '', 1) % c)))
            elif arm in UN:
                tenths = [] if ev in ('i64', 'complex') else [('%d.%d' % (abs(k) // 10, abs(k) % 10) if k >= 0 else '(-%d.%d)' % (abs(k) // 10, abs(k) % 10)) for k in range(-300, 301) if k % 10]
                forms = [f for f in UN[arm] if not f[0].isalpha() or f.split('(')[0] in gen.F1[ev]]
                if arm == 'Factorial' and not gen.HAS_BANG[ev]:
                    forms = []
                if arm in ('Floor', 'Ceil') and not gen.HAS_FLOORBR[ev]:
                    forms = [f for f in forms if f[0].isalpha()]
                for f in forms:
                    for a in pool + ([] if thin else tenths):
                        out.append(case(ev, None, f % wrap(a) if not f[0].isalpha() else f % a))
                        out.append(case(ev, None, f % ('(-' + a + ')')))
                    if not thin and ev in ('i64', 'number'):
                        # integers of every bit length, and the neighbours of perfect squares / cubes (k^2 +- d, k^3 +- d)
                        for bl in range(2, 63):
                            for _ in range(6):
                                v = (1 << bl) + rng.below(1 << bl)
                                out.append(case(ev, None, f % (wrap(str(v)) if not f[0].isalpha() else str(v))))
                        for bl in range(2, 32):
                            for _ in range(8):
                                k = (1 << bl) + rng.below(1 << bl)
                                for pw, dd in ((2, (-3, -2, -1, 0, 1, 2)), (3, (-1, 0, 1))):
                                    for d in dd:
                                        v = k ** pw + d
                                        if 0 < v < 2 ** 63:
                                            out.append(case(ev, None, f % (wrap(str(v)) if not f[0].isalpha() else str(v))))
                    if not thin and ev != 'i64':
                        # volume: random decimal arguments (1-4 fractional digits, magnitudes 1e-3 .. 200): value-dependent slips
                        # that flip a last bit for a small fraction of operands
                        for _ in range(40000 // max(1, len(forms))):
                            d = 1 + rng.below(4)
                            mag = rng.below(200 * 10 ** d) + 1
                            txt = '%d.%s' % (mag // 10 ** d, str(mag % 10 ** d).rjust(d, '0'))
                            if ev == 'complex' and rng.chance(1, 2):
                                txt = txt + '+' + '%d.%di' % (rng.below(20), rng.below(10))
                            a = txt if rng.chance(1, 2) else '(-' + txt + ')'
                            out.append(case(ev, None, f % wrap(a) if not f[0].isalpha() else f % a))
                    for p in phs:
                        out.append(case(ev, p, f % '@'))
                        out.append(case(ev, p, f % '(-@)'))
                    for u in U:
                        for a in pool[::3] + sp:
                            out.append(case(ev, None, f % ('(' + u % a + ')')))
                        # two children of the same kind under one operator: F(U(a) op U(b))
                        for o in [x for x in gen.BINOPS[ev] if x in ('+', '-', '*', '/')]:
                            for a in sp[:7] + ['17', '0.1'][: (2 if ev != 'i64' else 1)]:
                                for b in sp[:7] + ['27', '0.3'][: (2 if ev != 'i64' else 1)]:
                                    out.append(case(ev, None, f % ('(' + (u % a) + o + (u % b) + ')')))
                    for pr in P:
                        for a in pool[::3] + sp:
                            out.append(case(ev, None, pr % ('(' + (f % wrap(a)) + ')')))
                    for o in gen.BINOPS[ev]:
                        for a in sp:
                            for b in sp:
                                out.append(case(ev, None, f % ('(' + a + o + b + ')')))
                                out.append(case(ev, None, (f % wrap(a)) + o + (f % wrap(b))))
            elif arm in AGG:
                for f in AGG[arm]:
                    if f not in gen.FV[ev]:
                        continue
                    bad = {'f64': ['w(-1)', '(0/0)', '(1/0)', '(-1/0)'], 'number': ['w(-1)', '(0/0)', '(1/0)', '(1%0)'],
                           'i64': ['(1/0)', '21!', '(1<<64)'], 'decimal': ['(1/0)', 'w(-1)', '28!', 'ln(0)'], 'complex': []}[ev]
                    vals = sp + bad
                    for a in vals:
                        out.append(case(ev, None, f + '(' + a + ')'))
                        for b in vals:
                            out.append(case(ev, None, f + '(' + a + ',' + b + ')'))
                            for c in vals:
                                out.append(case(ev, None, f + '(' + a + ',' + b + ',' + c + ')'))
                    ns = sorted(set(list(range(1, 41)) + [n for n in extra_all if 0 < n < 120] + [59, 60, 61, 64, 65, 100, 120]))
                    for n in ns:
                        for _ in range(6):
                            xs = [rng.choice(pool[:60] if n < 20 else (['.1', '.3', '.7', '1', '2', '.5'] if ev != 'i64' else ['1', '2', '3', '7'])) for _ in range(n)]
                            e = f + '(' + ','.join(xs) + ')'
                            if len(e) <= 256:
                                out.append(case(ev, None, e))
                        for k in range(0, n, max(1, n // 8)):
                            xs = [str((7 * j + 3) % 23) for j in range(n)]
                            xs[k] = rng.choice(bad) if bad else '(0/0)'
                            e = f + '(' + ','.join(xs) + ')'
                            if len(e) <= 256:
                                out.append(case(ev, None, e))
                    for p in phs:
                        out.append(case(ev, p, f + '(@,1,-@)'))
                        out.append(case(ev, p, f + '(1,@)'))
                    for u in U:
                        for a in sp[:6]:
                            for b in sp[:6]:
                                out.append(case(ev, None, f + '(' + u % a + ',' + u % b + ')'))
            elif arm in ('Number', 'Num'):
                for a in pool:
                    out.append(case(ev, None, a))
    # new constants anywhere: as lengths (digit runs, input bytes, nesting depth, argument counts) in every evaluator
    lens = sorted(set(n for n in extra_all if 0 < n <= 256))
    for ev in ('f64', 'i64', 'decimal', 'complex', 'number'):
        for n in lens:
            for r in ['0' * (n - 1) + '3', '1' + '0' * (n - 1), ('1234567890' * 26)[:n], '9' * n]:
                sup = ''.join(gen.SUP[int(c)] for c in r)
                for e in [r, r + '+1', '0.' + r, r + '.5', '2^' + r, '2' + sup, '1' + sup + '+1']:
                    if len(e) <= 256:
                        out.append(case(ev, None, e))
            for h, t in [('1', ''), ('(' * (n // 2), ')' * (n // 2)), ('-' * n, '1'), ('1' + '+1' * (n // 2), ''), ('1/0', ''), ('1' + '+π' * (n // 3), ''), ('1x', '')]:
                for pad in range(0, 4):
                    e = (h + ('1' if h.endswith('(') else '') + '+1' * pad + t)
                    if len(e) <= 256:
                        out.append(case(ev, None, e))
                    e2 = '1' + '+1' * ((n - len(h.encode()) - 1) // 2 + pad - 2) + ('+' + h if h and h[0] not in '-(' else '')
                    if 0 < len(e2) <= 256:
                        out.append(case(ev, None, e2))
    out = list(dict.fromkeys(out))
    if len(out) > limit:
        step = len(out) / float(limit)
        out = [out[int(i * step)] for i in range(limit)]
    return out
