#!/bin/bash
# usage: tools/confirm_seed.sh <worktree> <seed-id> <property> : confirm a sub-agent's mutation and store it under seeded/<seed-id>/
set -u
WT=$1; ID=$2; PROP=$3
export CARGO_NET_OFFLINE=true
cd $WT || exit 2
git diff -- src > patch.diff
[ -s patch.diff ] || { echo "empty patch"; exit 2; }
T=$(cargo test --offline 2>&1 | grep -E "test result: ok. 531 passed" | wc -l)
echo "tests_531_pass_with_change=$T"
(cd demo && cargo build --offline >/dev/null 2>&1; cargo run --offline >/dev/null 2>&1; echo "demo_with_change_exit=$?") | tee /tmp/cs1
git apply -R patch.diff
(cd demo && cargo run --offline >/dev/null 2>&1; echo "demo_without_change_exit=$?") | tee /tmp/cs2
git apply patch.diff
D=/verif/seeded/$ID; mkdir -p $D/demo
cp patch.diff $D/; cp -r demo/src demo/Cargo.toml $D/demo/ 2>/dev/null; cp NOTE.md $D/ 2>/dev/null
echo "stored $D"
