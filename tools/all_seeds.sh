#!/bin/bash
# re-applies every stored seed to /repo, runs the quick check of its property and reports whether it is (still) detected.
# usage: tools/all_seeds.sh [seed-id ...]   (default: all). /repo must be clean; it is restored after every seed.
cd "$(dirname "$0")/.."
if [ -n "$(git -C /repo status --porcelain)" ]; then echo "/repo is dirty: refusing"; exit 2; fi
rm -rf build/evidence.keep; cp -r evidence build/evidence.keep
miss=0
for d in ${@:-$(ls seeded)}; do
  [ -f seeded/$d/patch.diff ] || continue
  p=$(python3 -c "import json;print(json.load(open('seeded/$d/meta.json'))['property'])")
  git -C /repo apply "$PWD/seeded/$d/patch.diff" || { echo "$d: patch does not apply"; miss=1; continue; }
  out=$(./check $p --tier quick 2>&1 | grep -E "^VIOLATION" | head -1)
  git -C /repo checkout -- .
  if [ -z "$out" ]; then echo "MISSED   $d ($p)"; miss=1; else echo "detected $d ($p) ${out#VIOLATION property=$p }"; fi
done
python3 -c "import sys; sys.path.insert(0, 'tools'); import vlib; vlib.build_harness(release=True)" >/dev/null 2>&1
rm -rf evidence; mv build/evidence.keep evidence
exit $miss
