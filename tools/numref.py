#!/usr/bin/env python3
"""Independent numeric references (Python stdlib only) for the accuracy clauses of C07/C08/C10/C15.
These are exploration-level oracles: no theorem stands behind the accuracy of libm, num_complex,
rust_decimal, the Lanczos gamma or the Lambert-W iteration."""
import cmath, math
from fractions import Fraction

def lambertw(x):
    """principal branch W0(x), x >= -1/e, by Newton on the log form / Halley near the branch point"""
    if x != x or x < -1 / math.e:
        return float('nan')
    if x == float('inf'):
        return x
    if x == 0:
        return 0.0
    if x > math.e:
        L = math.log(x)
        w = L - math.log(L)
        for _ in range(60):
            wn = w - (w + math.log(w) - L) / (1 + 1 / w)
            if wn == w:
                break
            w = wn
        return w
    if x < -0.25:
        p = math.sqrt(max(0.0, 2 * (math.e * x + 1)))
        w = -1 + p - p * p / 3 + 11 * p ** 3 / 72
    else:
        w = math.log1p(x) if x > 0 else x
    for _ in range(80):
        ew = math.exp(w)
        f = w * ew - x
        if f == 0 or w == -1:
            break
        den = ew * (w + 1) - (w + 2) * f / (2 * w + 2)
        if den == 0:
            break
        wn = w - f / den
        if wn == w or wn != wn:
            break
        w = wn
    return w

def fact(x):
    if x == int(x) and x < 0:
        return float('nan')
    try:
        return math.gamma(x + 1)
    except OverflowError:
        return float('inf')
    except ValueError:
        return float('nan')

def safe(f):
    def g(*a):
        try:
            return f(*a)
        except (ValueError, ZeroDivisionError):
            return float('nan')
        except OverflowError:
            return float('nan')       # sign of the overflow not decided here
    return g

F1 = {
    'abs': abs, 'floor': lambda x: float(math.floor(x)), 'ceil': lambda x: float(math.ceil(x)),
    'round': lambda x: float(math.floor(abs(x) + 0.5)) * (1 if x >= 0 else -1), 'trunc': lambda x: float(math.trunc(x)),
    'sin': math.sin, 'cos': math.cos, 'tan': math.tan, 'sinh': math.sinh, 'cosh': math.cosh, 'tanh': math.tanh,
    'asin': math.asin, 'acos': math.acos, 'atan': math.atan, 'asinh': math.asinh, 'acosh': math.acosh, 'atanh': math.atanh,
    'sqrt': math.sqrt, 'exp': math.exp, 'exp2': lambda x: 2.0 ** x, 'ln': math.log, 'lb': math.log2,
    'w': lambertw, 'sgn': lambda x: 0.0 if x == 0 else math.copysign(1.0, x),
}
for a, b in [('arsinh', 'asinh'), ('arcosh', 'acosh'), ('artanh', 'atanh'), ('lambert_w', 'w'), ('sign', 'sgn'), ('signum', 'sgn'), ('truncate', 'trunc')]:
    F1[a] = F1[b]
F1 = {k: safe(v) for k, v in F1.items()}
F2 = {
    'atan2': math.atan2, 'mod': math.fmod, 'pow': math.pow,
    'root': lambda n, x: math.pow(x, 1.0 / n), 'log': lambda x, b: math.log(x) / math.log(b),
}
F2 = {k: safe(v) for k, v in F2.items()}

C1 = {
    'abs': lambda z: complex(abs(z), 0), 'sin': cmath.sin, 'cos': cmath.cos, 'tan': cmath.tan, 'sinh': cmath.sinh, 'cosh': cmath.cosh,
    'tanh': cmath.tanh, 'asin': cmath.asin, 'acos': cmath.acos, 'atan': cmath.atan, 'asinh': cmath.asinh, 'acosh': cmath.acosh,
    'atanh': cmath.atanh, 'sqrt': cmath.sqrt, 'exp': cmath.exp, 'exp2': lambda z: cmath.exp(z * math.log(2)), 'ln': cmath.log,
    'lb': lambda z: cmath.log(z) / math.log(2),
}
for a, b in [('arsinh', 'asinh'), ('arcosh', 'acosh'), ('artanh', 'atanh')]:
    C1[a] = C1[b]
C2 = {
    'pow': lambda a, b: cmath.exp(b * cmath.log(a)) if a != 0 else (0j if b.real > 0 else complex('nan')),
    'root': lambda n, x: cmath.exp(cmath.log(x) / n) if x != 0 else 0j,
    'log': lambda x, b: cmath.log(x) / cmath.log(b),
}

def close(got, ref, rel, abs_floor=0.0):
    if got != got and ref != ref:
        return True
    if got != got or ref != ref:
        return False
    if math.isinf(ref) or math.isinf(got):
        return got == ref
    return abs(got - ref) <= rel * max(abs(ref), abs_floor)

def cclose(got, ref, rel):
    if any(v != v for v in (got.real, got.imag, ref.real, ref.imag)):
        return all(v != v for v in (got.real, ref.real)) or False
    m = max(abs(ref), 1e-300)
    return abs(got - ref) <= rel * m


# ---------------------------------------------------------------- 70-digit references for eval_decimal (Python decimal)
from decimal import Decimal as _D, getcontext as _gc, localcontext as _lc
def dec_ref(f, a):
    """a: tuple of decimal.Decimal arguments; returns Decimal (70 significant digits) or None outside the domain"""
    with _lc() as ctx:
        ctx.prec = 70
        ln2 = _D(2).ln()
        try:
            if f == 'ln':
                return a[0].ln() if a[0] > 0 else None
            if f == 'lb':
                return a[0].ln() / ln2 if a[0] > 0 else None
            if f == 'exp':
                return a[0].exp()
            if f == 'exp2':
                return (a[0] * ln2).exp()
            if f == 'sqrt':
                return a[0].sqrt() if a[0] >= 0 else None
            if f == 'pow':
                x, y = a
                if x > 0:
                    return (y * x.ln()).exp()
                if x == 0:
                    return _D(0) if y > 0 else None
                if y == y.to_integral_value():
                    r = (y * (-x).ln()).exp()
                    return r if int(y) % 2 == 0 else -r
                return None
            if f == 'root':
                n, x = a
                return (x.ln() / n).exp() if x > 0 and n != 0 else None
            if f == 'log':
                x, b = a
                return x.ln() / b.ln() if x > 0 and b > 0 and b != 1 else None
        except Exception:
            return None
    return None
