#!/usr/bin/env python3
"""Translator: regenerates the Gallina tables the generic lexer / parser engine is instantiated
with from /repo's *current* Rust sources (tie (a) of DESIGN.md).

  translate.py [--repo /repo] --out coq/Gen/Tables.v --report build/translate.json

It is deliberately narrow: each source arm is matched against a fixed shape. An arm that does not
match is reported (`unrecognised`) and the evaluator's table falls back to the committed copy in
coq/Model/ (the check then relies on the correspondence levels L1/L2 for that table and says so).
"""
import argparse, hashlib, json, os, re, sys

EVS = ['f64', 'i64', 'decimal', 'complex', 'number']

# ----------------------------------------------------------------------------- helpers
def strip_hooks(src):
    out, skip = [], False
    for line in src.split('\n'):
        if skip:
            skip = False
            continue
        if line.strip() == '#[cfg(feature = "verif_hooks")]':
            skip = True
            continue
        out.append(line)
    return '\n'.join(out)

def strip_comments(src):
    """remove // and (nested) /* */ comments; string and char literals are copied verbatim"""
    out, i, n = [], 0, len(src)
    while i < n:
        c = src[i]
        if src.startswith('//', i):
            j = src.find('\n', i)
            i = n if j < 0 else j
        elif src.startswith('/*', i):
            depth, i = 1, i + 2
            while i < n and depth:
                if src.startswith('/*', i):
                    depth += 1; i += 2
                elif src.startswith('*/', i):
                    depth -= 1; i += 2
                else:
                    i += 1
        elif c == '"':
            j = i + 1
            while j < n and src[j] != '"':
                j += 2 if src[j] == '\\' else 1
            out.append(src[i:j + 1]); i = j + 1
        elif c == "'":
            m = re.match(r"'(\\.|[^\\'])'", src[i:])
            if m:
                out.append(m.group(0)); i += len(m.group(0))
            else:
                out.append(c); i += 1
        else:
            out.append(c); i += 1
    return ''.join(out)

def read_rs(path):
    return strip_comments(open(path, encoding='utf-8').read())

def norm(s):
    return re.sub(r'\s+', '', s)

def non_test(src):
    i = src.find('#[cfg(test)]')
    return src if i < 0 else src[:i]

def block_after(src, start):
    """text of the {...} block whose '{' is the first one at or after `start` (braces balanced,
    char literals like '{' do not occur in these sources)"""
    i = src.index('{', start)
    depth, j = 0, i
    while j < len(src):
        c = src[j]
        if c == '{':
            depth += 1
        elif c == '}':
            depth -= 1
            if depth == 0:
                return src[i + 1:j], j + 1
        j += 1
    raise ValueError('unbalanced')

def fn_body(src, name):
    m = re.search(r'\bfn ' + re.escape(name) + r'\s*[(<]', src)
    if not m:
        return None
    return block_after(src, m.end())[0]

def cp(c):
    return ord(c)

def coq_list(items):
    return '[' + '; '.join(items) + ']'

def coq_str(s):
    return coq_list([str(ord(c)) for c in s])

# ----------------------------------------------------------------------------- names
FN = ['Sin', 'Cos', 'Tan', 'Sinh', 'Cosh', 'Tanh', 'Asin', 'Acos', 'Atan', 'Atan2', 'Arcosh', 'Arsinh',
      'Artanh', 'Ln', 'Lb', 'Log', 'ILog', 'Pow', 'Sqrt', 'Root', 'Exp', 'Exp2', 'LambertW', 'Abs', 'Sign',
      'Truncate', 'Floor', 'Ceil', 'Round', 'Min', 'Max', 'Avg', 'Med', 'Mod', 'Gcd', 'Lcm']
KINDS = ['Add', 'Subtract', 'Multiply', 'Divide', 'Caret', 'ExclamationMark', 'Modulo', 'LeftParen',
         'RightParen', 'LeftFloor', 'RightFloor', 'LeftCeiling', 'RightCeiling', 'E', 'Pi', 'Comma',
         'DegToRad', 'RadToDeg', 'Ampersand', 'Bar', 'LeftShift', 'RightShift', 'Ans', 'Eof']
UN = ['Negative', 'Factorial', 'Abs', 'Floor', 'Ceil', 'Round', 'Sin', 'Cos', 'Tan', 'Sinh', 'Cosh', 'Tanh',
      'Arsinh', 'Arcosh', 'Artanh', 'Asin', 'Acos', 'Atan', 'Sqrt', 'Ln', 'Lb', 'Exp', 'Exp2', 'Truncate',
      'Sign', 'LambertW']
BIN = ['Add', 'Subtract', 'Multiply', 'Divide', 'Modulo', 'Atan2', 'Root', 'Pow', 'Log', 'ILog', 'And', 'Or',
       'LeftShift', 'RightShift']
AGG = ['Min', 'Max', 'Avg', 'Med', 'Gcd', 'Lcm']
# fixed level numbers of the categories (the order is *checked* against operator_category.rs)
CAT_LEVEL = {'DefaultZero': 0, 'BitwiseOr': 1, 'BitwiseAnd': 2, 'Shift': 3, 'Additive': 4,
             'Multiplicative': 5, 'Power': 6, 'Negative': 7, 'Functional': 8}

def kind_term(tokname):
    """Token::X or Token::ExplicitFunction(NativeFunction::Y) -> Gallina kind"""
    m = re.fullmatch(r'Token::ExplicitFunction\(NativeFunction::(\w+)\)', tokname)
    if m:
        if m.group(1) not in FN:
            raise KeyError(tokname)
        return '(KFunc F%s)' % m.group(1)
    m = re.fullmatch(r'Token::(\w+)', tokname)
    if m and m.group(1) in KINDS:
        return 'K' + m.group(1)
    raise KeyError(tokname)

# ----------------------------------------------------------------------------- tokenizer
SUP_CHARS = '⁰¹²³⁴⁵⁶⁷⁸⁹'

def _skip_literal(src, i):
    """if a string or char literal starts at i, return the index just after it, else i"""
    if src[i] == '"':
        j = i + 1
        while j < len(src) and src[j] != '"':
            j += 2 if src[j] == '\\' else 1
        return j + 1
    if src[i] == "'":
        m = re.match(r"'(\\.|[^\\'])'", src[i:])
        if m:
            return i + len(m.group(0))
    return i

def split_arms(body):
    """top-level arms `Some(<pat>) => <body>` / `None => <body>` of `match current_char { ... }`, found by bracket
    depth (independent of indentation); an arm body is a `{...}` block or runs to the next top-level comma.
    Returns [pattern-inside-Some | None, body text] in source order; a top-level `_` arm is attached to the
    arm before it, as the consumers expect."""
    arms, i, n = [], 0, len(body)
    def skip_ws(k):
        while k < n and body[k].isspace():
            k += 1
        return k
    while True:
        i = skip_ws(i)
        if i >= n:
            break
        # pattern up to the top-level '=>'
        depth, j = 0, i
        while j < n:
            k = _skip_literal(body, j)
            if k != j:
                j = k; continue
            c = body[j]
            if c in '([{':
                depth += 1
            elif c in ')]}':
                depth -= 1
            elif depth == 0 and body.startswith('=>', j):
                break
            j += 1
        if j >= n:
            break
        pat = body[i:j].strip()
        j = skip_ws(j + 2)
        # body
        if j < n and body[j] == '{':
            depth, k = 0, j
            while k < n:
                q = _skip_literal(body, k)
                if q != k:
                    k = q; continue
                if body[k] in '([{':
                    depth += 1
                elif body[k] in ')]}':
                    depth -= 1
                    if depth == 0:
                        k += 1
                        break
                k += 1
            e = skip_ws(k)
            if e < n and body[e] == ',':
                e += 1
            text, i = body[j:e], e
        else:
            depth, k = 0, j
            while k < n:
                q = _skip_literal(body, k)
                if q != k:
                    k = q; continue
                if body[k] in '([{':
                    depth += 1
                elif body[k] in ')]}':
                    depth -= 1
                elif body[k] == ',' and depth == 0:
                    k += 1
                    break
                k += 1
            text, i = body[j:k], k
        m = re.fullmatch(r'Some\((.+)\)', pat, flags=re.S)
        if m:
            arms.append([m.group(1).strip(), text])
        elif pat == 'None':
            arms.append([None, text])
        elif arms:
            arms[-1][1] += '\n' + pat + ' => ' + text        # `_ => None,` and anything unexpected stays visible to the arm check
        else:
            arms.append(['?' + pat, text])
    return arms

DIGIT_TEMPLATES = {}   # normalised arm text -> (mode, imag_suffix)
DOT_TEMPLATES = {}

def _t(conv_plain, conv_imag=None, scan='digit'):
    cond = {'digit': "next_char.is_ascii_digit()",
            'greedy': "next_char.is_ascii_digit()||next_char==&'.'"}[scan]
    s = "{letmutnumber=current_char?.to_string();whileletSome(next_char)=self.expr.peek(){if" + cond + \
        "{number.push(self.expr.next()?);}else{break;}}"
    if conv_imag:
        s += "ifletSome('i')=self.expr.peek(){self.expr.next()?;" + conv_imag + "}else{" + conv_plain + "}}"
    else:
        s += conv_plain + "}"
    return s

DIGIT_TEMPLATES[_t("Some(Token::Num(number.parse::<i64>().ok()?))")] = ('IntOnly', False)
DIGIT_TEMPLATES[_t("Some(Token::Num(number.parse::<f64>().ok()?))", scan='greedy')] = ('FloatGreedy', False)
DIGIT_TEMPLATES[_t("Some(Token::Num(Decimal::from_str(&number).ok()?))", scan='greedy')] = ('FloatGreedy', False)
DIGIT_TEMPLATES[_t("Some(Token::Num(Complex::new(number.parse::<f64>().ok()?,0.0,)))",
                   "Some(Token::Num(Complex::new(0.0,number.parse::<f64>().ok()?,)))", scan='greedy')] = ('FloatGreedy', True)
DIGIT_TEMPLATES[
    "{letmutfloatting=false;letmutnumber=current_char?.to_string();whileletSome(next_char)=self.expr.peek(){"
    "iffloatting&&next_char==&'.'{break;}elseifnext_char.is_ascii_digit()||next_char==&'.'{ifnext_char==&'.'{floatting=true;}"
    "number.push(self.expr.next()?);}else{break;}}iffloatting{Some(Token::Num(Number::Float(number.parse::<f64>().ok()?)))}"
    "else{Some(Token::Num(Number::Integer(number.parse::<i64>().ok()?)))}}"] = ('FloatOnePoint', False)

def _d(conv_plain, conv_imag=None):
    s = "{letnext_char=self.expr.peek()?;ifnext_char.is_ascii_digit(){letmutnumber=\"0\".to_string();number.push(current_char?);" \
        "whileletSome(next_char)=self.expr.peek(){ifnext_char.is_ascii_digit(){number.push(self.expr.next()?);}else{break;}}"
    if conv_imag:
        s += "ifletSome('i')=self.expr.peek(){self.expr.next()?;" + conv_imag + "}else{" + conv_plain + "}"
    else:
        s += conv_plain
    return s + "}else{None}}"

DOT_TEMPLATES[_d("Some(Token::Num(number.parse::<f64>().ok()?))")] = False
DOT_TEMPLATES[_d("Some(Token::Num(Decimal::from_str(&number).ok()?))")] = False
DOT_TEMPLATES[_d("Some(Token::Num(Number::Float(number.parse::<f64>().ok()?)))")] = False
DOT_TEMPLATES[_d("Some(Token::Num(Complex::new(number.parse::<f64>().ok()?,0.0,)))",
                 "Some(Token::Num(Complex::new(0.0,number.parse::<f64>().ok()?,)))")] = True

SUP_TEMPLATES = [
    "Some(Token::Superscript(deserialize_superscript_number(&current_char?,&mutself.expr).parse::<f64>().ok()?,)),",
    "Some(Token::Superscript(deserialize_superscript_number(&current_char?,&mutself.expr).parse::<i64>().ok()?,)),",
    "Some(Token::Superscript(Number::Integer(deserialize_superscript_number(&current_char?,&mutself.expr).parse::<i64>().ok()?,))),",
    "Some(Token::Superscript(Complex::new(deserialize_superscript_number(&current_char?,&mutself.expr).parse::<f64>().ok()?,0.0,))),",
    "Some(Token::Superscript(Decimal::from_str(&deserialize_superscript_number(&current_char?,&mutself.expr,)).ok()?,)),",
]

ROW_A = re.compile(r'"([^"]*)"=>\{self\.expr\.by_ref\(\)\.take\((\d+)\)\.for_each\(drop\);Some\((Token::[\w:()]+)\)\}')
ROW_B = re.compile(r'self\.expr\.clone\(\)\.take\((\d+)\)\.collect::<String>\(\)=="([^"]*)"\{self\.expr\.by_ref\(\)\.take\((\d+)\)\.for_each\(drop\);Some\((Token::[\w:()]+)\)\}')
ROW_C = re.compile(r"ifletSome\('(.)'\)=self\.expr\.peek\(\)\{Some\((Token::[\w:()]+)\)\}")
TAKE_M = re.compile(r'matchself\.expr\.clone\(\)\.take\((\d+)\)\.collect::<String>\(\)\.as_str\(\)\{')

def letter_arm(text, notes, where):
    """-> (rows, default) ; rows = [(take, look, drop, kind)] in evaluation order"""
    t = norm(text)
    events = []
    for m in TAKE_M.finditer(t):
        events.append((m.start(), 'take', int(m.group(1))))
    for m in ROW_A.finditer(t):
        events.append((m.start(), 'a', m))
    for m in ROW_B.finditer(t):
        events.append((m.start(), 'b', m))
    for m in ROW_C.finditer(t):
        events.append((m.start(), 'c', m))
    events.sort(key=lambda e: e[0])
    rows, cur_take = [], None
    for _, k, v in events:
        if k == 'take':
            cur_take = v
        elif k == 'a':
            if cur_take is None:
                notes.append('unrecognised %s: row without take' % where)
                return None
            rows.append((cur_take, v.group(1), int(v.group(2)), kind_term(v.group(3))))
        elif k == 'b':
            rows.append((int(v.group(1)), v.group(2), int(v.group(3)), kind_term(v.group(4))))
        elif k == 'c':
            rows.append((1, v.group(1), 0, kind_term(v.group(2))))
    # default: the last "else{X}" or innermost "_=>X"
    default = None
    tail = t
    m = re.search(r'(?:else\{|_=>)(None|Some\(Token::\w+\))[,}]*$', tail)
    if not m:
        notes.append('unrecognised %s: no default' % where)
        return None
    if m.group(1) != 'None':
        default = kind_term(re.fullmatch(r'Some\((Token::\w+)\)', m.group(1)).group(1))
    # sanity: every string literal and every Some(Token:: must be accounted for
    nlit = len(re.findall(r'"[^"]*"', t))
    ntok = len(re.findall(r'Some\(Token::', t))
    if nlit != len([r for r in rows if True]) - len(ROW_C.findall(t)) or ntok != len(rows) + (1 if default else 0):
        notes.append('unrecognised %s: %d literals / %d tokens vs %d rows' % (where, nlit, ntok, len(rows)))
        return None
    return rows, default

def translate_tokenizer(ev, repo, notes):
    src = strip_hooks(non_test(read_rs(os.path.join(repo, 'src', 'eval_' + ev, 'tokenizer.rs'))))
    nb = fn_body(src, 'next')
    if nb is None:
        notes.append('unrecognised tokenizer.rs: no next()')
        return None
    m = re.search(r'match current_char \{', nb)
    if not m or norm(nb[:m.start()]) != 'letcurrent_char=self.expr.next();':
        notes.append('unrecognised tokenizer.rs: prologue of next()')
        return None
    body, _ = block_after(nb, m.start())
    arms = split_arms(body)
    table = {'arms': [], 'sup_arms': [], 'dot': False, 'mode': None, 'imag_suffix': False, 'imag_unit': False}
    seen = set()
    ok = True
    for pat, text in arms:
        where = 'eval_%s/tokenizer.rs arm %s' % (ev, pat)
        nt = norm(text)
        if pat is None:
            if nt != 'Some(Token::Eof),':
                notes.append('unrecognised ' + where); ok = False
            continue
        if pat == '_':
            if nt != 'None,':
                notes.append('unrecognised ' + where); ok = False
            continue
        if pat in seen:
            notes.append('unrecognised %s: duplicate arm' % where); ok = False
            continue
        seen.add(pat)
        if pat == "'0'..='9'":
            if nt not in DIGIT_TEMPLATES:
                notes.append('unrecognised ' + where); ok = False
                continue
            table['mode'], table['imag_suffix'] = DIGIT_TEMPLATES[nt]
            continue
        m = re.fullmatch(r"'(.)'", pat)
        if not m:
            notes.append('unrecognised ' + where); ok = False
            continue
        c = m.group(1)
        if c in SUP_CHARS:
            if nt not in SUP_TEMPLATES:
                notes.append('unrecognised ' + where); ok = False
                continue
            table['sup_arms'].append(c)
            continue
        if c == '.':
            if nt not in DOT_TEMPLATES:
                notes.append('unrecognised ' + where); ok = False
                continue
            table['dot'] = True
            if DOT_TEMPLATES[nt] != table['imag_suffix'] and table['mode'] is not None:
                notes.append('unrecognised %s: imaginary suffix differs from the digit arm' % where); ok = False
            continue
        if c == 'i' and nt == 'Some(Token::Num(Complex::new(0.0,1.0))),':
            table['imag_unit'] = True
            continue
        m1 = re.fullmatch(r'Some\((Token::\w+)\),', nt)
        if m1:
            try:
                table['arms'].append((c, [], kind_term(m1.group(1))))
            except KeyError:
                notes.append('unrecognised ' + where); ok = False
            continue
        try:
            r = letter_arm(text, notes, where)
        except KeyError as e:
            notes.append('unrecognised %s: unknown token %s' % (where, e)); r = None
        if r is None:
            ok = False
            continue
        table['arms'].append((c, r[0], r[1]))
    if table['mode'] is None:
        notes.append('unrecognised eval_%s/tokenizer.rs: no digit arm' % ev); ok = False
    return table if ok else None

def translate_sup_map(repo, notes):
    src = read_rs(os.path.join(repo, 'src', 'utils', 'superscript.rs'))
    pairs = re.findall(r"'(.)' => Some\('(.)'\),", src)
    rest = re.sub(r"'(.)' => Some\('(.)'\),", '', src)
    if norm(rest) != norm("pub fn superscript_digit_to_digit(current_char: &char) -> Option<char> { match current_char { _ => None, } }"):
        notes.append('unrecognised utils/superscript.rs')
        return None
    ds = read_rs(os.path.join(repo, 'src', 'utils', 'deserialize_superscript_number.rs'))
    h = hashlib.sha256(norm(ds).encode()).hexdigest()
    if h != DESER_HASH:
        notes.append('unrecognised utils/deserialize_superscript_number.rs (%s)' % h)
        return None
    return pairs

DESER_HASH = 'PLACEHOLDER_DESER'

# ----------------------------------------------------------------------------- token.rs / categories
def translate_categories(repo, notes):
    src = read_rs(os.path.join(repo, 'src', 'utils', 'operator_category.rs'))
    m = re.search(r'pub enum OperatorCategory \{', src)
    if not m or '#[derive(Debug, PartialEq, PartialOrd, Clone)]' not in src[:m.start()]:
        notes.append('unrecognised utils/operator_category.rs: derive/enum header')
        return None
    body, _ = block_after(src, m.start())
    # the file must consist of exactly this one definition: a second (cfg-selected) copy of the enum, or a cfg on the
    # enum itself, would change the order under some feature sets without being seen here
    bare = re.sub(r'//[^\n]*', '', src)
    if len(re.findall(r'\benum\s+OperatorCategory\b', bare)) != 1 or \
            re.sub(r'\s+', '', bare.replace(body, '', 1)) != '#[derive(Debug,PartialEq,PartialOrd,Clone)]pubenumOperatorCategory{}':
        notes.append('unrecognised utils/operator_category.rs: more than the one enum definition')
        return None
    cats, pend = [], None
    for ln in body.split('\n'):
        ln = ln.strip()
        if not ln:
            continue
        mm = re.fullmatch(r'#\[cfg\(feature = "(\w+)"\)\]', ln)
        if mm:
            pend = mm.group(1)
            continue
        mm = re.fullmatch(r'(\w+),', ln)
        if not mm or mm.group(1) not in CAT_LEVEL:
            notes.append('unrecognised utils/operator_category.rs: %r' % ln)
            return None
        cats.append((mm.group(1), pend))
        pend = None
    return cats

def translate_prec(ev, repo, notes):
    src = non_test(read_rs(os.path.join(repo, 'src', 'eval_' + ev, 'token.rs')))
    b = fn_body(src, 'get_oper_prec')
    if b is None:
        notes.append('unrecognised eval_%s/token.rs' % ev)
        return None
    m = re.search(r'match \*self \{', b)
    if not m or norm(b[:m.start()]) != 'useself::Token::*;':
        notes.append('unrecognised eval_%s/token.rs: prologue' % ev)
        return None
    body, _ = block_after(b, m.start())
    table = {}
    for ln in body.split('\n'):
        ln = ln.strip()
        if not ln:
            continue
        mm = re.fullmatch(r'(.+?) => OperatorCategory::(\w+),', ln)
        if not mm or mm.group(2) not in CAT_LEVEL:
            notes.append('unrecognised eval_%s/token.rs: %r' % (ev, ln))
            return None
        for alt in mm.group(1).split('|'):
            alt = alt.strip()
            if alt == '_':
                if mm.group(2) != 'DefaultZero':
                    table['_'] = mm.group(2)
                continue
            a = re.fullmatch(r'(\w+)(\(_\))?', alt)
            if not a:
                notes.append('unrecognised eval_%s/token.rs: %r' % (ev, alt))
                return None
            table[a.group(1)] = mm.group(2)
    # variants of the Token enum (vocabulary)
    m = re.search(r'pub enum Token \{', src)
    tb, _ = block_after(src, m.start())
    variants = [re.match(r'(\w+)', x.strip()).group(1) for x in tb.split('\n') if x.strip()]
    m = re.search(r'pub enum NativeFunction \{', src)
    fb, _ = block_after(src, m.start())
    fns = [re.match(r'(\w+)', x.strip()).group(1) for x in fb.split('\n') if x.strip()]
    return table, variants, fns

# ----------------------------------------------------------------------------- parser.rs
ENGINE_FNS = ['new', 'parse', 'get_next_token', 'generate_ast', 'function_static_arguments',
              'function_arguments', 'find_item_list', 'get_enclosed_elements_with_impl_mult', 'check_paren']
ENGINE_HASHES = {}  # filled from tools/engine_shape.json

def value_term(ev, kind, text):
    """Gallina value of type V_ev for a constant that appears in parser.rs"""
    import struct
    def fbits(x):
        return '(f64_of_bits %d)' % struct.unpack('>Q', struct.pack('>d', x))[0]
    PI, E = 3.141592653589793, 2.718281828459045
    if kind == 'pi':
        f = PI
    elif kind == 'e':
        f = E
    elif kind == 'lit':
        f = float(text.replace('_', ''))
    elif kind == 'zero':
        f = 0.0
    if ev == 'f64':
        return fbits(f)
    if ev == 'complex':
        return '(%s, %s)' % (fbits(f), fbits(0.0))
    if ev == 'number':
        return '(Flt %s)' % fbits(f)
    if ev == 'i64':
        return '0%Z'
    if ev == 'decimal':
        if kind == 'pi':   # Decimal::PI
            return '(Build_dec false 31415926535897932384626433833 28)'
        if kind == 'e':    # Decimal::E
            return '(Build_dec false 27182818284590452353602874714 28)'
        if kind == 'zero':
            return '(Build_dec false 0 0)'
    raise KeyError((ev, kind, text))

CONST_SHAPES = {
    'f64': {'pi': 'Ok(Node::Number(std::f64::consts::PI))', 'e': 'Ok(Node::Number(std::f64::consts::E))',
            'ans': 'Ok(Node::Number(self.placeholder))', 'num': 'self.implicit_multiply(Node::Number(i))',
            'zero': 'Node::Number(0.0)', 'post': r'Ok\(Node::Multiply\(Box::new\(left_expr\),Box::new\(Node::Number\(([0-9._]+)\)\),\)\)',
            'sup': 'Ok(Node::Pow(Box::new(left_expr),Box::new(Node::Number(script)),))'},
    'i64': {'ans': 'Ok(Node::Number(self.placeholder))', 'num': 'self.implicit_multiply(Node::Number(i))',
            'zero': 'Node::Number(0)', 'sup': 'Ok(Node::Pow(Box::new(left_expr),Box::new(Node::Number(script)),))'},
    'decimal': {'pi': 'Ok(Node::Number(Decimal::PI))', 'e': 'Ok(Node::Number(Decimal::E))',
                'ans': 'Ok(Node::Number(self.placeholder))', 'num': 'self.implicit_multiply(Node::Number(i))',
                'zero': 'Node::Number(Decimal::new(0,0))',
                'sup': 'Ok(Node::Pow(Box::new(left_expr),Box::new(Node::Number(script)),))'},
    'complex': {'pi': 'Ok(Node::Number(Complex::new(std::f64::consts::PI,0.0)))',
                'e': 'Ok(Node::Number(Complex::new(std::f64::consts::E,0.0)))',
                'ans': 'Ok(Node::Number(self.placeholder))', 'num': 'self.implicit_multiply(Node::Number(i))',
                'post': r'Ok\(Node::Multiply\(Box::new\(left_expr\),Box::new\(Node::Number\(Complex::new\(([0-9._]+),0\.0\)\)\),\)\)',
                'sup': 'Ok(Node::Pow(Box::new(left_expr),Box::new(Node::Number(script)),))'},
    'number': {'pi': 'Ok(Node::Num(Number::Float(std::f64::consts::PI)))', 'e': 'Ok(Node::Num(Number::Float(std::f64::consts::E)))',
               'ans': 'Ok(Node::Num(self.placeholder.clone()))', 'num': 'self.implicit_multiply(Node::Num(i))',
               'zero': 'Node::Num(Number::Float(0.0))',
               'post': r'Ok\(Node::Multiply\(Box::new\(left_expr\),Box::new\(Node::Num\(Number::Float\(([0-9._]+)\)\)\),\)\)',
               'sup': 'Ok(Node::Pow(Box::new(left_expr),Box::new(Node::Num(script))))'},
}

def split_match_arms(body, indent=None):
    """arms `PATTERN => BODY` of a match body, found by bracket depth (the indent argument is ignored: formatting
    does not matter)"""
    arms, i, n = [], 0, len(body)
    def skip_ws(k):
        while k < n and body[k].isspace():
            k += 1
        return k
    def scan(k, stop):
        """advance from k at depth 0 until stop(k) holds at depth 0; returns that index (or n)"""
        depth = 0
        while k < n:
            q = _skip_literal(body, k)
            if q != k:
                k = q; continue
            c = body[k]
            if depth == 0 and stop(k):
                return k
            if c in '([{':
                depth += 1
            elif c in ')]}':
                depth -= 1
            k += 1
        return n
    while True:
        i = skip_ws(i)
        if i >= n:
            break
        j = scan(i, lambda k: body.startswith('=>', k))
        if j >= n:
            break
        pat = re.sub(r'\s+', ' ', body[i:j].strip())
        j = skip_ws(j + 2)
        if j < n and body[j] == '{':
            depth, k = 0, j
            while k < n:
                q = _skip_literal(body, k)
                if q != k:
                    k = q; continue
                if body[k] in '([{':
                    depth += 1
                elif body[k] in ')]}':
                    depth -= 1
                    if depth == 0:
                        k += 1
                        break
                k += 1
            e = skip_ws(k)
            if e < n and body[e] == ',':
                e += 1
            arms.append([pat, body[j:e]]); i = e
        else:
            k = scan(j, lambda k: body[k] == ',')
            k = min(n, k + 1)
            arms.append([pat, body[j:k]]); i = k
    return arms

def translate_parser(ev, repo, notes):
    path = os.path.join(repo, 'src', 'eval_' + ev, 'parser.rs')
    src = strip_hooks(non_test(read_rs(path)))
    shapes = CONST_SHAPES[ev]
    ok = True
    changed = []
    for fnm in ENGINE_FNS:
        b = fn_body(src, fnm)
        h = hashlib.sha256(norm(b or '').encode()).hexdigest()
        if ENGINE_HASHES.get(ev, {}).get(fnm) != h:
            changed.append(fnm)
    T = {'fn': [], 'infix': [], 'trigger': [], 'bang': False, 'post': [], 'sup': False, 'const': [], 'open': [],
         'neg': False, 'pos': False, 'ans': False, 'neg_level': None, 'impl_level': None, 'zero': None,
         'engine_changed': changed}
    # ---- implicit_multiply
    b = fn_body(src, 'implicit_multiply')
    nb = norm(b or '')
    m = re.fullmatch(r'if(.+?)\{letright=self\.generate_ast\(OperatorCategory::(\w+)\)\?;returnOk\(Node::Multiply\(Box::new\(node\),Box::new\(right\)\)\);\}Ok\(node\)', nb)
    if not m:
        notes.append('unrecognised eval_%s/parser.rs: implicit_multiply' % ev); ok = False
    else:
        T['impl_level'] = m.group(2)
        for alt in m.group(1).split('||'):
            a = re.fullmatch(r'\(self\.current_token==Token::(\w+)\)', alt)
            if a:
                T['trigger'].append('K' + a.group(1)); continue
            a = re.fullmatch(r'matches!\(self\.current_token,Token::ExplicitFunction\(_\)\)', alt)
            if a:
                T['trigger'].append('FUNC'); continue
            a = re.fullmatch(r'matches!\(self\.current_token,Token::Num\(_\)\)', alt)
            if a:
                T['trigger'].append('KNum'); continue
            notes.append('unrecognised eval_%s/parser.rs: implicit_multiply condition %r' % (ev, alt)); ok = False
    # ---- parse_number
    b = fn_body(src, 'parse_number')
    m = re.search(r'match token \{', b or '')
    if not m or norm(b[:m.start()]) != 'lettoken=self.current_token.clone();':
        notes.append('unrecognised eval_%s/parser.rs: parse_number prologue' % ev)
        return None
    body, _ = block_after(b, m.start())
    for pat, text in split_match_arms(body, 12):
        nt = norm(text)
        where = 'eval_%s/parser.rs parse_number arm %s' % (ev, pat)
        if pat == 'Token::Ans':
            if nt == '{self.get_next_token()?;' + shapes['ans'] + '}':
                T['ans'] = True
            else:
                notes.append('unrecognised ' + where); ok = False
        elif pat == 'Token::Subtract':
            mm = re.fullmatch(r'\{self\.get_next_token\(\)\?;letexpr=self\.generate_ast\(OperatorCategory::(\w+)\)\?;Ok\(Node::Negative\(Box::new\(expr\)\)\)\}', nt)
            if mm:
                T['neg'] = True; T.setdefault('neg_levels', []).append(mm.group(1))
            else:
                notes.append('unrecognised ' + where); ok = False
        elif pat == 'Token::Add':
            mm = re.fullmatch(r'\{self\.get_next_token\(\)\?;letexpr=self\.generate_ast\(OperatorCategory::(\w+)\)\?;Ok\(expr\)\}', nt)
            if mm:
                T['pos'] = True; T.setdefault('neg_levels', []).append(mm.group(1))
            else:
                notes.append('unrecognised ' + where); ok = False
        elif pat == 'Token::Num(i)':
            guard = ('ifmatches!(self.current_token,Token::Num(_)){returnErr(ParseError::UnableToParse('
                     '"Anumbercannotdirectlyfollowanumber".to_string(),));}')
            if nt == '{self.get_next_token()?;' + shapes['num'] + '}':
                T['numnum'] = True        # a literal directly followed by a literal is an implicit product
            elif nt == '{self.get_next_token()?;' + guard + shapes['num'] + '}':
                T['numnum'] = False       # ... is rejected
            else:
                notes.append('unrecognised ' + where); ok = False
        elif pat in ('Token::Pi', 'Token::E'):
            k = 'pi' if pat == 'Token::Pi' else 'e'
            if k in shapes and nt == '{self.get_next_token()?;' + shapes[k] + '}':
                T['const'].append(('K' + pat[7:], value_term(ev, k, None)))
            else:
                notes.append('unrecognised ' + where); ok = False
        elif pat in ('Token::LeftParen', 'Token::LeftFloor', 'Token::LeftCeiling'):
            mm = re.fullmatch(r'self\.get_enclosed_elements_with_impl_mult\(OperatorCategory::DefaultZero,Token::(\w+),\|expr\|(.+?),\),', nt)
            if not mm:
                notes.append('unrecognised ' + where); ok = False
                continue
            w = mm.group(2)
            if w == 'expr':
                wrap = 'None'
            else:
                ww = re.fullmatch(r'Node::(\w+)\(Box::new\(expr\)\)', w)
                if not ww or ww.group(1) not in UN:
                    notes.append('unrecognised ' + where); ok = False
                    continue
                wrap = '(Some U%s)' % ww.group(1)
            T['open'].append(('K' + pat[7:], 'K' + mm.group(1), wrap))
        elif pat == 'Token::ExplicitFunction(current_function)':
            mm = re.search(r'let current_function = match current_function \{', text)
            if not mm:
                notes.append('unrecognised ' + where); ok = False
                continue
            fbody, endp = block_after(text, mm.start())
            if norm(text[endp:]) != ';self.implicit_multiply(current_function)}':
                notes.append('unrecognised %s: epilogue' % where); ok = False
            for fpat, ftext in split_match_arms(fbody, 20):
                fm = re.fullmatch(r'NativeFunction::(\w+)', fpat)
                fw = 'eval_%s/parser.rs function arm %s' % (ev, fpat)
                if not fm or fm.group(1) not in FN:
                    notes.append('unrecognised ' + fw); ok = False
                    continue
                f = fm.group(1)
                ft = norm(ftext)
                a = re.fullmatch(r'\{Node::(\w+)\(Box::new\(self\.function_static_arguments\(1\)\?\[0\]\.clone\(\)\)\)\}', ft)
                if a and a.group(1) in UN:
                    T['fn'].append((f, '(F1 U%s)' % a.group(1))); continue
                a = re.fullmatch(r'\{letargs=self\.function_static_arguments\(2\)\?;Node::(\w+)\(Box::new\(args\[0\]\.clone\(\)\),Box::new\(args\[1\]\.clone\(\)\)\)\}', ft)
                if a and a.group(1) in BIN:
                    T['fn'].append((f, '(F2 B%s)' % a.group(1))); continue
                a = re.fullmatch(r'\{letargs=self\.function_arguments\(\)\?;ifargs\.is_empty\(\)\{returnErr\(ParseError::UnableToParse\("[^"]*"\.to_string\(\),\)\);\}(?:else\{)?Node::(\w+)\(Arc::new\(args\)\)\}?\}', ft)
                if a and a.group(1) in AGG:
                    T['fn'].append((f, '(FList A%s false)' % a.group(1))); continue
                if 'zero' in shapes:
                    a = re.fullmatch(r'\{letargs=self\.function_arguments\(\)\?;ifargs\.is_empty\(\)\{' + re.escape(shapes['zero']) + r'\}else\{Node::(\w+)\(Arc::new\(args\)\)\}\}', ft)
                    if a and a.group(1) in AGG:
                        T['fn'].append((f, '(FList A%s true)' % a.group(1)))
                        T['zero'] = value_term(ev, 'zero', None) if ev != 'i64' else '0%Z'
                        continue
                notes.append('unrecognised ' + fw); ok = False
        elif pat == '_':
            if not re.fullmatch(r'Err\(ParseError::UnableToParse\("[^"]*"\.to_string\(\),\)\),', nt):
                notes.append('unrecognised ' + where); ok = False
        else:
            notes.append('unrecognised ' + where); ok = False
    lv = set(T.get('neg_levels', []))
    if len(lv) == 1:
        T['neg_level'] = lv.pop()
    else:
        notes.append('unrecognised eval_%s/parser.rs: prefix sign levels %r' % (ev, lv)); ok = False
    # ---- convert_token_to_node
    b = fn_body(src, 'convert_token_to_node')
    m = re.search(r'match self\.current_token(\.clone\(\))? \{', b or '')
    if not m or norm(b[:m.start()]) != '':
        notes.append('unrecognised eval_%s/parser.rs: convert_token_to_node prologue' % ev)
        return None
    body, _ = block_after(b, m.start())
    for pat, text in split_match_arms(body, 12):
        nt = norm(text)
        where = 'eval_%s/parser.rs convert_token_to_node arm %s' % (ev, pat)
        mm = re.fullmatch(r'\{self\.get_next_token\(\)\?;letright_expr=self\.generate_ast\(OperatorCategory::(\w+)\)\?;Ok\(Node::(\w+)\(Box::new\(left_expr\),Box::new\(right_expr\)\)\)\}', nt)
        pm = re.fullmatch(r'Token::(\w+)', pat)
        if mm and pm and mm.group(2) in BIN and mm.group(1) in CAT_LEVEL and pm.group(1) in KINDS:
            T['infix'].append(('K' + pm.group(1), 'B' + mm.group(2), mm.group(1)))
            continue
        if pat == 'Token::ExclamationMark' and nt == '{self.get_next_token()?;self.implicit_multiply(Node::Factorial(Box::new(left_expr)))}':
            T['bang'] = True
            continue
        if pat in ('Token::DegToRad', 'Token::RadToDeg') and 'post' in shapes:
            mm = re.fullmatch(r'\{self\.get_next_token\(\)\?;' + shapes['post'] + r'\}', nt)
            if mm:
                T['post'].append(('K' + pat[7:], value_term(ev, 'lit', mm.group(1))))
                continue
        if pat == 'Token::Superscript(script)' and nt == '{self.get_next_token()?;' + shapes['sup'] + '}':
            T['sup'] = True
            continue
        if pat == '_' and re.fullmatch(r'Err\(ParseError::InvalidOperator\(format!\("[^"]*",self\.current_token\)\)\),', nt):
            continue
        notes.append('unrecognised ' + where); ok = False
    return T if ok else None

# ----------------------------------------------------------------------------- lib.rs / Cargo.toml / statics
EXPECTED_DEPS = {'num-complex': '{version="0.4",optional=true}',
                 'rust_decimal': '{version="1.35",default-features=false,features=["maths"],optional=true}'}

def translate_features(repo, notes):
    cargo = open(os.path.join(repo, 'Cargo.toml')).read()
    lib = read_rs(os.path.join(repo, 'src', 'lib.rs'))
    feats = {}
    m = re.search(r'\[features\]\n(.*?)(\n\[|\Z)', cargo, re.S)
    for ln in m.group(1).split('\n'):
        ln = ln.strip()
        mm = re.fullmatch(r'(\w+)\s*=\s*\[(.*)\]', ln)
        if mm:
            feats[mm.group(1)] = [x.strip().strip('"') for x in mm.group(2).split(',') if x.strip()]
    # the external numeric libraries are oracles of the model: their identity (crate, version requirement, feature set) is
    # part of the trusted base, so a changed dependency specification is a changed tie (rust_decimal's `legacy-ops`
    # feature, for instance, swaps the algorithms behind checked_add / rem / div)
    m = re.search(r'\[dependencies\]\n(.*?)(\n\[|\Z)', cargo, re.S)
    deps = {}
    for ln in (m.group(1) if m else '').split('\n'):
        ln = ln.split('#')[0].strip()
        mm = re.fullmatch(r'([\w-]+)\s*=\s*(.+)', ln)
        if mm:
            deps[mm.group(1)] = re.sub(r'\s+', '', mm.group(2))
    if deps != EXPECTED_DEPS:
        notes.append('unrecognised Cargo.toml [dependencies]: %r (recorded: %r)' % (deps, EXPECTED_DEPS))
    items = []   # (kind, name, cfg-features(list, any), )
    pend = None
    lines = lib.split('\n')
    i = 0
    while i < len(lines):
        ln = lines[i].strip()
        mm = re.fullmatch(r'#\[cfg\(feature = "(\w+)"\)\]', ln)
        if mm:
            pend = [mm.group(1)]
        elif ln.startswith('#[cfg(any('):
            fs = []
            while not lines[i].strip().endswith('))]'):
                i += 1
                fs += re.findall(r'feature = "(\w+)"', lines[i])
            fs += re.findall(r'feature = "(\w+)"', ln)
            pend = fs
        else:
            mm = re.fullmatch(r'(pub )?mod (\w+);', ln)
            if mm:
                items.append(('mod', mm.group(2), pend, bool(mm.group(1))))
                pend = None
            mm = re.fullmatch(r'pub use (\w+)::(\{.*\}|\w+);', ln)
            if mm:
                names = re.findall(r'\w+', mm.group(2))
                for n in names:
                    items.append(('use', mm.group(1) + '::' + n, pend, True))
                pend = None
        i += 1
    return feats, items

STATIC_PATTERNS = [r'\bstatic\b', r'thread_local!', r'lazy_static', r'\bOnceCell\b', r'\bOnceLock\b', r'\bLazyLock\b',
                   r'\bCell<', r'\bRefCell<', r'\bMutex<', r'\bRwLock<', r'\bAtomic[A-Z]\w*', r'\bunsafe\b',
                   r'\bstd::env\b', r'\bstd::fs\b', r'\bSystemTime\b', r'\bInstant\b', r'\brand\b']

def evaluator_hashes(repo):
    """normalised text (comments, white space, test modules and verification hooks removed) of the hand-modelled evaluator
    sources: ast.rs of each evaluator and eval_number/number.rs"""
    h = {}
    for ev in EVS:
        p = os.path.join(repo, 'src', 'eval_' + ev, 'ast.rs')
        h['eval_%s/ast.rs' % ev] = hashlib.sha256(norm(strip_hooks(non_test(read_rs(p)))).encode()).hexdigest()
    p = os.path.join(repo, 'src', 'eval_number', 'number.rs')
    h['eval_number/number.rs'] = hashlib.sha256(norm(strip_hooks(non_test(read_rs(p)))).encode()).hexdigest()
    return h

def evaluator_arms(repo):
    """per evaluator: hash of every arm of the `match` in ast.rs `eval` (keyed by the node constructor), hash of everything
    else in the file ('_other'), and the numeric literals the file mentions: a changed evaluator is localised to the
    constructs it touches, which is where the search for a failing input concentrates"""
    out = {}
    files = [(ev, os.path.join(repo, 'src', 'eval_' + ev, 'ast.rs')) for ev in EVS] + [('number.rs', os.path.join(repo, 'src', 'eval_number', 'number.rs'))]
    for ev, p in files:
        src = strip_hooks(non_test(read_rs(p)))
        arms, other, raw = {}, src, {}
        body = fn_body(src, 'eval') if ev != 'number.rs' else None
        if body:
            other = src.replace(body, '', 1)
            m = re.search(r'\bmatch\s+expr\s*\{', body)
            if m:
                mb, mend = block_after(body, m.start())
                other += body[:m.start()] + body[mend:]
                for pat, b in split_match_arms(mb):
                    k = re.match(r'\w+', pat)
                    k = k.group(0) if k else pat
                    arms[k] = arms.get(k, '') + norm(pat + '=>' + b)
                    raw[k] = raw.get(k, '') + ' ' + b
            else:
                other = src
        lits = sorted(set(x.replace('_', '') for x in re.findall(r'(?<![\w.])\d[\d_]*(?:\.\d[\d_]*)?(?:e-?\d+)?', src)))
        # helper functions outside `eval` (gamma, compare, gcd ...): their text, and which arms mention them (transitively)
        helpers = {}
        for m in re.finditer(r'\bfn\s+(\w+)\s*[(<]', other):
            hb = fn_body(other, m.group(1))
            if m.group(1) != 'eval' and hb is not None:
                helpers[m.group(1)] = hb
        uses = {}
        for k, v in raw.items():
            seen, todo = set(), [h for h in helpers if re.search(r'\b%s\b' % re.escape(h), v)]
            while todo:
                h = todo.pop()
                if h in seen:
                    continue
                seen.add(h)
                todo += [g for g in helpers if g not in seen and re.search(r'\b%s\b' % re.escape(g), helpers[h])]
            if seen:
                uses[k] = sorted(seen)
        out[ev] = {'arms': {k: hashlib.sha256(v.encode()).hexdigest()[:16] for k, v in arms.items()},
                   'other': hashlib.sha256(norm(other).encode()).hexdigest()[:16], 'literals': lits,
                   'helpers': {h: hashlib.sha256(norm(t).encode()).hexdigest()[:16] for h, t in helpers.items()}, 'uses': uses}
    # numeric literals of every other source file (lexer, parser, utils, entry points): a new constant is a hint for the search
    for root, _, fs in os.walk(os.path.join(repo, 'src')):
        for f in sorted(fs):
            rel = os.path.relpath(os.path.join(root, f), os.path.join(repo, 'src'))
            if not f.endswith('.rs') or rel == 'verif_hooks.rs' or f == 'ast.rs' or rel == 'eval_number/number.rs':
                continue
            src = strip_hooks(non_test(read_rs(os.path.join(root, f))))
            out['src/' + rel] = {'arms': {}, 'other': '', 'literals': sorted(set(x.replace('_', '') for x in re.findall(r'(?<![\w.])\d[\d_]*(?:\.\d[\d_]*)?(?:e-?\d+)?', src)))}
    return out

def cfg_sites(repo):
    """every conditional-compilation expression of the crate (#[cfg(..)], #[cfg_attr(..)], cfg!(..)) per source file, hook lines
    excluded: behaviour can differ between feature subsets only through these"""
    out = {}
    for root, _, fs in os.walk(os.path.join(repo, 'src')):
        for f in sorted(fs):
            rel = os.path.relpath(os.path.join(root, f), os.path.join(repo, 'src'))
            if not f.endswith('.rs') or rel == 'verif_hooks.rs':
                continue
            src = strip_hooks(read_rs(os.path.join(root, f)))
            found = []
            for m in re.finditer(r'cfg(?:_attr)?\s*!?\s*\(', src):
                try:
                    depth, j = 0, m.end() - 1
                    while j < len(src):
                        if src[j] == '(':
                            depth += 1
                        elif src[j] == ')':
                            depth -= 1
                            if depth == 0:
                                break
                        j += 1
                    found.append(norm(src[m.start():j + 1]))
                except Exception:
                    pass
            if found:
                out[rel] = sorted(found)
    return out

def scan_statics(repo):
    found = []
    for root, _, files in os.walk(os.path.join(repo, 'src')):
        for f in sorted(files):
            if not f.endswith('.rs'):
                continue
            p = os.path.join(root, f)
            rel = os.path.relpath(p, repo)
            if rel == 'src/verif_hooks.rs':
                continue      # compiled only with the verification feature
            src = strip_hooks(non_test(read_rs(p)))
            # drop comments
            src = re.sub(r'//.*', '', src)
            for i, ln in enumerate(src.split('\n'), 1):
                for pat in STATIC_PATTERNS:
                    if re.search(pat, ln):
                        found.append((rel, i, ln.strip()))
                        break
    return found

# ----------------------------------------------------------------------------- emit
VTYPE = {'f64': 'f64', 'i64': 'Z', 'decimal': 'dec', 'complex': 'cpx', 'number': 'number'}

def emit_lextab(ev, t, sup):
    rows_s = []
    for c, rows, default in t['arms']:
        rs = coq_list(['{| r_take := %d; r_look := %s; r_drop := %d; r_kind := %s |}' % (tk, coq_str(look), dr, kd)
                       for tk, look, dr, kd in rows])
        rows_s.append('{| a_char := %d; a_rows := %s; a_default := %s |}' % (
            ord(c), rs, ('Some ' + default) if default else 'None'))
    return ('Definition lt_%s : lextab := {|\n  lt_arms := [\n    %s ];\n  lt_sup := %s;\n  lt_sup_arms := %s;\n'
            '  lt_dot := %s;\n  lt_mode := %s;\n  lt_imag_suffix := %s;\n  lt_imag_unit := %s |}.\n') % (
        ev, ';\n    '.join(rows_s),
        coq_list(['(%d, %d)' % (ord(a), ord(b)) for a, b in sup]),
        coq_list([str(ord(c)) for c in t['sup_arms']]),
        'true' if t['dot'] else 'false', t['mode'],
        'true' if t['imag_suffix'] else 'false', 'true' if t['imag_unit'] else 'false')

def emit_ptab(ev, T, prec):
    ptable, variants, fns = prec
    V = VTYPE[ev]
    def kmatch(pairs, default, ret=None):
        s = 'fun k => match k with'
        for k, v in pairs:
            s += ' | %s => %s' % (k, v)
        return s + ' | _ => %s end' % default
    prec_pairs = []
    for name, cat in ptable.items():
        if name == '_':
            continue
        if name == 'ExplicitFunction':
            prec_pairs.append(('KFunc _', '%d%%nat' % CAT_LEVEL[cat]))
        elif name == 'Superscript':
            prec_pairs.append(('KSuperscript', '%d%%nat' % CAT_LEVEL[cat]))
        elif name == 'Num':
            prec_pairs.append(('KNum', '%d%%nat' % CAT_LEVEL[cat]))
        else:
            prec_pairs.append(('K' + name, '%d%%nat' % CAT_LEVEL[cat]))
    default_prec = '%d%%nat' % CAT_LEVEL[ptable.get('_', 'DefaultZero')]
    trig_pairs = []
    for t in T['trigger']:
        trig_pairs.append(('KFunc _' if t == 'FUNC' else t, 'true'))
    fn_pairs = [('F' + f, 'Some ' + sp) for f, sp in T['fn']]
    zero = T['zero'] if T['zero'] is not None else {'f64': '(f64_of_bits 0)', 'i64': '0%Z', 'decimal': '(Build_dec false 0 0)',
                                                     'complex': '((f64_of_bits 0), (f64_of_bits 0))', 'number': '(Int 0)'}[ev]
    s = 'Definition pt_%s : ptab %s := {|\n' % (ev, V)
    s += '  pt_prec := %s;\n' % kmatch(prec_pairs, default_prec)
    s += '  pt_infix := %s;\n' % kmatch([(k, 'Some (%s, %d%%nat)' % (b, CAT_LEVEL[c])) for k, b, c in T['infix']], 'None')
    s += '  pt_fn := fun f => match f with %s | _ => None end;\n' % ' '.join('| %s => %s' % p for p in fn_pairs) if fn_pairs else '  pt_fn := fun _ => None;\n'
    s += '  pt_trigger := %s;\n' % kmatch(trig_pairs, 'false')
    s += '  pt_bang := %s;\n' % ('true' if T['bang'] else 'false')
    s += '  pt_postconst := %s;\n' % kmatch([(k, 'Some ' + v) for k, v in T['post']], 'None')
    s += '  pt_sup := %s;\n' % ('true' if T['sup'] else 'false')
    s += '  pt_const := %s;\n' % kmatch([(k, 'Some ' + v) for k, v in T['const']], 'None')
    s += '  pt_open := %s;\n' % kmatch([(k, 'Some (%s, %s)' % (c, w)) for k, c, w in T['open']], 'None')
    s += '  pt_neg := %s;\n  pt_pos := %s;\n  pt_ans := %s;\n' % tuple('true' if T[x] else 'false' for x in ('neg', 'pos', 'ans'))
    s += '  pt_neg_level := %d%%nat;\n  pt_impl_level := %d%%nat;\n' % (CAT_LEVEL[T['neg_level']], CAT_LEVEL[T['impl_level']])
    s += '  pt_zero := %s;\n' % zero
    s += '  pt_numnum := %s |}.\n' % ('true' if T.get('numnum', True) else 'false')
    s += 'Definition vocab_%s : list kind := %s.\n' % (ev, coq_list(
        [('K' + v) for v in variants if v in KINDS] + ['KSuperscript' for v in variants if v == 'Superscript'] +
        ['KNum' for v in variants if v == 'Num'] + ['KFunc F' + f for f in fns if f in FN]))
    return s

def main():
    ap = argparse.ArgumentParser()
    ap.add_argument('--repo', default='/repo')
    ap.add_argument('--out', required=True)
    ap.add_argument('--report', required=True)
    ap.add_argument('--fallback', default=os.path.join(os.path.dirname(os.path.abspath(__file__)), 'Tables.committed.v'))
    ap.add_argument('--shape', default=os.path.join(os.path.dirname(os.path.abspath(__file__)), 'engine_shape.json'))
    ap.add_argument('--write-shape', action='store_true', help='record the engine function hashes of the current tree')
    a = ap.parse_args()
    global ENGINE_HASHES, DESER_HASH
    shape = {}
    if os.path.exists(a.shape):
        shape = json.load(open(a.shape))
    ENGINE_HASHES = shape.get('engine', {})
    DESER_HASH = shape.get('deser', '')
    if a.write_shape:
        eng = {}
        for ev in EVS:
            src = strip_hooks(non_test(read_rs(os.path.join(a.repo, 'src', 'eval_' + ev, 'parser.rs'))))
            eng[ev] = {f: hashlib.sha256(norm(fn_body(src, f) or '').encode()).hexdigest() for f in ENGINE_FNS}
        mods = {}
        for ev in EVS:
            ms = strip_hooks(read_rs(os.path.join(a.repo, 'src', 'eval_' + ev, 'mod.rs')))
            mods[ev] = hashlib.sha256(norm(fn_body(ms, 'eval_' + ev) or '').encode()).hexdigest()
        ds = read_rs(os.path.join(a.repo, 'src', 'utils', 'deserialize_superscript_number.rs'))
        json.dump({'engine': eng, 'mods': mods, 'deser': hashlib.sha256(norm(ds).encode()).hexdigest(),
                   'evaluators': evaluator_hashes(a.repo), 'evaluator_arms': evaluator_arms(a.repo), 'cfg_sites': cfg_sites(a.repo)}, open(a.shape, 'w'), indent=1)
        print('wrote', a.shape)
        return
    notes = []
    report = {'evaluators': {}, 'notes': notes}
    out = ['(* GENERATED by tools/translate.py from /repo -- do not edit *)',
           'From Coq Require Import List ZArith NArith Bool.',
           'From SC Require Import Base.F64 Base.Dec Base.Num Base.Oracle Lang.Syntax Lang.Lexer Lang.Parser.',
           'Import ListNotations.', 'Local Open Scope N_scope.', '']
    cur = evaluator_hashes(a.repo)
    report['evaluator_sources_changed'] = sorted(k for k, v in cur.items() if shape.get('evaluators', {}).get(k) != v)
    try:
        ca, ra = evaluator_arms(a.repo), shape.get('evaluator_arms', {})
        loc = {}
        for ev, cur_ev in ca.items():
            rec = ra.get(ev, {'arms': {}, 'other': None, 'literals': []})
            ch = sorted(k for k in set(cur_ev['arms']) | set(rec['arms']) if cur_ev['arms'].get(k) != rec['arms'].get(k))
            # arms that reach a changed (or new) helper count as changed
            hch = set(h for h in set(cur_ev.get('helpers', {})) | set(rec.get('helpers', {})) if cur_ev.get('helpers', {}).get(h) != rec.get('helpers', {}).get(h))
            if hch and 'helpers' in rec:
                ch = sorted(set(ch) | set(k for k, hs in cur_ev.get('uses', {}).items() if hch & set(hs)))
            newl = [x for x in cur_ev['literals'] if x not in rec['literals']]
            if ch or (cur_ev['other'] != rec['other'] and not ev.startswith('src/')) or newl:
                loc[ev] = {'arms': ch, 'other_changed': cur_ev['other'] != rec['other'], 'new_literals': newl}
        report['evaluator_changes'] = loc
    except Exception as e:      # localisation is a search aid only
        report['evaluator_changes'] = {'error': str(e)}
    try:
        cur_cfg, rec_cfg = cfg_sites(a.repo), shape.get('cfg_sites', None)
        report['cfg_sites_changed'] = [] if rec_cfg is None else sorted(k for k in set(cur_cfg) | set(rec_cfg) if cur_cfg.get(k) != rec_cfg.get(k))
    except Exception as e:
        report['cfg_sites_changed'] = ['error: ' + str(e)]
    sup = translate_sup_map(a.repo, notes)
    cats = translate_categories(a.repo, notes)
    if cats is not None:
        out.append('(* utils/operator_category.rs, in declaration order, with the feature that gates each variant *)')
        out.append('Definition cat_order : list (N * option N) := %s.' % coq_list(
            ['(%d, %s)' % (CAT_LEVEL[c], 'None' if f is None else 'Some %d' % EVS.index(f[5:])) for c, f in cats]))
        out.append('')
    report['categories'] = cats
    for ev in EVS:
        n0 = len(notes)
        lt = translate_tokenizer(ev, a.repo, notes) if sup is not None else None
        pr = translate_prec(ev, a.repo, notes)
        pt = translate_parser(ev, a.repo, notes)
        ms = strip_hooks(read_rs(os.path.join(a.repo, 'src', 'eval_' + ev, 'mod.rs')))
        mod_ok = hashlib.sha256(norm(fn_body(ms, 'eval_' + ev) or '').encode()).hexdigest() == shape.get('mods', {}).get(ev)
        good = lt is not None and pr is not None and pt is not None and cats is not None
        report['evaluators'][ev] = {'regenerated': good, 'engine_changed': (pt or {}).get('engine_changed', None),
                                    'entry_point_shape_ok': mod_ok,
                                    'rows': sum(len(r) for _, r, _ in lt['arms']) if lt else None,
                                    'notes': notes[n0:]}
        if not good and a.fallback and os.path.exists(a.fallback):
            fb = open(a.fallback).read()
            mfb = re.search(r'\(\* ---- eval_%s ---- \*\)\n(.*?)(?=\(\* ---- )' % ev, fb, re.S)
            if mfb:
                out.append('(* ---- eval_%s ---- *)' % ev)
                out.append('(* NOT regenerated: committed copy (see translate report) *)')
                out.append(mfb.group(1))
                report['evaluators'][ev]['fallback'] = True
        if good:
            out.append('(* ---- eval_%s ---- *)' % ev)
            out.append(emit_lextab(ev, lt, sup))
            out.append(emit_ptab(ev, pt, pr))
            out.append('Definition engine_shape_ok_%s : bool := %s.' % (ev, 'true' if not pt['engine_changed'] and mod_ok else 'false'))
            out.append('')
    feats, items = translate_features(a.repo, notes)
    report['features'] = feats
    report['lib_items'] = items
    statics = scan_statics(a.repo)
    report['statics'] = statics
    fidx = {('eval_' + e): i for i, e in enumerate(EVS)}
    out.append('(* ---- Cargo.toml [features] and src/lib.rs ---- *)')
    out.append('(* features are numbered f64=0 i64=1 decimal=2 complex=3 number=4 *)')
    def cfgl(c):
        return 'None' if c is None else 'Some ' + coq_list([str(fidx[x]) for x in c if x in fidx])
    out.append('Definition lib_mods : list (list N * option (list N)) := %s.' % coq_list(
        ['(%s, %s)' % (coq_str(n), cfgl(c)) for k, n, c, p in items if k == 'mod' and n != 'verif_hooks']))
    out.append('Definition lib_uses : list (list N * list N * option (list N)) := %s.' % coq_list(
        ['(%s, %s, %s)' % (coq_str(n.split('::')[0]), coq_str(n.split('::')[1]), cfgl(c)) for k, n, c, p in items if k == 'use']))
    out.append('Definition feature_deps : list (N * list (list N)) := %s.' % coq_list(
        ['(%d, %s)' % (fidx[f], coq_list([coq_str(d) for d in deps])) for f, deps in feats.items() if f in fidx]))
    out.append('Definition default_features : list N := %s.' % coq_list([str(fidx[f]) for f in feats.get('default', []) if f in fidx]))
    out.append('')
    out.append('(* ---- whole-crate scan for state: statics, interior mutability, unsafe, environment ---- *)')
    out.append('Definition stateful_items : list (list N) := %s.' % coq_list([coq_str('%s:%d' % (f, l)) for f, l, _ in statics]))
    os.makedirs(os.path.dirname(a.out), exist_ok=True)
    open(a.out, 'w').write('\n'.join(out) + '\n')
    os.makedirs(os.path.dirname(a.report), exist_ok=True)
    json.dump(report, open(a.report, 'w'), indent=1, default=str)
    bad = [e for e in EVS if not report['evaluators'][e]['regenerated']]
    for n in notes:
        print('translate:', n)
    print('translate: regenerated %d/5 evaluator table sets%s' % (5 - len(bad), (' (not: ' + ','.join(bad) + ')') if bad else ''))

if __name__ == '__main__':
    main()
