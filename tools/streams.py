#!/usr/bin/env python3
"""Per-property correspondence streams, judges and the violation search."""
import itertools, json, math, os, re, struct, sys
from fractions import Fraction
import vlib, gen
from gen import enc, f2w, w2f, EVS, ExprGen, default_ph

TRUSTED_BASE = [
    'Coq 8.16.1 kernel (coqc, full .vo builds; vm_compute used inside proofs; no native_compute)',
    'Flocq 4.1.0 (IEEE-754 model) and the Coq standard library',
    'tools/translate.py (Rust source -> Gallina tables), cross-checked by the token/AST correspondence levels',
    'extraction to OCaml with ExtrOcamlBasic only (no Extract Constant / Extract Inductive of our own), driver/main.ml, OCaml 4.13.1',
    'correspondence harness: harness/src/bin/impl_runner.rs, primsrv.rs (oracle for libm / rust_decimal / num_complex), tools/*.py',
    'rustc 1.95.0 / cargo, Rust std, glibc libm, rust_decimal 1.43, num-complex 0.4.6: modelled or used as oracles, not verified',
]

def dec_expr(x):
    if x in ('', '-'):
        return ''
    return ''.join(chr(int(p, 16)) for p in x.split('.'))

def case(ev, mode, ph, expr):
    return (ev, mode, ph if ph is not None else default_ph(ev), enc(expr))

BUDGET = lambda n: 4096 + 256 * n

# ============================================================================ streams
def s_tokseq(tier, rng, evs=EVS, mode='eval', qlen=3, tlen=4, small=True):
    out = []
    n = qlen if tier == 'quick' else tlen
    for ev in evs:
        for s in gen.token_sequences(ev, n, small=small):
            out.append(case(ev, mode, None, s))
    return out

def s_tokseq_full(tier, rng, evs=EVS, mode='eval'):
    """every token of the full alphabet in sequences of length <= 2 (3 thorough)"""
    out = []
    n = 2 if tier == 'quick' else 3
    for ev in evs:
        for s in gen.token_sequences(ev, n, small=False):
            out.append(case(ev, mode, None, s))
    return out

LEX_ALPHA = list('1.e!(-i') + ['p', '²', 'r', 'a', 'd', 'w', ' ', '<']
def s_chars(tier, rng, evs=EVS, mode='eval'):
    out = []
    n = 3 if tier == 'quick' else 4
    alpha = LEX_ALPHA if tier == 'quick' else LEX_ALPHA + list('s@')
    for ev in evs:
        for s in gen.short_strings(alpha, n):
            out.append(case(ev, mode, None, s))
    return out

def s_nearmiss_chars(tier, rng, evs=EVS):
    """code points next to the ones of the alphabet (the gaps of the superscript block U+2071..U+2073, U+207A.., Latin-1
       neighbours of ¹ ² ³ °, full-width and other decimal digits, look-alike brackets and operators), in the positions
       where a lexer scans on: after a digit, after a superscript digit, alone, inside a name"""
    exotic = [0x2071, 0x2072, 0x2073, 0x207A, 0x207B, 0x207C, 0x207D, 0x207E, 0x207F, 0x2080, 0x2081, 0x2089, 0x00B1, 0x00B4, 0x00B8, 0x00BA, 0x00BB,
              0x00AA, 0x00AF, 0x2030, 0x2032, 0x03C0 - 1, 0x03C0 + 1, 0x03A0, 0x0660, 0x0661, 0x0969, 0xFF10, 0xFF11, 0xFF19, 0xFF08, 0xFF09, 0xFF0B,
              0x2212, 0x00D7, 0x00F7, 0x2044, 0x2308 - 1, 0x230B + 1, 0x2309, 0x230A, 0x2070 - 1, 0x2079 + 1, 0x1D7CF, 0x00B2 - 1, 0x00B3 + 1, 0x00B9 - 1, 0x00B9 + 1,
              0x40 - 1, 0x40 + 1, 0x69 + 1, 0x2E - 1, 0x2C - 1, 0x5E - 1, 0x5E + 1, 0x7C + 1, 0x26 - 1, 0x3C - 1, 0x3E + 1, 0x21 - 1, 0x25 - 1, 0x25 + 1, 0x130, 0x131]
    # control characters that are not White_Space (C0 except TAB..CR, DEL, C1 except NEL), soft hyphen, format characters
    exotic += [c for c in range(0, 0x20) if not 9 <= c <= 13] + [0x7F, 0x80, 0x84, 0x86, 0x9F, 0xAD, 0x200B, 0x200E, 0x2060, 0xFEFF, 0xE0020]
    ctx = ['%s', '2%s', '2²%s', '2%s²', '2⁰%s', '(1+1)¹%s+1', '%s2', '2+%s', '2%s3', 's%sin(1)', 'sin(1%s)', '2³%s²', '@%s', '2.%s5']
    out = []
    for ev in evs:
        for cp in exotic:
            for c in ctx:
                out.append(case(ev, 'eval', None, c % chr(cp)))
            out.append(case(ev, 'tokens', None, '2²' + chr(cp)))
    return out

def s_keywords(tier, rng, evs=EVS, mode='tokens'):
    """every keyword of the union vocabulary in every evaluator, alone, followed by each first-character class,
       and with one character deleted / replaced (near misses)"""
    out = []
    names = gen.ALL_NAMES + ['pi', 'e', 'rad', 'π', 'atan2', 'lambert_w', 'median', 'truncate', 'signum']
    follow = ['', '1', '(', ')', 'a', 's', ' ', '.', '²', ',']
    for ev in evs:
        for nm in sorted(set(names)):
            for f in follow:
                out.append(case(ev, mode, None, nm + '(' + f))
                out.append(case(ev, mode, None, nm + f))
            for i in range(len(nm)):
                out.append(case(ev, mode, None, nm[:i] + nm[i + 1:] + '(1)'))
                out.append(case(ev, mode, None, nm[:i] + 'x' + nm[i + 1:] + '(1)'))
            out.append(case(ev, mode, None, nm + 'x(1)'))
            # a letter replaced by a character whose code point is congruent to it modulo 256 / 65536 (truncating casts)
            if nm.isascii():
                for i in range(len(nm)):
                    for off in (0x100, 0x200, 0x400, 0x2000, 0x10000):
                        out.append(case(ev, 'eval', None, nm[:i] + chr(ord(nm[i]) + off) + nm[i + 1:] + '(1)'))
                for off in (0x100, 0x2000):
                    out.append(case(ev, 'eval', None, nm + chr(ord('(') + off) + '1)'))
            out.append(case(ev, 'eval', None, nm.upper() + '(1)'))
            out.append(case(ev, 'eval', None, nm.capitalize() + '(1)'))
            out.append(case(ev, 'eval', None, nm + '(1)'))
            out.append(case(ev, 'eval', None, nm + '(1,2)'))
            out.append(case(ev, 'eval', None, nm + '()'))
            out.append(case(ev, 'eval', None, nm + '(1,2,3)'))
    return out

def s_wf(tier, rng, evs=EVS, mode='eval', nq=300, nt=3000, depth=4, phs=True, **kw):
    out = []
    n = nq if tier == 'quick' else nt
    for ev in evs:
        g = ExprGen(rng, ev, **kw)
        pool = gen.ph_pool(ev)
        for i in range(n):
            e = g.expr(1 + rng.below(depth))
            ph = rng.choice(pool) if phs else None
            out.append(case(ev, mode, ph, e))
    return out

def s_mut(tier, rng, evs=EVS, mode='eval', nq=300, nt=3000, **kw):
    out = []
    n = nq if tier == 'quick' else nt
    for ev in evs:
        g = ExprGen(rng, ev, **kw)
        for i in range(n):
            e = g.expr(1 + rng.below(3))
            for _ in range(1 + rng.below(2)):
                e = gen.mutate(rng, e)
            out.append(case(ev, mode, rng.choice(gen.ph_pool(ev)), e))
    return out

def s_badlits(tier, rng, evs=EVS, mode='eval'):
    lits = ['1.2.3', '1..', '1..2', '..1', '.', '1.', '.5', '99999999999999999999', '9223372036854775807', '9223372036854775808',
            '18446744073709551616', '1' * 30, '1' * 40 + '.5', '0.' + '1' * 40, '²' * 25, '2' + '⁹' * 20, '1.5²', '1e5', '1.e', '0x10',
            '00012', '0.50', '1.2.', '79228162514264337593543950335', '79228162514264337593543950336', '1i', '1.5i', '.5i', 'i', 'ii', '2ii',
            '1.2.3i', '1 2', '1.2 .3', '1_000', '１', '٣', '1' * 200, '0.' + '0' * 200 + '1', '9' * 400,
            # texts that std's own parsers accept (a whole-input `str::parse` fast path would let them through)
            'inf', 'infinity', 'Infinity', 'nan', 'NaN', '1E5', '1e-5', '1e+5', '5e', 'e5', '+5', '+.5', '5.e1', '0b11', '0o7', '1f64', '1i64',
            '9223372036854775807', '09223372036854775808', '0009223372036854775808', '-0', '1,5', '1;5', "1'000",
            # two literal tokens in a row (a dot-led literal after a literal): not a product
            '.5.25', '.1.2', '.5.5', '.5.50', '.25.5', '2.5.25', '1..25', '.5.25.125', '.5i.25', '2i.5']
    out = []
    for ev in evs:
        for l in lits:
            for pat in ['%s', '-%s', '%s+1', '(%s)', 'abs(%s)', '2^%s', '%s!']:
                out.append(case(ev, mode, None, pat % l))
    return out

def s_aggfail(tier, rng, evs=('f64', 'i64', 'decimal', 'number'), mode='eval'):
    out = []
    bad = {'f64': ['w(-1)', '0/0', '1/0', '-1/0'], 'i64': ['1/0', '9223372036854775807+1', '21!', '1<<64'],
           'decimal': ['1/0', 'w(-1)', 'ln(0)', '28!', '79228162514264337593543950335+1'],
           'number': ['w(-1)', '0/0', '1/0', '1%0']}
    for ev in evs:
        for f in gen.FV[ev]:
            for b in bad[ev]:
                for args in (['%s'], ['1', '%s'], ['%s', '1'], ['1', '%s', '2'], ['2', '1', '%s'], ['%s', '%s']):
                    out.append(case(ev, mode, None, f + '(' + ','.join(a % b if '%s' in a else a for a in args) + ')'))
    return out

def s_loops(tier, rng, evs=EVS, mode='eval'):
    out = []
    big = {'f64': ['170', '171', '1000000000000000000', '1/0', '-1/0', '0/0', '0', '1', '-1', '0.5', '1.1', '2', '1.4', '1.45', '1e', '@',
                   '179769313486231570000000000000000000000000000000000000000000000000000000000000000000000000000000000000000000000000000000000000000000000000000000000000000000000000000000000000000000000000000000000000000000000000000000000000000000000000000000000000000000000000000000000000000000000000000000000000000000000000000', '0.0000001', '100', '5'],
           'i64': ['20', '21', '9223372036854775807', '0', '1', '-1', '2', '63', '64', '4611686018427387904', '-9223372036854775807-1', '@', '3037000500', '7540113804746346429', '4660046610375530309'],
           'decimal': ['27', '28', '1000000000000000000', '0', '1', '-1', '0.5', '1.1', '2', '1.4', '1.45', '79228162514264337593543950335', '0.0000000000000000000000000001', '@', '100', '5'],
           }
    big['number'] = big['f64'] + ['20', '21', '9223372036854775807']
    big['complex'] = ['1', '2i', '0', '1/0']
    for ev in evs:
        L = [x for x in big[ev] if x != '1e']
        for a in L:
            if gen.HAS_BANG[ev]:
                out += [case(ev, mode, p, a + '!') for p in gen.ph_pool(ev)[:12]]
                out.append(case(ev, mode, None, '(' + a + ')!!'))
                out.append(case(ev, mode, None, '-(' + a + ')!'))
            if 'w' in gen.F1[ev]:
                out += [case(ev, mode, p, 'w(' + a + ')') for p in gen.ph_pool(ev)[:12]]
                out.append(case(ev, mode, None, 'w(-(' + a + '))'))
            for b in L:
                if 'ilog' in gen.F2[ev]:
                    out.append(case(ev, mode, gen.ph_pool(ev)[rng.below(8)], 'ilog(' + a + ',' + b + ')'))
                if 'gcd' in gen.FV[ev]:
                    out.append(case(ev, mode, None, 'gcd(' + a + ',' + b + ')'))
                    out.append(case(ev, mode, None, 'lcm(' + a + ',' + b + ')'))
                    out.append(case(ev, mode, None, 'gcd(-(' + a + '),' + b + ',' + a + ')'))
        # long inputs close to the 256-character bound
        if gen.HAS_BANG[ev]:
            out.append(case(ev, mode, None, '+'.join(['170!'] * 51)))
            out.append(case(ev, mode, None, '+'.join(['20!'] * 64)))
            out.append(case(ev, mode, None, '5' + '!' * 250))
        out.append(case(ev, mode, None, '(' * 127 + '1' + ')' * 127))
        out.append(case(ev, mode, None, '-' * 255 + '1'))
        out.append(case(ev, mode, None, '1' + '+1' * 127))
        out.append(case(ev, mode, None, '2' + '^2' * 127))
        if 'w' in gen.F1[ev]:
            out.append(case(ev, mode, None, '+'.join(['w(9)'] * 51)))
    return out

# ============================================================================ generic comparison
def compare(cases, impl, model):
    dis = []
    for i, (c, x, y) in enumerate(zip(cases, impl, model)):
        if vlib.strip_ticks(x) != y:
            dis.append(i)
    return dis

def is_trivial(out):
    return out.startswith('ERR') or out in ('BAD',)

def run_streams(cases, stats, profiles=('debug', 'release'), budget=None):
    cases = list(dict.fromkeys(cases))
    lines = ['\t'.join(c) for c in cases]
    outs = {}
    for p in profiles:
        outs[p] = vlib.run_impl(lines, p, budget=budget)
    model = vlib.run_model(lines)
    stats['evaluations'] = stats.get('evaluations', 0) + len(cases) * (len(profiles) + 1)
    nt = set()
    hist = stats.setdefault('hist', {})
    for c, m in zip(cases, model):
        k = '%s/%s/%s' % (c[0], c[1], vlib.outcome_class(m))
        hist[k] = hist.get(k, 0) + 1
        if not is_trivial(m):
            nt.add(c)
    stats['distinct_nontrivial'] = stats.get('distinct_nontrivial', 0) + len(nt)
    sm = stats.setdefault('samples', [])
    step = max(1, len(cases) // 6)
    for i in range(0, len(cases), step):
        if len(sm) < 40:
            sm.append({'ev': cases[i][0], 'mode': cases[i][1], 'placeholder': cases[i][2], 'expr': dec_expr(cases[i][3]),
                       'impl': outs[profiles[0]][i], 'model': model[i]})
    return cases, outs, model

def std_judge(pid, cases, outs, model, extra=None):
    """disagreement = violation candidate (the model is the specification on in-scope inputs)"""
    res = {'levels': {}, 'disagreements': [], 'violations': []}
    for prof, impl in outs.items():
        byl = {}
        for i, (c, x, y) in enumerate(zip(cases, impl, model)):
            lvl = '%s/%s' % (c[1], prof)
            n, nd = byl.get(lvl, (0, 0))
            bad = vlib.strip_ticks(x) != y
            byl[lvl] = (n + 1, nd + (1 if bad else 0))
            if bad:
                res['disagreements'].append((prof, i))
                res['violations'].append({'kind': 'model-disagreement', 'cases': [list(c)], 'profile': prof,
                                          'observed': x, 'expected': y,
                                          'why': 'implementation (%s build) returns %s where the verified model returns %s' % (prof, vlib.strip_ticks(x), y)})
        for k, v in byl.items():
            a = res['levels'].get(k, (0, 0))
            res['levels'][k] = (a[0] + v[0], a[1] + v[1])
    return res

# ============================================================================ per-property runs
def run_property(pid, tier, rng, stats):
    fn = globals()['run_' + pid]
    return fn(tier, rng, stats)

def merge(a, b):
    for k, v in b['levels'].items():
        x = a['levels'].get(k, (0, 0))
        a['levels'][k] = (x[0] + v[0], x[1] + v[1])
    a['disagreements'] += b['disagreements']
    a['violations'] += b['violations']
    return a

def empty():
    return {'levels': {}, 'disagreements': [], 'violations': []}

def s_oppool(tier, rng, evs=EVS, mode='eval'):
    out = []
    for ev in evs:
        lits = {'i64': ['0', '1', '2', '3', '63', '64', '4294967296', '9223372036854775807'],
                'number': ['0', '1', '2', '3', '0.5', '63', '64', '4294967296', '9223372036854775807', '21'],
                'f64': ['0', '1', '2', '0.5', '170', '171', '1000000000000000000000'],
                'decimal': ['0', '1', '2', '0.5', '28', '79228162514264337593543950335', '0.0000000000000000000000000001'],
                'complex': ['0', '1', '2', '0.5', 'i', '2i']}[ev]
        for ph in gen.ph_pool(ev):
            for op in gen.BINOPS[ev]:
                for y in lits:
                    out.append(case(ev, mode, ph, '@' + op + y))
                    out.append(case(ev, mode, ph, '@' + op + '-' + y))
                    out.append(case(ev, mode, ph, y + op + '@'))
                    out.append(case(ev, mode, ph, '(-' + y + ')' + op + '@'))
                out.append(case(ev, mode, ph, '@' + op + '@'))
                out.append(case(ev, mode, ph, '@' + op + '-@'))
            for f in gen.F1[ev]:
                out.append(case(ev, mode, ph, f + '(@)'))
                out.append(case(ev, mode, ph, f + '(-@)'))
            for pf in (['!'] if gen.HAS_BANG[ev] else []) + gen.POSTFIX5[ev] + ['²', '³']:
                out.append(case(ev, mode, ph, '@' + pf))
                out.append(case(ev, mode, ph, '(-@)' + pf))
            for f in gen.F2[ev]:
                for y in lits[:4]:
                    out.append(case(ev, mode, ph, f + '(@,' + y + ')'))
                    out.append(case(ev, mode, ph, f + '(' + y + ',@)'))
                    out.append(case(ev, mode, ph, f + '(@,-' + y + ')'))
                out.append(case(ev, mode, ph, f + '(@,@)'))
            for f in gen.FV[ev]:
                out.append(case(ev, mode, ph, f + '(@,1,-@)'))
                out.append(case(ev, mode, ph, f + '(@,@)'))
    return out

SPECIALS2 = {
    'f64': ['0', '1', '2', '0.5', '10', '1.0000000000000002', '0.9999999999999999', '0.9999999999999998', '179769313486231570000000000000000000000000000000000000000000000000000000000000000000000000000000000000000000000000000000000000000000000000000000000000000000000000000000000000000000000000000000000000000000000000000000000000000000000000000000000000000000000000000000000000000000000000000000000000000000000000000',
            '0.' + '0' * 307 + '22250738585072014', '0.' + '0' * 323 + '5', '9007199254740993', '1/0', '0/0', '(-0.0)'],
    'i64': ['0', '1', '2', '3', '10', '62', '63', '64', '9223372036854775807', '(-9223372036854775807-1)', '4294967296', '3037000500', '(-1)', '(-2)'],
    'decimal': ['0', '1', '2', '0.5', '10', '1.0000000000000000000000000002', '1.0000000000000000000000000001', '0.9999999999999999999999999995', '0.9999999999999999999999999999',
                '79228162514264337593543950335', '0.0000000000000000000000000001', '100000000000', '(-1)', '(-0)', '28', '0.3333333333333333333333333333'],
    'complex': ['0', '1', '2', 'i', '(-1)', '0.5', '(1+i)', '1.0000000000000002', '(0.9999999999999999i)', '1' + '0' * 200, '0.' + '0' * 200 + '1', '(1/0)'],
}
SPECIALS2['number'] = SPECIALS2['f64'] + ['9223372036854775807', '(-9223372036854775807-1)', '4294967296', '63', '64']

def s_pairs2(tier, rng, evs=EVS, mode='eval'):
    """every binary operator and every two-argument function on ALL pairs of a pool of special values (identity and
       singular points and their neighbours: 0, 1, 1 +- one unit in the last place, the extremes, non-finite values)"""
    out = []
    for ev in evs:
        sp = SPECIALS2[ev]
        for a in sp:
            for b in sp:
                for op in gen.BINOPS[ev]:
                    out.append(case(ev, mode, None, a + op + b))
                for f in gen.F2[ev]:
                    out.append(case(ev, mode, None, f + '(' + a + ',' + b + ')'))
                for f in gen.FV[ev][:4]:
                    out.append(case(ev, mode, None, f + '(' + a + ',' + b + ')'))
    return out

def s_longpad(tier, rng, evs=EVS):
    """long inputs whose byte length sweeps across typical buffer / truncation sizes (16, 32, 64, 128, 255, 256) with
       multi-byte characters at every alignment, ending in each outcome class: Ok, evaluation error, parse error, lexing error"""
    out = []
    for ev in evs:
        heads = {'f64': ['w(-10)', '1', '(1', '1x'], 'number': ['w(-10)', '1', '(1', '1x'], 'i64': ['1/0', '1', '(1', '1x'],
                 'decimal': ['1/0', '1', '(1', '1x'], 'complex': ['1', '(1', '1x']}[ev]
        tails = ['', '+π', '²', '+2²'] + (['+⌊1⌋', '*⌈2⌉'] if gen.HAS_FLOORBR[ev] else []) + (['°'] if gen.POSTFIX5[ev] else [])
        if ev == 'i64':
            tails = ['', '²', '+2²', '+7']
        for h in heads:
            for t in tails:
                for target in (14, 15, 16, 17, 30, 31, 32, 33, 62, 63, 64, 65, 66, 126, 127, 128, 129, 130, 250, 253, 254, 255, 256):
                    for fill in ('+1', '+11'):
                        k = max(0, (target - len((h + t).encode('utf-8'))) // len(fill))
                        e = h + fill * k + t
                        if len(e) <= 256:
                            out.append(case(ev, 'eval', None, e))
                        # the multi-byte character in the middle as well
                        e2 = h + fill * (k // 2) + t + fill * (k - k // 2)
                        if len(e2) <= 256 and t:
                            out.append(case(ev, 'eval', None, e2))
    return out

def longlit_runs():
    """digit runs of every length 1..70: zero padded, a one followed by zeros, cycling digits, all nines"""
    out = []
    for L in list(range(1, 71)) + [100, 200]:
        out.append('0' * (L - 1) + '3')
        out.append('1' + '0' * (L - 1))
        out.append(('1234567890' * 21)[:L])
        if L > 1:
            out.append('0' * (L - 2) + '10')
        if L in (9, 10, 18, 19, 20, 28, 29, 30, 38, 39, 40):
            out.append('9' * L)
    return list(dict.fromkeys(out))

def s_longlits(tier, rng, evs=EVS, mode='eval'):
    """every run above as a literal, a fraction, an exponent and a superscript run (length limits / chunking in the
       literal readers: 9, 10, 18, 19, 20, 28, 29, 30, 38, 39 digits are where fixed-width accumulators end)"""
    out = []
    for ev in evs:
        for r in longlit_runs():
            sup = ''.join(gen.SUP[int(ch)] for ch in r)
            for e in [r, r + '+1', '0.' + r, r + '.5', '2^' + r, '2' + sup, '1' + sup, '(1)' + sup + '+1', '1.' + r + sup[:2]]:
                if len(e) <= 256:
                    out.append(case(ev, mode, None, e))
    return out

def s_powgrid(tier, rng, evs=('i64', 'number')):
    """b^e, pow(b,e), b<<e, b>>e for every small base and every exponent 0..66: each point where the exact result crosses the type's range"""
    out = []
    for ev in evs:
        for b in range(-17, 18):
            bs = str(b) if b >= 0 else '(%d)' % b
            for e in range(0, 67):
                out.append(case(ev, 'eval', None, bs + '^' + str(e)))
                if b in (-2, 2, -3, 3, 10, -10, 7, -1):
                    out.append(case(ev, 'eval', None, 'pow(' + bs + ',' + str(e) + ')'))
                    out.append(case(ev, 'eval', ('I' if ev == 'number' else '') + str(b), '@^' + str(e)))
                    out.append(case(ev, 'eval', ('I' if ev == 'number' else '') + str(e), bs + '^@'))
                if ev == 'i64':
                    out.append(case(ev, 'eval', None, bs + '<<' + str(e)))
                    out.append(case(ev, 'eval', None, bs + '>>' + str(e)))
        for b in [3037000499, 3037000500, 2097151, 2097152, 55108, 55109, 6208, 6209, 1448, 1449, 511, 512, 4294967296, 9223372036854775807]:
            for sg in ['%d', '(-%d)']:
                for e in range(0, 8):
                    out.append(case(ev, 'eval', None, (sg % b) + '^' + str(e)))
    return out

FUSE_POOL = {'f64': ['171', '170', '0.5', '0', '(-1)', '3', '0.1', '1' + '0' * 200],
             'number': ['171', '170', '0.5', '0', '(-1)', '3', '21', '20'],
             'i64': ['21', '20', '3', '0', '(-1)', '63', '2', '9223372036854775807'],
             'decimal': ['28', '26', '27', '3', '0.5', '0', '(-1)', '79228162514264337593543950335'],
             'complex': ['2', '0.5', '0', '(-1)', 'i', '(3+i)', '0.1', '1000000']}

def unary_forms(ev):
    u = [f + '(%s)' for f in gen.F1[ev]] + ['(%s)' + pf for pf in (['!'] if gen.HAS_BANG[ev] else []) + gen.POSTFIX5[ev] + ['²', '³']] + ['(-%s)', '(%s)']
    u += ([f + '(%s,2)' for f in gen.F2[ev]] + [f + '(2,%s)' for f in gen.F2[ev][:3]])
    if gen.HAS_FLOORBR[ev]:
        u += ['⌊%s⌋', '⌈%s⌉']
    return u

def s_fusion(tier, rng, evs=EVS, only=None):
    """binary parent over two child operations, U1(a) op U2(b): the same child operation on both sides for every operation
       and operator (n!/k!, ln a - ln b, sqrt a * sqrt b, exp a * exp b, a^2 - b^2 ...: the shapes an algebraic shortcut keys on),
       different ones sampled; operands include those on which a child fails or overflows alone"""
    out = []
    for ev in evs:
        U = unary_forms(ev)
        if only:
            U = [u for u in U if any(u.startswith(o) for o in only)]
        ops = list(gen.BINOPS[ev].keys()) if ev != 'complex' else ['+', '-', '*']     # one-NaN limit of the wire format
        pool = FUSE_POOL[ev]
        for u in U:
            for op in ops:
                for a in pool:
                    for b in pool:
                        out.append(case(ev, 'eval', None, (u % a) + op + (u % b)))
        for f in gen.F2[ev] + gen.FV[ev][:3]:
            for u in U:
                for a in pool[:5]:
                    for b in pool[:5]:
                        out.append(case(ev, 'eval', None, f + '(' + (u % a) + ',' + (u % b) + ')'))
        for _ in range(1500 if tier == 'quick' else 15000):
            u1, u2 = rng.choice(U), rng.choice(U)
            out.append(case(ev, 'eval', None, (u1 % rng.choice(pool)) + rng.choice(ops) + (u2 % rng.choice(pool))))
    return out

def s_fusion3(tier, rng, evs=EVS):
    """three levels: F( U(a) op U(b) ) with the same child U on both sides (sqrt(a^2+b^2), ln(exp a * exp b), abs(a^3-b^3) ...):
       the shape a norm / log-sum / difference-of-powers shortcut keys on"""
    out = []
    for ev in evs:
        U = unary_forms(ev)
        F = [f + '(%s)' for f in gen.F1[ev]] + ['-(%s)', '(%s)²'] + (['(%s)!'] if gen.HAS_BANG[ev] else [])
        pool = FUSE_POOL[ev]
        prs = [(pool[6 % len(pool)], pool[6 % len(pool)]), (pool[5], pool[2]), (pool[2], pool[3]), ('17', '27') if ev != 'complex' else ('2', 'i')] + \
              ([('0.1', '0.3'), ('0.1', '0.1')] if ev != 'i64' else [('7', '7')])
        ops = [o for o in gen.BINOPS[ev] if o in ('+', '-', '*', '/')]
        for f in F:
            for u in U:
                for op in ops:
                    for a, b in prs:
                        out.append(case(ev, 'eval', None, f % ((u % a) + op + (u % b))))
    return out

def s_emptyavg(tier, rng, evs=('f64', 'i64', 'decimal', 'number')):
    """the only legal empty list, avg(), in every argument position of every variadic call, directly and nested inside
       operators, brackets, fixed-arity calls and further lists"""
    out = []
    for ev in evs:
        inner = ['avg()', '(avg())', '1+avg()', 'abs(avg())', '-avg()', 'avg()+1', 'avg()(3)', '2avg()', gen.F2[ev][0] + '(2,avg())', 'max(avg(),3)', 'min(2,avg())', 'avg(avg())', 'avg(1,avg())']
        for f in gen.FV[ev]:
            for x in inner:
                for args in ([x], [x, '5'], ['5', x], ['5', x, '2'], ['5', '2', x], [x, x], ['5', 'max(1,' + x + ')'], ['4', '2', 'abs(' + x + ')-1']):
                    out.append(case(ev, 'eval', None, f + '(' + ','.join(args) + ')'))
        for x in inner:
            for c in ['%s', '1+%s', '(%s)', '2*%s', '%s^2', gen.F2[ev][0] + '(%s,2)', gen.F2[ev][0] + '(2,%s)']:
                out.append(case(ev, 'eval', None, c % x))
    return out

def s_aggmix(tier, rng, evs=('f64', 'i64', 'decimal', 'number')):
    """aggregates whose arguments mix failing, non-finite / NaN-valued and ordinary arguments in every order"""
    sp = {'f64': ['w(-1)', '0/0', '1/0', '-1/0', 'sqrt(-4)', '3', '(-0.0)'], 'number': ['w(-1)', '0/0', '1/0', '1%0', 'sqrt(-4)', '3', '7'],
          'i64': ['1/0', '21!', '1<<64', '3', '(-4)', '9223372036854775807'], 'decimal': ['1/0', 'w(-1)', '28!', 'ln(0)', '3', '(-4)', '0.5']}
    out = []
    for ev in evs:
        for f in gen.FV[ev]:
            for a in sp[ev]:
                for b in sp[ev]:
                    for args in ([a, b], [a, '1', b], ['1', a, b], [a, b, '2'], ['2', a, '1', b, '3']):
                        out.append(case(ev, 'eval', None, f + '(' + ','.join(args) + ')'))
    return out

def s_maxlen(tier, rng, evs=EVS, mode='eval'):
    """inputs of exactly 253..257 characters in every shape that buys nesting or length per character: prefix signs, brackets,
       juxtaposed brackets, function calls, floor brackets, postfix runs, flat and right-nested chains, long literals,
       long argument lists -- each over every one-character operand (the 256-character bound is the property's scope,
       not a limit of the library: longer inputs are evaluated too)"""
    out = []
    for ev in evs:
        ops1 = ['1', '@'] + (['e', 'π'] if ev != 'i64' else []) + (['i'] if ev == 'complex' else [])
        f = gen.F1[ev][0]
        for L in (253, 254, 255, 256, 257):
            shapes = []
            for o in ops1:
                for sg in ('-', '+', '-+'):
                    k = L - 1
                    shapes.append((sg * k)[:k] + o)
                k = (L - 1) // 2
                shapes.append('+' * (L - 1 - 2 * k) + '(' * k + o + ')' * k)
                shapes.append('-' * (L - 1 - 2 * k) + '(' * k + o + ')' * k)
                k = (L - 1) // 3
                shapes.append('+' * (L - 1 - 3 * k) + '2(' * k + o + ')' * k)
                k = (L - 1) // (len(f) + 2)
                shapes.append('+' * (L - 1 - (len(f) + 2) * k) + (f + '(') * k + o + ')' * k)
                shapes.append(o + '+1' * ((L - 1) // 2) + ('' if (L - 1) % 2 == 0 else ' '))
                k = (L - 1) // 2
                shapes.append('-' * (L - 1 - 2 * k) + o + '^1' * k)
                shapes.append('-' * (L - 1 - 2 * k) + o + '*1' * k)
                shapes.append(o + '²' * (L - 1))
                if gen.HAS_BANG[ev]:
                    shapes.append(o + '!' * (L - 1))
                    shapes.append('-' * (L - 2) + o + '!')
                if gen.HAS_FLOORBR[ev]:
                    k = (L - 1) // 2
                    shapes.append('+' * (L - 1 - 2 * k) + '⌊' * k + o + '⌋' * k)
                if gen.FV[ev]:
                    g = gen.FV[ev][0]
                    k = (L - len(g) - 3) // 2
                    shapes.append(g + '(' + o + ',1' * k + ')' + ('' if (L - len(g) - 3) % 2 == 0 else '²'))
            shapes.append('1' * L)
            shapes.append('0' * (L - 1) + '1')
            shapes.append('1.' + '0' * (L - 3) + '1')
            shapes.append('2' + ''.join(gen.SUP[0] for _ in range(L - 2)) + gen.SUP[2])
            for e in shapes:
                e2 = e.replace(' ', '')
                if len(e2) == L or len(e2) == L - 1:
                    out.append(case(ev, mode, gen.ph_pool(ev)[3], e2))
    return out

def run_C01(tier, rng, stats):
    cs = (s_oppool(tier, rng) + s_pairs2(tier, rng) + s_longpad(tier, rng) + s_tokseq(tier, rng) + s_tokseq_full(tier, rng) + s_chars(tier, rng) + s_wf(tier, rng, nq=250, nt=2500) +
          s_mut(tier, rng, nq=250, nt=2500) + s_badlits(tier, rng) + s_aggfail(tier, rng) + s_aggmix(tier, rng) + s_emptyavg(tier, rng) + s_longlits(tier, rng) + s_maxlen(tier, rng) + s_loops(tier, rng))
    stats['rule'] = ('all token sequences <= %d (small alphabet) and <= %d (full alphabet), all strings <= %d chars over a lexer alphabet, '
                     'grammar-directed random expressions x placeholder pool, near-miss mutants, malformed literals, aggregates around failing '
                     'arguments, looping constructs over extreme operands; all five evaluators, debug and release; non-trivial = model outcome is not a lex/parse error'
                     % ((3, 2, 3) if tier == 'quick' else (4, 3, 4)))
    cases, outs, model = run_streams(cs, stats, budget=10**7)
    res = std_judge('C01', cases, outs, model)
    # the property itself: no panic / abort / hang, whatever the model says
    for prof, impl in outs.items():
        for c, x in zip(cases, impl):
            if vlib.outcome_class(x) in ('PANIC', 'ABORT', 'TIMEOUT', 'BUDGET'):
                res['violations'].insert(0, {'kind': 'panic', 'cases': [list(c)], 'profile': prof, 'observed': x,
                                             'why': '%s build: %s on %r' % (prof, x, dec_expr(c[3]))})
    stack_probe(res, stats)
    return res

def stack_probe(res, stats):
    """native stack: deeply nested inputs of <= 256 characters on threads with the main-thread default (8 MiB) and the
       std::thread::spawn default (2 MiB), in the harness's debug / release builds and in a plain unoptimised debug build"""
    import subprocess
    try:
        vlib.build_stack_probe()
    except vlib.BuildError as e:
        res['violations'].append({'kind': 'stack-probe-build', 'cases': [['f64', 'eval', '', enc('(')]], 'observed': str(e)[-300:], 'why': 'the stack probe does not build'})
        return
    shapes = [('(' * 256, 'open-brackets'), ('-' * 256, 'prefix-signs'), ('2(' * 128, 'juxtaposed-brackets'), ('(' * 127 + '1' + ')' * 127, 'balanced-brackets'),
              ('abs(' * 50 + '1' + ')' * 50, 'nested-calls'), ('⌈' * 85, 'open-ceilings'), ('1+(' * 85 + '1', 'operator-brackets'),
              # well-formed deep inputs: the tree is built and evaluated (eval frames are larger than parser frames)
              ('-' * 255 + '1', 'prefix-signs-operand'), ('-(' * 85 + '1' + ')' * 85, 'sign-brackets'), ('1-(' * 84 + '1' + ')' * 84, 'operator-brackets-closed')]
    n = nd = 0
    worst = {}
    for prof in ('debug', 'release', 'plaindebug'):
        exe = os.path.join(vlib.ROOT, 'harness/target', prof, 'stack_probe')
        for ev in EVS:
            for e, shape in shapes:
                if '⌈' in e and not gen.HAS_FLOORBR[ev]:
                    continue
                for kib in (8192, 2048):
                    p = subprocess.run([exe, ev, str(kib), enc(e)], stdout=subprocess.PIPE, stderr=subprocess.PIPE, timeout=120, env=vlib.ENV)
                    n += 1
                    if p.returncode != 0:
                        nd += 1
                        res['violations'].insert(0, {'kind': 'stack-overflow', 'cases': [[ev, 'eval', gen.default_ph(ev), enc(e)]], 'profile': prof,
                                                     'observed': 'process killed (exit %s) on a %d KiB thread stack' % (p.returncode, kib),
                                                     'tags': {'stack_kib': kib, 'profile': prof, 'shape': shape, 'ev': ev},
                                                     'why': '%s build of %s: %d-character input %r... exhausts a %d KiB stack and aborts the process' % (prof, ev, len(e), e[:6], kib)})
    stats['evaluations'] = stats.get('evaluations', 0) + n
    stats.setdefault('hist', {})['native-stack probe'] = {'runs': n, 'aborted': nd}

def long_run_probe(res, stats):
    """native stack on long FLAT inputs (60 000-digit superscript and digit runs, 70 000 blanks, a 30 000-argument list): the lexer
       and the list parser are loops, so these need no more stack than a short input; a reader that recurses once per character
       aborts. (Long operator chains such as 1+1+... are left out: their left-nested tree is evaluated recursively, see DESIGN 9.4.)"""
    import subprocess
    try:
        vlib.build_stack_probe()
    except vlib.BuildError:
        return
    shapes = [('1' + gen.SUP[0] * 60000 + gen.SUP[2], 'superscript-run'), ('0' * 60000 + '7', 'digit-run'), ('2' + ' ' * 70000 + '+2', 'blank-run'),
              ('max(' + '1,' * 30000 + '7)', 'flat-list')]
    n = nd = 0
    for prof in ('debug', 'release'):
        exe = os.path.join(vlib.ROOT, 'harness/target', prof, 'stack_probe')
        for ev in EVS:
            for e, shape in shapes:
                if shape == 'flat-list' and not gen.FV[ev]:
                    continue
                for kib in (8192, 2048):
                    p = subprocess.run([exe, ev, str(kib), '-'], input=enc(e).encode(), stdout=subprocess.PIPE, stderr=subprocess.PIPE, timeout=300, env=vlib.ENV)
                    n += 1
                    if p.returncode != 0:
                        nd += 1
                        res['violations'].insert(0, {'kind': 'stack-overflow-long-run', 'cases': [[ev, 'eval', gen.default_ph(ev), enc(e[:40] + '...')]], 'profile': prof,
                                                     'observed': 'process killed (exit %s) on a %d KiB thread stack' % (p.returncode, kib),
                                                     'why': '%s build of eval_%s: a flat %s of %d characters exhausts a %d KiB stack and aborts the process (short inputs of the same shape are fine)' % (prof, ev, shape, len(e), kib)})
    res['levels']['native-stack/long-flat-inputs'] = (n, nd)
    stats['evaluations'] = stats.get('evaluations', 0) + n

def s_nested(tier, rng, evs=EVS):
    """every construct nested in each of its operand positions, at several depths up to the 256-character bound:
       repeated evaluation of a sub-expression (work exponential in the depth) shows as a step count beyond the budget"""
    out = []
    for ev in evs:
        temps = ['(%s)', '-%s', '+%s', '%s+1', '1+%s', '2*%s', '%s*2', '2^%s', '%s^2', '%s²', '1-%s', '%s-1', '%s/2', '2/%s', '2(%s)', '(%s)(2)']
        if gen.HAS_FLOORBR[ev]:
            temps += ['⌊%s⌋', '⌈%s⌉']
        if gen.HAS_BANG[ev]:
            temps += ['%s!', '(%s)!']
        if ev == 'i64':
            temps += ['%s|1', '1|%s', '%s&3', '3&%s', '%s<<1', '1<<%s', '%s>>1', '%s%%3', '7%%%s']
        for p in gen.POSTFIX5[ev]:
            temps.append('%s' + p)
        for f in gen.F1[ev]:
            temps.append(f + '(%s)')
        for f in gen.F2[ev]:
            temps += [f + '(%s,2)', f + '(2,%s)']
        for f in gen.FV[ev]:
            temps += [f + '(%s)', f + '(%s,1)', f + '(1,%s)', f + '(1,2,%s)', f + '(%s,1,2)', f + '(1,%s,2)']
        for t in temps:
            unit = len(t) - 2
            dmax = max(1, (250 - 1) // max(unit, 1))
            depths = sorted(set([min(d, dmax) for d in ((8, 16, 24, dmax) if tier == 'quick' else (4, 8, 12, 16, 20, 24, 32, 48, dmax))]))
            for d in depths:
                e = '1'
                for _ in range(d):
                    e = t % e
                if len(e) <= 256:
                    out.append(case(ev, 'eval', None, e))
    return out

def run_C02(tier, rng, stats):
    cs = s_loops(tier, rng) + s_nested(tier, rng) + s_maxlen(tier, rng) + s_wf(tier, rng, nq=200, nt=2000) + s_tokseq(tier, rng, qlen=3, tlen=3)
    # long flat inputs (the bound is linear in the length for every length; nesting stays shallow so the native stack is not the subject)
    for ev in EVS:
        f = gen.F1[ev][0]
        for k in (250, 1000) if tier == 'quick' else (250, 1000, 4000):
            for piece in ['(1)+', '1+', f + '(1)+', '2(3)+', '((1))*', '1²+'] + ([gen.FV[ev][0] + '(1,2)+'] if gen.FV[ev] else []) + (['3!+'] if gen.HAS_BANG[ev] else []):
                cs.append(case(ev, 'eval', None, piece * k + '1'))
            if gen.FV[ev]:
                cs.append(case(ev, 'eval', None, gen.FV[ev][0] + '(' + ','.join(['(1)'] * k) + ')'))
            cs.append(case(ev, 'eval', None, '1' * k + ('' if ev == 'i64' else '.5') + '+' + '0' * k + '1'))
    stats['rule'] = ('every looping construct (!, w, ilog, gcd, lcm) over extreme / non-finite / zero / negative / base-1 operands and placeholders, '
                     'every construct nested in each operand position at depths up to the 256-character bound, inputs near 256 chars, random expressions; ticks measured by the cfg-guarded counter, 4 s wall-clock watchdog per case')
    cases, outs, model = run_streams(cs, stats, profiles=('debug',), budget=10**7)
    res = std_judge('C02', cases, outs, model)
    worst = 0.0
    for c, x in zip(cases, outs['debug']):
        n = len(dec_expr(c[3]))
        t = vlib.ticks_of(x)
        cl = vlib.outcome_class(x)
        if cl in ('BUDGET', 'TIMEOUT', 'ABORT') or (t is not None and t > BUDGET(n)):
            res['violations'].insert(0, {'kind': 'steps', 'cases': [list(c)], 'observed': x,
                                         'why': '%s: %s steps for %d characters (budget %d)' % (dec_expr(c[3])[:60], t if t is not None else cl, n, BUDGET(n))})
        if t is not None:
            worst = max(worst, t / BUDGET(n))
    stats.setdefault('exploration', {})['max_ticks_over_budget_ratio'] = round(worst, 4)
    # tie of the cost model: measured ticks never exceed the model's static bound for the same input
    ccases = [(c[0], 'cost', c[2], c[3]) for c in cases]
    mb = vlib.run_model(['\t'.join(c) for c in ccases])
    n = nd = 0
    worst2 = 0.0
    for c, x, b in zip(cases, outs['debug'], mb):
        t = vlib.ticks_of(x)
        if b.startswith('OK ') and t is not None and vlib.outcome_class(x) in ('OK', 'ERR'):
            n += 1
            bound = int(b[3:])
            worst2 = max(worst2, t / bound)
            if t > bound:
                nd += 1
                res['violations'].append({'kind': 'cost-model', 'cases': [list(c)], 'observed': x, 'expected': b,
                                          'why': 'implementation took %d counted steps, the model bound is %d' % (t, bound)})
    res['levels']['ticks<=model-bound/debug'] = (n, nd)
    stats['exploration']['max_ticks_over_model_bound_ratio'] = round(worst2, 4)
    return res

def run_C03(tier, rng, stats):
    cs = (s_tokseq(tier, rng, qlen=4, tlen=5) + s_tokseq_full(tier, rng) + s_chars(tier, rng) + s_nearmiss_chars(tier, rng) + s_keywords(tier, rng) + s_badlits(tier, rng) + s_emptyavg(tier, rng) +
          s_wf(tier, rng, nq=300, nt=3000) + s_mut(tier, rng, nq=400, nt=4000) +
          s_tokseq(tier, rng, mode='ast', qlen=3, tlen=4) + s_chars(tier, rng, mode='tokens') + s_longlits(tier, rng, mode='tokens') + s_longlits(tier, rng) + s_maxlen(tier, rng))
    stats['rule'] = ('all token sequences <= %d over a representative alphabet incl. a foreign character and a foreign keyword, all strings <= 3/4 chars, '
                     'every keyword of the union vocabulary in every evaluator (alone, followed by each character class, near misses, wrong arity), '
                     'random well-formed expressions and near-miss mutants; outcomes, token streams and ASTs compared' % (4 if tier == 'quick' else 5))
    cases, outs, model = run_streams(cs, stats, profiles=('debug',))
    res = std_judge('C03', cases, outs, model)
    kernel_crosscheck(res, stats, cases, model, tier, rng)
    # the lexer-level streams also in the release build (debug_assert!-only side effects, cfg(debug_assertions) code)
    rel = s_chars(tier, rng) + s_nearmiss_chars(tier, rng) + s_keywords(tier, rng, mode='eval') + s_wf(tier, rng, nq=300, nt=3000) + s_longlits(tier, rng)
    rc, ro, rm = run_streams(rel, stats, profiles=('release',))
    merge(res, std_judge('C03', rc, ro, rm))
    return res

EXACT_LITS = {'f64': ['0', '1', '2', '3', '4', '5', '0.5', '1.5', '8', '0.25'], 'i64': ['0', '1', '2', '3', '4', '5', '7', '8'],
              'decimal': ['0', '1', '2', '3', '4', '0.5', '1.5', '0.25'], 'complex': ['0', '1', '2', '3', '0.5', 'i', '2i'],
              'number': ['0', '1', '2', '3', '4', '0.5', '1.5', '8']}

def s_oppairs(tier, rng, evs=EVS):
    """every pair (and triple, thorough) of adjacent operators with small exactly representable operands"""
    out = []
    for ev in evs:
        ops = list(gen.BINOPS[ev].keys())
        post = (['!'] if gen.HAS_BANG[ev] else []) + gen.POSTFIX5[ev] + ['²']
        pre = ['-', '+']
        a, b, c, d = EXACT_LITS[ev][2], EXACT_LITS[ev][3], EXACT_LITS[ev][1], EXACT_LITS[ev][4]
        for o1 in ops:
            for o2 in ops:
                out.append(case(ev, 'eval', None, a + o1 + b + o2 + c))
                out.append(case(ev, 'ast', None, a + o1 + b + o2 + c))
                out.append(case(ev, 'eval', None, a + o1 + '(' + b + o2 + c + ')'))
                out.append(case(ev, 'eval', None, '(' + a + o1 + b + ')' + o2 + c))
                for p in pre:
                    out.append(case(ev, 'eval', None, p + a + o1 + p + b + o2 + c))
                    out.append(case(ev, 'ast', None, p + a + o1 + p + b + o2 + c))
                for q in post:
                    out.append(case(ev, 'eval', None, a + o1 + b + q + o2 + c))
                    out.append(case(ev, 'ast', None, a + q + o1 + b + q + o2 + c + q))
                if tier == 'thorough':
                    for o3 in ops:
                        out.append(case(ev, 'eval', None, a + o1 + b + o2 + c + o3 + d))
                        out.append(case(ev, 'ast', None, a + o1 + b + o2 + c + o3 + d))
        for e in ['-2^2', '-3!', '2^3!', '2^-3^2', '2^3^2', '-2²', '2^3²', '2²^3', '-2^-2', '2*-3', '2--3', '2-+-3', '6/2(3)', '2^3(4)',
                  '-2(3)!', '2+3*4^2', '(2+3)*4', '2*(3+4)', '⌊2.5⌋*2', '⌈2.5⌉^2', '2^⌊2.5⌋', '1+2°', '2*3°', '2^3°', '-3°', '3!°', '3°!']:
            out.append(case(ev, 'eval', None, e))
            out.append(case(ev, 'ast', None, e))
    return out

def run_C04(tier, rng, stats):
    cs = (s_oppairs(tier, rng) + s_tokseq(tier, rng, mode='ast', qlen=4, tlen=5) + s_longlits(tier, rng, mode='ast') +
          sum([s_wf(tier, rng, evs=[ev], nq=250, nt=2500, depth=6, lits=EXACT_LITS[ev], funcs=False, phs=False) for ev in EVS], []) +
          sum([s_wf(tier, rng, evs=[ev], mode='ast', nq=250, nt=2500, depth=6, lits=EXACT_LITS[ev], phs=False) for ev in EVS], []))
    stats['rule'] = ('every pair%s of adjacent binary operators x prefix signs x postfix operators with small exact operands (values and ASTs), '
                     'all token sequences <= %d as ASTs, random operator trees of depth <= 6 over exactly representable operands'
                     % (' and triple' if tier == 'thorough' else '', 4 if tier == 'quick' else 5))
    cases, outs, model = run_streams(cs, stats, profiles=('debug',))
    res = std_judge('C04', cases, outs, model)
    kernel_crosscheck(res, stats, cases, model, tier, rng)
    return res

C05_F1 = ['abs', 'floor', 'ceil', 'trunc', 'truncate', 'round', 'sqrt']
def run_C05(tier, rng, stats):
    kw = dict(f1=C05_F1, f2=['pow', 'mod'], fv=[], allow_bang=False, allow_post=False)
    cs = (s_wf(tier, rng, evs=['f64'], nq=3000, nt=30000, depth=5, **kw) +
          s_wf(tier, rng, evs=['f64'], nq=1000, nt=10000, depth=3, lits=gen.F64_LITS + ['@', '@', '@'], **kw))
    # every operator / function of the clause on all pairs of the boundary pool through the placeholder
    pool = gen.F64_PH
    for op in ['+', '-', '*', '/', '%', '^']:
        for x in pool:
            for y in gen.F64_LITS[:14]:
                cs.append(case('f64', 'eval', f2w(x), '@' + op + y))
                cs.append(case('f64', 'eval', f2w(x), y + op + '@'))
            cs.append(case('f64', 'eval', f2w(x), '@' + op + '@'))
            cs.append(case('f64', 'eval', f2w(x), '(-@)' + op + '@'))
    for f in C05_F1:
        for x in pool + [2.5, 3.5, -3.5, 0.49999999999999994, 4503599627370497.5, -0.2, 1e-320]:
            cs.append(case('f64', 'eval', f2w(x), f + '(@)'))
            cs.append(case('f64', 'eval', f2w(x), '-' + f + '(-@)'))
    cs += s_fusion(tier, rng, evs=['f64'], only=C05_F1 + ['(', 'pow', 'mod', '⌊', '⌈'])
    # remainder and the rounding functions on the same operand relations at every binade (fmod is exactly scale invariant under
    # powers of two; products and sign tests inside a re-implementation underflow / overflow far from the boundary values)
    for k in range(-1070, 1021, 10):
        p = f2w(2.0 ** k)
        for e in ['@%(@/10)', '@%(@/3)', '@%(@/7)', '(3*@)%(@/10)', '@%(@*0.1)', 'mod(@,@/10)', '-@%(@/10)', '(7*@)%(@*0.3)', '@%(@/1000000000000000000)',
                  'floor(@/(@/10))', 'round(@*2.5/@)', 'trunc((3*@)/(@*0.7))', 'ceil(@/(@*3))']:
            cs.append(case('f64', 'eval', p, e))
    cs += [case('f64', 'eval', f2w(x), e) for x in pool for e in ['-@', '--@', '-(-@)', '0-@', 'pi*@', 'e^@', '@^0.5', 'pow(@,2)', 'mod(@,3)', '⌊@⌋', '⌈@⌉']]
    stats['rule'] = ('random trees over + - * / % unary minus ^ abs floor ceil trunc round sqrt pi e literals @ brackets with operands from the boundary pool '
                     '(subnormals, 2^53 and 2^63 neighbours, huge/tiny literals, NaN/inf/-0 placeholders), plus every operator on all pool pairs; bit-exact')
    cases, outs, model = run_streams(cs, stats, profiles=('debug', 'release'))
    res = std_judge('C05', cases, outs, model)
    for prof, impl in outs.items():
        for c, x in zip(cases, impl):
            if vlib.outcome_class(x) != 'OK':
                res['violations'].insert(0, {'kind': 'non-finite-as-error', 'cases': [list(c)], 'observed': x, 'profile': prof,
                                             'why': 'a well-formed IEEE expression returned %s instead of a value' % vlib.strip_ticks(x)})
    l0_f64(tier, rng, stats, res)
    merge(res, ph_history('C05', tier, rng, stats, evs=['f64']))
    return res

def i64_lits():
    return [str(x) for x in gen.I64_POOL]

C06_KW = dict(f1=['abs', 'sgn', 'sign'], f2=['mod', 'pow'], fv=[], allow_juxt=True)
def run_C06(tier, rng, stats):
    cs = (s_wf(tier, rng, evs=['i64'], nq=4000, nt=40000, depth=4, **C06_KW) +
          s_wf(tier, rng, evs=['i64'], nq=1500, nt=15000, depth=3, lits=['@', '@', '1', '2', '3', '63', '64', '0'] + i64_lits()[9:], **C06_KW))
    pool = gen.I64_POOL + [-x for x in gen.I64_POOL if x] + [-2**63]
    quick_pool = pool if tier == 'thorough' else pool[::2] + [2**63 - 1, -2**63, -1]
    for op in list(gen.BINOPS['i64'].keys()):
        for x in quick_pool:
            for y in pool:
                ys = str(y) if y >= 0 else ('(0-%d)' % -y if y != -2**63 else '(0-9223372036854775807-1)')
                cs.append(case('i64', 'eval', str(x), '@' + op + ys))
    for x in pool:
        for e in ['-@', 'abs(@)', 'sgn(@)', '@!', '-@!', '(-@)!', 'pow(@,2)', 'pow(2,@)', 'mod(@,3)', 'mod(3,@)', '@²', '@^@', '2^@', '@<<1', '1<<@', '@>>@', '--@']:
            cs.append(case('i64', 'eval', str(x), e))
    cs += s_powgrid(tier, rng, evs=['i64']) + s_fusion(tier, rng, evs=['i64'])
    stats['rule'] = ('random integer expressions over + - * / % ^ & | << >> unary minus abs sgn mod pow n! with operands from the i64 boundary pool, '
                     'every binary operator on all pool pairs (via the placeholder, so negative operands too), debug and release builds; exact')
    cases, outs, model = run_streams(cs, stats, profiles=('debug', 'release'))
    res = std_judge('C06', cases, outs, model)
    for c, a, b in zip(cases, outs['debug'], outs['release']):
        if vlib.strip_ticks(a) != vlib.strip_ticks(b):
            res['violations'].insert(0, {'kind': 'debug-release-differ', 'cases': [list(c)], 'observed': a + ' | ' + b,
                                         'why': 'debug and release builds disagree'})
    l0_i64(tier, rng, stats, res)
    kernel_crosscheck(res, stats, cases, model, tier, rng)
    return res

def run_C09(tier, rng, stats):
    kw = dict(f1=['abs', 'sgn', 'floor', 'ceil', 'round', 'trunc', 'sqrt'], f2=['pow', 'mod'], fv=[], allow_post=False)
    lits = gen.F64_LITS[:20] + [str(x) for x in gen.I64_POOL] + ['2.5', '-2.5', '2.4', '2.6', '0.5', '4', '20', '21', '@', '@']
    cs = (s_wf(tier, rng, evs=['number'], nq=4000, nt=40000, depth=4, lits=lits, **kw))
    ints = [0, 1, -1, 2, 3, 7, 20, 21, 63, 64, 2**31, 2**32, 3037000500, 2**62, 2**63 - 1, -2**63, -7, -3037000500]
    flts = [0.5, -0.5, 2.5, -2.5, 2.4, 2.6, -2.6, 0.0, -0.0, 1e18, 9.3e18, 2.0**63, -(2.0**63), float('inf'), float('nan'), 3.0, 1e300, 2.0**53 + 2]
    phs = ['I%d' % i for i in ints] + ['F' + f2w(x) for x in flts]
    lit2 = ['0', '1', '2', '3', '7', '20', '21', '0.5', '2.5', '9223372036854775807', '3037000500', '4294967296', '4294967295', '64']
    for p in phs:
        for op in ['+', '-', '*', '/', '%', '^']:
            for y in lit2:
                cs.append(case('number', 'eval', p, '@' + op + y))
                cs.append(case('number', 'eval', p, y + op + '@'))
                cs.append(case('number', 'eval', p, '@' + op + '-' + y))
                cs.append(case('number', 'eval', p, '(-' + y + ')' + op + '@'))
            cs.append(case('number', 'eval', p, '@' + op + '@'))
            cs.append(case('number', 'eval', p, '@' + op + '(-@)'))
        for e in ['-@', 'abs(@)', 'sgn(@)', 'floor(@)', 'ceil(@)', 'round(@)', 'trunc(@)', '@!', '⌊@⌋', '⌈@⌉', 'sqrt(@)', '@²', '2^@', '@^0.5', '@^-1', '@^-2']:
            cs.append(case('number', 'eval', p, e))
    # Integer op Integer near and beyond the i64 range with arbitrary low bits (the Float fallback works on the operands'
    # doubles: double rounding is visible only when the low bits of the operands matter)
    for _ in range(300 if tier == 'quick' else 3000):
        k = rng.below(4)
        hi = 62 if k else 63
        a = (1 << (hi - 1 - rng.below(3))) + rng.below(1 << 40) * (1 + rng.below(3)) + rng.below(4096)
        b = rng.choice([1025, 1026, 2047, 2049, 3073, 1 + rng.below(1 << 20), (1 << 61) + rng.below(1 << 44), (1 << 62) + rng.below(1 << 13), a ^ rng.below(1 << 12)])
        a = min(a, 2**63 - 1); b = min(b, 2**63 - 1)
        sa, sb = rng.choice([1, -1]), rng.choice([1, -1])
        for op in ['+', '-', '*']:
            cs.append(case('number', 'eval', 'I%d' % (sa * a), '@' + op + ('(-%d)' % b if sb < 0 else str(b))))
    # Integer products and sums whose exact value straddles +-2^63 by a few units (the fallback to Float starts exactly there)
    for _ in range(150 if tier == 'quick' else 1500):
        a = 2 + rng.below(1 << (1 + rng.below(40)))
        q = (1 << 63) // a
        for d in (-1, 0, 1, 2):
            b = q + d
            for sa, sb in ((1, 1), (1, -1), (-1, 1), (-1, -1)):
                cs.append(case('number', 'eval', 'I%d' % (sa * a), '@*' + ('(-%d)' % b if sb < 0 else str(b))))
    for a in [(1 << 62) + 1, (1 << 62) - 1, (1 << 62), 3074457345618258603, 9007199254740993, 4611686018427388929]:
        for b in ['2', '(-2)', '3', '(-3)', '1024', '(-1024)', '(-1)']:
            cs.append(case('number', 'eval', 'I%d' % a, '@*' + b)); cs.append(case('number', 'eval', 'I%d' % -a, '@*' + b))
            cs.append(case('number', 'eval', 'I%d' % a, b + '(@)'))
    cs += s_fusion3(tier, rng, evs=['number'])
    cs += s_powgrid(tier, rng, evs=['number']) + s_fusion(tier, rng, evs=['number'], only=['abs', 'sgn', 'floor', 'ceil', 'round', 'trunc', 'sqrt', '(', 'pow', 'mod', '⌊', '⌈'])
    stats['rule'] = ('random mixed Integer/Float expressions over the boundary pools of both types, every arithmetic operator on all (placeholder, literal) pairs, Integer pairs near the i64 range with arbitrary low bits, '
                     'rounding functions on halves / negative fractions / 2^63 neighbours; variant and bits compared')
    cases, outs, model = run_streams(cs, stats, profiles=('debug', 'release'))
    res = std_judge('C09', cases, outs, model)
    l0_f64(tier, rng, stats, res)
    l0_i64(tier, rng, stats, res)
    return res

def s_from(tier, rng):
    out = []
    vals = set()
    for k in range(-1074, 1024):
        x = math.ldexp(1.0, k)
        for y in (x, math.nextafter(x, math.inf), math.nextafter(x, -math.inf), x * 1.5, x + 0.5 if k < 60 else x):
            vals.add(y); vals.add(-y)
    for x in [0.0, -0.0, float('inf'), float('-inf'), float('nan'), 2.0**63, -(2.0**63), 9223372036854774784.0, 9223372036854777856.0,
              -9223372036854777856.0, 0.5, 1.5, 2.5, 4503599627370495.5, 4503599627370496.0, 9007199254740991.0, 9007199254740993.0]:
        vals.add(x)
    bits = set(f2w(v) for v in vals)
    bits |= {'7ff0000000000001', 'fff8000000000000', '7fffffffffffffff', '0000000000000001', '8000000000000001', '000fffffffffffff'}
    n = 4000 if tier == 'quick' else 200000
    for _ in range(n):
        bits.add('%016x' % rng.next())
    for b in sorted(bits):
        out.append(('number', 'from_f64', b, '-'))
    for z in [0, 1, -1, 2**63 - 1, -2**63, 2**53, 2**53 + 1, 12345] + [rng.next() - 2**63 for _ in range(200)]:
        out.append(('number', 'from_i64', str(z), '-'))
    return out

def run_C18(tier, rng, stats):
    cs = s_from(tier, rng)
    stats['rule'] = ('Number::from on every power of two +-1 ulp, x1.5, +0.5, +-2^63 and neighbours, +-0, subnormals, NaNs, infinities, halves, and %d uniformly random bit patterns; '
                     'Number::from(i64) on extremes and random values; non-trivial = every case (no error outcome exists)' % (4000 if tier == 'quick' else 200000))
    cases, outs, model = run_streams(cs, stats, profiles=('debug', 'release'))
    res = std_judge('C18', cases, outs, model)
    # "Float(v) with v's bits unchanged": the wire format (and the single-NaN model) identify all NaNs, so NaN payloads are checked
    # directly -- signalling and quiet NaNs of both signs with boundary and random payloads must come back with the very same bits
    nb = {'7ff0000000000001', 'fff0000000000001', '7ff4000000000000', 'fff4000000000000', '7ff7ffffffffffff', 'fff7ffffffffffff',
          '7ff8000000000000', 'fff8000000000000', '7ff8000000000001', 'fff8000000000001', '7fffffffffffffff', 'ffffffffffffffff',
          '7ff0000080000000', '7ff0000100000000', 'fff00000ffffffff'}
    for _ in range(300 if tier == 'quick' else 20000):
        m = rng.next() & ((1 << 52) - 1)
        nb.add('%016x' % (((rng.next() & 1) << 63) | (0x7ff << 52) | (m or 1)))
    nl = [('number', 'from_f64_raw', b, '-') for b in sorted(nb)]
    nn = nd = 0
    for prof in ('debug', 'release'):
        got = vlib.run_impl(['\t'.join(c) for c in nl], prof)
        for c, x in zip(nl, got):
            nn += 1
            if vlib.strip_ticks(x) != 'OK F' + c[2]:
                nd += 1
                res['violations'].insert(0, {'kind': 'nan-bits-changed', 'cases': [list(c)], 'profile': prof, 'observed': x, 'expected': 'OK F' + c[2],
                                             'why': 'Number::from(f64::from_bits(0x%s)) (%s build) returns %s: a NaN must come back as Float with its bits unchanged' % (c[2], prof, vlib.strip_ticks(x))})
    res['levels']['nan-payload-bits'] = (nn, nd)
    stats['evaluations'] = stats.get('evaluations', 0) + nn
    return res

PROPS = {}
for _p in ['C01', 'C02', 'C03', 'C04', 'C05', 'C06', 'C09', 'C18']:
    PROPS[_p] = {}

# ============================================================================ known findings / shrinking / search
def match_known(pid, v, kf):
    for f in kf.get('findings', []):
        if f.get('property') != pid:
            continue
        tags = v.get('tags') or {}
        if 'stack' in f:
            st = f['stack']
            if v.get('kind') == 'stack-overflow' and tags.get('profile') in st['profiles'] and tags.get('stack_kib', 10**9) <= st['max_stack_kib'] \
                    and tags.get('shape') in st['shapes'] and tags.get('ev') in st['ev']:
                return f['what']
            continue
        if 'fn' in f:
            if tags.get('fn') not in f['fn']:
                continue
            if f.get('ev') and tags.get('ev') not in f['ev']:
                continue
            if 'dist1_max' in f:          # arguments next to 1 (the distance does not survive conversion of the argument to a double)
                d = tags.get('dist1')
                if d is not None and 0 < d <= f['dist1_max'] and not tags.get('err'):
                    return f['what']
                continue
            if 'neg_exp_base_below' in f:     # x^(-n) for |x| < 1: Ok but inaccurate
                a, b = tags.get('arg'), tags.get('arg2')
                if a is not None and b is not None and b < 0 and abs(a) < f['neg_exp_base_below'] and not tags.get('err'):
                    return f['what']
                continue
            if 'ref_range' in f:          # results in a band of magnitudes, reported as Err
                m = tags.get('ref_mag')
                if m is not None and f['ref_range'][0] <= m <= f['ref_range'][1] and tags.get('err'):
                    return f['what']
                continue
            a = tags.get('arg')
            if a is None or not any(lo <= a <= hi for lo, hi in f.get('ranges', [[-1e400, 1e400]])):
                continue
            return f['what']
        for c in v.get('cases', []):
            if f.get('ev') and c[0] not in f['ev']:
                continue
            if 'expr_regex' in f and re.fullmatch(f['expr_regex'], dec_expr(c[3])):
                return f['what']
    return None

def still_fails(pid, v, cases):
    lines = ['\t'.join(c) for c in cases]
    prof = v.get('profile', 'debug')
    impl = vlib.run_impl(lines, prof, budget=10**7)
    kind = v.get('kind')
    if kind == 'panic':
        return vlib.outcome_class(impl[0]) in ('PANIC', 'ABORT', 'TIMEOUT', 'BUDGET'), impl[0], None
    if kind == 'steps':
        t = vlib.ticks_of(impl[0]); n = len(dec_expr(cases[0][3]))
        return vlib.outcome_class(impl[0]) in ('BUDGET', 'TIMEOUT') or (t is not None and t > BUDGET(n)), impl[0], None
    if kind in ('model-disagreement', 'non-finite-as-error'):
        model = vlib.run_model(lines, runner=SPEC_RUNNER[0])
        if kind == 'non-finite-as-error':
            return vlib.outcome_class(impl[0]) != 'OK' and vlib.outcome_class(model[0]) == 'OK', impl[0], model[0]
        return vlib.strip_ticks(impl[0]) != model[0] and model[0] not in ('BAD', 'FUEL'), impl[0], model[0]
    return False, impl[0], None

SPEC_RUNNER = [None]

def shrink_violation(pid, v):
    """delete characters while the same kind of failure persists (single-case kinds only)"""
    if len(v.get('cases', [])) != 1 or v.get('kind') not in ('panic', 'steps', 'model-disagreement', 'non-finite-as-error'):
        return v
    c = v['cases'][0]
    s = dec_expr(c[3])
    budget = 60
    changed = True
    while changed and budget > 0 and len(s) > 1:
        changed = False
        for size in (max(1, len(s) // 2), max(1, len(s) // 4), 1):
            i = 0
            while i < len(s) and budget > 0:
                t = s[:i] + s[i + size:]
                budget -= 1
                try:
                    bad, ob, ex = still_fails(pid, v, [[c[0], c[1], c[2], enc(t)]])
                except Exception:
                    bad = False
                if bad and t:
                    s = t; changed = True
                    v = dict(v, observed=ob, expected=ex)
                else:
                    i += size
    v = dict(v)
    v['cases'] = [[c[0], c[1], c[2], enc(s)]]
    v['expr'] = s
    return v

def build_spec_runner():
    """model instantiated with the *committed* tables = the specification side"""
    import shutil
    d = os.path.join(vlib.BUILD, 'speccoq')
    if os.path.exists(d):
        shutil.rmtree(d)
    shutil.copytree(vlib.COQ, d, ignore=shutil.ignore_patterns('*.vo', '*.glob', '*.aux', '*.vok', '*.vos', 'Makefile*', '.Makefile.d', '.lia.cache'))
    shutil.copy(os.path.join(vlib.ROOT, 'tools/Tables.committed.v'), os.path.join(d, 'Gen/Tables.v'))
    vlib.sh('coq_makefile -f _CoqProject -o Makefile', cwd=d)
    vlib.sh(['make', '-j16', 'Extract/Driver.vo'], cwd=d, timeout=1800)
    ex = os.path.join(vlib.BUILD, 'specdriver')
    os.makedirs(ex, exist_ok=True)
    vlib.sh(['coqc', '-Q', d, 'SC', os.path.join(d, 'Extract/Extract.v')], cwd=ex, timeout=600)
    shutil.copy(os.path.join(vlib.ROOT, 'driver/main.ml'), os.path.join(ex, 'main.ml'))
    vlib.sh('ocamlfind ocamlopt -package unix -linkpkg -w -a -O2 -o spec_runner model.mli model.ml main.ml', cwd=ex, timeout=600)
    return os.path.join(ex, 'spec_runner')

def violation_search(pid, tier, rng, stats, disagreements, rep):
    """a proof obligation or the tie broke: look for a concrete input on which the implementation
    contradicts the specification side (the model with the committed tables)"""
    found = []
    if pid == 'C17':
        # conditional compilation / an evaluator changed: compare the subsets on the constructs that reach the changed code
        import focus
        ch = dict(rep.get('evaluator_changes') or {})
        for f in rep.get('cfg_sites_changed', []):
            m = re.match(r'eval_(\w+)/', f)
            if m and m.group(1) in EVS and m.group(1) not in ch:
                ch[m.group(1)] = {'arms': [], 'other_changed': True, 'new_literals': []}
        extra = focus.focused_cases(ch, rng, limit=40000) if ch and 'error' not in ch else []
        C17_EXTRA[:] = [c for c in extra if c[1] == 'eval']
        try:
            return run_C17(tier, rng, {})['violations']
        finally:
            C17_EXTRA[:] = []
    try:
        if not rep.get('same_as_committed', True) or not os.path.exists(os.path.join(vlib.ROOT, 'driver/model_runner')):
            SPEC_RUNNER[0] = build_spec_runner()
    except vlib.BuildError as e:
        vlib.log('spec runner build failed: ' + str(e)[-300:])
        return found
    if SPEC_RUNNER[0] is None:
        # the tables are the committed ones: the regular run already was the comparison with the specification side
        found = focused_search(pid, rng, stats, rep)
        if not found:
            found += syntax_volume_search(pid, rng, stats, rep)
        return found
    old = vlib.run_model
    vlib.run_model = lambda lines, runner=None: old(lines, runner=SPEC_RUNNER[0])
    try:
        res = run_property(pid, 'quick' if tier == 'quick' else 'thorough', rng, {})
        found = res['violations']
        found += focused_search(pid, rng, stats, rep)
        if not found:
            found += syntax_volume_search(pid, rng, stats, rep)
    finally:
        vlib.run_model = old
    return found

FOCUS_EVS = {'C05': ['f64'], 'C06': ['i64'], 'C07': ['decimal'], 'C08': ['complex'], 'C09': ['number'], 'C18': [], 'C17': [], 'C03': [], 'C04': [], 'C19': []}
_ARITH = ['Add', 'Subtract', 'Multiply', 'Divide', 'Modulo', 'Negative', 'Number', 'Num']
FOCUS_ARMS = {'C05': _ARITH + ['Pow', 'Abs', 'Floor', 'Ceil', 'Truncate', 'Round', 'Sqrt'], 'C07': _ARITH,
              'C09': _ARITH + ['Pow', 'Abs', 'Floor', 'Ceil', 'Truncate', 'Round', 'Sqrt', 'Sign', 'Factorial'],
              'C11': ['Min', 'Max', 'Avg', 'Med', 'Gcd', 'Lcm'], 'C12': ['Multiply']}

def syntax_volume_search(pid, rng, stats, rep):
    """a tokenizer / parser / entry point no longer has the recorded shape: a large volume of random well-formed expressions
       (depth <= 5, juxtaposition, postfix runs, signs), their one- and two-token mutants, all token sequences of length 5 over
       the small alphabet and the fixed syntax streams, in the affected evaluators, against the specification side"""
    evs = []
    for ev, e in (rep.get('evaluators') or {}).items():
        if not e.get('regenerated', True) or e.get('engine_changed') or not e.get('entry_point_shape_ok', True):
            evs.append(ev)
    if not rep.get('ok', True) or (rep.get('notes') and not evs):
        evs = list(EVS)
    if not evs or pid in ('C16', 'C17', 'C18'):
        return []
    cs = (s_wf('thorough', rng, evs=evs, nt=12000, depth=5) + s_mut('thorough', rng, evs=evs, nt=12000) +
          s_tokseq('thorough', rng, evs=evs, qlen=5, tlen=5) + s_oppairs('thorough', rng, evs=evs) + s_nested('quick', rng, evs=evs) +
          s_maxlen('quick', rng, evs=evs) + s_longlits('quick', rng, evs=evs) + s_badlits('quick', rng, evs=evs) + s_nearmiss_chars('quick', rng, evs=evs))
    for ev in evs:          # juxtaposition chains with suffixes on every factor
        As = ['3', '(3)', gen.F1[ev][0] + '(3)'] + (['3!'] if gen.HAS_BANG[ev] else [])
        Ms = ['(2)', gen.F1[ev][0] + '(2)', '2'] + (['⌊2⌋'] if gen.HAS_FLOORBR[ev] else [])
        sf = ['', '²', '^2'] + (['!', '!!'] if gen.HAS_BANG[ev] else []) + (['°'] if gen.POSTFIX5[ev] else [])
        for A in As:
            for M in Ms:
                for C in Ms:
                    for s1 in sf:
                        for s2 in sf:
                            for c in ['%s', '7-%s', '-%s', '2^%s']:
                                cs.append(case(ev, 'eval', None, c % (A + M + s1 + C + s2)))
    cs = list(dict.fromkeys(cs))
    vlib.log('syntax volume search: %d cases in %s' % (len(cs), ','.join(evs)))
    st = {}
    cases, outs, model = run_streams(cs, st, budget=10**7)
    stats['evaluations'] = stats.get('evaluations', 0) + st.get('evaluations', 0)
    res = std_judge(pid, cases, outs, model)
    found = res['violations']
    for v in found:
        v['why'] = 'syntax volume search: ' + v['why']
    return found

def focused_search(pid, rng, stats, rep):
    """the translator localised a change in an evaluator's `eval` (or a new constant anywhere): dense grids on the constructs
       that reach the changed arms, restricted to the property's own fragment (tools/focus.py)"""
    import focus
    ch = rep.get('evaluator_changes') or {}
    if not ch or 'error' in ch:
        return []
    evs = FOCUS_EVS.get(pid)
    arms = FOCUS_ARMS.get(pid)
    sel = {}
    for k, v in ch.items():
        if not isinstance(v, dict):
            continue
        if k in EVS:
            if evs is not None and k not in evs:
                continue
            a = [x for x in v.get('arms', []) if arms is None or x in arms]
            oc = v.get('other_changed')
            if not a and oc and arms is not None:
                a, oc = list(arms), False
            if a or oc or v.get('new_literals'):
                sel[k] = {'arms': a, 'other_changed': oc, 'new_literals': v.get('new_literals', [])}
        elif evs is None or evs:
            sel[k] = v
    if not sel:
        return []
    cs = focus.focused_cases(sel, rng, limit=300000)
    if evs is not None:
        cs = [c for c in cs if c[0] in evs]
    if pid in ('C13', 'C14', 'C20', 'C12'):
        cs = cs[::3]
    if not cs:
        return []
    vlib.log('focused search: %d cases on %s' % (len(cs), json.dumps({k: v.get('arms') or v.get('new_literals') for k, v in sel.items()})[:200]))
    st = {}
    cases, outs, model = run_streams(cs, st, budget=10**7)
    stats['evaluations'] = stats.get('evaluations', 0) + st.get('evaluations', 0)
    res = std_judge(pid, cases, outs, model)
    found = []
    for v in res['violations']:
        c = v['cases'][0]
        if c[0] == 'complex' and ('7ff8' in str(v.get('expected')) or '7ff8' in str(v.get('observed')).lower() or 'fff8' in str(v.get('observed')).lower()):
            continue          # one-NaN limit of the wire format (DESIGN 9.7)
        v['why'] = 'focused search on the changed evaluator arms: ' + v['why']
        found.append(v)
    for prof, impl in outs.items():
        for c, x in zip(cases, impl):
            cl = vlib.outcome_class(x)
            if pid == 'C01' and cl in ('PANIC', 'ABORT', 'TIMEOUT', 'BUDGET'):
                found.insert(0, {'kind': 'panic', 'cases': [list(c)], 'profile': prof, 'observed': x, 'why': '%s build: %s on %r' % (prof, x, dec_expr(c[3]))})
            t = vlib.ticks_of(x)
            n = len(dec_expr(c[3]))
            if pid == 'C02' and (cl in ('BUDGET', 'TIMEOUT', 'ABORT') or (t is not None and t > BUDGET(n))):
                found.insert(0, {'kind': 'steps', 'cases': [list(c)], 'observed': x, 'why': '%s: %s steps for %d characters (budget %d)' % (dec_expr(c[3])[:60], t if t is not None else cl, n, BUDGET(n))})
    return found

def rejudge(pid, cases, d, rl, m):
    for x, y, z in zip(d, rl, m):
        if vlib.strip_ticks(x) != z or vlib.strip_ticks(y) != z:
            return True
        if vlib.outcome_class(x) in ('PANIC', 'ABORT', 'TIMEOUT', 'BUDGET'):
            return True
    return False

# ============================================================================ metamorphic properties
import re as _re
from decimal import Decimal as _D

def run_pairs(pid, pairs, stats, profiles=('debug', 'release'), what='pair', numeric_only=False):
    """pairs: list of (caseA, caseB, note); both must have the same outcome (bit for bit) on the implementation;
       every case is also compared with the model"""
    allc = []
    for a, b, _ in pairs:
        allc.append(a); allc.append(b)
    cases, outs, model = run_streams(allc, stats, profiles=profiles)
    res = std_judge(pid, cases, outs, model)
    idx = {c: i for i, c in enumerate(cases)}
    n = 0
    for prof in profiles:
        impl = outs[prof]
        for a, b, note in pairs:
            x, y = vlib.strip_ticks(impl[idx[a]]), vlib.strip_ticks(impl[idx[b]])
            n += 1
            if x != y and numeric_only and a[0] in ('number', 'decimal') and value_of_out(a[0], x) is not None \
                    and value_of_out(a[0], x) == value_of_out(a[0], y):
                continue      # Integer(2) vs Float(2.0), 20.0 vs 20: the same number (the property compares values)
            if x != y:
                res['violations'].insert(0, {'kind': 'metamorphic', 'cases': [list(a), list(b)], 'profile': prof,
                                             'observed': x + ' | ' + y,
                                             'why': '%s: %r gives %s but %r gives %s (%s build)' % (note, dec_expr(a[3]), x, dec_expr(b[3]), y, prof)})
    res['levels'][what + '/impl-vs-impl'] = (n, sum(1 for v in res['violations'] if v['kind'] == 'metamorphic'))
    return res

CTX = ['%s', '2+%s', '2*%s', '6/%s', '2^%s', '-%s', '%s+1', '%s*2', '(%s)', '3-%s-1', '+%s', '1+2*%s*3', '2^%s*3', '-%s-1', '2^-%s', '2*-%s', '6/-%s', '2^+%s', '2--%s']
def ctxs(ev):
    c = list(CTX)
    if gen.FV[ev]:
        c += ['max(%s,1)', 'min(1,%s)']
    if ev != 'complex':
        c += ['abs(%s)', 'mod(7,%s)' if ev != 'complex' else 'abs(%s)']
    else:
        c += ['abs(%s)', 'pow(%s,2)']
    return c

def juxt_parts(rng, ev, n):
    g = ExprGen(rng, ev, lits=gen.SMALL_LITS[ev], allow_ans=False, allow_juxt=False)   # A and R end in their own closing token
    out = []
    for _ in range(n):
        k = rng.below(5)
        lits = [l for l in gen.SMALL_LITS[ev] if not l.endswith('i')] or ['2']
        if k == 0:
            A = rng.choice(lits)
        elif k == 1:
            A = '(' + g.expr(1) + ')'
        elif k == 2 and gen.HAS_FLOORBR[ev]:
            A = rng.choice(['⌊%s⌋', '⌈%s⌉']) % g.expr(1)
        elif k == 3 and gen.HAS_BANG[ev]:
            A = rng.choice(lits[:4]) + '!'
        else:
            A = g.call(1)
        # right factor: a trigger-starting primary with ^ / superscript / ! suffixes
        kk = rng.below(4)
        if kk == 0:
            R = '(' + g.expr(1) + ')'
        elif kk == 1 and gen.HAS_FLOORBR[ev]:
            R = rng.choice(['⌊%s⌋', '⌈%s⌉']) % g.expr(1)
        elif kk == 2 and k != 0:
            R = rng.choice(lits)
        else:
            R = g.call(1)
        sfx = rng.below(6)
        if sfx == 0:
            R += '^' + rng.choice(lits[:4])
        elif sfx == 1:
            R += '²'
        elif sfx == 2 and gen.HAS_BANG[ev]:
            R += '!'
        elif sfx == 3:
            R += '^-' + rng.choice(lits[1:4])
        out.append((A, R))
    return out

def run_C12(tier, rng, stats):
    pairs = []
    n = 60 if tier == 'quick' else 600
    for ev in EVS:
        for A, R in juxt_parts(rng, ev, n):
            for c in ctxs(ev):
                a = case(ev, 'eval', None, c % (A + R))
                b = case(ev, 'eval', None, c % ('(' + A + '*(' + R + '))'))
                pairs.append((a, b, 'implicit product vs (A*(R))'))
        # chains of three and more factors and bracketed products as the right factor, over operands whose products are
        # inexact or overflow (so that a re-association of the implicit product changes the bits)
        if ev != 'i64':
            inex = ['.1', '0.1', '0.3', '0.7', '3', '1.1', '100000000000000000000' if ev == 'decimal' else '1' + '0' * 308]
            rs = ['(.2)(.3)', '(0.2*0.3)', '(.1*.7)', '(0.3)(0.7)(0.9)', '(10)(.1)', '(0.7)(1.1)^2', 'abs(0.3)(0.7)', '(0.7*1.1*0.3)']
            for A in inex:
                for R in rs:
                    for c in ['%s', '1+%s', '2*%s', '(%s)/3']:
                        pairs.append((case(ev, 'eval', None, c % (A + R)), case(ev, 'eval', None, c % ('(' + A + '*(' + R + '))')), 'implicit product chain vs (A*(R))'))
                        pairs.append((case(ev, 'ast', None, c % (A + R)), case(ev, 'ast', None, c % ('(' + A + '*(' + R + '))')), 'implicit product chain vs (A*(R)) (tree)'))
    # chains whose MIDDLE factor carries a suffix: A M! C = (A*((M)!*(C))) (a factorial inside a right factor continues the
    # product); with ^ / superscript suffixes the model decides (compared as plain cases below)
    extra = []
    for ev in EVS:
        As = ['3', '(3)', 'abs(3)'] + (['3!'] if gen.HAS_BANG[ev] else [])
        Ms = ['2', '(2)', 'abs(2)'] + (['⌊2⌋'] if gen.HAS_FLOORBR[ev] else [])
        Cs = ['2', '(4)', 'abs(5)', '(4)!' if gen.HAS_BANG[ev] else '(4)', '2(3)']
        for A in As:
            for M in Ms:
                if A == '3' and M == '2':
                    continue
                for C in Cs:
                    for c in ['%s', '7-%s', '2*%s', '(%s)', '2^%s']:
                        if gen.HAS_BANG[ev]:
                            pairs.append((case(ev, 'eval', None, c % (A + M + '!' + C)), case(ev, 'eval', None, c % ('(' + A + '*((' + M + ')!*(' + C + ')))')), 'A M! C vs (A*((M)!*(C)))'))
                            pairs.append((case(ev, 'eval', None, c % (A + M + '!!' + C)), case(ev, 'eval', None, c % ('(' + A + '*(((' + M + ')!)!*(' + C + ')))')), 'A M!! C vs (A*(((M)!)!*(C)))'))
                        for sfx in ['²', '^2', '^2!', '²!'] + (['°'] if gen.POSTFIX5[ev] else []):
                            extra.append(case(ev, 'eval', None, c % (A + M + sfx + C)))
                            extra.append(case(ev, 'ast', None, c % (A + M + sfx + C)))
    # every function-call form as the LEFT factor, including the zero-argument avg() that the parser turns into a literal
    for ev in EVS:
        calls = [f + '(2)' for f in gen.F1[ev][:6]] + [f + '(2,3)' for f in gen.F2[ev][:3]] + \
                [f + a for f in gen.FV[ev] for a in ('(2)', '(2,3)', '(1,2,3)')] + (['avg()'] if 'avg' in gen.FV[ev] else [])
        rights = ['(3)', '3', 'abs(4)'] + (['⌊2.5⌋', '⌈2.5⌉'] if gen.HAS_FLOORBR[ev] else []) + ['(3)^2']
        for A in calls:
            for R in rights:
                for c in ['%s', '1+%s', gen.F2[ev][0] + '(7,%s)']:
                    pairs.append((case(ev, 'eval', None, c % (A + R)), case(ev, 'eval', None, c % ('(' + A + '*(' + R + '))')), 'call as left factor vs (A*(R))'))
    rej = []
    for ev in EVS:
        for left in ['@', 'pi', 'e', '2²', '2°', '2rad', 'π']:
            for right in ['(3)', '2', 'abs(3)', '⌊3⌋', '@', 'pi']:
                rej.append(case(ev, 'eval', None, left + right))
                rej.append(case(ev, 'eval', None, '1+' + left + right + '*2'))
                if left in ('@', 'pi', 'e', 'π'):
                    rej.append(case(ev, 'eval', None, '(2)' + left))
    # a literal directly followed by a literal is not a product (the lexer can split `.5.5`, `1.5.5`, `1..5`, `2ii` into two literal tokens)
    for ev in ['f64', 'decimal', 'complex', 'number']:
        nn = ['.5.5', '1.5.5', '1..5', '2.5.5.5', '0.5.5', '.5.25', '1..', '.5.'] + (['2ii', 'ii', 'i2', 'i.5', '2i.5', '.5i.5i', '2i3', 'i2i'] if ev == 'complex' else [])
        for l in nn:
            for c in ['%s', '(%s)', '2(%s)', '1+%s', '%s*2', 'abs(%s)', '-%s', '%s²', gen.F2[ev][0] + '(1,%s)'] + (['%s!'] if gen.HAS_BANG[ev] else []):
                rej.append(case(ev, 'eval', None, c % l))
    stats['rule'] = ('implicit products A R (A: literal / group / floor-ceil brackets / call / factorial; R: group, brackets, call or literal with ^, superscript, ! suffixes) '
                     'in %d syntactic contexts per evaluator, each rendered implicitly and as (A*(R)); plus forbidden juxtapositions with constants, @, superscripts, ° and rad' % len(ctxs('f64')))
    res = run_pairs('C12', pairs, stats, profiles=('debug',))
    cases, outs, model = run_streams(rej + extra + s_tokseq(tier, rng, mode='ast', qlen=4, tlen=5), stats, profiles=('debug',))
    merge(res, std_judge('C12', cases, outs, model))
    rejset = set(rej)
    for c, x in zip(cases, outs['debug']):
        if c in rejset and vlib.outcome_class(x) == 'OK':
            res['violations'].insert(0, {'kind': 'forbidden-juxtaposition-accepted', 'cases': [list(c)], 'observed': x,
                                         'why': 'a constant / @ / superscript / degree / a literal after a literal took part in an implicit product'})
    return res

WS = [0x9, 0xA, 0xB, 0xC, 0xD, 0x20, 0x85, 0xA0, 0x1680] + list(range(0x2000, 0x200B)) + [0x2028, 0x2029, 0x202F, 0x205F, 0x3000]
ALIASES = [('sgn', 'sign'), ('sgn', 'signum'), ('sign', 'signum'), ('med', 'median'), ('trunc', 'truncate'), ('w', 'lambert_w'),
           ('asinh', 'arsinh'), ('acosh', 'arcosh'), ('atanh', 'artanh')]

def alias_swap(rng, s):
    cands = []
    for a, b in ALIASES:
        for x, y in ((a, b), (b, a)):
            for m in _re.finditer(r'(?<![a-z_0-9])' + x + r'\(', s):
                cands.append((m.start(), len(x), y))
    for m in _re.finditer(r'(?<![a-z_])pi(?![a-z])', s):
        cands.append((m.start(), 2, 'π'))
    for m in _re.finditer('π', s):
        cands.append((m.start(), 1, 'pi'))
    if not cands:
        return None
    i, l, y = rng.choice(cands)
    return s[:i] + y + s[i + l:]

def run_C13(tier, rng, stats):
    pairs = []
    n = 150 if tier == 'quick' else 1500
    for ev in EVS:
        g = ExprGen(rng, ev)
        gs = ExprGen(rng, ev, lits=gen.SMALL_LITS[ev], allow_sup=False)
        for i in range(n):
            e = g.expr(1 + rng.below(3))
            if rng.chance(1, 4):
                e = gen.mutate(rng, e)           # malformed inputs too
            ph = rng.choice(gen.ph_pool(ev))
            # white space anywhere (even inside names and numbers)
            w = e
            for _ in range(1 + rng.below(4)):
                j = rng.below(len(w) + 1)
                w = w[:j] + chr(rng.choice(WS)) + w[j:]
            pairs.append((case(ev, 'eval', ph, e), case(ev, 'eval', ph, w), 'white space'))
            a = alias_swap(rng, e)
            if a is not None:
                pairs.append((case(ev, 'eval', ph, e), case(ev, 'eval', ph, a), 'alias'))
            # redundant brackets / prefix + around the whole (well-formed) expression
            e2 = gs.expr(2)
            pairs.append((case(ev, 'eval', ph, e2), case(ev, 'eval', ph, '(' + e2 + ')'), 'redundant brackets'))
            x, y = gs.expr(1), gs.expr(1)
            for c in ctxs(ev)[:8]:
                if gen.HAS_FLOORBR[ev]:
                    pairs.append((case(ev, 'eval', ph, c % ('floor(' + x + ')')), case(ev, 'eval', ph, c % ('⌊' + x + '⌋')), 'floor brackets'))
                    pairs.append((case(ev, 'eval', ph, c % ('ceil(' + x + ')')), case(ev, 'eval', ph, c % ('⌈' + x + '⌉')), 'ceil brackets'))
                if 'mod' in gen.F2[ev]:
                    pairs.append((case(ev, 'eval', ph, c % ('mod(' + x + ',' + y + ')')), case(ev, 'eval', ph, c % ('((' + x + ')%(' + y + '))')), 'mod'))
                pairs.append((case(ev, 'eval', ph, c % ('pow(' + x + ',' + y + ')')), case(ev, 'eval', ph, c % ('((' + x + ')^(' + y + '))')), 'pow'))
                pairs.append((case(ev, 'eval', ph, c % ('(' + x + ')')), case(ev, 'eval', ph, c % ('(+(' + x + '))')), 'prefix +'))
            # superscript run vs ^N, followed by a binary operator, closing bracket, comma or the end
            P = rng.choice([rng.choice(gen.SMALL_LITS[ev][:6]), '(' + x + ')', 'abs(' + x + ')'])
            N = str(rng.below(4)) + (str(rng.below(10)) if rng.chance(1, 3) else '')
            sup = ''.join(gen.SUP[int(ch)] for ch in N)
            for tail_l, tail_r in [('', ''), ('', '+1'), ('', '*3'), ('(', ')'), ('2-', '/2'), ('abs(', ')'), ('pow(', ',2)')] + ([('', '°')] if gen.POSTFIX5[ev] else []):
                pairs.append((case(ev, 'eval', ph, tail_l + P + sup + tail_r), case(ev, 'eval', ph, tail_l + P + '^' + N + tail_r), 'superscript'))
    # superscript runs of every length (zero padded, long, cycling digits) against ^N
    for ev in EVS:
        for r in longlit_runs():
            sup = ''.join(gen.SUP[int(ch)] for ch in r)
            for P, tl, tr in [('2', '', ''), ('1', '', '+1'), ('(1)', '2*', ''), ('2', '(', ')')]:
                if len(tl + P + '^' + r + tr) <= 256:
                    pairs.append((case(ev, 'eval', None, tl + P + sup + tr), case(ev, 'eval', None, tl + P + '^' + r + tr), 'superscript'))
    # a signed right operand followed by ^ / a superscript: the sign binds tighter, x op -y^n = x op ((-y)^n); doubled and mixed signs too
    for ev in EVS:
        ys = ['2', '3'] + (['.5'] if ev != 'i64' else [])
        for x in ['5', '1'] + (['1.5'] if ev != 'i64' else []):
            for op in [o for o in gen.BINOPS[ev] if o != '^']:      # after ^ the next ^ is not absorbed (left associative): a different tree
                for sg in ['-', '+', '--', '-+', '+-']:
                    for y in ys:
                        for sfx in ['^2', '^3', '²', '³', '^2^3']:
                            a = x + op + sg + y + sfx
                            b = x + op + '((' + sg + y + ')' + sfx + ')'
                            pairs.append((case(ev, 'eval', None, a), case(ev, 'eval', None, b), 'signed operand before ^: the sign binds tighter'))
                            pairs.append((case(ev, 'eval', None, 'abs(' + a + ')'), case(ev, 'eval', None, 'abs(' + b + ')'), 'signed operand before ^: the sign binds tighter'))
    # prefix + and redundant brackets up to exactly the 256-character bound
    for ev in EVS:
        for o in ['1', '@', '2+3']:
            for L in (254, 255, 256):
                pairs.append((case(ev, 'eval', None, o), case(ev, 'eval', None, '+' * (L - len(o)) + o), 'prefix + up to the length bound'))
                k = (L - len(o)) // 2
                pairs.append((case(ev, 'eval', None, o), case(ev, 'eval', None, '(' * k + o + ')' * k), 'redundant brackets up to the length bound'))
    # very long superscript and digit runs (zero padded: the value stays small): a reader that recurses or counts in a narrow type
    for ev in EVS:
        for n in (5000, 20000, 40000):
            sup0 = gen.SUP[0] * n + gen.SUP[2]
            pairs.append((case(ev, 'eval', None, '1' + sup0), case(ev, 'eval', None, '1^' + '0' * n + '2'), 'superscript run of %d digits' % (n + 1)))
            pairs.append((case(ev, 'eval', None, '0' * n + '7'), case(ev, 'eval', None, '7'), 'literal with %d leading zeros' % n))
    # very long runs of white space (the stripped input is short; raw lengths cross 2^12, 2^15, 2^16): size limits on the raw argument
    for ev in EVS:
        for n in (300, 4090, 33000, 66000, 70000):
            for wch in (0x20, 0x3000):
                pad = chr(wch) * (n // (1 if wch < 0x80 else 3))
                pairs.append((case(ev, 'eval', None, '2+2'), case(ev, 'eval', None, '2' + pad + '+2'), 'long white-space run (%d bytes)' % n))
                pairs.append((case(ev, 'eval', None, '2+'), case(ev, 'eval', None, pad + '2+'), 'long white-space run (%d bytes)' % n))
    # every white-space character, every position of a fixed expression
    for ev in EVS:
        base = {'f64': 'sin(1.5)+2', 'i64': 'gcd(12,18)+2', 'decimal': 'abs(1.5)+2', 'complex': 'sin(1.5)+2i', 'number': 'sin(1.5)+2'}[ev]
        for wch in WS:
            for j in range(len(base) + 1):
                pairs.append((case(ev, 'eval', None, base), case(ev, 'eval', None, base[:j] + chr(wch) + base[j:]), 'white space'))
        for zw in [0x200B, 0x180E, 0xFEFF, 0x2060] + [c for c in range(0, 0x20) if not 9 <= c <= 13] + [0x7F, 0x80, 0x84, 0x86, 0x9F, 0xAD, 0x2027, 0x202A, 0x2061, 0x1D, 0xE0020]:     # look-alikes / controls that are NOT White_Space: must be rejected, not stripped
            pairs.append((case(ev, 'eval', None, 'q'), case(ev, 'eval', None, '1' + chr(zw) + '+1'), 'non-white-space look-alike is an error'))
    stats['rule'] = ('metamorphic pairs: 1-4 random White_Space characters inserted anywhere (and every one of the 25 characters at every position of a fixed expression), '
                     'alias swaps, floor/ceil brackets, mod/pow as operators, superscript run vs ^N in the stated follow contexts, prefix +, redundant brackets; well-formed and mutated inputs')
    # a signed literal as the WHOLE input against its redundant-bracket and prefix-plus spellings (entry-point fast paths)
    for ev in EVS:
        for l in ['9223372036854775808', '9223372036854775807', '0009223372036854775808', '5', '0', '.5', '5.', '1e5', 'inf', 'nan', 'NaN', '1_000',
                  '79228162514264337593543950335', '79228162514264337593543950336', '2i', 'i', 'pi', 'e', '@']:
            for sg in ['', '-', '+', '--', '-+']:
                x = sg + l
                for y in ['(' + x + ')', sg + '(' + l + ')', '+' + x, x + ' ', ' ' + x, '(' + sg + '(' + l + '))']:
                    pairs.append((case(ev, 'eval', None, x), case(ev, 'eval', None, y), 'whole-input signed literal vs an equivalent spelling'))
    res = run_pairs('C13', pairs, stats, profiles=('debug', 'release'))
    long_run_probe(res, stats)
    return res

def lit_of_ph(ev, ph):
    """a bracketed literal expression that evaluates exactly to the placeholder, or None"""
    if ev == 'i64':
        z = int(ph)
        if z == -2**63:
            return None
        return '(%d)' % z if z >= 0 else '(-%d)' % -z
    if ev == 'f64':
        x = w2f(ph)
        if x != x or x in (float('inf'), float('-inf')):
            return None
        s = format(_D(abs(x)), 'f')
        return '(' + s + ')' if not (x < 0 or (x == 0 and str(x).startswith('-'))) else '(-' + s + ')'
    if ev == 'number':
        if ph[0] == 'I':
            z = int(ph[1:])
            if z == -2**63:
                return None
            return '(%d)' % z if z >= 0 else '(-%d)' % -z
        x = w2f(ph[1:])
        if x != x or x in (float('inf'), float('-inf')):
            return None
        s = format(_D(abs(x)), 'f')
        if '.' not in s:
            s += '.0'
        return '(' + s + ')' if not (x < 0 or (x == 0 and str(x).startswith('-'))) else '(-' + s + ')'
    if ev == 'decimal':
        neg = ph.startswith('-')
        c, sc = ph.lstrip('-').split('/')
        sc = int(sc)
        c = c.rjust(sc + 1, '0')
        s = c[:len(c) - sc] + ('.' + c[len(c) - sc:] if sc else '')
        if neg and int(c) == 0:
            return None
        return '(' + s + ')' if not neg else '(-' + s + ')'
    return None

# ============================================================================ placeholder histories on one worker thread
def ph_history(pid, tier, rng, stats, evs=EVS):
    """One formula evaluated consecutively ON ONE WORKER THREAD under a sweep of placeholders (forwards, then backwards, so every
    adjacent pair of pool values meets in both orders; +0.0 / -0.0 and equal-valued decimals of different scale are adjacent),
    for short formulas and for the same formulas padded beyond 32 and 64 characters and with different white space: the value may
    depend on the current placeholder only (a per-thread memo keyed on the text, or comparing placeholders with ==, shows up here).
    The implementation runs unsharded (a single impl_runner process, one worker thread); the model is the oracle."""
    lines, cases = [], []
    for ev in evs:
        pool = gen.ph_pool(ev)
        if tier == 'quick':
            pool = pool[:14]
        if ev == 'f64':
            pool = [f2w(0.0), f2w(-0.0), f2w(0.0)] + pool
        if ev == 'number':
            pool = ['F' + f2w(0.0), 'F' + f2w(-0.0), 'I0', 'F' + f2w(0.0)] + pool
        if ev == 'decimal':
            pool = ['1/0', '10/1', '100/2', '1/0', '-0/1', '0/0'] + pool
        sweep = pool + pool[::-1][1:]
        div = '7/@' if ev == 'i64' else '1/@'
        base = ['@', '-@', div, '@*3', '@+1', '@-@', '2*@+1', '(@)*(@)', '@*1.10+0.1' if ev not in ('i64',) else '@*11+1']
        if ev != 'complex':
            base += ['abs(@)']
        if ev in ('f64', 'number'):
            base += ['sqrt(@)']
        forms = []
        for e in base:
            forms.append(e)
            forms.append('(' + e + ')' + '*1' * 16)          # >= 32 characters, sign of zero / NaN / scale preserved
            forms.append('( ' + e + ' )' + ' * 1' * 32)      # >= 64 characters after stripping, blanks in between
        for e in forms:
            for ph in sweep:
                c = case(ev, 'eval', ph, e)
                cases.append(c); lines.append('\t'.join(c))
    outs = {}
    for prof in ('debug', 'release'):
        exe = os.path.join(vlib.ROOT, 'harness/target', prof, 'impl_runner')
        outs[prof] = vlib.run_sharded([exe, str(2**62), '4000'], lines, shards=1)
    model = vlib.run_model(lines)
    stats['evaluations'] = stats.get('evaluations', 0) + 3 * len(lines)
    res = std_judge(pid, cases, outs, model)
    for (prof, i), v in zip(res['disagreements'], res['violations']):
        if i > 0:      # the replay needs the call that came directly before on the same thread
            v['cases'] = [list(cases[i - 1]), list(cases[i])]
            v['why'] += ' -- second of two consecutive calls on one thread (the first call is the preceding case of the replay)'
    res['levels'] = {'placeholder-history/' + k: v for k, v in res['levels'].items()}
    return res

def run_C14(tier, rng, stats):
    pairs = []
    n = 400 if tier == 'quick' else 4000
    for ev in ['f64', 'i64', 'decimal', 'number']:
        g = ExprGen(rng, ev, lits=gen.SMALL_LITS[ev] + ['@', '@', '@'])
        pool = gen.ph_pool(ev)
        for i in range(n):
            e = g.expr(1 + rng.below(3))
            if '@' not in e:
                e = '@+' + e
            ph = rng.choice(pool)
            lit = lit_of_ph(ev, ph)
            if lit is None:
                pairs.append((case(ev, 'eval', ph, e), case(ev, 'eval', ph, e), 'self'))
                continue
            pairs.append((case(ev, 'eval', ph, e), case(ev, 'eval', None, e.replace('@', lit)), '@ vs the literal of the placeholder'))
    # the placeholder comes back unchanged
    cs = []
    for ev in EVS:
        for ph in gen.ph_pool(ev):
            cs.append(case(ev, 'eval', ph, '@'))
            cs.append(case(ev, 'eval', ph, '(@)'))
            cs.append(case(ev, 'eval', ph, '+@'))
    # @ takes no part in implicit multiplication: @ next to every juxtaposition trigger / juxtaposition-capable operand must be Err
    nj = []
    for ev in EVS:
        f = gen.F1[ev][0]
        right = ['(3)', '2', '.5', '0.5', f + '(1)', '@', 'pi', 'e', 'π'] + (['⌊1⌋', '⌈1⌉'] if gen.HAS_FLOORBR[ev] else []) + (['i', '2i'] if ev == 'complex' else [])
        left = ['2', '(3)', f + '(1)', '@', 'pi', 'e', '2²'] + (['3!'] if gen.HAS_BANG[ev] else []) + (['⌊1⌋'] if gen.HAS_FLOORBR[ev] else []) + (['i'] if ev == 'complex' else [])
        ctxs = ['%s', '1+%s', '%s+1', '(%s)', '2*%s', '-%s', '%s^2'] + ([gen.FV[ev][0] + '(%s,1)', gen.FV[ev][0] + '(1,%s)'] if gen.FV[ev] else [gen.F2[ev][0] + '(%s,1)'])
        ph = gen.ph_pool(ev)[3]
        for cx in ctxs:
            for r in right:
                nj.append(case(ev, 'eval', ph, cx % ('@' + r)))
            for l in left:
                nj.append(case(ev, 'eval', ph, cx % (l + '@')))
    cs += nj
    njset = set(nj)
    stats['rule'] = ('expressions with 1..n occurrences of @ x the placeholder pool of each type (non-finite, -0.0, extreme integers, scaled decimals), compared with the same expression '
                     'where @ is replaced by a bracketed literal of the same value; "@", "(@)", "+@" must return the placeholder bit for bit; @ next to every juxtaposition trigger / operand in 9 contexts must be Err')
    res = run_pairs('C14', pairs, stats)
    cases, outs, model = run_streams(cs, stats)
    merge(res, std_judge('C14', cases, outs, model))
    merge(res, ph_history('C14', tier, rng, stats))
    for prof, impl in outs.items():
        for c, x in zip(cases, impl):
            want = 'OK ' + (c[2] if not (c[0] == 'f64' and c[2].lower().startswith('7ff8')) else '7ff8000000000000')
            got = vlib.strip_ticks(x)
            if c in njset:
                if vlib.outcome_class(x) != 'ERR':
                    res['violations'].insert(0, {'kind': 'placeholder-juxtaposed', 'cases': [list(c)], 'observed': got, 'expected': 'ERR',
                                                 'why': '%r: @ took part in an implicit multiplication (must be rejected)' % dec_expr(c[3])})
                continue
            if c[0] in ('f64', 'i64', 'number', 'decimal') and got != want and not (c[0] == 'decimal' and c[2].startswith('-0/')):
                res['violations'].insert(0, {'kind': 'placeholder-changed', 'cases': [list(c)], 'observed': got, 'expected': want,
                                             'why': '@ did not evaluate to the placeholder itself'})
    return res

def run_C20(tier, rng, stats):
    n = 500 if tier == 'quick' else 5000
    triples = []
    first = []
    for ev in EVS:
        gc = ExprGen(rng, ev, lits=gen.SMALL_LITS[ev] + ['@', '@'], allow_ans=True)
        ge = ExprGen(rng, ev, lits=lit_pool_small(ev))
        pool = gen.ph_pool(ev)
        for i in range(n):
            C = gc.expr(1 + rng.below(3))
            if '@' not in C:
                C = rng.choice(['@+%s', '%s*@', 'abs(@)-%s', '2^@+%s', '-@^%s', '%s-@']) % C
            E = ge.expr(1 + rng.below(3))
            p = rng.choice(pool)
            first.append(case(ev, 'eval', p, E))
            triples.append((ev, C, E, p))
    # every (parent construct, child operation) pair over boundary operands: a parent that looks through its child node
    # (fused multiply-add, floor of an exact quotient, strength reductions keyed on the child's shape) differs from the
    # same parent applied to the child's VALUE exactly when the child's rounding / overflow behaviour matters
    for ev in EVS:
        bp = {'f64': ['0.1', '0.3', '3', '9007199254740993', '1' + '0' * 308, '0.' + '0' * 320 + '7', '7', '0'],
              'number': ['0.1', '3', '9007199254740995', '9223372036854775807', '2', '7', '0', '4611686018427387905'],
              'i64': ['3', '9223372036854775807', '2', '7', '0', '4611686018427387905', '(-9223372036854775807-1)', '63'],
              'decimal': ['0.1', '3', '79228162514264337593543950335', '0.0000000000000000000000000001', '7', '0', '2', '1.10'],
              'complex': ['0.1', '(3+i)', '2i', '1000000', '7', '0', '(0.3-0.7i)', '2']}[ev]   # finite: the wire format cannot carry the sign bit of a NaN, which num_complex's functions inspect
        parents = ['-@', '+@', '@+1', '1+@', '@-1', '1-@', '2*@', '@*2', '@/2', '2/@', '@^2', '2^@', '@²', 'abs(@)', '(@)(2)', '2(@)'] + \
                  ([f + '(@)' for f in ('floor', 'ceil', 'round', 'trunc', 'sgn', 'sqrt')] if ev not in ('complex',) else ['sqrt(@)', 'exp(@)']) + \
                  (['⌊@⌋', '⌈@⌉'] if gen.HAS_FLOORBR[ev] else []) + (['@!'] if gen.HAS_BANG[ev] else []) + \
                  (['@%7', '7%@'] if '%' in gen.BINOPS[ev] else []) + (['@&6', '@|1', '@<<1', '@>>1'] if ev == 'i64' else []) + \
                  ([f + '(@,2)' for f in gen.FV[ev][:4]] + [gen.F2[ev][0] + '(@,2)', gen.F2[ev][0] + '(2,@)'])
        if ev == 'i64':
            parents = [q for q in parents if not q.startswith(('floor', 'ceil', 'round', 'trunc'))]
        for a in bp:
            for b in bp:
                for op in gen.BINOPS[ev]:
                    E = a + op + b
                    first.append(case(ev, 'eval', None, E))
                    for C in parents:
                        triples.append((ev, C, E, gen.default_ph(ev)))
    # the hole at every bracket depth 1..400 (far beyond the 256-character inputs of C01): a nesting limit or depth-dependent
    # behaviour of the parser makes C[(E)] differ from C[@] in a band of depths
    for ev in EVS:
        first.append(case(ev, 'eval', None, '1+2'))
        kinds = [('(', ')')] + ([('⌊', '⌋'), ('⌈', '⌉')] if gen.HAS_FLOORBR[ev] else []) + [('abs(', ')')]
        for o, c_ in kinds:
            for d in range(1, 401 if o != 'abs(' else 201):
                if tier == 'quick' and o != '(' and d % 3:
                    continue
                triples.append((ev, o * d + '@*2' + c_ * d, '1+2', gen.default_ph(ev)))
    first += s_fusion(tier, rng) + s_fusion3(tier, rng)
    cases, outs, model = run_streams(first, stats)
    res = std_judge('C20', cases, outs, model)
    idx = {c: i for i, c in enumerate(cases)}
    pairs = []
    for ev, C, E, p in triples:
        o = vlib.strip_ticks(outs['debug'][idx[case(ev, 'eval', p, E)]])
        if not o.startswith('OK '):
            continue
        v = o[3:]
        pairs.append((case(ev, 'eval', p, C.replace('@', '(' + E + ')')), case(ev, 'eval', v, C), 'C[(E)] with p vs C[@] with v'))
    stats['rule'] = ('random (context, subexpression) pairs of well-formed expressions per evaluator, evaluated three times through the public API: E alone, C[(E)], '
                     'C[@] with the placeholder set to the value of E; contexts put the hole in operand, argument, exponent, prefix-sign and aggregate positions; plus every (parent construct, child binary operation) pair over boundary operands')
    merge(res, run_pairs('C20', pairs, stats))
    return res

def lit_pool_small(ev):
    return gen.SMALL_LITS[ev] + (['@'] if ev != 'complex' else [])

for _p in ['C12', 'C13', 'C14', 'C20']:
    PROPS[_p] = {}

# ============================================================================ C11 aggregates
import itertools as _it
AGG_POOL = {'i64': ['0', '1', '2', '3', '5', '6', '-2', '-3', '12', '18', '9223372036854775807', '-9223372036854775807', '9007199254740992', '9007199254740993'],
            'f64': ['0', '1', '2', '3', '0.5', '2.5', '-2', '-0.5', '7', '100'],
            'decimal': ['0', '1', '2', '3', '0.5', '2.5', '-2', '-0.5', '1.10', '100'],
            'number': ['0', '1', '2', '3', '0.5', '2.5', '-2', '-0.5', '7', '2.0', '9007199254740992', '9007199254740993', '9007199254740992.0', '-9007199254740993']}

def agg_arg(v):
    return v if not v.startswith('-') else '(' + v + ')'

def py_agg(ev, f, vals):
    """independent reference on the multiset of values (exact rationals); None = not decided here"""
    from fractions import Fraction as Fr
    # eval_f64 / eval_number arguments are the doubles the literals denote (0.7 is not 7/10)
    xs = [Fr(float(v)) if ev == 'f64' or (ev == 'number' and '.' in v) else Fr(v) for v in vals]
    if f == 'min':
        return min(xs)
    if f == 'max':
        return max(xs)
    if f == 'avg':
        s = sum(xs) / len(xs)
        if ev == 'i64':
            import math as _m
            q = abs(sum(xs)) // len(xs)
            return Fr(q if sum(xs) >= 0 else -q)
        return s
    if f in ('med', 'median'):
        s = sorted(xs)
        n = len(s)
        if n % 2:
            return s[n // 2]
        m = (s[n // 2] + s[n // 2 - 1]) / 2
        if ev == 'i64':
            t = s[n // 2] + s[n // 2 - 1]
            q = abs(t) // 2
            return Fr(q if t >= 0 else -q)
        return m
    if f == 'gcd':
        import math as _m
        g = 0
        for x in xs:
            g = _m.gcd(g, abs(int(x)))
        return Fr(g)
    if f == 'lcm':
        import math as _m
        if any(x == 0 for x in xs):
            return Fr(0)
        l = 1
        for x in xs:
            l = l * abs(int(x)) // _m.gcd(l, abs(int(x)))
        return Fr(l)
    return None

def value_of_out(ev, out):
    from fractions import Fraction as Fr
    if not out.startswith('OK '):
        return None
    v = out[3:]
    if ev == 'i64':
        return Fr(int(v))
    if ev == 'f64':
        x = w2f(v)
        return Fr(x) if x == x and abs(x) != float('inf') else None
    if ev == 'number':
        if v[0] == 'I':
            return Fr(int(v[1:]))
        x = w2f(v[1:])
        return Fr(x) if x == x and abs(x) != float('inf') else None
    if ev == 'decimal':
        neg = v.startswith('-')
        c, sc = v.lstrip('-').split('/')
        r = Fr(int(c), 10 ** int(sc))
        return -r if neg else r
    return None

def run_C11(tier, rng, stats):
    cs = []
    meta = {}
    permpairs = []
    maxlen = 3 if tier == 'quick' else 4
    for ev in ['f64', 'i64', 'decimal', 'number']:
        pool = AGG_POOL[ev]
        small = pool[:7] if tier == 'quick' else pool
        for f in gen.FV[ev]:
            lists = []
            for n in range(1, maxlen + 1):
                src = small if n <= 2 else small[:5]
                for t in _it.product(src, repeat=n):
                    lists.append(list(t))
            for _ in range(150 if tier == 'quick' else 1500):
                n = 1 + rng.below(8)
                lists.append([rng.choice(pool) for _ in range(n)])
            # long argument lists (library sorts / selections switch algorithm around 16-20 elements): shuffled ranges
            # and random draws of 17..60 arguments, as many as fit in 256 characters
            for _ in range(12 if tier == 'quick' else 120):
                n = 17 + rng.below(44)
                base = [str(v) for v in range(1, n + 1)] if rng.chance(1, 2) else [rng.choice(small) for _ in range(n)]
                for i in range(len(base) - 1, 0, -1):
                    j = rng.below(i + 1)
                    base[i], base[j] = base[j], base[i]
                while len(f) + 2 + sum(len(agg_arg(v)) + 1 for v in base) > 250:
                    base.pop()
                lists.append(base)
            # lists of 61..127 short arguments with inexact partial sums (summation order / blocking / pairwise schemes show only
            # when rounding happens: .1 .3 .7), as many as fit in 256 characters
            for _ in range(10 if tier == 'quick' else 100):
                n = 61 + rng.below(67)
                src2 = {'i64': ['1', '2', '3', '7', '9'], 'decimal': ['.1', '.3', '.7', '1', '2', '.5']}.get(ev, ['.1', '.3', '.7', '1', '2', '.5'])
                base = [rng.choice(src2[:3] if rng.chance(1, 2) else src2) for _ in range(n)]
                while len(f) + 2 + sum(len(v) + 1 for v in base) > 256:
                    base.pop()
                lists.append(base)
            for n in (63, 64, 65, 66, 100, 126, 127):
                for v in (['.1', '.7'] if ev != 'i64' else ['3', '7']):
                    base = [v] * n
                    while len(f) + 2 + sum(len(x) + 1 for x in base) > 256:
                        base.pop()
                    lists.append(base)
            for L in lists:
                e = f + '(' + ','.join(agg_arg(v) for v in L) + ')'
                c = case(ev, 'eval', None, e)
                cs.append(c)
                meta[c] = (ev, f, L)
                # permutations: all for short lists, a few random ones beyond
                perms = list(_it.permutations(L)) if len(L) <= (3 if tier == 'quick' else 4) else \
                    [tuple(rng.choice(list(_it.permutations(L[:6]))) ) + tuple(L[6:]) for _ in range(3)]
                big = any(abs(float(v)) >= 2.0**50 for v in L) or any(v in ('.1', '.3', '.7') for v in L)
                for P in perms[:24]:
                    c2 = case(ev, 'eval', None, f + '(' + ','.join(agg_arg(v) for v in P) + ')')
                    # sums of doubles are order dependent once partial sums are inexact (stated in the theorem); not a violation
                    if c2 != c and not (big and ev in ('f64', 'number') and f in ('avg', 'med', 'median')):
                        permpairs.append((c, c2, 'argument order'))
            if f in ('gcd', 'lcm'):
                # Euclid's worst case (Lame): consecutive Fibonacci numbers need the most division steps (91 for F92, F91)
                fib = [1, 1]
                while fib[-1] < 2 ** 63:
                    fib.append(fib[-1] + fib[-2])
                fib = [x for x in fib if x < 2 ** 63]
                for k in range(40, len(fib)):
                    for L in ([fib[k], fib[k - 1]], [fib[k - 1], fib[k]], [fib[k], -fib[k - 1]], [fib[k - 1], fib[k], fib[k - 2]]) + \
                             (([3 * fib[k - 2], 3 * fib[k - 3]],) if 3 * fib[k - 2] < 2 ** 63 else ()):
                        L = [str(v) for v in L]
                        c = case(ev, 'eval', None, f + '(' + ','.join(agg_arg(v) for v in L) + ')')
                        cs.append(c); meta[c] = (ev, f, L)
            cs.append(case(ev, 'eval', None, f + '()'))
            cs.append(case(ev, 'eval', None, f + '(1,)'))
            cs.append(case(ev, 'eval', None, f + '(,1)'))
    # extreme operands through the placeholder (subnormals, the largest doubles, 2^53 neighbours, i64 extremes, 28-digit
    # decimals): compared with the model bit for bit (mean of the two middle values = (a + b) / 2 computed in that order)
    ext = {'f64': [f2w(x) for x in (5e-324, 1.5e-323, -5e-324, 2.2250738585072014e-308, 1e308, 1.7976931348623157e308, 9007199254740993.0, -0.0, 0.1)],
           'number': ['F' + f2w(x) for x in (5e-324, 1.5e-323, -5e-324, 2.2250738585072014e-308, 1e308, 9007199254740993.0, -0.0, 0.1)] +
                     ['I9223372036854775807', 'I-9223372036854775808', 'I9007199254740993', 'I3'],
           'i64': ['9223372036854775807', '-9223372036854775808', '-9223372036854775807', '3', '-3'],
           'decimal': ['79228162514264337593543950335/0', '-79228162514264337593543950335/0', '1/28', '-1/28', '7922816251426433759354395033/1', '15/1', '-0/2']}
    for ev in ['f64', 'i64', 'decimal', 'number']:
        for ph in ext[ev]:
            for e in ['med(@,@)', 'avg(@,@)', 'med(0,@,@,1)', 'min(@,@)', 'max(@,@)', 'med(@,@+@)', 'avg(@,@,@)', 'med(@,-@)', 'avg(@,-@)', 'med(@,0)', 'avg(@,1)',
                      'min(@,-@)', 'max(-@,@)', 'med(@,@,@)', 'med(1,@,@,@)', 'max(@,0,1)', 'min(0,@,1)']:
                cs.append(case(ev, 'eval', ph, e))
    cs += s_aggfail(tier, rng) + s_aggmix(tier, rng) + s_emptyavg(tier, rng)
    stats['rule'] = ('min max avg med/median (f64 i64 decimal number) and gcd lcm (i64): all argument lists of length <= %d over a pool with duplicates, negatives, zeros and extremes, '
                     'random lists up to 8, all permutations of short lists (a sample beyond); empty lists, dangling commas, failing arguments; '
                     'values also compared with an exact reference computed from the multiset (Python fractions)' % maxlen)
    # permutation pairs: avg in floating point is only order independent when every partial sum is exact (small pool: true)
    res = run_pairs('C11', permpairs, stats, profiles=('debug',), what='permutation', numeric_only=True)
    cases, outs, model = run_streams(cs, stats, profiles=('debug', 'release'))
    merge(res, std_judge('C11', cases, outs, model))
    n = nd = 0
    for c, x in zip(cases, outs['debug']):
        if c not in meta:
            continue
        ev, f, L = meta[c]
        want = py_agg(ev, f, L)
        got = value_of_out(ev, vlib.strip_ticks(x))
        if want is None:
            continue
        n += 1
        representable = True
        if ev == 'i64' and not (-2**63 <= want <= 2**63 - 1):
            representable = False
        if got is None:
            if representable and ev == 'i64' and f in ('min', 'max', 'med', 'median', 'avg', 'gcd'):
                nd += 1
                res['violations'].insert(0, {'kind': 'aggregate-value', 'cases': [list(c)], 'observed': x, 'expected': str(want),
                                             'why': '%s of %s should be %s' % (f, L, want)})
            continue
        ok = (got == want)
        if ev in ('f64', 'number') and f in ('avg', 'med', 'median') and not ok:
            from fractions import Fraction as Fr
            mag = sum(abs(Fr(v)) for v in L)       # sums and means are computed in doubles: a few ulps of the operands' magnitude
            ok = abs(got - want) <= mag * Fr(1, 2**50) + Fr(1, 10**300)
        if ev == 'decimal' and not ok:
            ok = abs(got - want) <= abs(want) * 1e-27 + 1e-27
        if not ok:
            nd += 1
            res['violations'].insert(0, {'kind': 'aggregate-value', 'cases': [list(c)], 'observed': x, 'expected': str(want),
                                         'why': '%s of %s should be %s, got %s' % (f, L, want, got)})
    res['levels']['value-vs-multiset-reference'] = (n, nd)
    # very long flat lists (33 000 and 70 000 arguments: more than 2^16 tokens / bytes; no nesting, so the native stack is not the
    # subject): implementation only, against the obvious value (the extracted model is not run on inputs of this size)
    hn = hd = 0
    hcases = []
    for ev in ['f64', 'i64', 'decimal', 'number']:
        for k in (33000, 70000):
            for f, args, want in [('max', ['3'] * k + ['7'], 7), ('min', ['3'] * k + ['2'], 2), ('avg', ['4'] * k, 4), ('med', ['5'] * k + ['1', '9'], 5)] + \
                                 ([('gcd', ['6'] * k + ['9'], 3), ('lcm', ['2'] * k + ['3'], 6)] if ev == 'i64' else []):
                hcases.append((case(ev, 'eval', None, f + '(' + ','.join(args) + ')'), want, f, len(args)))
    for prof in ('debug', 'release'):
        outs_h = vlib.run_impl(['\t'.join(c) for c, _, _, _ in hcases], prof, budget=10**8)
        for (c, want, f, k), x in zip(hcases, outs_h):
            hn += 1
            got = value_of_out(c[0], vlib.strip_ticks(x))
            if got is None or got != Fraction(want):
                hd += 1
                res['violations'].insert(0, {'kind': 'aggregate-value', 'cases': [list(c)], 'observed': x[:60], 'expected': str(want), 'profile': prof,
                                             'why': '%s of %d arguments in eval_%s (%s build): expected %s, got %s' % (f, k, c[0], prof, want, vlib.strip_ticks(x)[:40])})
    res['levels']['huge-flat-lists-vs-obvious-value'] = (hn, hd)
    return res

PROPS['C11'] = {}
PROPS['C02'] = PROPS.get('C02', {})

# ============================================================================ C19 literals and print / re-read
import subprocess as _sp
def ask_primsrv(lines):
    p = _sp.run([os.path.join(vlib.ROOT, 'harness/target/debug/primsrv')], input='\n'.join(lines) + '\n', stdout=_sp.PIPE, text=True)
    return p.stdout.split('\n')[:len(lines)]

def lit_reference(ev, text):
    """independent reading of a plain literal text; None = not decided here"""
    from fractions import Fraction as Fr
    if text.count('.') > 1 or not text or any(ch not in '0123456789.' for ch in text) or text.startswith('.') and ev == 'i64':
        return None
    if text.startswith('.') and len(text) == 1:
        return None
    if ev == 'i64':
        if '.' in text:
            return None
        z = int(text)
        return ('OK %d' % z) if z <= 2**63 - 1 else 'ERR'
    if ev == 'f64':
        return 'OK ' + f2w(float(text if not text.startswith('.') else '0' + text))
    if ev == 'number':
        if '.' in text:
            return 'OK F' + f2w(float(text if not text.startswith('.') else '0' + text))
        z = int(text)
        return ('OK I%d' % z) if z <= 2**63 - 1 else 'ERR'
    if ev == 'complex':
        return 'OK ' + f2w(float(text if not text.startswith('.') else '0' + text)) + ',' + f2w(0.0)
    return None

def midpoint_literals(tier, rng):
    """decimal texts on and next to the midpoint between two adjacent doubles (where a digit arbitrarily far out decides the
       rounding): the exact midpoint (a tie), the midpoint cut short (just below), and the midpoint followed by k zeros and
       a non-zero digit (just above) for k up to the 256-character bound"""
    from fractions import Fraction as Fr
    out = []
    xs = [1.0, 0.1, 0.3, 1.5, 2.0 ** 53, 2.0 ** 53 + 2, 9007199254740992.0 / 8, 1e15, 123456.789, 1e22, 1e23, 5e-324 * 3, 2.2250738585072014e-308, 0.5, 3.0, 1e-5, 4.35, 1e16, 2.0 ** 63, 1.7976931348623155e308]
    xs += [struct.unpack('>d', struct.pack('>Q', (rng.below(2046) + 1 << 52) | rng.below(1 << 52)))[0] for _ in range(10 if tier == 'quick' else 200)]
    xs += [float(rng.below(10 ** 6)) / 10 ** rng.below(6) or 1.0 for _ in range(10 if tier == 'quick' else 200)]
    for x in xs:
        if x != x or x in (float('inf'), float('-inf')) or x <= 0:
            continue
        nx = struct.unpack('>d', struct.pack('>Q', struct.unpack('>Q', struct.pack('>d', x))[0] + 1))[0]
        if nx == float('inf'):
            continue
        mid = (Fr(x) + Fr(nx)) / 2
        # exact decimal expansion of the midpoint (a dyadic rational: finite)
        num, den = mid.numerator, mid.denominator
        k = 0
        while den % 2 == 0:
            den //= 2; k += 1
        if den != 1:
            continue
        digits = str(num * 5 ** k)
        if k:
            digits = digits.rjust(k + 1, '0')
            text = digits[:-k] + '.' + digits[-k:]
        else:
            text = digits + '.0'
        text = text.rstrip('0') if '.' in text else text
        if text.endswith('.'):
            text += '0'
        if len(text) > 250:
            continue
        out.append(text)
        for cut in (1, 5, 12):
            if len(text) - cut > text.index('.') + 1:
                out.append(text[:-cut])
        room = 255 - len(text)
        for z in sorted(set([0, 1, 10, 30, 39, 40, 41, 64, 100, 126, 127, 128, 129, 150, room - 1])):
            if 0 <= z < room:
                out.append(text + '0' * z + '1')
        if text.startswith('0.'):
            out.append(text[1:])
    return out

def run_C19(tier, rng, stats):
    lits = set()
    digs = '0179'
    for n in range(1, 4 if tier == 'quick' else 5):
        for t in _it.product(digs, repeat=n):
            s = ''.join(t)
            lits.add(s)
            for j in range(0, n + 1):
                lits.add(s[:j] + '.' + s[j:])
    lits |= {'9007199254740993', '9007199254740992', '9007199254740991', '0.1', '0.2', '0.3', '00012', '0.50', '007.50', '1.0',
             '9223372036854775807', '9223372036854775808', '18446744073709551615', '18446744073709551616', '4.35', '0.57', '2.675',
             '17976931348623157' + '0' * 292, '17976931348623158' + '0' * 292, '17976931348623159' + '0' * 292,
             '179769313486231580793728971405303415079934132710037826936173778980444968292764750946649017977587207096330286416692887910946555547851940402630657488671505820681908902000708383676273854845817711531764475730270069855571366959622842914819860834936475292719074168444365510704342711559699508093042880177904174497791',
             '0.' + '0' * 323 + '2470328229206232720882843964341106861825299013071623822127928412503377536351043',
             '0.' + '0' * 323 + '2470328229206232720882843964341106861825299013071623822127928412503377536351044',
             '0.' + '0' * 323 + '4940656458412465', '0.' + '0' * 400 + '1', '1' * 30, '1' * 20 + '.' + '5' * 20, '9' * 400, '1' + '0' * 308, '1' + '0' * 309,
             '79228162514264337593543950335', '79228162514264337593543950336', '7.9228162514264337593543950335', '0.0000000000000000000000000001',
             '0.00000000000000000000000000001', '1234567890123456789012345678', '12345678901234567890123456789', '1.234567890123456789012345678',
             '0.1234567890123456789012345678', '123456789012345678901234567.8'}
    for _ in range(300 if tier == 'quick' else 5000):
        n = 1 + rng.below(25)
        s = ''.join(str(rng.below(10)) for _ in range(n))
        if rng.chance(1, 2):
            j = rng.below(n + 1)
            s = s[:j] + '.' + s[j:]
        lits.add(s)
    # the leading-point form of every literal gathered so far, and long digit runs after a leading point
    for l in list(lits):
        if '.' not in l:
            lits.add('.' + l)
    for _ in range(200 if tier == 'quick' else 3000):
        lits.add('.' + ''.join(str(rng.below(10)) for _ in range(16 + rng.below(25))))
        lits.add(str(rng.below(10)) + '.' + ''.join(str(rng.below(10)) for _ in range(16 + rng.below(25))))
    lits.discard('.')
    lits |= set(longlit_runs())
    lits |= set(midpoint_literals(tier, rng))
    # short digit run followed by k zeros, k = 0..45 (the printed form of large doubles; fast paths through powers of ten end at 10^22)
    for m in ['1', '3', '6', '7', '11', '12', '14', '17', '125', '999', '123456789012345', '9007199254740993']:
        for k in range(0, 46):
            lits.add(m + '0' * k)
            if k in (21, 22, 23, 24):
                lits.add(m + '0' * k + '.0'); lits.add('00' + m + '0' * k)
    cs = s_longlits(tier, rng)
    for ev in EVS:
        for l in sorted(lits):
            cs.append(case(ev, 'eval', None, l))
            if ev == 'complex':
                cs.append(case(ev, 'eval', None, l + 'i'))
    cases, outs, model = run_streams(cs, stats)
    res = std_judge('C19', cases, outs, model)
    n = nd = 0
    for c, x in zip(cases, outs['debug']):
        text = dec_expr(c[3])
        want = lit_reference(c[0], text)
        if want is None:
            continue
        n += 1
        got = vlib.strip_ticks(x)
        if got != want:
            nd += 1
            res['violations'].insert(0, {'kind': 'literal-value', 'cases': [list(c)], 'observed': got, 'expected': want,
                                         'why': 'literal %s: got %s, the correctly rounded / exact value is %s' % (text[:40], got, want)})
    res['levels']['literal-vs-independent-reading'] = (n, nd)
    # decimal literals: exact when <= 28 significant digits
    from fractions import Fraction as Fr
    for c, x in zip(cases, outs['debug']):
        if c[0] != 'decimal':
            continue
        text = dec_expr(c[3])
        if text.count('.') > 1 or text.startswith('.') and False:
            continue
        sig = text.replace('.', '').lstrip('0')
        if len(sig) <= 28 and len(text.split('.')[1] if '.' in text else '') <= 28 and text.replace('.', '') and all(ch in '0123456789' for ch in text.replace('.', '')):
            t2 = text if not text.startswith('.') else '0' + text
            want = Fr(t2 if not t2.endswith('.') else t2[:-1])
            if want >= 2**96:
                continue
            got = value_of_out('decimal', vlib.strip_ticks(x))
            if got != want:
                res['violations'].insert(0, {'kind': 'literal-value', 'cases': [list(c)], 'observed': x, 'expected': str(want),
                                             'why': 'decimal literal %s is not exact' % text})
    # print / re-read
    vals = {'f64': [], 'i64': [], 'decimal': [], 'complex': []}
    fl = [x for x in gen.F64_PH if x == x and abs(x) != float('inf')] + [0.1, 1e21, 1e-7, 123456.789, 5e-324, 1.7976931348623157e308, 2.5e-308]
    for _ in range(300 if tier == 'quick' else 20000):
        b = rng.next()
        x = w2f('%016x' % b)
        if x == x and abs(x) != float('inf'):
            fl.append(x)
    vals['f64'] = fl
    vals['i64'] = [z for z in [int(p) for p in gen.ph_pool('i64')] if z != -2**63] + [rng.next() - 2**63 + 1 for _ in range(200)]
    vals['decimal'] = gen.DEC_PH + ['%d/%d' % (rng.next() % 10**(1 + rng.below(28)), rng.below(29)) for _ in range(200)] + \
                      ['-%d/%d' % (rng.next() % 10**(1 + rng.below(20)), rng.below(29)) for _ in range(100)]
    cpx = [(a, b) for a in fl[:12] for b in fl[:12]]
    reqs = ['display_f64 ' + f2w(x) for x in vals['f64']] + ['ddisplay ' + d for d in vals['decimal']] + \
           ['display_cpx %s,%s' % (f2w(a), f2w(b)) for a, b in cpx]
    reps = ask_primsrv(reqs)
    rt = []
    k = 0
    for x in vals['f64']:
        rt.append((case('f64', 'eval', None, reps[k]), 'OK ' + f2w(x))); k += 1
    for d in vals['decimal']:
        rt.append((case('decimal', 'eval', None, reps[k]), 'OK ' + d)); k += 1
    for a, b in cpx:
        rt.append((case('complex', 'eval', None, reps[k]), 'OK %s,%s' % (f2w(a), f2w(b)))); k += 1
    for z in vals['i64']:
        rt.append((case('i64', 'eval', None, str(z)), 'OK %d' % z))
    cases2, outs2, model2 = run_streams([c for c, _ in rt], stats)
    merge(res, std_judge('C19', cases2, outs2, model2))
    idx = {c: i for i, c in enumerate(cases2)}
    n = nd = 0
    for c, want in rt:
        got = vlib.strip_ticks(outs2['debug'][idx[c]])
        n += 1
        ok = got == want
        if not ok and c[0] in ('decimal',):
            ok = value_of_out('decimal', got) is not None and value_of_out('decimal', got) == value_of_out('decimal', want)
        if not ok and c[0] == 'complex' and got.startswith('OK ') :
            ga = [w2f(t) for t in got[3:].split(',')]; wa = [w2f(t) for t in want[3:].split(',')]
            ok = ga == wa       # numeric equality: "-0+2i" re-reads as 0+2i
        if not ok:
            nd += 1
            res['violations'].insert(0, {'kind': 'reread', 'cases': [list(c)], 'observed': got, 'expected': want,
                                         'why': 'the printed form %r of a result does not read back to the same value' % dec_expr(c[3])[:60]})
    res['levels']['print-reread'] = (n, nd)
    stats['rule'] = ('all literal texts of <= %d digits over {0,1,7,9} with every position of the point, boundary literals (2^53 neighbours, halfway cases, largest/smallest doubles in full digits, '
                     '28/29-digit decimals, 400-digit runs), random literals up to 25 digits, in all five evaluators (with an i suffix in eval_complex), each compared with an independent reading '
                     '(Python float / int / Fraction); print / re-read of pool and random finite values of f64, i64, Decimal, Complex through format!("{}")' % (3 if tier == 'quick' else 4))
    return res

PROPS['C19'] = {}

# ============================================================================ C16 purity: histories and threads
def run_C16(tier, rng, stats):
    n = 1500 if tier == 'quick' else 100000
    base = []
    for ev in EVS:
        g = ExprGen(rng, ev)
        exprs = [g.expr(1 + rng.below(3)) for _ in range(60)] + [gen.mutate(rng, g.expr(2)) for _ in range(20)] + \
                ['@', '@+1', '1/0', 'w(-1)', '1.2.3', '2^63', 'med(1,0/0)', '(', '']
        pool = gen.ph_pool(ev)
        base.append((ev, exprs, pool))
    hist = []
    for i in range(n):
        ev, exprs, pool = base[rng.below(len(base))]
        # repeated expressions with changing placeholders, and failing inputs in between
        e = exprs[rng.below(12)] if rng.chance(1, 2) else rng.choice(exprs)
        hist.append(case(ev, 'eval', rng.choice(pool), e))
    # consecutive calls with the same expression and placeholders that compare equal but are distinguishable
    # (0.0 / -0.0, Integer(1) / Float(1.0), 1.0 / 1.00, NaN twice): a cache keyed by == would answer from the wrong entry
    twins = {'f64': [(f2w(0.0), f2w(-0.0)), (f2w(-0.0), f2w(0.0)), (f2w(1.0), f2w(1.0)), (f2w(float('nan')), f2w(float('nan')))],
             'number': [('I0', 'F' + f2w(0.0)), ('F' + f2w(0.0), 'F' + f2w(-0.0)), ('F' + f2w(-0.0), 'I0'), ('I1', 'F' + f2w(1.0)), ('F' + f2w(2.0), 'I2')],
             'decimal': [('0/0', '-0/0'), ('-0/1', '0/1'), ('10/1', '1/0'), ('1/0', '100/2'), ('150/2', '15/1')],
             'complex': [(f2w(0.0) + ',' + f2w(0.0), f2w(-0.0) + ',' + f2w(-0.0)), (f2w(1.0) + ',' + f2w(-0.0), f2w(1.0) + ',' + f2w(0.0))],
             'i64': [('0', '0'), ('1', '1')]}
    sens = {'f64': ['1/@', 'atan2(@,-1)', '@', '-@', 'sgn(@)', '@*1', 'sqrt(@)'], 'number': ['1/@', '@', '-@', '@*1', '@+0', 'atan2(@,-1)', '2^@'],
            'decimal': ['@', '-@', '@*1', '@+0', '@/3', 'abs(@)'], 'complex': ['@', '1/@', 'sqrt(@)', '-@', 'ln(@-1)'], 'i64': ['@', '-@']}
    for ev in EVS:
        for e in sens[ev]:
            for a, b in twins[ev]:
                pos = rng.below(len(hist) + 1)
                hist[pos:pos] = [case(ev, 'eval', a, e), case(ev, 'eval', b, e), case(ev, 'eval', a, ' ' + e)]
    # deeply nested expressions (60 levels) evaluated concurrently: a process-wide counter / buffer shared by the calls in
    # flight (a depth guard, a scratch stack) shows only when many deep parses overlap
    for ev in EVS:
        for t in ['(%s)', '-%s', 'abs(%s)', '2*(%s)', '2(%s)']:
            e = '@+1'
            for _ in range(60):
                e = t % e
            for k in range(24):
                pos = rng.below(len(hist) + 1)
                hist.insert(pos, case(ev, 'eval', gen.ph_pool(ev)[k % 5], e))
    # inputs that need the full normalisation of the entry point (every kind of Unicode blank, long runs): a contended
    # fallback path that normalises differently shows only while several calls overlap
    for ev in EVS:
        for e in ['6\u2003*\u00a07', '1\u000b+\u00852', '2\u3000+\u20282', ' 1 + 2 ', '(\u205f1\u1680)'] + ([gen.FV[ev][0][0] + '\u3000' + gen.FV[ev][0][1:] + '(@,\u20283)'] if gen.FV[ev] else []):
            for k in range(40):
                pos = rng.below(len(hist) + 1)
                hist.insert(pos, case(ev, 'eval', gen.ph_pool(ev)[k % 5], e))
    lines = ['\t'.join(c) for c in hist]
    import subprocess
    res = empty()
    outs = {}
    for prof in ('debug', 'release'):
        exe = os.path.join(vlib.ROOT, 'harness/target', prof, 'hist_runner')
        p = subprocess.run([exe, '16'], input='\n'.join(lines) + '\n', stdout=subprocess.PIPE, text=True, timeout=1800, env=vlib.ENV)
        o = p.stdout.split('\n')[:len(lines)]
        if len(o) != len(lines) or p.returncode != 0:
            res['violations'].append({'kind': 'history-runner-died', 'cases': [list(hist[0])], 'observed': 'exit %s' % p.returncode,
                                      'why': 'the history runner did not complete'})
            o = o + ['ABORT'] * (len(lines) - len(o))
        outs[prof] = o
    # cold starts: fresh processes in which 16 threads are released together and nothing has been evaluated before
    # (lazily filled global tables, once-cells and first-use initialisation race only then); work-heavy cases
    cold = []
    for ev in ['f64', 'number']:
        cold += [case(ev, 'eval', None, '%d!' % k) for k in (170, 169, 168, 167, 166, 165, 150, 100, 60, 30, 25, 21)]
        cold += [case(ev, 'eval', None, e) for e in ['5.0!', '2.5!', '(-1.5)!', 'w(3)', 'ilog(1000000,2)', 'sin(1)+cos(2)', '2^0.5', 'med(3,1,2,5)']]
    cold += [case('i64', 'eval', None, e) for e in ['20!', '19!', 'gcd(9223372036854775807,3037000500)', 'lcm(4294967296,3)', '2^62', '63!', 'sqrt(1000000)']]
    cold += [case('decimal', 'eval', None, e) for e in ['27!', '26!', '20!', '2.5!', 'sqrt(2)', 'exp(3)', 'ln(10)', 'w(2)', '1/3', 'pi*e']]
    cold += [case('complex', 'eval', None, e) for e in ['(1+i)^5', 'sqrt(2i)', 'exp(i*pi)', 'ln(3+4i)']]
    cold_lines = ['\t'.join(c) for c in cold]
    cold_runs = 8 if tier == 'quick' else 100
    cold_out = []
    for prof in ('debug', 'release'):
        exe = os.path.join(vlib.ROOT, 'harness/target', prof, 'hist_runner')
        for r in range(cold_runs):
            p = subprocess.run([exe, 'cold', '16'], input='\n'.join(cold_lines[r % 3:] + cold_lines[:r % 3]) + '\n', stdout=subprocess.PIPE, text=True, timeout=600, env=vlib.ENV)
            o = p.stdout.split('\n')[:len(cold_lines)]
            order = cold[r % 3:] + cold[:r % 3]
            cold_out.append((prof, order, o + ['ABORT'] * (len(cold_lines) - len(o))))
    uniq = list(dict.fromkeys(hist + cold))
    model = dict(zip(uniq, vlib.run_model(['\t'.join(c) for c in uniq])))
    nc = ncd = 0
    for prof, order, o in cold_out:
        for c, x in zip(order, o):
            nc += 1
            if x != model[c]:
                ncd += 1
                res['violations'].append({'kind': 'history-dependent' if x.startswith('NONDET') else 'model-disagreement', 'cases': [list(c)], 'profile': prof, 'observed': x, 'expected': model[c],
                                          'why': 'cold start (fresh process, 16 threads released together): %r returned %s, the isolated (pure) evaluation is %s' % (dec_expr(c[3]), x, model[c])})
    res['levels']['cold-start 16 threads x %d fresh processes' % (2 * cold_runs)] = (nc, ncd)
    stats['evaluations'] = stats.get('evaluations', 0) + len(hist) * 2 * 18 + len(uniq)
    stats['distinct_nontrivial'] = stats.get('distinct_nontrivial', 0) + sum(1 for c in uniq if not is_trivial(model[c]))
    stats['samples'] = [{'ev': c[0], 'placeholder': c[2], 'expr': dec_expr(c[3]), 'history_result': outs['debug'][i], 'isolated_model': model[c]}
                        for i, c in enumerate(hist[:8])]
    for prof in outs:
        nd = 0
        for i, (c, x) in enumerate(zip(hist, outs[prof])):
            if x.startswith('NONDET'):
                nd += 1
                res['violations'].append({'kind': 'history-dependent', 'cases': [list(c)], 'profile': prof, 'observed': x,
                                          'why': 'call %d of the history returned different results in different orders / threads' % i})
            elif x != model[c]:
                nd += 1
                res['violations'].append({'kind': 'model-disagreement', 'cases': [list(c)], 'profile': prof, 'observed': x, 'expected': model[c],
                                          'why': 'call %d of the history returned %s, the isolated (pure) model evaluation is %s' % (i, x, model[c])})
        res['levels']['history+16-threads/' + prof] = (len(hist), nd)
    stats['rule'] = ('one history of %d calls mixing the five evaluators, repeated expressions with changing placeholders and error-producing inputs, replayed in order, in reverse order and '
                     'concurrently on 16 threads (each thread in its own order), debug and release; every result compared with the sequential one and with the pure model evaluated in isolation' % n)
    return res

PROPS['C16'] = {}

# ============================================================================ C17 feature subsets
C17_EXTRA = []
def run_C17(tier, rng, stats):
    import subprocess, shutil
    feats = ['eval_f64', 'eval_i64', 'eval_decimal', 'eval_complex', 'eval_number']
    evof = {'eval_f64': 'f64', 'eval_i64': 'i64', 'eval_decimal': 'decimal', 'eval_complex': 'complex', 'eval_number': 'number'}
    allsubs = [list(c) for n in range(1, 6) for c in _it.combinations(feats, n)]
    if tier == 'quick':
        subs = [[f] for f in feats] + [['eval_f64', 'eval_decimal'], ['eval_decimal', 'eval_complex', 'eval_number'], feats]
    else:
        subs = allsubs
    # corpus: regression expressions (operator pairs incl. the i64-only categories) + random ones per evaluator
    corpus = []
    for c in s_oppairs('quick', rng):
        if c[1] == 'eval':
            corpus.append(c)
    corpus = corpus[::7]
    corpus += s_wf('quick', rng, nq=120 if tier == 'quick' else 400)
    corpus += C17_EXTRA
    corpus = list(dict.fromkeys(corpus))
    lines = ['\t'.join(c) for c in corpus]
    base = vlib.run_impl(lines, 'debug')
    basemap = {c: vlib.strip_ticks(o) for c, o in zip(corpus, base)}
    res = empty()
    probe = os.path.join(vlib.ROOT, 'featprobe')
    lock = os.path.join(probe, 'Cargo.lock')
    if not os.path.exists(lock):
        shutil.copy(os.path.join(vlib.REPO, 'Cargo.lock'), lock)
    tdir = os.path.join(vlib.BUILD, 'feat_target')
    env = dict(vlib.ENV, CARGO_TARGET_DIR=tdir)
    nb = nbf = ncmp = ndiff = 0
    built = []
    for S in subs:
        nb += 1
        # the library itself, alone, with exactly this subset
        p0 = subprocess.run(['cargo', 'build', '--offline', '--no-default-features', '--features', ' '.join(S)], cwd=vlib.REPO,
                            stdout=subprocess.PIPE, stderr=subprocess.STDOUT, text=True, env=env)
        p = subprocess.run(['cargo', 'build', '--offline', '--no-default-features', '--features', ' '.join(S)], cwd=probe,
                           stdout=subprocess.PIPE, stderr=subprocess.STDOUT, text=True, env=env)
        if p0.returncode != 0 or p.returncode != 0:
            nbf += 1
            msg = (p0.stdout if p0.returncode != 0 else p.stdout)
            err = [l for l in msg.split('\n') if l.startswith('error')][:3]
            res['violations'].append({'kind': 'feature-subset-does-not-build', 'cases': [['features', ' '.join(S), '', '']],
                                      'observed': '; '.join(err), 'why': 'cargo build --no-default-features --features "%s" fails: %s' % (' '.join(S), '; '.join(err)[:300])})
            continue
        built.append(S)
        mine = [c for c in corpus if c[0] in [evof[f] for f in S]]
        inp = '\n'.join('\t'.join([c[0], c[2], c[3]]) for c in mine) + '\n'
        r = subprocess.run([os.path.join(tdir, 'debug', 'featprobe')], input=inp, stdout=subprocess.PIPE, stderr=subprocess.PIPE, text=True, env=env)
        outs = r.stdout.split('\n')[:len(mine)]
        for c, o in zip(mine, outs):
            ncmp += 1
            if o != basemap[c]:
                ndiff += 1
                res['violations'].append({'kind': 'feature-subset-behaviour', 'cases': [list(c)], 'observed': o, 'expected': basemap[c],
                                          'why': 'with features [%s] %s(%r) = %s, in the default build %s' % (' '.join(S), c[0], dec_expr(c[3]), o, basemap[c])})
        if len(outs) != len(mine):
            res['violations'].append({'kind': 'feature-subset-behaviour', 'cases': [['features', ' '.join(S), '', '']], 'observed': 'probe died',
                                      'why': 'the probe built with [%s] did not finish the corpus' % ' '.join(S)})
    res['levels']['feature-subsets-build+exports'] = (nb, nbf)
    res['levels']['subset-vs-default-behaviour'] = (ncmp, ndiff)
    stats['evaluations'] = stats.get('evaluations', 0) + ncmp + len(corpus)
    stats['distinct_nontrivial'] = stats.get('distinct_nontrivial', 0) + sum(1 for c in corpus if not is_trivial(basemap[c]))
    stats['samples'] = [{'features': S} for S in built[:8]] + [{'ev': c[0], 'expr': dec_expr(c[3]), 'default_build': basemap[c]} for c in corpus[:4]]
    stats['exhaustive'] = (tier == 'thorough')
    stats['rule'] = ('%d of the 31 non-empty feature subsets%s: the library is built alone with exactly that subset, then a probe crate that names every export that must exist and '
                     'proves the absence of the others (glob-import ambiguity), and runs a corpus of %d expressions (all operator pairs incl. the i64-only precedence categories, random expressions) '
                     'through the enabled evaluators; results compared with the default all-features build' % (len(subs), ' (all)' if tier == 'thorough' else '', len(corpus)))
    return res

PROPS['C17'] = {}

# ============================================================================ C10 / C08 / C15 / C07: numeric references
import numref

def num_of(ev, out):
    """numeric value (float) of an OK outcome; None otherwise"""
    if not out.startswith('OK '):
        return None
    v = out[3:]
    if ev == 'f64':
        return w2f(v)
    if ev == 'i64':
        return float(int(v))
    if ev == 'number':
        return float(int(v[1:])) if v[0] == 'I' else w2f(v[1:])
    if ev == 'decimal':
        q = value_of_out('decimal', out)
        return float(q) if q is not None else None
    return None

C10_XS = [-150.5, -100.25, -10.5, -3.0, -2.5, -1.0, -0.7, -0.5, -0.25, -1e-9, 0.0, 1e-9, 0.25, 0.5, 0.7, 1.0, 1.5, 2.0, 2.5, 3.0, 10.0,
          20.5, 100.0, 150.5, 170.0, 700.0, 1e6, 1e15]
EXACT_FNS = {'abs', 'sgn', 'sign', 'signum', 'floor', 'ceil', 'trunc', 'truncate', 'round'}

def dec_lit(x):
    """a decimal literal (possibly bracketed negative) for a float that has a short exact decimal form"""
    s = format(_D(repr(abs(x))), 'f')
    return s if x >= 0 else '(-' + s + ')'

def funcgrid_args(tier):
    """integer (and half-integer, thorough) arguments across the ranges where the elementary functions overflow, underflow or
       change regime: exp / sinh / cosh near +-709.78 and +-745.13, exp2 near +-1024 and -1075, gamma near 170.62 and the
       negative half-line, fixed-point decimal functions near 66.5 (e^x > 2^96), fdlibm regime changes at 22, 28, 2^-28 ..."""
    dense = list(range(-1100, 1101)) if tier == 'thorough' else \
        sorted(set(list(range(-1100, 1101, 7)) + list(range(690, 760)) + list(range(-760, -690)) + list(range(1010, 1035)) + list(range(-1085, -1010)) +
                   list(range(-60, 61)) + list(range(160, 180)) + list(range(-180, -160)) + list(range(60, 100)) + list(range(-100, -60)) + list(range(120, 135))))
    xs = [float(k) for k in dense]
    xs += [709.78, 709.79, 710.4, 710.47, 710.48, -709.78, -710.4, -745.13, -745.14, -708.39, -708.4, 1023.9999, -1074.5, 170.62, 170.63, 171.62, -170.5, -171.5, 22.5, 27.9, 28.1, 88.72, 88.73, 11356.5, 11357.5]
    if tier == 'thorough':
        xs += [k + 0.5 for k in range(-1100, 1100)]
    return xs

def tenths(tier):
    """non-integer arguments k/10 (and k/100 around the integers, thorough): value windows between the integers"""
    xs = [k / 10.0 for k in range(-300, 301) if k % 10]
    if tier == 'thorough':
        xs += [k / 100.0 for k in range(-3000, 3001) if k % 10]
    return xs

def s_funcgrid(tier, rng, evs=('f64', 'number', 'complex', 'decimal')):
    out = []
    xs = funcgrid_args(tier)
    for ev in evs:
        for f in gen.F1[ev]:
            for x in xs + [t for t in tenths(tier) if tier == 'thorough' or abs(t) <= 3.05]:
                if ev == 'decimal':
                    if abs(x) > 130 or x != int(x) and abs(x) > 100:
                        continue
                    out.append(case(ev, 'eval', None, f + '(' + dec_lit(x) + ')'))
                elif ev == 'complex':
                    out.append(case(ev, 'eval', f2w(x) + ',' + f2w(0.0), f + '(@)'))
                    if x == int(x) and int(x) % 3 == 0:
                        out.append(case(ev, 'eval', f2w(x) + ',' + f2w(1.0), f + '(@)'))
                        out.append(case(ev, 'eval', f2w(1.0) + ',' + f2w(x), f + '(@)'))
                else:
                    out.append(case(ev, 'eval', (f2w(x) if ev == 'f64' else 'F' + f2w(x)), f + '(@)'))
        if gen.POSTFIX5[ev]:
            # angles written in degrees: every multiple of 15 (whole and quarter turns included) as f(@°), and a few as f(@rad)
            for f in gen.F1[ev]:
                for k in range(-1095, 1096, 15):
                    ph = f2w(float(k)) if ev == 'f64' else ('F' + f2w(float(k)) if ev == 'number' else f2w(float(k)) + ',' + f2w(0.0))
                    out.append(case(ev, 'eval', ph, f + '(@°)'))
                    if k % 90 == 0:
                        out.append(case(ev, 'eval', None, f + '(' + (str(k) if k >= 0 else '(-%d)' % -k) + '°)'))
                        out.append(case(ev, 'eval', ph, f + '(@rad)'))
        if gen.HAS_BANG[ev]:
            for x in tenths(tier):
                if ev == 'decimal':
                    out.append(case(ev, 'eval', None, '(' + dec_lit(x) + ')!'))
                else:
                    out.append(case(ev, 'eval', (f2w(x) if ev == 'f64' else 'F' + f2w(x)), '@!'))
            for x in xs:
                if ev == 'decimal':
                    if abs(x) <= 40:
                        out.append(case(ev, 'eval', None, '(' + dec_lit(x) + ')!'))
                elif -200 <= x <= 200:
                    out.append(case(ev, 'eval', (f2w(x) if ev == 'f64' else 'F' + f2w(x)), '@!'))
    return out

def run_C10(tier, rng, stats):
    cs = []
    meta = {}
    nrand = 6 if tier == 'quick' else 60
    def add(ev, expr, ph, tag):
        c = case(ev, 'eval', ph, expr)
        cs.append(c)
        meta[c] = tag
    for ev in ['f64', 'number']:
        mk = (lambda x: f2w(x)) if ev == 'f64' else (lambda x: 'F' + f2w(x))
        for f in gen.F1[ev]:
            xs = C10_XS + [rng.choice([-1, 1]) * 10 ** (rng.below(9) - 4) * (1 + rng.below(1000) / 1000) for _ in range(nrand)]
            for x in xs:
                add(ev, f + '(@)', mk(x), ('f1', f, (x,)))
        for f in [g for g in gen.F2[ev] if g != 'ilog']:
            for _ in range(20 if tier == 'quick' else 200):
                x = rng.choice(C10_XS[5:25]); y = rng.choice(C10_XS[5:23])
                add(ev, f + '(@,' + dec_lit(y) + ')', mk(x), ('f2', f, (x, y)))
        for x in [float(n) for n in range(0, 25)] + [30.0, 100.0, 150.0, 170.0, 171.0, 0.5, 1.5, 2.5, -0.5, -0.7, -1.5, -2.5, 10.25, 100.5, 149.5, -149.5, 20.0, 21.0]:
            add(ev, '@!', mk(x), ('fact', '!', (x,)))
        for x in C10_XS:
            add(ev, '@°', mk(x), ('deg', '°', (x,)))
            add(ev, '@rad', mk(x), ('rad', 'rad', (x,)))
        add(ev, 'pi', None, ('const', 'pi', ())); add(ev, 'π', None, ('const', 'pi', ())); add(ev, 'e', None, ('const', 'e', ()))
        if ev == 'number':
            for n in list(range(0, 23)) + [170]:
                add(ev, '@!', 'I%d' % n, ('facti', '!', (float(n),)))
    # eval_i64: real-valued functions within 1 of the real result
    for f in ['sqrt', 'ln', 'lb', 'exp']:
        for n in [0, 1, 2, 3, 4, 10, 15, 16, 17, 24, 25, 26, 36, 99, 100, 1000, 65535, 65536, 10**6, 10**9, 10**12, 2**31, 2**52, 2**53 - 1] + [rng.below(10**9) for _ in range(nrand)]:
            if f == 'exp' and n > 36:
                continue
            add('i64', f + '(@)', str(n), ('i1', f, (float(n),)))
    for _ in range(40 if tier == 'quick' else 400):
        n = 2 + rng.below(6); x = rng.below(10**9)
        add('i64', 'root(%d,@)' % n, str(x), ('i2', 'root', (float(n), float(x))))
        b = 2 + rng.below(20)
        add('i64', 'log(@,%d)' % b, str(1 + x), ('i2', 'log', (float(1 + x), float(b))))
    for n in range(0, 21):
        add('i64', '@!', str(n), ('facti', '!', (float(n),)))
    for x in [-5, -1, 0, 1, 7]:
        add('i64', 'sgn(@)', str(x), ('f1', 'sgn', (float(x),))); add('i64', 'abs(@)', str(x), ('f1', 'abs', (float(x),)))
    # eval_decimal
    for f in gen.F1['decimal']:
        for x in [-10.5, -2.5, -1.0, -0.5, -0.25, 0.0, 0.25, 0.5, 1.0, 1.5, 2.0, 2.5, 3.0, 10.0, 20.5, 50.0] + [rng.below(20000) / 1000 for _ in range(nrand)]:
            add('decimal', f + '(' + dec_lit(x) + ')', None, ('f1', f, (x,)))
    for f in ['mod', 'pow', 'root', 'log']:
        for _ in range(15 if tier == 'quick' else 150):
            x = rng.choice([0.5, 1.5, 2.0, 2.5, 3.0, 7.0, 10.0]); y = rng.choice([0.5, 1.5, 2.0, 3.0, 4.0])
            add('decimal', f + '(' + dec_lit(x) + ',' + dec_lit(y) + ')', None, ('f2', f, (x, y)))
    for x in [float(n) for n in range(0, 28)] + [0.5, 1.5, 2.5, -0.5, -0.7, 10.25]:
        add('decimal', dec_lit(x) + '!', None, ('fact', '!', (x,)))
    # negative zeros as arguments (the value is 0: every function defined at 0 must treat it as 0)
    for ev in ['f64', 'number']:
        mk = (lambda x: f2w(x)) if ev == 'f64' else (lambda x: 'F' + f2w(x))
        for f in gen.F1[ev]:
            add(ev, f + '(@)', mk(-0.0), ('f1', f, (-0.0,)))
            add(ev, f + '(ceil(-0.5))', None, ('f1', f, (-0.0,)))
        add(ev, '@!', mk(-0.0), ('fact', '!', (-0.0,)))
        add(ev, 'ceil(-0.5)!', None, ('fact', '!', (-0.0,)))
        add(ev, '(-0.0)!', None, ('fact', '!', (-0.0,)))
    for z in ['(-0)', '(-0.0)', 'ceil(-0.5)', 'trunc(-0.5)', '⌈-0.5⌉', 'floor(-0)', 'min(0,-0)', '(0*-1)']:
        for f in gen.F1['decimal']:
            add('decimal', f + '(' + z + ')', None, ('f1', f, (-0.0,)))
        add('decimal', z + '!', None, ('fact', '!', (-0.0,)))
    for f in gen.F1['decimal']:
        add('decimal', f + '(@)', '-0/0', ('f1', f, (-0.0,)))
        add('decimal', f + '(@)', '-0/2', ('f1', f, (-0.0,)))
    add('decimal', '@!', '-0/0', ('fact', '!', (-0.0,)))
    add('decimal', '@!', '-0/3', ('fact', '!', (-0.0,)))
    # eval_decimal: ties and near-ties with the largest mantissas at every scale (x + 0.5 no longer fits 96 bits there)
    MAXM = 79228162514264337593543950335
    for sc in range(1, 29):
        base = MAXM // 10 ** sc
        for ip in sorted(set([base, base - 1, 7, 0])):
            for d in range(-5, 6):
                mnt = ip * 10 ** sc + 5 * 10 ** (sc - 1) + d
                if not 0 <= mnt <= MAXM:
                    continue
                t = str(mnt).rjust(sc + 1, '0')
                lit = t[:-sc] + '.' + t[-sc:]
                for f in ['round', 'floor', 'ceil', 'trunc']:
                    for a in (lit, '(-' + lit + ')'):
                        c = case('decimal', 'eval', None, f + '(' + a + ')')
                        if c not in meta:
                            cs.append(c); meta[c] = ('model-only', '', ())
    pool_cases = [c for c in s_funcgrid(tier, rng, evs=('f64', 'number', 'decimal')) + s_oppool(tier, rng) + s_pairs2(tier, rng, evs=['f64', 'i64', 'decimal', 'number']) if any(ch.isalpha() or ch in '!°' for ch in dec_expr(c[3]).replace('@', ''))]
    for c in pool_cases:
        if c not in meta:
            cs.append(c); meta[c] = ('model-only', '', ())
    cases, outs, model = run_streams(cs, stats)
    res = std_judge('C10', cases, outs, model)
    KF = vlib.known_findings()
    n = nd = 0
    worst = {}
    for c, x in zip(cases, outs['debug']):
        kind, f, args = meta[c]
        ev = c[0]
        got = num_of(ev, vlib.strip_ticks(x))
        ref = None
        tol = 1e-9
        if kind == 'f1':
            ref = numref.F1[f](*args)
            if f in EXACT_FNS:
                tol = 0.0
            if ev == 'decimal' and f == 'round':     # banker's rounding in eval_decimal
                a = args[0]; fl = math.floor(a)
                ref = float(fl + (1 if a - fl > 0.5 or (a - fl == 0.5 and fl % 2 == 1) else 0))
        elif kind == 'f2':
            ref = numref.F2[f](*args)
        elif kind == 'fact':
            a = args[0]
            if abs(a) > 150 and a != int(a):
                continue
            ref = numref.fact(a)
            if a == int(a) and 0 <= a <= 22:
                tol = 0.0 if ev != 'decimal' else 1e-27
        elif kind == 'facti':
            ref = float(math.factorial(int(args[0])))
            tol = 0.0 if args[0] <= 20 or ev != 'number' else 1e-12
            if ev == 'number' and args[0] <= 20 and not vlib.strip_ticks(x).startswith('OK I'):
                res['violations'].insert(0, {'kind': 'function-value', 'cases': [list(c)], 'observed': x, 'expected': 'Integer',
                                             'why': '%d! must be an exact Integer' % args[0], 'tags': {'fn': f}})
        elif kind == 'deg':
            ref = args[0] * math.pi / 180
        elif kind == 'rad':
            ref = args[0] * 180 / math.pi
        elif kind == 'const':
            ref = math.pi if f == 'pi' else math.e
            tol = 0.0 if ev != 'decimal' else 1e-27
        elif kind == 'i1':
            ref = numref.F1[f](*args)
        elif kind == 'i2':
            ref = numref.F2[f](*args)
        if ref is None or ref != ref:
            continue          # outside the function's domain: the property says nothing
        if kind in ('i1', 'i2'):
            if abs(ref) >= 2**53:
                continue
            n += 1
            ok = got is not None and abs(got - ref) <= 1.0 + 1e-9 * abs(ref)
        else:
            if math.isinf(ref) and ev == 'decimal':
                continue
            if ev == 'decimal' and (abs(ref) > 7e28 or (got is None and (abs(ref) > 1e27 or (f in ('w', 'lambert_w', 'ln', 'lb', 'exp', 'pow', 'root', 'log', 'sqrt', '!') and not (f == 'sqrt' and ref == 0))))):
                continue      # rust_decimal's range / its own checked_* failures: not decided by this reference
            n += 1
            ok = got is not None and numref.close(got, ref, tol if tol else 0.0, 1e-300) if tol else (got is not None and (got == ref or (got != got and ref != ref)))
        if got is not None and ref not in (0.0,) and not math.isinf(ref) and got == got:
            worst[f] = max(worst.get(f, 0.0), abs(got - ref) / max(abs(ref), 1e-300))
        if not ok:
            v = {'kind': 'function-value', 'cases': [list(c)], 'observed': x, 'expected': repr(ref),
                 'why': '%s%s in eval_%s: got %s, reference %r' % (f, args, ev, vlib.strip_ticks(x), ref),
                 'tags': {'fn': f, 'arg': args[0] if args else None, 'ev': ev}}
            if not match_known('C10', v, KF):
                nd += 1
            res['violations'].insert(0, v)
    res['levels']['value-vs-numeric-reference'] = (n, nd)
    stats.setdefault('exploration', {})['max_relative_error_by_function'] = {k: float('%.3g' % v) for k, v in sorted(worst.items())}
    stats['rule'] = ('every (evaluator, function name / alias / constant / postfix operator) of the vocabulary x arguments sampled over the domain (edges, large and negative arguments, random), '
                     'compared with the model (bit exact) and with an independent numeric reference (Python math, own Lambert W, Gamma): exact for abs sgn floor ceil trunc round n!, 1e-9 relative otherwise, '
                     'within 1 for the integer-valued real functions of eval_i64; eval_complex: the function stream of C08 (every function on generic, mixed-class and extreme-magnitude operands)')
    # eval_decimal against 70-digit references (Python decimal): the double-precision references above cannot see the last
    # 12 digits of a Decimal result, nor arguments within 1e-16 of 1
    from decimal import Decimal as PD, getcontext as _getctx
    _getctx().prec = 70          # Python's default of 28 digits would round 1 + 1e-28 and the 29-digit literals
    dcs, dmeta = [], {}
    one = PD(1)
    a1 = []
    for k in range(1, 29):
        a1 += [one + PD(10) ** -k, one - PD(10) ** -k, one + 3 * PD(10) ** -k]
    a1 += [PD(t) for t in ['0.0000000000000000000000000001', '0.00000000000000000001', '0.001', '0.5', '2', '10', '1000000', '79228162514264337593543950335',
                           '10000000000000000000000000000', '2.718281828459045235360287471', '7.389', '0.36787944117144232159552377016', '60', '65', '66', '66.5', '66.53',
                           '66.54', '-60', '-64', '-64.4', '95', '95.9', '95.98', '95.99', '-90', '-93', '27', '28', '3', '0.1', '0.25', '100', '12345.6789']]
    a1 += [PD(rng.below(10 ** 9) + 1) / PD(10 ** rng.below(10)) for _ in range(20 if tier == 'quick' else 400)]
    def dl(a):
        t = format(a.copy_abs(), 'f')
        return t if a >= 0 else '(0-' + t + ')'
    for f in ['ln', 'lb', 'exp', 'exp2', 'sqrt']:
        for a in a1:
            c = case('decimal', 'eval', None, f + '(' + dl(a) + ')'); dcs.append(c); dmeta[c] = (f, (a,))
    for f in ['pow', 'root', 'log']:
        for a in [PD(t) for t in ['2', '10', '0.5', '1.5', '1.0000001', '79228162514264337593543950335', '3', '7', '0.1', '100']]:
            for b in [PD(t) for t in ['2', '0.5', '3', '10', '95.5', '28', '-2', '0.1', '1.0000001', '64', '1.5']]:
                c = case('decimal', 'eval', None, f + '(' + dl(a) + ',' + dl(b) + ')'); dcs.append(c); dmeta[c] = (f, (a, b))
    # negative integer exponents on bases below 1 (rust_decimal computes 1 / x^n: the intermediate loses its digits)
    for a in [PD(t) for t in ['0.3', '0.5', '0.25', '0.9', '0.7']]:
        for b in [PD(t) for t in ['-10', '-20', '-30', '-40', '-90']]:
            c = case('decimal', 'eval', None, 'pow(' + dl(a) + ',' + dl(b) + ')'); dcs.append(c); dmeta[c] = ('pow', (a, b))
            c = case('decimal', 'eval', None, dl(a) + '^' + dl(b)); dcs.append(c); dmeta[c] = ('pow', (a, b))
    dcases, douts, dmodel = run_streams(dcs, stats)
    merge(res, std_judge('C10', dcases, douts, dmodel))
    dn = dnd = 0
    for c, x in zip(dcases, douts['debug']):
        f, a = dmeta[c]
        r = numref.dec_ref(f, a)
        if r is None:
            continue
        R = Fraction(r)
        if abs(R) >= 2 ** 96 or (R != 0 and abs(R) < Fraction(1, 10 ** 28)):
            continue          # not representable as a Decimal: outside the property
        got = value_of_out('decimal', vlib.strip_ticks(x))
        dn += 1
        ok = got is not None and abs(got - R) <= max(abs(R) * Fraction(1, 10 ** 9), Fraction(1, 10 ** 28))
        if not ok:
            v = {'kind': 'function-value', 'cases': [list(c)], 'observed': x, 'expected': '%.30g' % r,
                 'why': '%s%s in eval_decimal: got %s, 70-digit reference %s' % (f, tuple(str(t) for t in a), vlib.strip_ticks(x), str(r)[:40]),
                 'tags': {'fn': f, 'ev': 'decimal', 'arg': float(a[0]), 'arg2': (float(a[1]) if len(a) > 1 else None), 'dist1': float(abs(a[0] - one)), 'ref_mag': float(abs(r)), 'err': got is None}}
            if not match_known('C10', v, KF):
                dnd += 1
            res['violations'].insert(0, v)
    res['levels']['decimal-vs-70-digit-reference'] = (dn, dnd)
    # eval_complex offers the same names: its function stream (model bit-exact + cmath reference) is part of this check too
    sub = {}
    r8 = run_C08(tier, rng, sub)
    rule = stats['rule']
    merge(res, {'levels': {'complex: ' + k: v for k, v in r8['levels'].items()}, 'disagreements': r8['disagreements'], 'violations': r8['violations']})
    stats['evaluations'] = stats.get('evaluations', 0) + sub.get('evaluations', 0)
    stats['distinct_nontrivial'] = stats.get('distinct_nontrivial', 0) + sub.get('distinct_nontrivial', 0)
    stats['rule'] = rule
    return res

PROPS['C10'] = {}

# ============================================================================ C07 decimal exactness
def dec_exact_ref(tokens):
    """evaluate a fully bracketed token tree over + - * / % and unary minus in exact rationals; returns Fraction or None"""
    return None

class DecTree:
    """random trees over + - * and unary minus on decimal literals, rendered fully bracketed, with the exact value and a status:
       'exact' every intermediate is representable, 'overflow' the first non-representable intermediate lies outside the range
       (operands representable), 'rounded' some intermediate needed rounding (value then only approximately known)"""
    def __init__(self, rng, lits):
        self.r, self.lits = rng, lits
    def gen(self, d):
        from fractions import Fraction as Fr
        if d <= 0 or self.r.chance(1, 3):
            l = self.r.choice(self.lits)
            return l, Fr(l), 'exact'
        k = self.r.below(7)
        a, va, sa = self.gen(d - 1)
        if k == 0:
            return '(-' + a + ')', -va, sa
        b, vb, sb = self.gen(d - 1)
        if k in (1, 2):
            t, v = '(' + a + '+' + b + ')', va + vb
        elif k in (3, 4):
            t, v = '(' + a + '-' + b + ')', va - vb
        else:
            t, v = '(' + a + '*' + b + ')', va * vb
        if sa == 'overflow' or sb == 'overflow':
            st = 'overflow'
        elif sa == 'rounded' or sb == 'rounded':
            st = 'rounded'
        elif representable_dec(v):
            st = 'exact'
        elif abs(v) >= 2**96:
            st = 'overflow'
        else:
            st = 'rounded'
        return t, v, st

def representable_dec(q):
    """exactly representable with a 96-bit coefficient and <= 28 fractional digits?"""
    from fractions import Fraction as Fr
    for s in range(0, 29):
        c = q * 10**s
        if c.denominator == 1:
            return abs(c.numerator) < 2**96
    return False

def run_C07(tier, rng, stats):
    from fractions import Fraction as Fr
    lits = ['0', '0.0', '0.000', '1', '2', '3', '7', '10', '0.1', '0.2', '0.3', '1.10', '2.50', '0.5', '0.25', '0.125', '1.5', '3.3', '12345.6789', '0.001',
            '99999999999999', '0.0000000001', '79228162514264337593543950335', '7922816251426433759354395033.5', '0.0000000000000000000000000001',
            '1234567890123456789012345678', '39614081257132168796771975168', '0.9999999999999999999999999999', '123456789.123456789', '1000000']
    for _ in range(24 if tier == 'quick' else 240):
        digits = 1 + rng.below(28)
        coef = str(1 + rng.below(10 ** digits - 1))
        sc = rng.below(min(len(coef), 28) + 1) if rng.chance(2, 3) else rng.below(29)
        if sc >= len(coef):
            lit = '0.' + '0' * (sc - len(coef)) + coef
        elif sc == 0:
            lit = coef
        else:
            lit = coef[:-sc] + '.' + coef[-sc:]
        if len(lit.replace('.', '')) <= 28:
            lits.append(lit)
    n = 1500 if tier == 'quick' else 20000
    g = DecTree(rng, lits)
    cs, want = [], {}
    for _ in range(n):
        e, v, st = g.gen(1 + rng.below(4))
        c = case('decimal', 'eval', None, e)
        cs.append(c); want[c] = (st, v)
    # division and remainder
    pool = ['1', '2', '3', '7', '10', '0.5', '0.25', '1.5', '12345.6789', '1000000', '0.001', '79228162514264337593543950335', '0.0000000000000000000000000001', '123456789.123456789', '9', '6', '0']
    pool = pool + [l for l in lits[-12:] if l not in pool]
    for a in pool:
        for b in pool:
            for op in '/%':
                c = case('decimal', 'eval', None, a + op + b)
                cs.append(c); want[c] = (op, Fr(a), Fr(b))
                c = case('decimal', 'eval', None, '(-' + a + ')' + op + b)
                cs.append(c); want[c] = (op, -Fr(a), Fr(b))
    cases, outs, model = run_streams(cs, stats)
    res = std_judge('C07', cases, outs, model)
    nn = nd = 0
    for c, x in zip(cases, outs['debug']):
        w = want[c]
        got = value_of_out('decimal', vlib.strip_ticks(x))
        cls = vlib.outcome_class(x)
        bad = None
        if w[0] == 'exact':
            nn += 1
            if cls != 'OK' or got != w[1]:
                bad = 'every intermediate is representable, exact result %s, got %s' % (w[1], vlib.strip_ticks(x))
        elif w[0] == 'overflow':
            nn += 1
            if cls != 'ERR':
                bad = 'an intermediate result lies outside the Decimal range: expected Err, got %s' % vlib.strip_ticks(x)
        elif w[0] == 'rounded':
            continue
        else:
            op, a, b = w
            nn += 1
            if b == 0:
                if cls != 'ERR':
                    bad = 'division / remainder by zero must be Err'
            elif op == '/':
                q = a / b
                if abs(q) >= 2**96:
                    if cls == 'OK':
                        bad = 'quotient out of range must be Err'
                elif cls != 'OK':
                    bad = 'quotient %s is in range, got %s' % (q, cls)
                elif representable_dec(q):
                    if got != q:
                        bad = 'exact quotient %s, got %s' % (q, got)
                elif abs(got - q) > max(Fr(1), abs(q)) * Fr(1, 10**27):
                    bad = 'quotient %s not within 1e-27*max(1,|q|) of %s' % (got, q)
            else:
                import math as _m
                r = a - b * int(a / b)      # sign of the dividend (truncating)
                if cls != 'OK' or got != r:
                    bad = 'remainder should be %s, got %s' % (r, vlib.strip_ticks(x))
        if bad:
            nd += 1
            res['violations'].insert(0, {'kind': 'decimal-exactness', 'cases': [list(c)], 'observed': x, 'why': dec_expr(c[3])[:80] + ': ' + bad})
    res['levels']['value-vs-exact-rationals'] = (nn, nd)
    stats['rule'] = ('random fully bracketed trees over + - * and unary minus on decimal literals of varied scale and magnitude incl. 27-29 digit boundary literals, and every (a,b) pair of a pool for / and %: '
                     'compared with the model (bit exact incl. the scale) and with exact rational arithmetic (Python fractions)')
    # parent over two child operations (n!/k!, a^2-b^2 ...): an operand that fails alone makes the whole fail
    fc, fo, fm = run_streams(s_fusion(tier, rng, evs=['decimal']), stats)
    merge(res, std_judge('C07', fc, fo, fm))
    l0_dec(tier, rng, stats, res)
    return res

# ============================================================================ C08 complex
def cpx_of(out):
    if not out.startswith('OK '):
        return None
    a, b = out[3:].split(',')
    return complex(w2f(a), w2f(b))

def run_C08(tier, rng, stats):
    cs, meta = [], {}
    n = 40 if tier == 'quick' else 400
    def cw(z):
        return f2w(z.real) + ',' + f2w(z.imag)
    zs = [complex(a, b) for a, b in [(1.5, 0.5), (-1.25, 2.0), (0.3, -0.7), (2.0, 1.0), (-0.5, -1.5), (3.0, 0.25)]] + \
         [complex((rng.below(4000) - 2000) / 500.0 or 0.5, (rng.below(4000) - 2000) / 500.0 or 0.25) for _ in range(n)]
    # neighbours of the unit circle on both axes (poles / branch points of atan, atanh, asin, acos, ln at +-1, +-i): model only
    for x in [1 - 2.0 ** -53, 1 + 2.0 ** -52, 1 - 2.0 ** -52, 1.0, 0.5, 2.0, 2.0 ** -1074, 1e308]:
        for z in [complex(x, 0.0), complex(-x, 0.0), complex(0.0, x), complex(0.0, -x), complex(-0.0, x), complex(x, -0.0), complex(x, x)]:
            for f in gen.F1['complex']:
                c = case('complex', 'eval', cw(z), f + '(@)')
                if c not in meta:
                    cs.append(c); meta[c] = ('model-only', f, (z,))
    for z in zs:
        for f in gen.F1['complex']:
            c = case('complex', 'eval', cw(z), f + '(@)'); cs.append(c); meta[c] = ('c1', f, (z,))
        c = case('complex', 'eval', cw(z), '-@'); cs.append(c); meta[c] = ('neg', '-', (z,))
        for w in zs[:6]:
            wl = '(' + dec_lit(w.real) + ('+' if w.imag >= 0 else '-') + dec_lit(abs(w.imag)) + 'i)'
            for op in '+-*/^':
                c = case('complex', 'eval', cw(z), '@' + op + wl); cs.append(c); meta[c] = ('op', op, (z, w))
            for f in gen.F2['complex']:
                c = case('complex', 'eval', cw(z), f + '(@,' + wl + ')'); cs.append(c); meta[c] = ('c2', f, (z, w))
    # mixed operand classes: real / purely imaginary / generic complex on either side of every two-operand construct
    # (positive reals and positive imaginary parts, away from the branch cuts)
    cls = [complex(2.5, 0.0), complex(5.0, 0.0), complex(0.75, 0.0), complex(0.0, 1.5), complex(0.0, 0.5), complex(3.0, 2.0), complex(1.5, -0.5), complex(-1.25, 2.0)]
    cls += [complex((1 + rng.below(900)) / 100.0, 0.0) for _ in range(6 if tier == 'quick' else 40)]
    def lit(w):
        if w.imag == 0:
            return dec_lit(w.real)
        if w.real == 0:
            return dec_lit(w.imag) + 'i'
        return '(' + dec_lit(w.real) + ('+' if w.imag >= 0 else '-') + dec_lit(abs(w.imag)) + 'i)'
    for z in cls:
        for w in cls:
            if z.imag != 0 and w.imag != 0 and z.real != 0 and w.real != 0:
                continue
            for op in '+-*/^':
                c = case('complex', 'eval', cw(z), '@' + op + lit(w)); cs.append(c); meta[c] = ('op', op, (z, w))
                c = case('complex', 'eval', cw(w), lit(z) + op + '@'); cs.append(c); meta[c] = ('op', op, (z, w))
            for f in gen.F2['complex']:
                c = case('complex', 'eval', cw(z), f + '(@,' + lit(w) + ')'); cs.append(c); meta[c] = ('c2', f, (z, w))
                c = case('complex', 'eval', cw(w), f + '(' + lit(z) + ',@)'); cs.append(c); meta[c] = ('c2', f, (z, w))
                c = case('complex', 'eval', None, f + '(' + lit(z) + ',' + lit(w) + ')'); cs.append(c); meta[c] = ('c2', f, (z, w))
    # extreme magnitudes: squares overflow / underflow although the modulus is representable (compared with the model; the
    # cmath reference is used where it does not overflow)
    for z in [complex(3e200, 4e200), complex(-1e160, 0.0), complex(0.0, 1e155), complex(3e-200, 4e-200), complex(0.0, -1e-160), complex(1e-180, 1e-180),
              complex(1e308, 1e308), complex(5e-324, 5e-324), complex(1e154, 1e154), complex(-2e153, 1e10)]:
        for f in ['abs', 'sqrt', 'ln', 'exp', 'sin', 'atan']:
            c = case('complex', 'eval', cw(z), f + '(@)'); cs.append(c); meta[c] = ('c1' if f == 'abs' else 'model-only', f, (z,))
        for e in ['@/@', '@*1', '1/@', '@/3', 'abs(@)/abs(@)', 'abs(2*@)']:
            c = case('complex', 'eval', cw(z), e); cs.append(c); meta[c] = ('model-only', e, (z,))
    # every operator and function over the placeholder pool (non-finite components, signed zeros) and small literals:
    # compared with the model only (the component formulas propagate inf * 0 = NaN and the signs of zeros)
    # (num_complex's functions, / and ^ branch on the sign bit of a NaN, which neither the wire format nor the one-NaN
    # model carries: NaN placeholders are used with the field operations only)
    for c in s_oppool(tier, rng, evs=['complex']) + s_funcgrid(tier, rng, evs=('complex',)):
        e = dec_expr(c[3]).replace('@', '')
        if '7ff8' in c[2] and (any(ch.isalpha() for ch in e.replace('i', '')) or '/' in e or '^' in e):
            continue
        if c not in meta:
            cs.append(c); meta[c] = ('model-only', '', ())
    # lexing of i
    for e, want in [('i', 1j), ('2i', 2j), ('i*i', -1 + 0j), ('i²', None), ('1.5i+2', 2 + 1.5j), ('2i*i', -2 + 0j), ('2i(i)', -2 + 0j), ('pi', complex(math.pi, 0)), ('.5i', 0.5j)]:
        c = case('complex', 'eval', None, e); cs.append(c); meta[c] = ('lit', e, (want,))
    # real operands inside the real domain: agreement with eval_f64
    reals = [0.25, 0.5, 0.75, 1.0, 1.5, 2.0, 3.0, 10.0] + [(1 + rng.below(5000)) / 1000.0 for _ in range(n // 2)]
    pairs = []
    DOM = {'asin': (-1, 1), 'acos': (-1, 1), 'atanh': (-0.99, 0.99), 'artanh': (-0.99, 0.99), 'acosh': (1, 1e9), 'arcosh': (1, 1e9), 'ln': (1e-9, 1e9), 'lb': (1e-9, 1e9), 'sqrt': (0, 1e9)}
    for x in reals:
        for f in gen.F1['complex']:
            lo, hi = DOM.get(f, (-1e9, 1e9))
            if lo <= x <= hi:
                pairs.append((case('complex', 'eval', cw(complex(x, 0.0)), f + '(@)'), case('f64', 'eval', f2w(x), f + '(@)'), f))
        for op in '+-*/^':
            pairs.append((case('complex', 'eval', cw(complex(x, 0.0)), '@' + op + '1.5'), case('f64', 'eval', f2w(x), '@' + op + '1.5'), op))
    cases, outs, model = run_streams(cs + [p[0] for p in pairs] + [p[1] for p in pairs], stats)
    res = std_judge('C08', cases, outs, model)
    idx = {c: i for i, c in enumerate(cases)}
    nn = nd = 0
    for c in cs:
        kind, f, args = meta[c]
        got = cpx_of(vlib.strip_ticks(outs['debug'][idx[c]]))
        ref, tol = None, 1e-9
        try:
            if kind == 'c1':
                ref = numref.C1[f](*args)
                tol = 1e-12 if f == 'abs' else 1e-9
            elif kind == 'c2':
                ref = numref.C2[f](*args)
            elif kind == 'neg':
                ref, tol = -args[0], 0.0
            elif kind == 'op':
                z, w = args
                ref = {'+': z + w, '-': z - w, '*': z * w, '/': z / w, '^': numref.C2['pow'](z, w)}[f]
                tol = 0.0 if f in '+-' else (1e-15 if f == '*' else (1e-12 if f == '/' else 1e-9))
            elif kind == 'lit':
                ref, tol = args[0], 1e-15
        except (ValueError, ZeroDivisionError, OverflowError):
            ref = None
        if ref is None:
            continue
        # away from branch cuts: skip points whose argument is within 1e-6 of the negative real axis or the cuts of the inverse functions
        nn += 1
        if got is None or not numref.cclose(got, ref, tol if tol else 1e-300):
            if kind == 'c1' and f in ('asin', 'acos', 'atan', 'asinh', 'acosh', 'atanh', 'arsinh', 'arcosh', 'artanh', 'sqrt', 'ln', 'lb') and abs(args[0].imag) < 1e-6:
                continue
            nd += 1
            res['violations'].insert(0, {'kind': 'complex-value', 'cases': [list(c)], 'observed': outs['debug'][idx[c]], 'expected': repr(ref),
                                         'why': '%s%s: got %s, reference %r' % (f, args, got, ref)})
    res['levels']['value-vs-cmath-reference'] = (nn, nd)
    np_ = npd = 0
    for a, b, f in pairs:
        ga = cpx_of(vlib.strip_ticks(outs['debug'][idx[a]])); gb = num_of('f64', vlib.strip_ticks(outs['debug'][idx[b]]))
        if gb is None or gb != gb or ga is None or math.isinf(gb):
            continue
        np_ += 1
        m = max(abs(gb), 1e-300)
        if abs(ga.real - gb) > 1e-9 * m or abs(ga.imag) > 1e-9 * max(abs(ga), 1e-300):
            npd += 1
            res['violations'].insert(0, {'kind': 'complex-vs-f64', 'cases': [list(a), list(b)], 'observed': '%r vs %r' % (ga, gb),
                                         'why': '%s on a real operand: eval_complex %r, eval_f64 %r' % (f, ga, gb)})
    res['levels']['complex-vs-f64-on-reals'] = (np_, npd)
    stats['rule'] = ('every operator and function of eval_complex on generic complex operands (both parts non-zero, moderate magnitude) against Python cmath / own pair formulas '
                     '(+ - * unary minus exact up to one rounding, / and abs 1e-12, others 1e-9 away from branch cuts), the lexing of i, and each operator/function on real operands against eval_f64')
    return res

# ============================================================================ C15 cross-evaluator agreement
def run_C15(tier, rng, stats):
    n = 600 if tier == 'quick' else 6000
    pairs = []
    # (1) integer expressions: eval_number returns Integer(v) whenever eval_i64 returns Ok(v)
    gi = ExprGen(rng, 'i64', lits=['0', '1', '2', '3', '5', '7', '10', '20', '63', '3037000499', '9223372036854775807', '4294967296'],
                 f1=['abs', 'sgn'], f2=['mod', 'pow'], fv=['min', 'max'], allow_ans=True, allow_sup=True,
                 ops={'+': 4, '-': 4, '*': 5, '%': 5, '^': 6})
    ints = []
    for _ in range(n):
        e = gi.expr(1 + rng.below(4))
        p = rng.choice(['0', '1', '5', '-3', '20', '9223372036854775807', '-9223372036854775808', '63'])
        ints.append((case('i64', 'eval', p, e), case('number', 'eval', 'I' + p, e)))
    # (2) shared f64 grammar: eval_number's numeric value = eval_f64's result when every intermediate stays finite, < 2^53, never -0.
    # Trees are rendered with every sub-expression recorded; eval_f64 on the sub-expressions is the reference evaluation that
    # decides whether the restriction holds.
    floats = []
    F1s = ['abs', 'floor', 'ceil', 'round', 'trunc', 'sqrt', 'sin', 'cos', 'exp', 'ln', 'sgn', 'tan', 'atan', 'sinh', 'lb', 'exp2']
    F2s = ['pow', 'mod', 'atan2', 'log', 'root']
    FVs = ['min', 'max', 'avg', 'med']
    LITS = ['0', '0.5', '1', '1.5', '2', '2.5', '3', '4', '10', '0.25', '100', '7', '12', '1000000', '3.75', '20']
    def sub(d, subs):
        """returns a text that is safe to embed as an operand (bracketed when composite); appends (text, opinfo) of each node to subs"""
        if d <= 0 or rng.chance(1, 4):
            return rng.choice(LITS)
        k = rng.below(12)
        if k < 6:
            op = rng.choice(['+', '-', '*', '/', '%', '^', '*', '+'])
            a, b = sub(d - 1, subs), sub(d - 1, subs)
            t = '(' + a + op + b + ')'
            subs.append((t, op, a, b))
        elif k == 6:
            a = sub(d - 1, subs)
            t = '(-' + a + ')'
            subs.append((t, 'neg', a, None))
        elif k == 7:
            a = sub(d - 1, subs)
            t = '(' + a + '!)'
            subs.append((t, '!', a, None))
        elif k in (8, 9):
            a = sub(d - 1, subs)
            t = rng.choice(F1s) + '(' + a + ')'
            subs.append((t, 'f1', a, None))
        elif k == 10:
            f = rng.choice(F2s)
            a, b = sub(d - 1, subs), sub(d - 1, subs)
            t = f + '(' + a + ',' + b + ')'
            subs.append((t, 'pow' if f == 'pow' else 'f2', a, b))
        else:
            args = [sub(d - 1, subs) for _ in range(1 + rng.below(3))]
            t = rng.choice(FVs) + '(' + ','.join(args) + ')'
            subs.append((t, 'fv', None, None))
        return t
    sub_cases = {}
    for _ in range(n):
        subs = []
        e = sub(1 + rng.below(4), subs)
        if not subs:
            continue
        floats.append((case('f64', 'eval', None, e), case('number', 'eval', None, e), subs))
        for t, op, x, y in subs:
            for u in (t, x, y):
                if u is not None:
                    sub_cases[u] = case('f64', 'eval', None, u)
    # long argument lists with inexact partial sums: the two evaluators must use the same summation order
    for f in FVs + ['median']:
        for _ in range(6 if tier == 'quick' else 60):
            k = 2 + rng.below(126)
            args = [rng.choice(['.1', '.3', '.7', '1', '2', '.5', '2.5']) for _ in range(k)]
            while len(f) + 2 + sum(len(v) + 1 for v in args) > 256:
                args.pop()
            e = f + '(' + ','.join(args) + ')'
            floats.append((case('f64', 'eval', None, e), case('number', 'eval', None, e), [(e, 'fv', None, None)]))
            sub_cases[e] = case('f64', 'eval', None, e)
        for k in (63, 64, 65, 66, 100, 126, 127):
            for v in ('.1', '.7'):
                args = [v] * k
                while len(f) + 2 + sum(len(x) + 1 for x in args) > 256:
                    args.pop()
                e = f + '(' + ','.join(args) + ')'
                floats.append((case('f64', 'eval', None, e), case('number', 'eval', None, e), [(e, 'fv', None, None)]))
                sub_cases[e] = case('f64', 'eval', None, e)
    # three-level shapes F(U(a) op U(b)) (norms, log-sums ...): the same text in both evaluators; every sub-expression is
    # recorded so that the restriction (finite, below 2^53, no negative zero) is decided on the intermediates too
    Us = [f + '(%s)' for f in F1s] + ['(%s)²', '(%s)³', 'pow(%s,2)', '(-%s)']
    Fs = [f + '(%s)' for f in F1s] + ['-(%s)']
    for f in Fs:
        for u in Us:
            for op in ['+', '-', '*', '/']:
                for a, b in [('3', '0.5'), ('17', '27'), ('0.1', '0.3'), ('0.1', '0.1'), ('2', '7')]:
                    ua, ub = u % a, u % b
                    mid = '(' + ua + op + ub + ')'
                    e = f % mid
                    floats.append((case('f64', 'eval', None, e), case('number', 'eval', None, e),
                                   [(ua, 'f1', a, None), (ub, 'f1', b, None), (mid, op, ua, ub), (e, 'f1', mid, None)]))
                    for t in (ua, ub, mid, e, a, b):
                        sub_cases[t] = case('f64', 'eval', None, t)
    # (3) decimal vs f64 on positive well-conditioned expressions over + * / sqrt exp ln pow
    gd = ExprGen(rng, 'decimal', lits=['0.5', '1', '1.5', '2', '2.5', '3', '4', '10', '0.25'], allow_ans=False, allow_juxt=False, allow_sup=False, allow_bang=False,
                 f1=['sqrt', 'exp', 'ln'], f2=['pow'], fv=[], ops={'+': 4, '*': 5, '/': 5}, allow_consts=False, allow_post=False)
    decs = []
    for _ in range(n // 2):
        e = gd.expr(1 + rng.below(3))
        if '-' in e or len(e) > 60:
            continue
        decs.append((case('decimal', 'eval', None, e), case('f64', 'eval', None, e)))
    allc = [c for p in ints + decs for c in p] + [c for p in floats for c in p[:2]] + list(sub_cases.values())
    cases, outs, model = run_streams(allc, stats)
    res = std_judge('C15', cases, outs, model)
    idx = {c: i for i, c in enumerate(cases)}
    o = lambda c: vlib.strip_ticks(outs['debug'][idx[c]])
    a = b = 0
    for ci, cn in ints:
        x, y = o(ci), o(cn)
        if x.startswith('OK '):
            # exact-division restriction: skip expressions containing an inexact '/' (the generator has no '/')
            a += 1
            if y != 'OK I' + x[3:]:
                # n! of a negative number is outside the integer sub-language of the property
                if '!' in dec_expr(ci[3]):
                    a -= 1
                    continue
                b += 1
                res['violations'].insert(0, {'kind': 'i64-vs-number', 'cases': [list(ci), list(cn)], 'observed': x + ' | ' + y,
                                             'why': 'eval_i64 returns %s but eval_number returns %s' % (x, y)})
    res['levels']['i64-vs-number'] = (a, b)
    a = b = 0
    def fine(v):
        return v is not None and v == v and not math.isinf(v) and abs(v) < 2.0**53 and not (v == 0 and math.copysign(1, v) < 0)
    undecided = 0
    for cf, cn, subs in floats:
        ok_r = True
        for t, op, x, y in subs:
            vt = num_of('f64', o(sub_cases[t]))
            if not fine(vt):
                ok_r = False; break
            if op in ('^', 'pow'):
                vx, vy = num_of('f64', o(sub_cases[x])), num_of('f64', o(sub_cases[y]))
                if vy is not None and vx is not None and vy < 0 and vy == int(vy) and vx == int(vx):
                    ok_r = False; break        # Integer ^ negative Integer is excepted by the property
        if not ok_r:
            undecided += 1
            continue
        x, y = o(cf), o(cn)
        vf, vn = num_of('f64', x), num_of('number', y)
        a += 1
        if vn is None or vn != vf:
            b += 1
            res['violations'].insert(0, {'kind': 'f64-vs-number', 'cases': [list(cf), list(cn)], 'observed': x + ' | ' + y,
                                         'why': '%r: eval_f64 %r, eval_number %r' % (dec_expr(cf[3])[:60], vf, vn)})
    stats.setdefault('hist', {})['C15 f64-vs-number'] = {'decided': a, 'restriction-not-met': undecided}
    res['levels']['f64-vs-number'] = (a, b)
    a = b = 0
    for cd, cf in decs:
        vd, vf = num_of('decimal', o(cd)), num_of('f64', o(cf))
        if vd is None or vf is None or vf != vf or math.isinf(vf) or vf <= 0 or vf > 1e20 or vf < 1e-6:
            continue
        a += 1
        if abs(vd - vf) > 1e-9 * abs(vf):
            b += 1
            res['violations'].insert(0, {'kind': 'decimal-vs-f64', 'cases': [list(cd), list(cf)], 'observed': '%r vs %r' % (vd, vf),
                                         'why': '%r: eval_decimal %r, eval_f64 %r' % (dec_expr(cd[3])[:60], vd, vf)})
    res['levels']['decimal-vs-f64'] = (a, b)
    stats['rule'] = ('one rendering evaluated by two evaluators: random integer expressions (+ - * % ^ unary minus abs sgn min max mod n!) in eval_i64 and eval_number over the i64 boundary pool; '
                     'random expressions of the shared f64 grammar in eval_f64 and eval_number (compared when the result is finite, below 2^53, not -0); positive well-conditioned expressions over + * / sqrt exp ln pow in eval_decimal and eval_f64 (1e-9)')
    return res

def intermediates_ok(e):
    """cheap syntactic filter for the C15 restriction (all intermediates finite, < 2^53, never -0, no Integer^negative Integer):
       expressions using factorials, exp of large values, negative powers or products that can exceed 2^53 are not decided"""
    return not any(t in e for t in ['!', 'exp', '^-', '100', 'pow', '^'])

for _p in ['C07', 'C08', 'C15']:
    PROPS[_p] = {}

# ============================================================================ level L0: primitive by primitive
def f64_boundary_pool(rng, nrand):
    """structured doubles: zeros, subnormals, powers of two and their neighbours, halves, 2^53 / 2^63 neighbourhoods, extremes, non-finite, random bit patterns"""
    import struct
    def nb(x, k):      # k-th neighbour in bit order
        b = struct.unpack('<q', struct.pack('<d', x))[0]
        return struct.unpack('<d', struct.pack('<q', b + k))[0]
    xs = [0.0, -0.0, float('inf'), float('-inf'), float('nan'), 5e-324, 1e-320, 2.2250738585072014e-308, 2.225073858507201e-308, 1.7976931348623157e308,
          0.1, 0.2, 0.3, 0.5, 1.5, 2.5, 3.5, 0.49999999999999994, 1e-17, 1e22, 1e23, 3.0, 7.0, 10.0, 1e15, 123456789.125]
    for k in [-1074, -1022, -52, -1, 0, 1, 2, 10, 31, 32, 52, 53, 54, 62, 63, 64, 100, 1023]:
        p = 2.0 ** k
        xs += [p, nb(p, 1), nb(p, -1) if p > 5e-324 else p]
    for v in [2.0**53, 2.0**63, 2.0**31, 2.0**32, 4503599627370496.5, 9007199254740993.0]:
        xs += [v, nb(v, 1), nb(v, -1), v + 0.5, v - 0.5]
    for _ in range(nrand):
        b = rng.next() & 0xFFFFFFFFFFFFFFFF
        xs.append(struct.unpack('<d', struct.pack('<Q', b))[0])
        # random doubles of moderate exponent (so that sums and products stay finite)
        e = rng.below(120) - 60
        xs.append((rng.below(1 << 53) / float(1 << 52)) * 2.0 ** e * (1 if rng.chance(1, 2) else -1))
    xs += [-x for x in xs if x == x]
    seen, out = set(), []
    for x in xs:
        w = f2w(x)
        if w not in seen:
            seen.add(w); out.append(w)
    return out

def run_prims(reqs):
    """reqs: list of (op, a, b|None). Returns (model_lines, machine_lines)."""
    mlines = ['prim\t%s\t%s\t%s' % (op, a, b if b is not None else '-') for op, a, b in reqs]
    model = vlib.run_model(mlines)
    exe = os.path.join(vlib.ROOT, 'harness/target/debug/primsrv')
    mach = vlib.run_sharded([exe], [' '.join([op, a] + ([b] if b is not None else [])) for op, a, b in reqs])
    return model, mach

def l0_level(res, stats, name, reqs, canon=None):
    model, mach = run_prims(reqs)
    n = nd = skipped = 0
    for r, m, x in zip(reqs, model, mach):
        if m == 'skip' or x == 'skip':
            skipped += 1
            continue
        n += 1
        mm, xx = (canon(m), canon(x)) if canon else (m, x)
        if mm != xx:
            nd += 1
            res['disagreements'].append({'kind': 'primitive', 'cases': [['prim', r[0], r[1], r[2] or '-']], 'observed': x, 'expected': m})
            res['violations'].append({'kind': 'primitive-model-mismatch', 'cases': [['prim', r[0], r[1], r[2] or '-']], 'observed': x, 'expected': m,
                                      'why': 'Rust primitive %s(%s%s) = %s, the Gallina definition gives %s' % (r[0], r[1], (', ' + r[2]) if r[2] else '', x, m)})
    res['levels'][name] = (n, nd)
    stats['evaluations'] = stats.get('evaluations', 0) + 2 * len(reqs)
    stats.setdefault('hist', {})[name] = {'compared': n, 'outside-the-written-out-domain': skipped}

def l0_f64(tier, rng, stats, res):
    pool = f64_boundary_pool(rng, 40 if tier == 'quick' else 400)
    small = pool if tier == 'thorough' else pool[:150]
    reqs = []
    for op in ['sqrt', 'neg', 'abs', 'floor', 'ceil', 'round', 'trunc', 'signum', 'f2i', 'f2i32', 'f2usize']:
        reqs += [(op, a, None) for a in pool]
    for op in ['add', 'sub', 'mul', 'div', 'rem', 'lt', 'le', 'eq', 'tcmp']:
        reqs += [(op, a, b) for a in small for b in small]
    ints = [str(x) for x in gen.I64_POOL] + [str(-x) for x in gen.I64_POOL] + [str(-2**63), str(2**53 + 1), str(2**63 - 1), str(2**62 + 1), str(9007199254740993), str(-9007199254740995)]
    ints += [str((rng.next() & 0xFFFFFFFFFFFFFFFF) - 2**63) for _ in range(200)]
    reqs += [('i2f', a, None) for a in ints]
    nanfix = lambda s: '7ff8000000000000' if len(s) == 16 and s.lower().startswith(('7ff', 'fff')) and int(s, 16) & 0x000FFFFFFFFFFFFF else s
    l0_level(res, stats, 'L0 f64 primitives (Flocq definitions vs the machine)', reqs, canon=nanfix)

def l0_i64(tier, rng, stats, res):
    pool = [str(x) for x in gen.I64_POOL] + [str(-x) for x in gen.I64_POOL if x] + [str(-2**63), str(-2**63 + 1), str(2**62), str(-2**62), '4', '6', '9', '12', '-6', '15', '62', '-63', '-64']
    pool += [str((rng.next() & 0xFFFFFFFFFFFFFFFF) - 2**63) for _ in range(20 if tier == 'quick' else 120)]
    pool = list(dict.fromkeys(pool))
    reqs = []
    for op in ['ineg', 'iabs', 'isignum']:
        reqs += [(op, a, None) for a in pool]
    for op in ['iadd', 'isub', 'imul', 'idiv', 'irem', 'iremeuclid', 'ipow', 'ishl', 'ishr', 'iand', 'ior']:
        reqs += [(op, a, b) for a in pool for b in pool]
    l0_level(res, stats, 'L0 i64 primitives (RustInt definitions vs the machine)', reqs)

def l0_dec(tier, rng, stats, res):
    pool = ['0/0', '-0/0', '0/3', '-0/5', '0/28', '1/0', '-1/0', '1/1', '2/1', '3/1', '110/2', '3/0', '15/1', '-25/2', '5/1', '1/28', '-1/28', '9999999999999999999999999999/28',
            '79228162514264337593543950335/0', '-79228162514264337593543950335/0', '7922816251426433759354395033/0', '7922816251426433759354395033/1',
            '79228162514264337593543950335/28', '39614081257132168796771975168/0', '39614081257132168796771975167/0', '1234567890123456789/9', '123456789/18',
            '18446744073709551615/0', '18446744073709551616/0', '4294967296/0', '4294967295/10', '100/2', '1000/3', '25/1', '250/2']
    for _ in range(30 if tier == 'quick' else 300):
        c = rng.below(10 ** (1 + rng.below(28)))
        pool.append(('-' if rng.chance(1, 2) else '') + '%d/%d' % (c, rng.below(29)))
    pool = list(dict.fromkeys(pool))
    reqs = [('dneg', a, None) for a in pool]
    for op in ['dadd', 'dsub', 'dmul', 'dcmp']:
        reqs += [(op, a, b) for a in pool for b in pool]
    l0_level(res, stats, 'L0 decimal exact paths (Base/Dec.v vs rust_decimal)', reqs)

# ============================================================================ extraction cross-checked by the kernel
def kernel_crosscheck(res, stats, cases, model, tier, rng):
    """A sample of the oracle-free cases is evaluated INSIDE Coq (Eval vm_compute of Driver.run_line with a dummy
       oracle) and compared with what the extracted OCaml runner printed for the same line. Oracle-free: token and
       AST dumps of i64 / f64 / number / complex, and eval_i64 on inputs without letters (no libm call)."""
    import subprocess, re as _r
    cand = []
    for c, m in zip(cases, model):
        e = dec_expr(c[3])
        if c[0] in ('i64', 'f64', 'number', 'complex') and c[1] in ('tokens', 'ast'):
            cand.append((c, m))
        elif c[0] == 'i64' and c[1] == 'eval' and not any(ch.isalpha() for ch in e):
            cand.append((c, m))
    k = 64 if tier == 'quick' else 512
    if len(cand) > k:
        idx = sorted(set(rng.below(len(cand)) for _ in range(k * 2)))[:k]
        cand = [cand[i] for i in idx]
    if not cand:
        res['levels']['extraction-vs-kernel (vm_compute)'] = (0, 0)
        return
    d = os.path.join(vlib.ROOT, 'build', 'kernel')
    os.makedirs(d, exist_ok=True)
    src = ['From Coq Require Import String List.', 'From SC Require Import Extract.Driver.', 'Open Scope string_scope.',
           'Definition ask0 (s : string) : string := "".']
    for c, _ in cand:
        line = '\t'.join(c)
        assert '"' not in line
        src.append('Eval vm_compute in (run_line ask0 "%s").' % line)
    open(os.path.join(d, 'cases.v'), 'w').write('\n'.join(src) + '\n')
    p = subprocess.run(['timeout', '600', 'coqc', '-noglob', '-Q', vlib.COQ, 'SC', os.path.join(d, 'cases.v')],
                       stdout=subprocess.PIPE, stderr=subprocess.STDOUT, text=True)
    got = _r.findall(r'= "((?:[^"]|"")*)"%?(?:string)?\s*:\s*string', p.stdout.replace('\n', ' '))
    got = [_r.sub(r'\s+', ' ', g) for g in got]
    n = nd = 0
    if p.returncode != 0 or len(got) != len(cand):
        res['violations'].append({'kind': 'kernel-crosscheck-failed', 'cases': [list(cand[0][0])], 'observed': p.stdout[-400:],
                                  'why': 'coqc could not evaluate the sample (%d results for %d cases)' % (len(got), len(cand))})
        res['levels']['extraction-vs-kernel (vm_compute)'] = (len(cand), len(cand))
        return
    for (c, m), g in zip(cand, got):
        n += 1
        if _r.sub(r'\s+', ' ', m) != g:
            nd += 1
            res['violations'].append({'kind': 'extraction-mismatch', 'cases': [list(c)], 'observed': m, 'expected': g,
                                      'why': 'the extracted OCaml model prints %r, the Coq kernel (vm_compute) computes %r' % (m, g)})
    res['levels']['extraction-vs-kernel (vm_compute)'] = (n, nd)
    stats['evaluations'] = stats.get('evaluations', 0) + n
