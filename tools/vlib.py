#!/usr/bin/env python3
"""Shared machinery of ./check: build steps, runners, comparison, evidence."""
import hashlib, json, os, re, subprocess, sys, time, shutil
from concurrent.futures import ThreadPoolExecutor

ROOT = os.path.dirname(os.path.dirname(os.path.abspath(__file__)))
REPO = os.environ.get('VERIF_REPO', '/repo')
BUILD = os.path.join(ROOT, 'build')
COQ = os.path.join(ROOT, 'coq')
JOBS = 16
ENV = dict(os.environ, CARGO_NET_OFFLINE='true', PRIMSRV=os.path.join(ROOT, 'harness/target/debug/primsrv'))

def log(*a):
    print(*a, file=sys.stderr, flush=True)

def sh(cmd, cwd=None, timeout=None, check=True, env=None, inp=None):
    p = subprocess.run(cmd, cwd=cwd, shell=isinstance(cmd, str), stdout=subprocess.PIPE, stderr=subprocess.STDOUT,
                       timeout=timeout, env=env or ENV, input=inp, text=True)
    if check and p.returncode != 0:
        raise BuildError('command failed (%d): %s\n%s' % (p.returncode, cmd, p.stdout[-4000:]))
    return p

class BuildError(Exception):
    pass

def write_if_changed(path, text):
    if os.path.exists(path) and open(path, encoding='utf-8').read() == text:
        return False
    os.makedirs(os.path.dirname(path), exist_ok=True)
    open(path, 'w', encoding='utf-8').write(text)
    return True

# ----------------------------------------------------------------------------- build
def translate():
    """regenerate coq/Gen/Tables.v from /repo (only touch the file when the content changes)"""
    os.makedirs(BUILD, exist_ok=True)
    tmp = os.path.join(BUILD, 'Tables.v.new')
    rep = os.path.join(BUILD, 'translate.json')
    p = sh([sys.executable, os.path.join(ROOT, 'tools/translate.py'), '--repo', REPO, '--out', tmp, '--report', rep],
           check=False)
    if p.returncode != 0:
        return {'ok': False, 'error': p.stdout[-2000:], 'evaluators': {}, 'same_as_committed': False}
    text = open(tmp, encoding='utf-8').read()
    write_if_changed(os.path.join(COQ, 'Gen/Tables.v'), text)
    report = json.load(open(rep))
    committed = open(os.path.join(ROOT, 'tools/Tables.committed.v'), encoding='utf-8').read()
    report['same_as_committed'] = (text == committed)
    report['ok'] = True
    return report

def coq_make(targets=None, timeout=3000):
    """full .vo build (never -vos) of the given targets (default: everything in _CoqProject)"""
    if not os.path.exists(os.path.join(COQ, 'Makefile')) or \
            os.path.getmtime(os.path.join(COQ, 'Makefile')) < os.path.getmtime(os.path.join(COQ, '_CoqProject')):
        sh('coq_makefile -f _CoqProject -o Makefile', cwd=COQ)
    cmd = ['make', '-k', '-j%d' % JOBS] + (targets or [])
    p = sh(cmd, cwd=COQ, timeout=timeout, check=False)
    return p.returncode == 0, p.stdout

def build_driver():
    """extract Driver.run_line and compile the OCaml runner when the model changed"""
    ex = os.path.join(ROOT, 'driver/extracted')
    os.makedirs(ex, exist_ok=True)
    stamp = os.path.join(ex, 'stamp')
    src = [os.path.join(COQ, 'Extract/Driver.vo'), os.path.join(ROOT, 'driver/main.ml')]
    h = hashlib.sha256()
    for s in src:
        h.update(open(s, 'rb').read())
    # Driver.vo depends on everything below it; hash the .vo of the model files too
    for line in open(os.path.join(COQ, '_CoqProject')):
        line = line.strip()
        if line.endswith('.v') and not line.startswith('Props') and not line.startswith('Proofs') and not line.startswith('Spec'):
            vo = os.path.join(COQ, line + 'o')
            if os.path.exists(vo):
                h.update(open(vo, 'rb').read())
    dig = h.hexdigest()
    runner = os.path.join(ROOT, 'driver/model_runner')
    if os.path.exists(stamp) and open(stamp).read() == dig and os.path.exists(runner):
        return
    sh(['coqc', '-Q', COQ, 'SC', os.path.join(COQ, 'Extract/Extract.v')], cwd=ex, timeout=600)
    sh('ocamlfind ocamlopt -package unix -linkpkg -w -a -O2 -o ../model_runner model.mli model.ml -I . ../main.ml',
       cwd=ex, timeout=600)
    open(stamp, 'w').write(dig)

def build_harness(release=True):
    h = os.path.join(ROOT, 'harness')
    lock = os.path.join(h, 'Cargo.lock')
    if not os.path.exists(lock):
        shutil.copy(os.path.join(REPO, 'Cargo.lock'), lock)
    sh('cargo build --offline', cwd=h, timeout=1200)
    if release:
        sh('cargo build --offline --release', cwd=h, timeout=1200)

def build_stack_probe():
    """the probe of native stack needs in a plain (unoptimised) debug build: profile `plaindebug` of the harness"""
    h = os.path.join(ROOT, 'harness')
    sh('cargo build --offline --profile plaindebug --bin stack_probe', cwd=h, timeout=1800)

# ----------------------------------------------------------------------------- runners
def _run_shard(cmd, lines, timeout):
    p = subprocess.run(cmd, input='\n'.join(lines) + '\n', stdout=subprocess.PIPE, stderr=subprocess.PIPE, text=True,
                       timeout=timeout, env=ENV)
    out = p.stdout.split('\n')
    if out and out[-1] == '':
        out.pop()
    if len(out) != len(lines):
        # the process died (abort / stack overflow): mark the first missing case
        out = out + ['ABORT'] + ['SKIPPED'] * (len(lines) - len(out) - 1)
    return out

def run_sharded(cmd, lines, timeout=900, shards=JOBS):
    if not lines:
        return []
    n = max(1, min(shards, (len(lines) + 49) // 50))
    chunks = [lines[i::n] for i in range(n)]
    with ThreadPoolExecutor(max_workers=n) as ex:
        outs = list(ex.map(lambda c: _run_shard(cmd, c, timeout), chunks))
    res = [None] * len(lines)
    for i, o in enumerate(outs):
        res[i::n] = o
    # re-run SKIPPED cases individually (after an abort)
    redo = [i for i, r in enumerate(res) if r == 'SKIPPED']
    guard = 0
    while redo and guard < 50:
        guard += 1
        o = _run_shard(cmd, [lines[i] for i in redo], timeout)
        for i, r in zip(redo, o):
            res[i] = r
        redo = [i for i, r in enumerate(res) if r == 'SKIPPED']
    return res

def run_impl(lines, profile='debug', budget=None, timeout_ms=4000):
    exe = os.path.join(ROOT, 'harness/target', profile, 'impl_runner')
    b = str(budget) if budget is not None else str(2**62)
    return run_sharded([exe, b, str(timeout_ms)], lines)

def run_model(lines, runner=None):
    return run_sharded([runner or os.path.join(ROOT, 'driver/model_runner')], lines)

TICK = re.compile(r' #(\d+)$')
def strip_ticks(s):
    return TICK.sub('', s)
def ticks_of(s):
    m = TICK.search(s)
    return int(m.group(1)) if m else None

def outcome_class(s):
    return s.split(' ', 1)[0]

# ----------------------------------------------------------------------------- proof obligations
FORBIDDEN = re.compile(r'\b(Admitted|admit|Axiom|Axioms|Parameter|Parameters|Conjecture|Hypothesis|Variable)\b|Unset Guard|bypass_check|type-in-type|impredicative-set|Admit Obligations')

def scan_forbidden():
    """Admitted / axioms / disabled checks anywhere in the development.
    `Variable` and `Hypothesis` are allowed only inside a Section (checked per file)."""
    bad = []
    for root, _, files in os.walk(COQ):
        for f in files:
            if not f.endswith('.v'):
                continue
            p = os.path.join(root, f)
            depth = 0
            incomment = 0
            for i, ln in enumerate(open(p, encoding='utf-8'), 1):
                code = re.sub(r'\(\*.*?\*\)', '', ln)
                # crude multi-line comment tracking
                opens, closes = code.count('(*'), code.count('*)')
                if incomment:
                    incomment += opens - closes
                    continue
                if opens > closes:
                    incomment = opens - closes
                    code = code.split('(*')[0]
                if re.match(r'\s*Section\b', code):
                    depth += 1
                if re.match(r'\s*End\b', code) and depth > 0:
                    depth -= 1
                for m in FORBIDDEN.finditer(code):
                    w = m.group(0)
                    if w in ('Variable', 'Hypothesis', 'Context') and depth > 0:
                        continue
                    bad.append('%s:%d: %s' % (os.path.relpath(p, ROOT), i, w))
    return bad

def allowed_axioms():
    out = set()
    for ln in open(os.path.join(ROOT, 'tools/assumptions.allow')):
        ln = ln.split('#')[0].strip()
        if ln:
            out.add(ln)
    return out

def check_props(pid):
    """compile coq/Props/<pid>.v, return (ok, theorems, axioms_used, disallowed, log)"""
    f = os.path.join(COQ, 'Props', pid + '.v')
    src = open(f, encoding='utf-8').read()
    theorems = re.findall(r'^\s*(?:Theorem|Corollary)\s+(\w+)', src, re.M)
    p = sh(['coqc', '-Q', COQ, 'SC', f], cwd=COQ, timeout=1800, check=False)
    out = p.stdout
    if p.returncode != 0:
        return False, theorems, [], [], out
    axioms = set()
    # Print Assumptions output: "Closed under the global context" or "Axioms:\n name : type ..."
    for blk in re.split(r'\n(?=Axioms:|Closed under)', out):
        if blk.startswith('Axioms:'):
            for ln in blk.split('\n')[1:]:
                m = re.match(r'^([A-Za-z_][\w.\']*)\s*(?::|$)', ln)
                if m:
                    axioms.add(m.group(1))
    allow = allowed_axioms()
    pref = tuple(x[:-1] for x in allow if x.endswith('*'))
    dis = sorted(a for a in axioms if a not in allow and not a.startswith(pref))
    n_print = len(re.findall(r'^\s*Print Assumptions\s+\w+', src, re.M))
    if n_print < len(theorems):
        return False, theorems, sorted(axioms), dis, out + '\nmissing Print Assumptions for some theorem'
    return (not dis), theorems, sorted(axioms), dis, out

# ----------------------------------------------------------------------------- evidence
def write_evidence(pid, tier, seed, t0, coverage, assumptions, violations):
    os.makedirs(os.path.join(ROOT, 'evidence'), exist_ok=True)
    ev = {'property_id': pid, 'tier': tier, 'seed': seed, 'level': 'proof', 'coverage': coverage,
          'assumptions': assumptions, 'wall_s': round(time.time() - t0, 2), 'violations': violations}
    json.dump(ev, open(os.path.join(ROOT, 'evidence', pid + '.json'), 'w'), indent=1, ensure_ascii=False)

def write_replay(pid, tag, obj):
    d = os.path.join(ROOT, 'replays')
    os.makedirs(d, exist_ok=True)
    p = os.path.join(d, '%s_%s.json' % (pid, tag))
    json.dump(obj, open(p, 'w'), indent=1, ensure_ascii=False)
    return p

def known_findings():
    p = os.path.join(ROOT, 'known_findings.json')
    return json.load(open(p)) if os.path.exists(p) else {'findings': [], 'fixed': []}
