//! Feature-subset probe (C17). Built once per subset of the five eval_* features:
//!  * every export that must exist under this subset is named and called;
//!  * every export that must NOT exist is shown absent: `use string_calculator::*` and
//!    `use shadow::*` are both glob imports, so a name the crate exports as well would be ambiguous
//!    (a compile error) where it is used below;
//!  * the corpus on stdin (lines `<ev>\t<placeholder>\t<expr as hex code points>`) is evaluated by
//!    the enabled evaluators and printed in the harness wire format.
#![allow(unused_imports, dead_code)]
use std::io::BufRead;
use string_calculator::*;

pub mod shadow {
    pub fn eval_f64() -> u8 { 1 }
    pub fn eval_i64() -> u8 { 2 }
    pub fn eval_decimal() -> u8 { 3 }
    pub fn eval_complex() -> u8 { 4 }
    pub fn eval_number() -> u8 { 5 }
    pub struct Number;
}

/// names that must NOT be exported under this subset resolve to the shadow module; if the crate
/// exported one of them as well, the two glob imports would make it ambiguous here (denied)
mod absent_check {
    #![deny(ambiguous_glob_imports)]
    use super::shadow::*;
    use string_calculator::*;
    pub fn absent() -> u32 {
        let mut n = 0u32;
        #[cfg(not(feature = "eval_f64"))]
        { n += eval_f64() as u32; }
        #[cfg(not(feature = "eval_i64"))]
        { n += eval_i64() as u32; }
        #[cfg(not(feature = "eval_decimal"))]
        { n += eval_decimal() as u32; }
        #[cfg(not(feature = "eval_complex"))]
        { n += eval_complex() as u32; }
        #[cfg(not(feature = "eval_number"))]
        { n += eval_number() as u32; let _x: Number = Number; }
        n
    }
}
use absent_check::absent;

fn dec_expr(s: &str) -> String {
    if s.is_empty() || s == "-" {
        return String::new();
    }
    s.split('.').map(|p| char::from_u32(u32::from_str_radix(p, 16).unwrap()).unwrap()).collect()
}
fn f2w(x: f64) -> String {
    if x.is_nan() { "7ff8000000000000".into() } else { format!("{:016x}", x.to_bits()) }
}
fn w2f(s: &str) -> f64 {
    f64::from_bits(u64::from_str_radix(s, 16).unwrap())
}

fn main() {
    // ParseError is exported in every non-empty subset
    let _e: Option<ParseError> = None;
    eprintln!("absent-marker {}", absent());
    let stdin = std::io::stdin();
    for line in stdin.lock().lines() {
        let line = line.unwrap();
        let f: Vec<&str> = line.split('\t').collect();
        if f.len() != 3 {
            continue;
        }
        let (ev, ph, ex) = (f[0], f[1], dec_expr(f[2]));
        let _ = (&ph, &ex);
        let r: Option<String> = std::panic::catch_unwind(|| match ev {
            #[cfg(feature = "eval_f64")]
            "f64" => Some(match eval_f64(ex, w2f(ph)) { Ok(v) => format!("OK {}", f2w(v)), Err(_) => "ERR".into() }),
            #[cfg(feature = "eval_i64")]
            "i64" => Some(match eval_i64(ex, ph.parse().unwrap()) { Ok(v) => format!("OK {}", v), Err(_) => "ERR".into() }),
            #[cfg(feature = "eval_decimal")]
            "decimal" => {
                let neg = ph.starts_with('-');
                let (c, sc) = ph.trim_start_matches('-').split_once('/').unwrap();
                let coef: u128 = c.parse().unwrap();
                let mut d = rust_decimal::Decimal::from_parts(coef as u32, (coef >> 32) as u32, (coef >> 64) as u32, neg, sc.parse().unwrap());
                d.set_sign_negative(neg);
                Some(match eval_decimal(ex, d) {
                    Ok(v) => { let u = v.unpack(); format!("OK {}{}/{}", if u.negative { "-" } else { "" }, ((u.hi as u128) << 64) | ((u.mid as u128) << 32) | (u.lo as u128), u.scale) }
                    Err(_) => "ERR".into(),
                })
            }
            #[cfg(feature = "eval_complex")]
            "complex" => {
                let (a, b) = ph.split_once(',').unwrap();
                Some(match eval_complex(ex, num_complex::Complex::new(w2f(a), w2f(b))) { Ok(v) => format!("OK {},{}", f2w(v.re), f2w(v.im)), Err(_) => "ERR".into() })
            }
            #[cfg(feature = "eval_number")]
            "number" => {
                let p = if let Some(r) = ph.strip_prefix('I') { string_calculator::Number::Integer(r.parse().unwrap()) } else { string_calculator::Number::Float(w2f(&ph[1..])) };
                Some(match eval_number(ex, p) {
                    Ok(string_calculator::Number::Integer(i)) => format!("OK I{}", i),
                    Ok(string_calculator::Number::Float(x)) => format!("OK F{}", f2w(x)),
                    Err(_) => "ERR".into(),
                })
            }
            _ => None,
        }).unwrap_or(Some("PANIC".into()));
        println!("{}", r.unwrap_or_else(|| "-".into()));
    }
}
