(** Every tree the parser returns is well formed: aggregate nodes carry at least one argument
    (the cross-layer invariant the evaluators' indexing and divisions rely on). *)
From Coq Require Import List Bool Arith Lia.
From SC Require Import Base.Res Lang.Syntax Lang.Parser.
Import ListNotations.

Section Wf.
  Context {V : Type}.

  Fixpoint wf (n : node V) : bool :=
    match n with
    | NNum _ => true
    | NUn _ a => wf a
    | NBin _ a c => wf a && wf c
    | NAgg _ args =>
        match args with [] => false | _ => true end &&
        (fix go (l : list (node V)) : bool :=
           match l with [] => true | x :: xs => wf x && go xs end) args
    end.

  Lemma wf_agg g args : wf (NAgg g args) = match args with [] => false | _ => true end && forallb wf args.
  Proof. reflexivity. Qed.

  Variable T : ptab V.
  Variable ph : V.

  Definition cmd_wf (c : cmd) : bool :=
    match c with
    | CImpl n => wf n
    | CLoop _ l => wf l
    | CArg2b _ a1 => wf a1
    | CItems _ _ acc => forallb wf acc
    | _ => true
    end.

  Ltac inv_bind H :=
    match type of H with
    | bind ?r _ = Ok _ =>
        let E := fresh "E" in
        destruct r as [[? ?]| | |] eqn:E; simpl in H; try discriminate
    end.

  Lemma expect_Ok k (ts ts' : list (tok V)) : expect k ts = Ok ts' -> True.
  Proof. trivial. Qed.

  Lemma run_wf : forall fuel c ts n rest,
      cmd_wf c = true -> run T ph fuel c ts = Ok (n, rest) -> wf n = true.
  Proof.
    induction fuel as [|f IH]; intros c ts n rest Hc H; [discriminate|].
    destruct c; simpl in H, Hc.
    - (* CGen *)
      inv_bind H. eapply IH; [|exact H]. simpl. eapply IH; [|exact E]. reflexivity.
    - (* CPrim *)
      destruct ts as [|t ts']; [discriminate|].
      destruct t as [k|v|v]; [|destruct (pt_numnum T || negb (kind_eqb (hdk ts') KNum)); [eapply IH; [|exact H]; reflexivity|discriminate]|discriminate].
      destruct k; try discriminate;
        try (destruct (pt_const T _) eqn:Ec; [inversion H; subst; reflexivity|];
             destruct (pt_open T _) as [[close w]|] eqn:Eo; [|discriminate];
             inv_bind H;
             destruct (expect close _) eqn:Ex; simpl in H; try discriminate;
             eapply IH; [|exact H]; simpl;
             destruct w; simpl; eapply IH; try exact E; reflexivity).
      + (* KAdd *) destruct (pt_pos T); [|discriminate]. eapply IH; [|exact H]. reflexivity.
      + (* KSubtract *) destruct (pt_neg T); [|discriminate]. inv_bind H. inversion H; subst. simpl.
        eapply IH; [|exact E]. reflexivity.
      + (* KFunc *) destruct (pt_fn T f0) as [sp|]; [|discriminate].
        destruct (expect KLeftParen ts') eqn:Ex; simpl in H; try discriminate.
        destruct sp; (eapply IH; [|exact H]); reflexivity.
      + (* KAns *) destruct (pt_ans T); [|discriminate]. inversion H; subst; reflexivity.
    - (* CImpl *)
      destruct (pt_trigger T (hdk ts)).
      + inv_bind H. inversion H; subst. simpl. rewrite Hc. simpl. eapply IH; [|exact E]. reflexivity.
      + inversion H; subst; assumption.
    - (* CLoop *)
      destruct (p <? pt_prec T (hdk ts)); [|inversion H; subst; assumption].
      destruct ts as [|t ts']; [inversion H; subst; assumption|].
      destruct t as [k|v|v].
      + destruct (pt_infix T k) as [[b lvl]|].
        * inv_bind H. eapply IH; [|exact H]. simpl. rewrite Hc. simpl. eapply IH; [|exact E]. reflexivity.
        * destruct (kind_eqb k KExclamationMark && pt_bang T).
          -- inv_bind H. eapply IH; [|exact H]. simpl. eapply IH; [|exact E]. simpl. assumption.
          -- destruct (pt_postconst T k); [|discriminate]. eapply IH; [|exact H]. simpl. now rewrite Hc.
      + discriminate.
      + destruct (pt_sup T); [|discriminate]. eapply IH; [|exact H]. simpl. now rewrite Hc.
    - (* CArg1 *)
      inv_bind H. destruct (expect KRightParen _) eqn:Ex; simpl in H; try discriminate.
      eapply IH; [|exact H]. simpl. eapply IH; [|exact E]. reflexivity.
    - (* CArg2a *)
      inv_bind H. destruct (expect KComma _) eqn:Ex; simpl in H; try discriminate.
      eapply IH; [|exact H]. simpl. eapply IH; [|exact E]. reflexivity.
    - (* CArg2b *)
      inv_bind H. destruct (expect KRightParen _) eqn:Ex; simpl in H; try discriminate.
      eapply IH; [|exact H]. simpl. rewrite Hc. simpl. eapply IH; [|exact E]. reflexivity.
    - (* CItems *)
      assert (Hstep : forall r,
                 (let* (a, ts1) := run T ph f (CGen 0) ts in
                  match ts1 with
                  | TK KComma :: ts2 => run T ph f (CItems g ez (a :: acc)) ts2
                  | TK KRightParen :: ts2 => run T ph f (CImpl (NAgg g (rev (a :: acc)))) ts2
                  | _ => Err
                  end) = Ok r -> wf (fst r) = true).
      { intros [n' r'] H'. inv_bind H'.
        assert (Wn : wf n0 = true) by (eapply IH; [|exact E]; reflexivity).
        destruct l as [|t l']; [discriminate|].
        destruct t as [k| |]; try discriminate.
        destruct k; try discriminate.
        - eapply IH; [|exact H']. cbn [cmd_wf]. rewrite wf_agg.
          apply andb_true_intro; split.
          + destruct (rev acc); reflexivity.
          + change (rev acc ++ [n0]) with (rev (n0 :: acc)). rewrite forallb_forall. intros x Hx. apply in_rev in Hx.
            destruct Hx as [<-|Hx]; [assumption|]. rewrite forallb_forall in Hc. now apply Hc.
        - eapply IH; [|exact H']. simpl. now rewrite Wn. }
      destruct acc as [|a0 acc'].
      + destruct ts as [|t ts']; [apply (Hstep (n, rest)); exact H|].
        destruct t as [k| |]; try (apply (Hstep (n, rest)); exact H).
        destruct k; try (apply (Hstep (n, rest)); exact H).
        destruct ez; [|discriminate]. eapply IH; [|exact H]. reflexivity.
      + apply (Hstep (n, rest)); exact H.
  Qed.

  Theorem parse_wf ts n : parse T ph ts = Ok n -> wf n = true.
  Proof.
    unfold parse. intros H.
    destruct (run T ph (parse_fuel ts) (CGen 0) ts) as [[n' rest]| | |] eqn:E; simpl in H; try discriminate.
    destruct rest; [|discriminate]. inversion H; subst. eapply run_wf; [|exact E]. reflexivity.
  Qed.
End Wf.
