(** Every call of the tokenizer consumes at least one character: token count <= character count. *)
From Coq Require Import List NArith Bool Arith Lia.
From SC Require Import Base.Res Lang.Syntax Lang.Lexer.
Import ListNotations.

Lemma span_len f l : length (snd (span f l)) <= length l.
Proof. induction l as [|c l IH]; simpl; [lia|]. destruct (f c); [destruct (span f l); simpl in *; lia|simpl; lia]. Qed.
Lemma span_sup_len m l : length (snd (span_sup m l)) <= length l.
Proof. induction l as [|c l IH]; simpl; [lia|]. destruct (assoc c m); [destruct (span_sup m l); simpl in *; lia|simpl; lia]. Qed.
Lemma span_onepoint_len l : forall seen, length (snd (span_onepoint seen l)) <= length l.
Proof.
  induction l as [|c l IH]; intros seen; simpl; [lia|].
  destruct (N.eqb c ch_dot).
  - destruct seen; [simpl; lia|]. specialize (IH true). destruct (span_onepoint true l); simpl in *; lia.
  - destruct (is_digit c); [|simpl; lia]. specialize (IH seen). destruct (span_onepoint seen l); simpl in *; lia.
Qed.
Lemma skipn_len {A} n (l : list A) : length (skipn n l) <= length l.
Proof. revert l. induction n; intros [|x l]; simpl; try lia. specialize (IHn l). lia. Qed.

Section Lex.
  Context {V : Type}.
  Variable T : lextab.
  Variable conv : lit -> option V.

  Lemma imag_tail_len rest : length (snd (imag_tail T rest)) <= length rest.
  Proof.
    unfold imag_tail. destruct (lt_imag_suffix T); [|simpl; lia].
    destruct rest as [|c r]; [simpl; lia|]. destruct (N.eqb c ch_i); simpl; lia.
  Qed.

  Lemma lex_step_shorter cs t rest : lex_step T conv cs = Some (t, rest) -> length rest < length cs.
  Proof.
    destruct cs as [|c cs']; [discriminate|]. unfold lex_step. simpl length.
    destruct (is_digit c).
    - set (sp := match lt_mode T with
                 | IntOnly => span is_digit cs'
                 | FloatGreedy => span (fun x => is_digit x || N.eqb x ch_dot) cs'
                 | FloatOnePoint => span_onepoint false cs'
                 end).
      assert (Hs : length (snd sp) <= length cs').
      { unfold sp. destruct (lt_mode T); [apply span_len|apply span_len|apply span_onepoint_len]. }
      destruct sp as [body rest1]. simpl in Hs.
      pose proof (imag_tail_len rest1). destruct (imag_tail T rest1) as [im rest2]. simpl in *.
      destruct (conv _); [|discriminate]. intros H'; inversion H'; subst. lia.
    - destruct (N.eqb c ch_dot && lt_dot T).
      + destruct cs' as [|d cs'']; [discriminate|]. destruct (is_digit d); [|discriminate].
        pose proof (span_len is_digit (d :: cs'')). destruct (span is_digit (d :: cs'')) as [body rest1].
        pose proof (imag_tail_len rest1). destruct (imag_tail T rest1) as [im rest2]. simpl in *.
        destruct (conv _); [|discriminate]. intros H'; inversion H'; subst. lia.
      + destruct (N.eqb c ch_i && lt_imag_unit T).
        * destruct (conv LImagUnit); [|discriminate]. intros H'; inversion H'; subst. lia.
        * destruct (existsb (N.eqb c) (lt_sup_arms T)).
          -- pose proof (span_sup_len (lt_sup T) cs'). destruct (span_sup (lt_sup T) cs') as [ds rest1]. simpl in *.
             destruct (assoc c (lt_sup T)); (destruct (conv _); [|discriminate]); intros H'; inversion H'; subst; lia.
          -- destruct (find_arm (lt_arms T) c) as [a|]; [|discriminate].
             destruct (find_row (a_rows a) cs') as [r|].
             ++ intros H'; inversion H'; subst. pose proof (skipn_len (r_drop r) cs'). lia.
             ++ destruct (a_default a); [|discriminate]. intros H'; inversion H'; subst. lia.
  Qed.

  Lemma tokenize_length : forall fuel cs ts, tokenize T conv fuel cs = Some ts -> length ts <= length cs.
  Proof.
    induction fuel as [|f IH]; intros cs ts H.
    - destruct cs; [inversion H; simpl; lia|discriminate].
    - destruct cs as [|c cs']; [inversion H; simpl; lia|].
      cbn [tokenize] in H. destruct (lex_step T conv (c :: cs')) as [[t rest]|] eqn:E; [|discriminate].
      destruct (tokenize T conv f rest) as [ts'|] eqn:E2; [|discriminate]. inversion H; subst.
      apply lex_step_shorter in E. apply IH in E2. simpl in *. lia.
  Qed.

  Lemma strip_length s : length (strip s) <= length s.
  Proof. unfold strip. induction s; simpl; [lia|]. destruct (negb (is_ws a)); simpl; lia. Qed.

  Theorem tokens_le_chars s ts : tokenize_all T conv (strip s) = Some ts -> length ts <= length s.
  Proof. intros H. apply tokenize_length in H. pose proof (strip_length s). lia. Qed.
End Lex.
