(** End-to-end print / re-read round trip for eval_i64 (second clause of C19): the standard decimal text of ANY i64 value
    other than i64::MIN -- an optional minus sign followed by the digits of the magnitude, which is what [Display] prints --
    goes through white-space stripping, the tokenizer rows of the regenerated tables, the precedence-climbing parser and
    the evaluator, and comes back as exactly that value. ShowFacts.v stops at the literal reader; this file adds the
    tokenizer, the parser and the evaluator. The text of i64::MIN is rejected (its magnitude is not an i64 literal). *)
From Coq Require Import List NArith ZArith Bool Lia.
From SC Require Import Base.Res Base.RustInt Base.Oracle Lang.Syntax Lang.Lexer Lang.Literal Lang.Parser
  Eval.EvalI64 Eval.EvalNum Base.Num Gen.Tables Eval.Run Proofs.LiteralFacts Proofs.ShowFacts.
Import ListNotations.
Local Open Scope N_scope.

(** [Display for i64]: '-' and the magnitude for a negative value *)
Definition display_i64 (z : Z) : list N :=
  if (z <? 0)%Z then 45 :: show_N (Z.to_N (- z)) else show_N (Z.to_N z).

Lemma span_all_digits cs : forallb is_digit cs = true -> span is_digit cs = (cs, []).
Proof.
  induction cs as [|c cs IH]; intros H; [reflexivity|].
  cbn [forallb] in H. apply andb_true_iff in H. destruct H as [Hc Hcs].
  cbn [span]. rewrite Hc, (IH Hcs). reflexivity.
Qed.

Lemma digit_not_ws c : is_digit c = true -> is_ws c = false.
Proof.
  unfold is_digit, is_ws. intros H. apply andb_true_iff in H. destruct H as [A B].
  apply N.leb_le in A. apply N.leb_le in B.
  repeat match goal with
  | |- context [(?a <=? c)] => let E := fresh in destruct (N.leb_spec a c) as [E|E]
  | |- context [(c <=? ?a)] => let E := fresh in destruct (N.leb_spec c a) as [E|E]
  | |- context [(c =? ?a)] => let E := fresh in destruct (N.eqb_spec c a) as [E|E]
  end; try reflexivity; lia.
Qed.

Lemma strip_digits cs : forallb is_digit cs = true -> strip cs = cs.
Proof.
  induction cs as [|c cs IH]; intros H; [reflexivity|].
  cbn [forallb] in H. apply andb_true_iff in H. destruct H as [Hc Hcs].
  unfold strip in *. cbn [filter]. rewrite (digit_not_ws c Hc). cbn [negb]. now rewrite (IH Hcs).
Qed.

Lemma span_greedy_digits cs :
  forallb is_digit cs = true -> span (fun x => is_digit x || (x =? ch_dot)) cs = (cs, []).
Proof.
  induction cs as [|c cs IH]; intros H; [reflexivity|].
  cbn [forallb] in H. apply andb_true_iff in H. destruct H as [Hc Hcs].
  cbn [span]. rewrite Hc, (IH Hcs). reflexivity.
Qed.

Lemma span_onepoint_digits cs seen : forallb is_digit cs = true -> span_onepoint seen cs = (cs, []).
Proof.
  induction cs as [|c cs IH]; intros H; [reflexivity|].
  cbn [forallb] in H. apply andb_true_iff in H. destruct H as [Hc Hcs].
  cbn [span_onepoint]. rewrite (LiteralFacts.digit_not_dot c Hc), Hc, (IH Hcs). reflexivity.
Qed.

Lemma digits_no_point cs : forallb is_digit cs = true -> has_point cs = false.
Proof.
  induction cs as [|c cs IH]; intros H; [reflexivity|].
  cbn [forallb] in H. apply andb_true_iff in H. destruct H as [Hc Hcs].
  unfold has_point in *. cbn [existsb]. rewrite (IH Hcs).
  pose proof (LiteralFacts.digit_not_dot c Hc) as Hd. rewrite N.eqb_sym in Hd. rewrite Hd. reflexivity.
Qed.

Section Lex.
  Context {V : Type}.
  Variable T : lextab.
  Variable conv : lit -> option V.
  Hypothesis Hsuf : lt_imag_suffix T = false.

  (** an all-digit text is one Num token carrying what the conversion makes of exactly that text *)
  Lemma lex_digit_run c cs v :
    forallb is_digit (c :: cs) = true -> conv (LNum (c :: cs) false) = Some v ->
    lex_step T conv (c :: cs) = Some (TNum v, []).
  Proof.
    intros H Hv. cbn [forallb] in H. apply andb_true_iff in H. destruct H as [Hc Hcs].
    unfold lex_step. rewrite Hc.
    destruct (lt_mode T);
      rewrite ?(span_all_digits cs Hcs), ?(span_greedy_digits cs Hcs), ?(span_onepoint_digits cs false Hcs);
      unfold imag_tail; rewrite Hsuf, Hv; reflexivity.
  Qed.

  Lemma tokenize_digit_run f c cs v :
    forallb is_digit (c :: cs) = true -> conv (LNum (c :: cs) false) = Some v ->
    tokenize T conv (S f) (c :: cs) = Some [TNum v].
  Proof.
    intros H Hv. cbn [tokenize]. rewrite (lex_digit_run c cs v H Hv). destruct f; reflexivity.
  Qed.
End Lex.

Definition i64_min_mag : Z := 9223372036854775808.

(** ** eval_i64 *)
Lemma tokens_digits_i64 ds z :
  ds <> [] -> forallb is_digit ds = true -> parse_i64 ds = Some z ->
  tokens_of lt_i64 conv_i64 ds = Some [TNum z].
Proof.
  intros Hne Hd Hp. unfold tokens_of, tokenize_all. rewrite (strip_digits ds Hd).
  destruct ds as [|c cs]; [congruence|]. cbn [length].
  apply tokenize_digit_run; [reflexivity|exact Hd|exact Hp].
Qed.

Lemma tokens_minus_digits_i64 ds z :
  ds <> [] -> forallb is_digit ds = true -> parse_i64 ds = Some z ->
  tokens_of lt_i64 conv_i64 (45 :: ds) = Some [TK KSubtract; TNum z].
Proof.
  intros Hne Hd Hp. unfold tokens_of, tokenize_all.
  change (strip (45 :: ds)) with (45 :: strip ds). rewrite (strip_digits ds Hd).
  destruct ds as [|c cs]; [congruence|].
  change (length (45 :: c :: cs)) with (S (S (length cs))).
  change (tokenize lt_i64 conv_i64 (S (S (length cs))) (45 :: c :: cs))
    with (match tokenize lt_i64 conv_i64 (S (length cs)) (c :: cs) with
          | Some ts => Some (TK KSubtract :: ts) | None => None end).
  rewrite (tokenize_digit_run lt_i64 conv_i64 eq_refl (length cs) c cs z Hd Hp). reflexivity.
Qed.

Theorem i64_display_roundtrip (L : libm) (p z : Z) :
  (- i64_max <= z <= i64_max)%Z -> run_i64 L (display_i64 z) p = Ok z.
Proof.
  intros Hz. unfold display_i64. destruct (z <? 0)%Z eqn:E.
  - apply Z.ltb_lt in E.
    assert (Hm : (0 <= - z <= i64_max)%Z) by lia.
    pose proof (parse_show_i64 (- z) Hm) as Hp.
    assert (Hn : Z.to_N (- z) < 10 ^ 20).
    { unfold i64_max in Hm. apply N2Z.inj_lt. rewrite Z2N.id by lia. change (Z.of_N (10 ^ 20)) with (10 ^ 20)%Z. lia. }
    destruct (show_read _ Hn) as (A & _ & C).
    unfold run_i64, run, ast_of. rewrite (tokens_minus_digits_i64 _ _ C A Hp).
    change (parse pt_i64 p [TK KSubtract; TNum (- z)%Z]) with (Ok (NUn UNegative (NNum (- z)%Z))).
    cbn [bind]. change (eval_i64 L (NUn UNegative (NNum (- z)%Z))) with (of_option (checked_neg (- z)%Z)).
    unfold checked_neg, fit, in_i64. rewrite Z.opp_involutive.
    unfold i64_max in Hz.
    replace ((RustInt.i64_min <=? z)%Z) with true by (symmetry; apply Z.leb_le; unfold RustInt.i64_min; lia).
    replace ((z <=? RustInt.i64_max)%Z) with true by (symmetry; apply Z.leb_le; unfold RustInt.i64_max; lia). reflexivity.
  - apply Z.ltb_ge in E.
    assert (Hm : (0 <= z <= i64_max)%Z) by lia.
    pose proof (parse_show_i64 z Hm) as Hp.
    assert (Hn : Z.to_N z < 10 ^ 20).
    { unfold i64_max in Hm. apply N2Z.inj_lt. rewrite Z2N.id by lia. change (Z.of_N (10 ^ 20)) with (10 ^ 20)%Z. lia. }
    destruct (show_read _ Hn) as (A & _ & C).
    unfold run_i64, run, ast_of. rewrite (tokens_digits_i64 _ _ C A Hp). reflexivity.
Qed.

(** the one excluded value: its text is rejected, in agreement with the property's "(except i64::MIN)" *)
Lemma i64_min_text_rejected (L : libm) (p : Z) : run_i64 L (display_i64 (- i64_min_mag)) p = Err.
Proof. vm_compute. reflexivity. Qed.

(** ** eval_number: an Integer result printed by Display reads back as the same Integer (not a Float) *)
Lemma conv_num_digits ds z : forallb is_digit ds = true -> parse_i64 ds = Some z -> conv_num (LNum ds false) = Some (Int z).
Proof. intros Hd Hp. unfold conv_num. rewrite (digits_no_point ds Hd), Hp. reflexivity. Qed.

Lemma tokens_digits_num ds z :
  ds <> [] -> forallb is_digit ds = true -> parse_i64 ds = Some z ->
  tokens_of lt_number conv_num ds = Some [TNum (Int z)].
Proof.
  intros Hne Hd Hp. unfold tokens_of, tokenize_all. rewrite (strip_digits ds Hd).
  destruct ds as [|c cs]; [congruence|]. cbn [length].
  apply tokenize_digit_run; [reflexivity|exact Hd|exact (conv_num_digits _ _ Hd Hp)].
Qed.

Lemma tokens_minus_digits_num ds z :
  ds <> [] -> forallb is_digit ds = true -> parse_i64 ds = Some z ->
  tokens_of lt_number conv_num (45 :: ds) = Some [TK KSubtract; TNum (Int z)].
Proof.
  intros Hne Hd Hp. unfold tokens_of, tokenize_all.
  change (strip (45 :: ds)) with (45 :: strip ds). rewrite (strip_digits ds Hd).
  destruct ds as [|c cs]; [congruence|].
  change (length (45 :: c :: cs)) with (S (S (length cs))).
  change (tokenize lt_number conv_num (S (S (length cs))) (45 :: c :: cs))
    with (match tokenize lt_number conv_num (S (length cs)) (c :: cs) with
          | Some ts => Some (TK KSubtract :: ts) | None => None end).
  rewrite (tokenize_digit_run lt_number conv_num eq_refl (length cs) c cs (Int z) Hd (conv_num_digits _ _ Hd Hp)). reflexivity.
Qed.

Theorem number_display_roundtrip (L : libm) (p : number) (z : Z) :
  (- i64_max <= z <= i64_max)%Z -> run_num L (display_i64 z) p = Ok (Int z).
Proof.
  intros Hz. unfold display_i64. destruct (z <? 0)%Z eqn:E.
  - apply Z.ltb_lt in E.
    assert (Hm : (0 <= - z <= i64_max)%Z) by lia.
    pose proof (parse_show_i64 (- z) Hm) as Hp.
    assert (Hn : Z.to_N (- z) < 10 ^ 20).
    { unfold i64_max in Hm. apply N2Z.inj_lt. rewrite Z2N.id by lia. change (Z.of_N (10 ^ 20)) with (10 ^ 20)%Z. lia. }
    destruct (show_read _ Hn) as (A & _ & C).
    unfold run_num, run, ast_of. rewrite (tokens_minus_digits_num _ _ C A Hp).
    change (parse pt_number p [TK KSubtract; TNum (Int (- z)%Z)]) with (Ok (NUn UNegative (NNum (Int (- z)%Z)))).
    cbn [bind]. change (eval_num L (NUn UNegative (NNum (Int (- z)%Z))))
      with (match checked_sub 0 (- z) with Some r => Ok (Int r) | None => Ok (Flt (F64.fneg (F64.f64_of_Z (- z)))) end).
    unfold checked_sub, fit, in_i64. replace (0 - - z)%Z with z by lia.
    unfold i64_max in Hz.
    replace ((RustInt.i64_min <=? z)%Z) with true by (symmetry; apply Z.leb_le; unfold RustInt.i64_min; lia).
    replace ((z <=? RustInt.i64_max)%Z) with true by (symmetry; apply Z.leb_le; unfold RustInt.i64_max; lia). reflexivity.
  - apply Z.ltb_ge in E.
    assert (Hm : (0 <= z <= i64_max)%Z) by lia.
    pose proof (parse_show_i64 z Hm) as Hp.
    assert (Hn : Z.to_N z < 10 ^ 20).
    { unfold i64_max in Hm. apply N2Z.inj_lt. rewrite Z2N.id by lia. change (Z.of_N (10 ^ 20)) with (10 ^ 20)%Z. lia. }
    destruct (show_read _ Hn) as (A & _ & C).
    unfold run_num, run, ast_of. rewrite (tokens_digits_num _ _ C A Hp). reflexivity.
Qed.
