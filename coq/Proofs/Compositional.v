(** Each evaluator model is compositional: the result at a node depends only on the results of its children. *)
From Coq Require Import List ZArith Bool.
From SC Require Import Base.Res Base.F64 Base.Oracle Base.Num Base.Dec Lang.Syntax Eval.Common
  Eval.EvalI64 Eval.EvalF64 Eval.EvalNum Eval.EvalCpx Eval.EvalDec Proofs.NoPanic Proofs.Subst.
Import ListNotations.

Fixpoint sequence {A} (rs : list (res A)) : res (list A) :=
  match rs with
  | [] => Ok []
  | r :: rs' => let* v := r in let* vs := sequence rs' in Ok (v :: vs)
  end.

Lemma go_args_sequence {V R} (ev : node V -> res R) args : go_args ev args = sequence (map ev args).
Proof. induction args as [|x xs IH]; simpl; [reflexivity|]. now rewrite IH. Qed.

Definition comp_i64 (L : libm) : compositional (eval_i64 L).
Proof.
  refine {| c_un := un_i64 L; c_bin := bin_i64 L; c_agg := fun g rs => let* vs := sequence rs in agg_i64 g vs |}; try reflexivity.
  intros g args. rewrite <- go_args_sequence. reflexivity.
Defined.
Definition comp_f64 (L : libm) : compositional (eval_f64 L).
Proof.
  refine {| c_un := un_f64 L; c_bin := bin_f64 L; c_agg := fun g rs => let* vs := sequence rs in agg_f64 L g vs |}; try reflexivity.
  intros g args. rewrite <- go_args_sequence. reflexivity.
Defined.
Definition comp_num (L : libm) : compositional (eval_num L).
Proof.
  refine {| c_un := un_num L; c_bin := bin_num L; c_agg := fun g rs => let* vs := sequence rs in agg_num g vs |}; try reflexivity.
  intros g args. rewrite <- go_args_sequence. reflexivity.
Defined.
Definition comp_dec (D : declib) : compositional (eval_dec D).
Proof.
  refine {| c_un := un_dec D; c_bin := bin_dec D; c_agg := fun g rs => let* vs := sequence rs in agg_dec D g vs |}; try reflexivity.
  intros g args. rewrite <- go_args_sequence. reflexivity.
Defined.
Definition comp_cpx (C : cpxlib) : compositional (eval_cpx C).
Proof.
  refine {| c_un := un_cpx C; c_bin := bin_cpx C; c_agg := fun _ _ => Err |}; reflexivity.
Defined.
