(** Aggregates of eval_f64 / eval_number: the median does not depend on the order of the arguments
    (the sort key of [f64::total_cmp] is injective, so the insertion sort is a function of the multiset). *)
From Coq Require Import List ZArith Bool Lia Permutation.
From Flocq Require Import IEEE754.Binary IEEE754.Bits IEEE754.BinarySingleNaN.
From SC Require Import Base.Res Base.F64 Base.Num Base.Oracle Lang.Syntax Eval.Common Eval.EvalF64 Proofs.AggFacts.
Import ListNotations.
Local Open Scope Z_scope.

Lemma f64_of_bits_of_f64 x : f64_of_bits (bits_of_f64 x) = x.
Proof.
  unfold f64_of_bits, bits_of_f64, b64_of_bits, bits_of_b64.
  rewrite binary_float_of_bits_of_binary_float. apply B2BSN_BSN2B.
Qed.

Lemma bits_of_f64_inj x y : bits_of_f64 x = bits_of_f64 y -> x = y.
Proof. intros H. rewrite <- (f64_of_bits_of_f64 x), <- (f64_of_bits_of_f64 y). now rewrite H. Qed.

Lemma bits_of_f64_range x : 0 <= bits_of_f64 x < 2 ^ 64.
Proof. unfold bits_of_f64, bits_of_b64. apply (bits_of_binary_float_range 52 11); reflexivity. Qed.

Lemma total_key_inj x y : total_key x = total_key y -> x = y.
Proof.
  unfold total_key. intros H. apply bits_of_f64_inj.
  pose proof (bits_of_f64_range x) as Hx. pose proof (bits_of_f64_range y) as Hy.
  destruct (bits_of_f64 x <? 2 ^ 63) eqn:Ex; destruct (bits_of_f64 y <? 2 ^ 63) eqn:Ey;
    try apply Z.ltb_lt in Ex; try apply Z.ltb_ge in Ex; try apply Z.ltb_lt in Ey; try apply Z.ltb_ge in Ey; lia.
Qed.

Lemma existsb_perm {A} (p : A -> bool) l l' : Permutation l l' -> existsb p l = existsb p l'.
Proof.
  induction 1; simpl; auto.
  - now rewrite IHPermutation.
  - destruct (p x), (p y); reflexivity.
  - congruence.
Qed.

Section F64Agg.
  Variable L : libm.

  Theorem agg_f64_med_perm vs vs' : Permutation vs vs' -> agg_f64 L AMed vs = agg_f64 L AMed vs'.
  Proof.
    intros P. unfold agg_f64.
    rewrite (existsb_perm fis_nan _ _ P), (Permutation_length P).
    unfold sortF. now rewrite (isort_perm total_key total_key_inj _ _ P).
  Qed.

  (** the mean is the left-to-right IEEE sum divided by the count: definitional, stated for the record *)
  Theorem agg_f64_avg_def vs : agg_f64 L AAvg vs = Ok (fdiv (fold_left fadd vs fzero) (f64_of_Z (Z.of_nat (length vs)))).
  Proof. reflexivity. Qed.

  (** an odd-length list without NaN: the median is an element of the list, with as many keys below as above *)
  Theorem agg_f64_med_odd vs r : existsb fis_nan vs = false -> Nat.even (length vs) = false ->
    agg_f64 L AMed vs = Ok r -> In r vs.
  Proof.
    intros Hn He. unfold agg_f64. rewrite Hn, He. unfold index.
    destruct (nth_error (sortF vs) (Nat.div2 (length vs))) eqn:E; [|discriminate].
    intros H; inversion H; subst. apply nth_error_In in E.
    unfold sortF in E. clear -E. revert r E. induction vs as [|x l IH]; simpl; intros r E; [contradiction|].
    assert (Hin : forall l0 y, In y (insert total_key x l0) -> y = x \/ In y l0).
    { induction l0 as [|z l0 IH0]; simpl; intros y Hy.
      - destruct Hy as [->|[]]; auto.
      - destruct (total_key x <=? total_key z); simpl in Hy.
        + destruct Hy as [->|Hy]; auto.
        + destruct Hy as [->|Hy]; auto. destruct (IH0 _ Hy); auto. }
    destruct (Hin _ _ E) as [->|H']; auto.
  Qed.
End F64Agg.
