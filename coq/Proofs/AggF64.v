(** Aggregates of eval_f64 / eval_number: the median does not depend on the order of the arguments
    (the sort key of [f64::total_cmp] is injective, so the insertion sort is a function of the multiset). *)
From Coq Require Import List ZArith Bool Lia Permutation.
From Flocq Require Import IEEE754.Binary IEEE754.Bits IEEE754.BinarySingleNaN.
From SC Require Import Base.Res Base.F64 Base.Num Base.Oracle Lang.Syntax Eval.Common Eval.EvalF64 Proofs.AggFacts.
Import ListNotations.
Local Open Scope Z_scope.

Lemma f64_of_bits_of_f64 x : f64_of_bits (bits_of_f64 x) = x.
Proof.
  unfold f64_of_bits, bits_of_f64, b64_of_bits, bits_of_b64.
  rewrite binary_float_of_bits_of_binary_float. apply B2BSN_BSN2B.
Qed.

Lemma bits_of_f64_inj x y : bits_of_f64 x = bits_of_f64 y -> x = y.
Proof. intros H. rewrite <- (f64_of_bits_of_f64 x), <- (f64_of_bits_of_f64 y). now rewrite H. Qed.

Lemma bits_of_f64_range x : 0 <= bits_of_f64 x < 2 ^ 64.
Proof. unfold bits_of_f64, bits_of_b64. apply (bits_of_binary_float_range 52 11); reflexivity. Qed.

Lemma total_key_inj x y : total_key x = total_key y -> x = y.
Proof.
  unfold total_key. intros H. apply bits_of_f64_inj.
  pose proof (bits_of_f64_range x) as Hx. pose proof (bits_of_f64_range y) as Hy.
  destruct (bits_of_f64 x <? 2 ^ 63) eqn:Ex; destruct (bits_of_f64 y <? 2 ^ 63) eqn:Ey;
    try apply Z.ltb_lt in Ex; try apply Z.ltb_ge in Ex; try apply Z.ltb_lt in Ey; try apply Z.ltb_ge in Ey; lia.
Qed.

Lemma existsb_perm {A} (p : A -> bool) l l' : Permutation l l' -> existsb p l = existsb p l'.
Proof.
  induction 1; simpl; auto.
  - now rewrite IHPermutation.
  - destruct (p x), (p y); reflexivity.
  - congruence.
Qed.

Section F64Agg.
  Variable L : libm.

  Theorem agg_f64_med_perm vs vs' : Permutation vs vs' -> agg_f64 L AMed vs = agg_f64 L AMed vs'.
  Proof.
    intros P. unfold agg_f64.
    rewrite (existsb_perm fis_nan _ _ P), (Permutation_length P).
    unfold sortF. now rewrite (isort_perm total_key total_key_inj _ _ P).
  Qed.

  (** the mean is the left-to-right IEEE sum divided by the count: definitional, stated for the record *)
  Theorem agg_f64_avg_def vs : agg_f64 L AAvg vs = Ok (fdiv (fold_left fadd vs fzero) (f64_of_Z (Z.of_nat (length vs)))).
  Proof. reflexivity. Qed.

  (** an odd-length list without NaN: the median is an element of the list, with as many keys below as above *)
  Theorem agg_f64_med_odd vs r : existsb fis_nan vs = false -> Nat.even (length vs) = false ->
    agg_f64 L AMed vs = Ok r -> In r vs.
  Proof.
    intros Hn He. unfold agg_f64. rewrite Hn, He. unfold index.
    destruct (nth_error (sortF vs) (Nat.div2 (length vs))) eqn:E; [|discriminate].
    intros H; inversion H; subst. apply nth_error_In in E.
    unfold sortF in E. clear -E. revert r E. induction vs as [|x l IH]; simpl; intros r E; [contradiction|].
    assert (Hin : forall l0 y, In y (insert total_key x l0) -> y = x \/ In y l0).
    { induction l0 as [|z l0 IH0]; simpl; intros y Hy.
      - destruct Hy as [->|[]]; auto.
      - destruct (total_key x <=? total_key z); simpl in Hy.
        + destruct Hy as [->|Hy]; auto.
        + destruct Hy as [->|Hy]; auto. destruct (IH0 _ Hy); auto. }
    destruct (Hin _ _ E) as [->|H']; auto.
  Qed.
End F64Agg.

(** ** the sorted vector of [med] is sorted numerically *)
From Coq Require Import Sorting.Sorted.
From SC Require Import Proofs.KeyOrder.

Section SortKey.
  Context {A : Type}.
  Variable key : A -> Z.
  Definition kle (a b : A) : Prop := key a <= key b.

  Lemma insert_perm_k x l : Permutation (x :: l) (insert key x l).
  Proof.
    induction l as [|y l IH]; simpl; [apply Permutation_refl|].
    destruct (key x <=? key y); [apply Permutation_refl|].
    eapply Permutation_trans; [apply perm_swap|]. now apply perm_skip.
  Qed.
  Lemma isort_perm_k l : Permutation l (isort key l).
  Proof.
    induction l as [|x l IH]; simpl; [constructor|].
    eapply Permutation_trans; [apply perm_skip; exact IH|apply insert_perm_k].
  Qed.
  Lemma insert_sorted_k x l : StronglySorted kle l -> StronglySorted kle (insert key x l).
  Proof.
    induction 1 as [|y l HS IH Hy]; simpl; [constructor; constructor|].
    destruct (key x <=? key y) eqn:E.
    - apply Z.leb_le in E. constructor; [constructor; assumption|]. constructor; [exact E|].
      rewrite Forall_forall in *. intros z Hz. specialize (Hy z Hz). unfold kle in *. lia.
    - apply Z.leb_gt in E. constructor; [exact IH|].
      rewrite Forall_forall in *. intros z Hz.
      apply (Permutation_in _ (Permutation_sym (insert_perm_k x l))) in Hz.
      destruct Hz as [<-|Hz]; [unfold kle; lia|now apply Hy].
  Qed.
  Lemma isort_sorted_k l : StronglySorted kle (isort key l).
  Proof. induction l as [|x l IH]; simpl; [constructor|now apply insert_sorted_k]. Qed.
End SortKey.

Lemma no_nan_forall vs : existsb fis_nan vs = false -> Forall (fun v => v <> B754_nan) vs.
Proof.
  induction vs as [|v vs IH]; simpl; intros H; constructor.
  - intros ->. discriminate H.
  - apply IH. apply orb_false_iff in H. now destruct H.
Qed.

Lemma key_sorted_num l : Forall (fun v => v <> B754_nan) l -> StronglySorted (kle total_key) l -> StronglySorted num_le l.
Proof.
  intros NN S. induction S as [|a l S IH Ha]; constructor.
  - apply IH. now inversion NN.
  - inversion NN as [|? ? Na Nl]; subst. rewrite Forall_forall in *. intros b Hb.
    apply key_le_num; auto. now apply Ha.
Qed.

(** without NaN: the vector [med] indexes is a permutation of the arguments sorted by numeric value (-0.0 before +0.0) *)
Theorem sortF_spec vs : existsb fis_nan vs = false ->
  Permutation vs (sortF vs) /\ StronglySorted num_le (sortF vs).
Proof.
  intros Hn. split; [apply isort_perm_k|].
  apply key_sorted_num; [|apply isort_sorted_k].
  pose proof (no_nan_forall vs Hn) as F. rewrite Forall_forall in *. intros v Hv. apply F.
  eapply Permutation_in; [apply Permutation_sym; apply (isort_perm_k total_key vs)|exact Hv].
Qed.
