(** C15: eval_number and eval_f64 agree exactly on the arithmetic fragment (+ - * / % unary minus over literals and
    the placeholder) whenever every intermediate value of the f64 evaluation is finite, below 2^53 in magnitude
    and not a negative zero. *)
From Coq Require Import ZArith Reals Lia Lra Bool List Floats.SpecFloat.
From Flocq Require Import Core.Core IEEE754.BinarySingleNaN.
From SC Require Import Base.Res Base.F64 Base.RustInt Base.Num Base.Oracle Lang.Syntax Eval.Common Eval.EvalF64 Eval.EvalNum
  Proofs.NumberFrom Proofs.FmodFacts Proofs.Agree.
Import ListNotations.
Local Open Scope R_scope.

Notation rnd := (round radix2 fexp64 (round_mode mode_NE)).
Definition p53 : R := bpow radix2 53.

Definition Fine (v : f64) : Prop := is_finite v = true /\ Rabs (B2R64 v) < p53 /\ v <> fnzero.

Lemma fexp64_FLT : fexp64 = FLT_exp (3 - 1024 - 53) 53.
Proof. reflexivity. Qed.

Lemma valid64 : Valid_exp fexp64.
Proof. apply (fexp_correct 53 1024 Hprec). Qed.
#[local] Existing Instance valid64.

Lemma small_format z : (Z.abs z < 2 ^ 53)%Z -> generic_format radix2 fexp64 (IZR z).
Proof.
  intros H. rewrite fexp64_FLT. apply generic_format_FLT.
  apply FLT_spec with (Float radix2 z 0); [unfold F2R; simpl; ring|simpl; exact H|simpl; lia].
Qed.

Lemma bpow_format k : (-1074 <= k)%Z -> generic_format radix2 fexp64 (bpow radix2 k).
Proof. intros H. apply generic_format_bpow. unfold fexp64, fexp, emin. lia. Qed.

Lemma of_Z_correct z : Rabs (IZR z) <= bpow radix2 63 ->
  B2R64 (f64_of_Z z) = rnd (IZR z) /\ is_finite (f64_of_Z z) = true /\ Bsign (f64_of_Z z) = (z <? 0)%Z.
Proof.
  intros Hz. unfold f64_of_Z.
  pose proof (binary_normalize_correct 53 1024 Hprec Hemax mode_NE z 0 false) as H. cbv zeta in H.
  replace (F2R (Float radix2 z 0)) with (IZR z) in H by (unfold F2R; simpl; ring).
  rewrite Rlt_bool_true in H.
  - destruct H as [H1 [H2 H3]]. repeat split; auto. unfold F64.prec, F64.emax in *. rewrite H3.
    change 0 with (IZR 0). rewrite Rcompare_IZR. unfold Z.ltb. destruct (z ?= 0)%Z; reflexivity.
  - apply Rle_lt_trans with (bpow radix2 63); [|apply bpow_lt; lia].
    apply abs_round_le_generic; auto with typeclass_instances. apply bpow_format; lia.
Qed.

Lemma abs_small z : (Z.abs z < 2 ^ 53)%Z -> Rabs (IZR z) < p53.
Proof. intros H. rewrite <- abs_IZR. unfold p53. rewrite <- (IZR_Zpower radix2 53) by lia. apply IZR_lt. exact H. Qed.

Lemma of_Z_small z : (Z.abs z < 2 ^ 53)%Z ->
  B2R64 (f64_of_Z z) = IZR z /\ is_finite (f64_of_Z z) = true /\ Bsign (f64_of_Z z) = (z <? 0)%Z.
Proof.
  intros H. destruct (of_Z_correct z) as [H1 H2].
  - apply Rlt_le. apply Rlt_trans with p53; [now apply abs_small|]. apply bpow_lt. lia.
  - split; [|exact H2]. rewrite H1. apply round_generic; auto with typeclass_instances. now apply small_format.
Qed.

(** a Fine double that is the image of an integer is the image of a small integer *)
Lemma fine_of_Z z : Fine (f64_of_Z z) -> (Z.abs z < 2 ^ 53)%Z.
Proof.
  intros [Ff [Hs _]]. unfold f64_of_Z in *.
  pose proof (binary_normalize_correct 53 1024 Hprec Hemax mode_NE z 0 false) as H. cbv zeta in H.
  replace (F2R (Float radix2 z 0)) with (IZR z) in H by (unfold F2R; simpl; ring).
  destruct (Rlt_bool _ _) eqn:E in H.
  - destruct H as [H1 _]. unfold F64.prec, F64.emax in *. rewrite H1 in Hs.
    destruct (Z_lt_le_dec (Z.abs z) (2 ^ 53)) as [Hlt|Hge]; [exact Hlt|exfalso].
    assert (p53 <= Rabs (rnd (IZR z))).
    { apply abs_round_ge_generic; auto with typeclass_instances. apply bpow_format; lia.
      rewrite <- abs_IZR. unfold p53. rewrite <- (IZR_Zpower radix2 53) by lia. apply IZR_le. exact Hge. }
    lra.
  - exfalso. unfold F64.prec, F64.emax in *. rewrite <- is_finite_SF_B2SF, H in Ff. discriminate.
Qed.

Lemma zero_sign (v : f64) : Fine v -> B2R64 v = 0 -> Bsign v = false.
Proof.
  intros [Ff [_ Hn]] H0. destruct v as [s|s| |s m e B]; try discriminate.
  - destruct s; [exfalso; apply Hn; reflexivity|reflexivity].
  - exfalso. simpl in H0. unfold F2R in H0. simpl in H0.
    apply Rmult_integral in H0. destruct H0 as [H0|H0].
    + destruct s; simpl in H0; [apply (eq_IZR _ 0) in H0|apply (eq_IZR _ 0) in H0]; discriminate.
    + pose proof (bpow_gt_0 radix2 e). lra.
Qed.

(** the key step: a finite double with the real value and the sign of a small integer IS its image *)
Lemma is_of_Z (f : f64) z : (Z.abs z <= 2 ^ 63)%Z ->
  is_finite f = true -> B2R64 f = rnd (IZR z) -> Bsign f = (z <? 0)%Z -> f = f64_of_Z z.
Proof.
  intros Hz Ff HR HS. destruct (of_Z_correct z) as [H1 [H2 H3]].
  - rewrite <- abs_IZR. rewrite <- (IZR_Zpower radix2 63) by lia. apply IZR_le. exact Hz.
  - apply B2R_Bsign_inj; auto; unfold F64.prec, F64.emax in *; congruence.
Qed.

Lemma finite_not_nan (f : f64) : is_finite f = true -> is_nan f = false.
Proof. destruct f; simpl; congruence. Qed.

Lemma small_sum_bound x y : (Z.abs x < 2 ^ 53)%Z -> (Z.abs y < 2 ^ 53)%Z -> (Z.abs (x + y) <= 2 ^ 63)%Z /\ (Z.abs (x - y) <= 2 ^ 63)%Z.
Proof. lia. Qed.

Lemma rnd_bound z : (Z.abs z <= 2 ^ 63)%Z -> Rabs (rnd (IZR z)) < bpow radix2 1024.
Proof.
  intros H. apply Rle_lt_trans with (bpow radix2 63); [|apply bpow_lt; lia].
  apply abs_round_le_generic; auto with typeclass_instances. apply bpow_format; lia.
  rewrite <- abs_IZR. rewrite <- (IZR_Zpower radix2 63) by lia. apply IZR_le. exact H.
Qed.

Lemma add_agree x y : (Z.abs x < 2 ^ 53)%Z -> (Z.abs y < 2 ^ 53)%Z ->
  fadd (f64_of_Z x) (f64_of_Z y) = f64_of_Z (x + y).
Proof.
  intros Hx Hy. destruct (of_Z_small x Hx) as [Rx [Fx Sx]]. destruct (of_Z_small y Hy) as [Ry [Fy Sy]].
  destruct (small_sum_bound x y Hx Hy) as [Hb _].
  pose proof (Bplus_correct 53 1024 Hprec Hemax mode_NE (f64_of_Z x) (f64_of_Z y) Fx Fy) as H.
  unfold F64.prec, F64.emax in *. rewrite Rx, Ry, <- plus_IZR in H.
  rewrite Rlt_bool_true in H by (now apply rnd_bound).
  destruct H as [H1 [H2 H3]]. apply is_of_Z; auto.
  unfold fadd, F64.prec, F64.emax. rewrite H3, Sx, Sy. change 0 with (IZR 0). rewrite Rcompare_IZR.
  destruct (Z.compare_spec (x + y) 0), (Z.ltb_spec x 0), (Z.ltb_spec y 0), (Z.ltb_spec (x + y) 0); simpl; try reflexivity; lia.
Qed.

Lemma sub_agree x y : (Z.abs x < 2 ^ 53)%Z -> (Z.abs y < 2 ^ 53)%Z ->
  fsub (f64_of_Z x) (f64_of_Z y) = f64_of_Z (x - y).
Proof.
  intros Hx Hy. destruct (of_Z_small x Hx) as [Rx [Fx Sx]]. destruct (of_Z_small y Hy) as [Ry [Fy Sy]].
  destruct (small_sum_bound x y Hx Hy) as [_ Hb].
  pose proof (Bminus_correct 53 1024 Hprec Hemax mode_NE (f64_of_Z x) (f64_of_Z y) Fx Fy) as H.
  unfold F64.prec, F64.emax in *. rewrite Rx, Ry, <- minus_IZR in H.
  rewrite Rlt_bool_true in H by (now apply rnd_bound).
  destruct H as [H1 [H2 H3]]. apply is_of_Z; auto.
  unfold fsub, F64.prec, F64.emax. rewrite H3, Sx, Sy. change 0 with (IZR 0). rewrite Rcompare_IZR.
  destruct (Z.compare_spec (x - y) 0), (Z.ltb_spec x 0), (Z.ltb_spec y 0), (Z.ltb_spec (x - y) 0); simpl; try reflexivity; lia.
Qed.

Lemma mul_agree x y : (Z.abs x < 2 ^ 53)%Z -> (Z.abs y < 2 ^ 53)%Z -> (Z.abs (x * y) <= 2 ^ 63)%Z ->
  Fine (fmul (f64_of_Z x) (f64_of_Z y)) ->
  fmul (f64_of_Z x) (f64_of_Z y) = f64_of_Z (x * y).
Proof.
  intros Hx Hy Hb HF. destruct (of_Z_small x Hx) as [Rx [Fx Sx]]. destruct (of_Z_small y Hy) as [Ry [Fy Sy]].
  pose proof (Bmult_correct 53 1024 Hprec Hemax mode_NE (f64_of_Z x) (f64_of_Z y)) as H.
  unfold F64.prec, F64.emax in *. rewrite Rx, Ry, <- mult_IZR in H.
  rewrite Rlt_bool_true in H by (now apply rnd_bound).
  destruct H as [H1 [H2 H3]]. rewrite Fx, Fy in H2. simpl in H2.
  apply is_of_Z; auto.
  destruct (Z.eq_dec (x * y) 0) as [E0|N0].
  - rewrite E0. apply zero_sign; [exact HF|]. unfold fmul. unfold F64.prec, F64.emax in *. rewrite H1, E0. apply round_0; auto with typeclass_instances.
  - unfold fmul, F64.prec, F64.emax. rewrite H3, Sx, Sy.
    + destruct (Z.ltb_spec x 0), (Z.ltb_spec y 0), (Z.ltb_spec (x * y) 0); simpl; try reflexivity; nia.
    + apply finite_not_nan. exact H2.
Qed.

Lemma neg_agree z : (Z.abs z < 2 ^ 53)%Z -> Fine (fneg (f64_of_Z z)) -> fneg (f64_of_Z z) = f64_of_Z (- z).
Proof.
  intros Hz HF. destruct (of_Z_small z Hz) as [Rz [Fz Sz]].
  assert (Hz' : (Z.abs (- z) < 2 ^ 53)%Z) by lia. destruct (of_Z_small (- z) Hz') as [Rn [Fn Sn]].
  unfold fneg in *. unfold F64.prec, F64.emax in *.
  apply B2R_Bsign_inj.
  - rewrite is_finite_Bopp. exact Fz.
  - exact Fn.
  - rewrite B2R_Bopp. unfold F64.prec, F64.emax in *. rewrite Rz, Rn, opp_IZR. reflexivity.
  - destruct (Z.eq_dec z 0) as [->|Nz].
    + exfalso. destruct HF as [_ [_ HF]]. apply HF. reflexivity.
    + rewrite Bsign_Bopp by (apply finite_not_nan; exact Fz).
      unfold F64.prec, F64.emax in *. rewrite Sz, Sn. destruct (Z.ltb_spec z 0), (Z.ltb_spec (- z) 0); simpl; try reflexivity; lia.
Qed.


Lemma of_Z_nonzero z : (Z.abs z < 2 ^ 53)%Z -> z <> 0%Z -> forall s, f64_of_Z z <> B754_zero s.
Proof.
  intros Hz Nz s E. destruct (of_Z_small z Hz) as [Rz _]. rewrite E in Rz. simpl in Rz.
  apply Nz. apply eq_IZR. symmetry. exact Rz.
Qed.

Lemma div_agree x y : (Z.abs x < 2 ^ 53)%Z -> (Z.abs y < 2 ^ 53)%Z -> y <> 0%Z -> Z.rem x y = 0%Z ->
  Fine (fdiv (f64_of_Z x) (f64_of_Z y)) -> fdiv (f64_of_Z x) (f64_of_Z y) = f64_of_Z (Z.quot x y).
Proof.
  intros Hx Hy Ny Hr HF. destruct (of_Z_small x Hx) as [Rx [Fx Sx]]. destruct (of_Z_small y Hy) as [Ry [Fy Sy]].
  set (q := Z.quot x y). assert (Eq : x = (y * q)%Z) by (unfold q; pose proof (Z.quot_rem' x y); lia).
  assert (Hq : (Z.abs q <= 2 ^ 63)%Z).
  { assert (Z.abs x = Z.abs y * Z.abs q)%Z by (rewrite <- Z.abs_mul; congruence). nia. }
  assert (Qv : IZR x / IZR y = IZR q).
  { rewrite Eq, mult_IZR. field. apply not_0_IZR. exact Ny. }
  pose proof (Bdiv_correct 53 1024 Hprec Hemax mode_NE (f64_of_Z x) (f64_of_Z y)) as H.
  unfold F64.prec, F64.emax in *. rewrite Rx, Ry, Qv in H.
  specialize (H (not_0_IZR _ Ny)).
  rewrite Rlt_bool_true in H by (now apply rnd_bound).
  destruct H as [H1 [H2 H3]]. rewrite Fx in H2.
  apply is_of_Z; auto.
  destruct (Z.eq_dec q 0) as [E0|N0].
  - rewrite E0. apply zero_sign; [exact HF|]. unfold fdiv, F64.prec, F64.emax in *. rewrite H1, E0. apply round_0; auto with typeclass_instances.
  - unfold fdiv, F64.prec, F64.emax. rewrite H3, Sx, Sy by (apply finite_not_nan; exact H2).
    destruct (Z.ltb_spec x 0), (Z.ltb_spec y 0), (Z.ltb_spec q 0); simpl; try reflexivity; nia.
Qed.

Lemma mod_agree x y : (Z.abs x < 2 ^ 53)%Z -> (Z.abs y < 2 ^ 53)%Z -> y <> 0%Z ->
  Fine (fmod (f64_of_Z x) (f64_of_Z y)) -> fmod (f64_of_Z x) (f64_of_Z y) = f64_of_Z (Z.rem x y).
Proof.
  intros Hx Hy Ny HF. destruct (of_Z_small x Hx) as [Rx [Fx Sx]]. destruct (of_Z_small y Hy) as [Ry [Fy Sy]].
  destruct (fmod_spec (f64_of_Z x) (f64_of_Z y) Fx Fy (of_Z_nonzero y Hy Ny)) as [H1 [H2 H3]].
  set (r := Z.rem x y). assert (Er : x = (y * Z.quot x y + r)%Z) by (unfold r; apply Z.quot_rem'; exact Ny).
  assert (Hr : (Z.abs r < Z.abs y)%Z) by (unfold r; apply Z.rem_bound_abs; exact Ny).
  assert (Hr53 : (Z.abs r < 2 ^ 53)%Z) by lia.
  unfold F64.prec, F64.emax in *. rewrite Rx, Ry, Ztrunc_div in H1 by exact Ny.
  assert (Hv : B2R64 (fmod (f64_of_Z x) (f64_of_Z y)) = IZR r).
  { rewrite H1. rewrite Er at 1. rewrite plus_IZR, mult_IZR. ring. }
  apply is_of_Z; auto; try lia.
  - rewrite Hv. symmetry. apply round_generic; auto with typeclass_instances. now apply small_format.
  - destruct (Z.eq_dec r 0) as [E0|N0].
    + rewrite E0. apply zero_sign; [exact HF|]. rewrite Hv, E0. reflexivity.
    + transitivity (Bsign (f64_of_Z x)); [exact H3|]. transitivity (x <? 0)%Z; [exact Sx|].
      assert (Sg : (0 <= x -> 0 <= r)%Z /\ (x <= 0 -> r <= 0)%Z) by (unfold r; split; [apply Z.rem_nonneg|apply Z.rem_nonpos]; exact Ny).
      destruct (Z.ltb_spec x 0), (Z.ltb_spec r 0); try reflexivity; lia.
Qed.

(** ** Trees *)
Fixpoint fl (a : node number) : node f64 :=
  match a with
  | NNum n => NNum (num_f64 n)
  | NUn u x => NUn u (fl x)
  | NBin b x y => NBin b (fl x) (fl y)
  | NAgg g l => NAgg g (map fl l)
  end.

(** the arithmetic fragment: literals / placeholder, unary minus, + - * / % *)
Fixpoint ring_lang (a : node number) : bool :=
  match a with
  | NNum _ => true
  | NUn UNegative x => ring_lang x
  | NBin b x y => match b with BAdd | BSubtract | BMultiply | BDivide | BModulo => ring_lang x && ring_lang y | _ => false end
  | _ => false
  end.

Section Trees.
  Variable L : libm.

  (** every sub-expression of the f64 evaluation is finite, below 2^53 in magnitude and not -0 *)
  Fixpoint AllFine (a : node f64) : Prop :=
    (exists v, eval_f64 L a = Ok v /\ Fine v) /\
    match a with
    | NNum _ => True
    | NUn _ x => AllFine x
    | NBin _ x y => AllFine x /\ AllFine y
    | NAgg _ _ => True
    end.

  Lemma AllFine_head a : AllFine a -> exists v, eval_f64 L a = Ok v /\ Fine v.
  Proof. destruct a; intros [H _]; exact H. Qed.

  Lemma in_i64_abs r : in_i64 r = true -> (Z.abs r <= 2 ^ 63)%Z.
  Proof. unfold in_i64, i64_min, i64_max. intros H. apply andb_prop in H as [H1 H2]. apply Z.leb_le in H1, H2. lia. Qed.

  Lemma arith_agree (ci : Z -> Z -> option Z) (zf : Z -> Z -> Z) (cf : f64 -> f64 -> f64) a b :
    (forall x y, ci x y = fit (zf x y)) ->
    (forall x y, (Z.abs x < 2 ^ 53)%Z -> (Z.abs y < 2 ^ 53)%Z -> (Z.abs (zf x y) <= 2 ^ 63)%Z ->
                 Fine (cf (f64_of_Z x) (f64_of_Z y)) -> cf (f64_of_Z x) (f64_of_Z y) = f64_of_Z (zf x y)) ->
    Fine (num_f64 a) -> Fine (num_f64 b) -> Fine (cf (num_f64 a) (num_f64 b)) ->
    num_f64 (arith ci cf a b) = cf (num_f64 a) (num_f64 b).
  Proof.
    intros Hci Hcf Fa Fb Fr. destruct a as [x|x], b as [y|y]; try reflexivity.
    simpl in *. rewrite Hci. unfold fit. destruct (in_i64 (zf x y)) eqn:E; [|reflexivity]. simpl.
    symmetry. apply Hcf; auto using fine_of_Z, in_i64_abs.
  Qed.

  Theorem ring_agree (a : node number) :
    ring_lang a = true -> AllFine (fl a) ->
    exists n v, eval_num L a = Ok n /\ eval_f64 L (fl a) = Ok v /\ num_f64 n = v.
  Proof.
    induction a as [n|u x IH|b x y IHx IHy|g args _] using node_ind2; simpl; intros HL HF.
    - exists n, (num_f64 n). repeat split.
    - destruct u; try discriminate. destruct HF as [[v [Ev Fv]] HFx].
      destruct (IH HL HFx) as [nx [vx [En [Ef Hx]]]].
      simpl in Ev. rewrite Ef in Ev. simpl in Ev. inversion Ev; subst v. clear Ev.
      assert (Fx : Fine vx) by (destruct (AllFine_head _ HFx) as [v' [E' F']]; rewrite Ef in E'; inversion E'; subst; exact F').
      rewrite En, Ef. simpl.
      destruct nx as [z|f]; simpl in *.
      + subst vx. pose proof (fine_of_Z z Fx) as Hz.
        unfold checked_sub. change (0 - z)%Z with (- z)%Z. unfold fit.
        destruct (in_i64 (- z)) eqn:E; eexists; eexists; (split; [reflexivity|split; [reflexivity|]]); simpl.
        * symmetry. now apply neg_agree.
        * reflexivity.
      + subst vx. eexists; eexists; (split; [reflexivity|split; [reflexivity|reflexivity]]).
    - assert (Hb : (b = BAdd \/ b = BSubtract \/ b = BMultiply \/ b = BDivide \/ b = BModulo) /\ ring_lang x = true /\ ring_lang y = true).
      { destruct b; try discriminate; apply andb_prop in HL as [H1 H2]; repeat split; auto 6. }
      destruct Hb as [Hb [Lx Ly]]. destruct HF as [[v [Ev Fv]] [HFx HFy]].
      destruct (IHx Lx HFx) as [nx [vx [Enx [Efx Hx]]]]. destruct (IHy Ly HFy) as [ny [vy [Eny [Efy Hy]]]].
      assert (Fx : Fine vx) by (destruct (AllFine_head _ HFx) as [v' [E' F']]; rewrite Efx in E'; inversion E'; subst; exact F').
      assert (Fy : Fine vy) by (destruct (AllFine_head _ HFy) as [v' [E' F']]; rewrite Efy in E'; inversion E'; subst; exact F').
      simpl in Ev. rewrite Efx, Efy in Ev. simpl in Ev. rewrite Enx, Eny, Efx, Efy. simpl. subst vx vy.
      destruct Hb as [->|[->|[->|[->| ->]]]]; simpl in *; inversion Ev; subst v; clear Ev.
      + eexists; eexists; (split; [reflexivity|split; [reflexivity|]]).
        apply (arith_agree checked_add Z.add fadd); auto. intros; now apply add_agree.
      + eexists; eexists; (split; [reflexivity|split; [reflexivity|]]).
        apply (arith_agree checked_sub Z.sub fsub); auto. intros; now apply sub_agree.
      + eexists; eexists; (split; [reflexivity|split; [reflexivity|]]).
        apply (arith_agree checked_mul Z.mul fmul); auto. intros; now apply mul_agree.
      + (* division *)
        destruct nx as [a|fa], ny as [c|fc]; simpl in *;
          try (eexists; eexists; (split; [reflexivity|split; [reflexivity|reflexivity]])).
        pose proof (fine_of_Z a Fx) as Ha. pose proof (fine_of_Z c Fy) as Hc.
        unfold checked_rem_euclid. destruct (c =? 0)%Z eqn:Ec; [eexists; eexists; (split; [reflexivity|split; [reflexivity|reflexivity]])|].
        apply Z.eqb_neq in Ec.
        destruct ((a =? i64_min) && (c =? -1))%Z; [eexists; eexists; (split; [reflexivity|split; [reflexivity|reflexivity]])|].
        destruct (a mod Z.abs c =? 0)%Z eqn:Er; eexists; eexists; (split; [reflexivity|split; [reflexivity|]]); [|reflexivity].
        simpl. symmetry. apply div_agree; auto. apply Z.eqb_eq in Er. now apply rem_euclid_zero.
      + (* remainder *)
        destruct nx as [a|fa], ny as [c|fc]; simpl in *;
          try (eexists; eexists; (split; [reflexivity|split; [reflexivity|reflexivity]])).
        pose proof (fine_of_Z a Fx) as Ha. pose proof (fine_of_Z c Fy) as Hc.
        destruct (c =? 0)%Z eqn:Ec; eexists; eexists; (split; [reflexivity|split; [reflexivity|]]); [reflexivity|].
        apply Z.eqb_neq in Ec. simpl. unfold wrapping_rem. symmetry. now apply mod_agree.
    - discriminate.
  Qed.
End Trees.

(** non-vacuity: images of small integers are Fine, and a concrete tree satisfies the hypothesis *)
Lemma fine_small z : (Z.abs z < 2 ^ 53)%Z -> Fine (f64_of_Z z).
Proof.
  intros Hz. destruct (of_Z_small z Hz) as [Rz [Fz Sz]]. split; [exact Fz|]. split.
  - unfold F64.prec, F64.emax in *. rewrite Rz. now apply abs_small.
  - intros E. rewrite E in Sz. simpl in Sz. rewrite E in Rz. simpl in Rz.
    assert (z = 0)%Z by (apply eq_IZR; symmetry; exact Rz). subst z. discriminate.
Qed.

Example ring_example (L : libm) :
  let t := NBin BSubtract (NBin BMultiply (NNum (Int 3)) (NNum (Int 4))) (NUn UNegative (NNum (Int 5))) in
  ring_lang t = true /\ AllFine L (fl t) /\ eval_num L t = Ok (Int 17).
Proof.
  assert (E1 : fmul (f64_of_Z 3) (f64_of_Z 4) = f64_of_Z 12) by (apply B2SF_inj; vm_compute; reflexivity).
  assert (E2 : fneg (f64_of_Z 5) = f64_of_Z (-5)) by (apply B2SF_inj; vm_compute; reflexivity).
  assert (E3 : fsub (f64_of_Z 12) (f64_of_Z (-5)) = f64_of_Z 17) by (apply B2SF_inj; vm_compute; reflexivity).
  split; [reflexivity|]. split; [|reflexivity].
  cbn [fl AllFine eval_f64 num_f64 bind bin_f64 un_f64]. rewrite E1, E2, E3.
  repeat split; try (eexists; split; [reflexivity|apply fine_small; simpl; lia]).
Qed.
