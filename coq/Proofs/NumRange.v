(** eval_number never fabricates an Integer outside the i64 range: every Integer it returns (or passes on) lies in
    [-2^63, 2^63 - 1], for every tree whose Integer leaves do (C09: "never a wrapped integer"). *)
From Coq Require Import List ZArith Lia Bool.
From Flocq Require Import IEEE754.BinarySingleNaN.
From SC Require Import Base.Res Base.F64 Base.RustInt Base.Oracle Base.Num Lang.Syntax Eval.Common Eval.EvalF64 Eval.EvalNum
  Proofs.I64Facts Proofs.I64Range.
Import ListNotations.
Local Open Scope Z_scope.

Definition nok (n : number) : bool := match n with Int z => in_i64 z | Flt _ => true end.

Lemma cast_range f : in_i64 (f64_to_i64 f) = true.
Proof.
  apply in_i64_iff. unfold f64_to_i64, sat_cast, F64.i64_min, F64.i64_max.
  destruct f as [s|s| |s m e B]; try destruct s; lia.
Qed.

Lemma of_f64_ok v : nok (number_of_f64 v) = true.
Proof.
  unfold number_of_f64. destruct (feq _ _); [|reflexivity]. destruct (_ && _); [|reflexivity]. simpl. apply cast_range.
Qed.

Lemma quot_range a c : in_i64 a = true -> in_i64 c = true -> c <> 0 -> ~ (a = i64_min /\ c = -1) -> in_i64 (Z.quot a c) = true.
Proof.
  rewrite !in_i64_iff. unfold i64_min. intros Ha Hc Nc Nm.
  pose proof (Z.quot_rem' a c) as E. pose proof (Z.rem_bound_abs a c Nc) as B.
  assert (S1 : 0 <= a -> 0 <= Z.rem a c) by (intros; apply Z.rem_nonneg; lia).
  assert (S2 : a <= 0 -> Z.rem a c <= 0) by (intros; apply Z.rem_nonpos; lia).
  set (q := Z.quot a c) in *. set (r := Z.rem a c) in *.
  destruct (Z.eq_dec c 1) as [->|N1]; [lia|]. destruct (Z.eq_dec c (-1)) as [->|N2]; [lia|].
  assert (2 <= Z.abs c) by lia. nia.
Qed.

Section NumRange.
  Variable L : libm.

  Lemma fit_ok z r : fit z = Some r -> in_i64 r = true.
  Proof. apply fit_range. Qed.

  Lemma ilog_ok fuel : forall n b x, 0 <= x <= 64 -> nok (ilog_num L fuel n b x) = true.
  Proof.
    induction fuel as [|f IH]; intros n b x Hx; simpl; [reflexivity|].
    destruct (fgt n fone); [|simpl; apply in_i64_iff; unfold i64_min, i64_max; lia].
    destruct (64 <=? x) eqn:E; [reflexivity|]. apply Z.leb_gt in E. apply IH. lia.
  Qed.

  Lemma un_ok u v r : nok v = true -> un_num L u v = Ok r -> nok r = true.
  Proof.
    intros Hv. destruct u; simpl; destruct v as [z|x]; simpl in *;
      try (destruct (lambert_w L _); simpl);
      repeat match goal with
             | |- context [match ?o with Some _ => _ | None => _ end] => destruct o eqn:?
             | |- context [if ?c then _ else _] => destruct c eqn:?
             end;
      intros H; try discriminate; try (inversion H; subst; clear H); simpl;
      try reflexivity; try assumption; try apply cast_range; try apply of_f64_ok;
      try (eapply fit_ok; eassumption).
    - (* factorial *) apply andb_prop in Heqb as [A B]. apply Z.leb_le in A, B. apply in_i64_iff. unfold i64_min, i64_max.
      pose proof (fact_nat_pos (Z.to_nat z)). pose proof (fact_nat_mono (Z.to_nat z) 20 ltac:(lia)). pose proof fact_20_small. unfold fact. lia.
    - apply in_i64_iff. unfold signum, i64_min, i64_max. destruct z; simpl; lia.
  Qed.

  Lemma arith_ok ci cf a b : (forall x y r, ci x y = Some r -> in_i64 r = true) -> nok (arith ci cf a b) = true.
  Proof.
    intros H. destruct a as [x|x], b as [y|y]; simpl; try reflexivity.
    destruct (ci x y) eqn:E; [simpl; eapply H; eauto|reflexivity].
  Qed.

  Lemma bin_ok o a b r : nok a = true -> nok b = true -> bin_num L o a b = Ok r -> nok r = true.
  Proof.
    intros Ha Hb. destruct o; cbn [bin_num]; try discriminate.
    - intros H; inversion H; subst. apply arith_ok. unfold checked_add. intros; eapply fit_ok; eauto.
    - intros H; inversion H; subst. apply arith_ok. unfold checked_sub. intros; eapply fit_ok; eauto.
    - intros H; inversion H; subst. apply arith_ok. unfold checked_mul. intros; eapply fit_ok; eauto.
    - (* divide *)
      destruct a as [x|x], b as [y|y]; simpl in *; try (intros H; inversion H; reflexivity).
      unfold checked_rem_euclid. destruct (y =? 0) eqn:E0; [intros H; inversion H; reflexivity|].
      destruct ((x =? i64_min) && (y =? -1)) eqn:Em; [intros H; inversion H; reflexivity|].
      destruct (x mod Z.abs y =? 0); intros H; inversion H; subst; [|reflexivity]. simpl.
      apply Z.eqb_neq in E0. apply quot_range; auto.
      intros [-> ->]. rewrite !Z.eqb_refl in Em. discriminate.
    - (* modulo *)
      destruct a as [x|x], b as [y|y]; simpl in *; try (intros H; inversion H; reflexivity).
      destruct (y =? 0) eqn:E0; intros H; inversion H; subst; [reflexivity|]. simpl.
      apply Z.eqb_neq in E0. unfold wrapping_rem. now apply rem_range.
    - (* atan2 *) intros H; inversion H; subst. apply of_f64_ok.
    - (* root *) intros H; inversion H; subst. apply of_f64_ok.
    - (* pow *)
      destruct a as [x|x], b as [y|y]; simpl in *;
        repeat match goal with
               | |- context [match ?o with Some _ => _ | None => _ end] => destruct o eqn:?
               | |- context [if ?c then _ else _] => destruct c eqn:?
               end; intros H; inversion H; subst; try apply of_f64_ok.
      all: simpl; unfold checked_pow in *;
        repeat match goal with
               | H : (if ?c then _ else _) = Some _ |- _ => destruct c eqn:?
               | H : Some _ = Some _ |- _ => inversion H; subst; clear H
               end; try reflexivity; try (eapply fit_ok; eassumption); try (destruct (Z.even y); reflexivity).
      all: try assumption; try (eapply fit_ok; eassumption).
      all: try discriminate.
    - (* log *) intros H; inversion H; subst. apply of_f64_ok.
    - (* ilog *) intros H. assert (E : r = ilog_num L 66 (nf a) (nf b) 0) by congruence. rewrite E. apply ilog_ok. lia.
  Qed.

  Lemma pick_ok want : forall vs acc r, forallb nok vs = true -> (forall a, acc = Some a -> nok a = true) ->
    pick want acc vs = Some r -> nok r = true.
  Proof.
    induction vs as [|v vs IH]; intros acc r Hv Ha; simpl.
    - intros ->. now apply Ha.
    - simpl in Hv. apply andb_prop in Hv as [Hv Hvs]. destruct acc as [l|].
      + apply IH; [exact Hvs|]. intros a E. inversion E; subst.
        destruct (ncmp l v) as [c|]; [|exact Hv]. destruct c, want; simpl; auto.
      + apply IH; [exact Hvs|]. intros a E. inversion E; subst. exact Hv.
  Qed.

  Lemma ninsert_ok x l : nok x = true -> forallb nok l = true -> forallb nok (ninsert x l) = true.
  Proof.
    intros Hx. induction l as [|y l IH]; simpl; intros Hl; [now rewrite Hx|].
    apply andb_prop in Hl as [Hy Hl]. destruct (nle x y); simpl; [now rewrite Hx, Hy, Hl|now rewrite Hy, IH].
  Qed.
  Lemma sortN_ok l : forallb nok l = true -> forallb nok (sortN l) = true.
  Proof. induction l as [|x l IH]; simpl; intros H; [reflexivity|]. apply andb_prop in H as [Hx Hl]. apply ninsert_ok; auto. Qed.
  Lemma index_ok (l : list number) i r : forallb nok l = true -> index l i = Ok r -> nok r = true.
  Proof.
    unfold index. intros Hl. destruct (nth_error l i) as [x|] eqn:E; [|discriminate]. intros H; inversion H; subst.
    rewrite forallb_forall in Hl. apply Hl. eapply nth_error_In; eauto.
  Qed.

  Lemma agg_ok g vs r : forallb nok vs = true -> agg_num g vs = Ok r -> nok r = true.
  Proof.
    intros Hv. destruct g; simpl; try discriminate.
    - destruct (1 <? length vs)%nat.
      + destruct (pick Lt None vs) as [p|] eqn:E; [|discriminate]. intros H; inversion H; subst.
        eapply pick_ok; eauto. intros a Ea; discriminate.
      + destruct vs as [|v vs']; intros H; inversion H; subst; [reflexivity|]. simpl in Hv. now apply andb_prop in Hv as [Hv _].
    - destruct (1 <? length vs)%nat.
      + destruct (pick Gt None vs) as [p|] eqn:E; [|discriminate]. intros H; inversion H; subst.
        eapply pick_ok; eauto. intros a Ea; discriminate.
      + destruct vs as [|v vs']; intros H; inversion H; subst; [reflexivity|]. simpl in Hv. now apply andb_prop in Hv as [Hv _].
    - intros H; inversion H; subst. apply of_f64_ok.
    - destruct (existsb _ vs); [intros H; inversion H; reflexivity|].
      pose proof (sortN_ok vs Hv) as Hs.
      destruct (Nat.even (length vs)).
      + destruct (index (sortN vs) (Nat.div2 (length vs))); simpl; try discriminate.
        destruct (index (sortN vs) (Nat.div2 (length vs) - 1)); simpl; try discriminate.
        intros H; inversion H; subst. apply of_f64_ok.
      + intros H. eapply index_ok; eauto.
  Qed.

  Fixpoint leaves_ok (a : node number) : bool :=
    match a with
    | NNum v => nok v
    | NUn _ x => leaves_ok x
    | NBin _ x y => leaves_ok x && leaves_ok y
    | NAgg _ args => forallb leaves_ok args
    end.

  Theorem eval_num_in_range a r : leaves_ok a = true -> eval_num L a = Ok r -> nok r = true.
  Proof.
    revert r. induction a as [v|u x IH|o x y IHx IHy|g args IH] using node_ind2; intros r Hl; simpl.
    - intros H; inversion H; subst. exact Hl.
    - destruct (eval_num L x) as [v| | |] eqn:E; simpl; try discriminate. intros H. eapply un_ok; [|exact H]. now apply IH.
    - simpl in Hl. apply andb_prop in Hl as [Hx Hy].
      destruct (eval_num L x) as [v| | |] eqn:Ex; simpl; try discriminate.
      destruct (eval_num L y) as [w| | |] eqn:Ey; simpl; try discriminate.
      intros H. eapply bin_ok; [| |exact H]; [now apply IHx|now apply IHy].
    - simpl in Hl.
      set (go := fix go (l : list (node number)) : res (list number) :=
                   match l with
                   | [] => Ok []
                   | x :: xs => let* v := eval_num L x in let* vs := go xs in Ok (v :: vs)
                   end).
      assert (G : forall vs, go args = Ok vs -> forallb nok vs = true).
      { clear r. revert Hl. induction IH as [|x xs Hx Hxs IHl]; intros Hl vs; simpl.
        - intros H; inversion H; reflexivity.
        - simpl in Hl. apply andb_prop in Hl as [Hlx Hlxs].
          destruct (eval_num L x) as [v| | |] eqn:Ex; simpl; try discriminate.
          destruct (go xs) as [ws| | |] eqn:Eg; simpl; try discriminate.
          intros H; inversion H; subst. simpl. rewrite (Hx v Hlx eq_refl). now apply IHl. }
      destruct (go args) as [vs| | |] eqn:Eg; simpl; try discriminate.
      intros H. eapply agg_ok; [|exact H]. now apply G.
  Qed.
End NumRange.
