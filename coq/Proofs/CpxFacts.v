(** eval_complex on real operands (C08, C15): for + - * the real part is exactly eval_f64's result and the
    imaginary part is a zero. *)
From Coq Require Import List ZArith Bool.
From Flocq Require Import IEEE754.BinarySingleNaN.
From SC Require Import Base.Res Base.F64 Base.Oracle Lang.Syntax Eval.EvalCpx Eval.EvalF64.
Import ListNotations.

Definition is_zero (x : f64) : bool := match x with B754_zero _ => true | _ => false end.
Definition re_of (x : f64) : cpx := (x, fzero).

Lemma sub_pzero (x : f64) : fsub x fzero = x.
Proof. destruct x as [s|s| |s m e B]; try reflexivity. destruct s; reflexivity. Qed.

Lemma mul_zero_r (x : f64) s : is_finite x = true -> is_zero (fmul x (B754_zero s)) = true.
Proof. destruct x as [sx|sx| |sx m e B]; try discriminate; reflexivity. Qed.
Lemma mul_zero_l (x : f64) s : is_finite x = true -> is_zero (fmul (B754_zero s) x) = true.
Proof. destruct x as [sx|sx| |sx m e B]; try discriminate; reflexivity. Qed.
Lemma add_zeros (x y : f64) : is_zero x = true -> is_zero y = true -> is_zero (fadd x y) = true.
Proof. destruct x as [sx| | |]; try discriminate. destruct y as [sy| | |]; try discriminate. destruct sx, sy; reflexivity. Qed.

Theorem real_operands (a b : f64) :
  cadd (re_of a) (re_of b) = (fadd a b, fzero) /\
  csub (re_of a) (re_of b) = (fsub a b, fzero) /\
  fst (cmul (re_of a) (re_of b)) = fmul a b /\
  (is_finite a = true -> is_finite b = true -> is_zero (snd (cmul (re_of a) (re_of b))) = true) /\
  cneg (re_of a) = (fneg a, fnzero).
Proof.
  unfold cadd, csub, cmul, cneg, re_of; cbn [fst snd]. repeat split.
  - replace (fmul fzero fzero) with fzero by reflexivity. apply sub_pzero.
  - intros Fa Fb. apply add_zeros; [now apply mul_zero_r|now apply mul_zero_l].
Qed.

(** through the evaluators: one operator applied directly to two real operands *)
Theorem real_binop (C : cpxlib) (L : libm) (o : binop) (a b : f64) :
  o = BAdd \/ o = BSubtract \/ o = BMultiply ->
  exists re im, bin_cpx C o (re_of a) (re_of b) = Ok (re, im) /\ bin_f64 L o a b = Ok re /\
                (is_finite a = true -> is_finite b = true -> is_zero im = true).
Proof.
  destruct (real_operands a b) as (A & S & M1 & M2 & _).
  intros [->|[->| ->]]; simpl.
  - rewrite A. exists (fadd a b), fzero. repeat split.
  - rewrite S. exists (fsub a b), fzero. repeat split.
  - exists (fst (cmul (re_of a) (re_of b))), (snd (cmul (re_of a) (re_of b))).
    split; [now rewrite <- surjective_pairing|]. split; [now rewrite M1|exact M2].
Qed.
