(** eval_i64 against exact integer arithmetic (unbounded Z). *)
From Coq Require Import List ZArith Bool Lia.
From SC Require Import Base.Res Base.F64 Base.RustInt Base.Oracle Lang.Syntax Eval.Common Eval.EvalI64.
Import ListNotations.
Local Open Scope Z_scope.

Lemma fit_some z : in_i64 z = true -> fit z = Some z.
Proof. unfold fit. now intros ->. Qed.
Lemma fit_none z : in_i64 z = false -> fit z = None.
Proof. unfold fit. now intros ->. Qed.
Lemma in_i64_iff z : in_i64 z = true <-> - 2 ^ 63 <= z <= 2 ^ 63 - 1.
Proof. unfold in_i64, i64_min, i64_max. rewrite andb_true_iff, !Z.leb_le. tauto. Qed.

(** the cut-off in [checked_pow] is sound: with |a| >= 2 and e >= 64 the power leaves i64 *)
Lemma pow_big a e : 2 <= Z.abs a -> 64 <= e -> in_i64 (a ^ e) = false.
Proof.
  intros Ha He. apply not_true_iff_false. rewrite in_i64_iff. intros [H1 H2].
  assert (Hp : 2 ^ 64 <= Z.abs (a ^ e)).
  { rewrite Z.abs_pow. apply Z.le_trans with (2 ^ e).
    - apply Z.pow_le_mono_r; lia.
    - apply Z.pow_le_mono_l. lia. }
  assert (2 ^ 64 = 2 * 2 ^ 63) by reflexivity. lia.
Qed.

Theorem checked_pow_spec a e : 0 <= e -> checked_pow a e = fit (a ^ e).
Proof.
  intros He. unfold checked_pow.
  destruct (e =? 0) eqn:E0; [apply Z.eqb_eq in E0; subst; reflexivity|]. apply Z.eqb_neq in E0.
  destruct (a =? 0) eqn:A0; [apply Z.eqb_eq in A0; subst; rewrite Z.pow_0_l by lia; reflexivity|].
  destruct (a =? 1) eqn:A1; [apply Z.eqb_eq in A1; subst; rewrite Z.pow_1_l by lia; reflexivity|].
  destruct (a =? -1) eqn:Am.
  - apply Z.eqb_eq in Am; subst. destruct (Z.even e) eqn:Ev.
    + apply Z.even_spec in Ev. destruct Ev as [k ->]. rewrite Z.pow_mul_r by lia. change ((-1) ^ 2) with 1.
      rewrite Z.pow_1_l by lia. reflexivity.
    + rewrite <- Z.negb_odd in Ev. apply negb_false_iff in Ev. apply Z.odd_spec in Ev. destruct Ev as [k ->].
      rewrite Z.pow_add_r by lia. rewrite Z.pow_mul_r by lia. change ((-1) ^ 2) with 1.
      rewrite Z.pow_1_l by lia. reflexivity.
  - apply Z.eqb_neq in A0, A1, Am. destruct (64 <=? e) eqn:E64; [|reflexivity].
    apply Z.leb_le in E64. symmetry. apply fit_none. apply pow_big; lia.
Qed.

(** factorial *)
Lemma fact_nat_pos n : 0 < fact_nat n.
Proof. induction n; [reflexivity|]. change (fact_nat (S n)) with (Z.of_nat (S n) * fact_nat n). apply Z.mul_pos_pos; lia. Qed.
Lemma fact_nat_mono n m : (n <= m)%nat -> fact_nat n <= fact_nat m.
Proof.
  induction 1; [lia|]. change (fact_nat (S m)) with (Z.of_nat (S m) * fact_nat m). pose proof (fact_nat_pos m).
  apply Z.le_trans with (fact_nat m); [assumption|]. nia.
Qed.
Lemma fact_21_big : 2 ^ 63 <= fact_nat 21.
Proof. vm_compute. discriminate. Qed.
Lemma fact_20_small : fact_nat 20 <= 2 ^ 63 - 1.
Proof. vm_compute. discriminate. Qed.

Theorem factorial_spec n : 0 <= n ->
  (if 20 <? n then None else Some (fact n)) = fit (fact n).
Proof.
  intros Hn. unfold fact. destruct (20 <? n) eqn:E.
  - apply Z.ltb_lt in E. symmetry. apply fit_none. apply not_true_iff_false. rewrite in_i64_iff.
    pose proof (fact_nat_mono 21 (Z.to_nat n) ltac:(lia)). pose proof fact_21_big. lia.
  - apply Z.ltb_ge in E. symmetry. apply fit_some. apply in_i64_iff.
    pose proof (fact_nat_mono (Z.to_nat n) 20 ltac:(lia)). pose proof fact_20_small.
    pose proof (fact_nat_pos (Z.to_nat n)). lia.
Qed.

Lemma fact_nat_spec n : fact_nat (S n) = Z.of_nat (S n) * fact_nat n /\ fact_nat 0 = 1.
Proof. split; reflexivity. Qed.

(** shifts *)
Lemma shr_spec a c : 0 <= c -> shr a c = a / 2 ^ c.
Proof. intros. unfold shr. now apply Z.shiftr_div_pow2. Qed.

(** * the exact reference: every step in unbounded Z, range-checked *)
Definition scope_un (u : unop) : bool :=
  match u with UNegative | UFactorial | UAbs | USign => true | _ => false end.
Definition scope_bin (b : binop) : bool :=
  match b with
  | BAdd | BSubtract | BMultiply | BDivide | BModulo | BPow | BAnd | BOr | BLeftShift | BRightShift => true
  | _ => false
  end.
Fixpoint scope (a : node Z) : bool :=
  match a with
  | NNum v => in_i64 v
  | NUn u x => scope_un u && scope x
  | NBin b x y => scope_bin b && scope x && scope y
  | NAgg _ _ => false
  end.

Definition ref_un (u : unop) (x : Z) : option Z :=
  match u with
  | UNegative => fit (- x)
  | UAbs => fit (Z.abs x)
  | USign => Some (Z.sgn x)
  | UFactorial => if x <? 0 then Some 0 (* outside the property: n >= 0 *) else fit (fact x)
  | _ => None
  end.
Definition ref_bin (b : binop) (x y : Z) : option Z :=
  match b with
  | BAdd => fit (x + y)
  | BSubtract => fit (x - y)
  | BMultiply => fit (x * y)
  | BDivide => if y =? 0 then None else fit (Z.quot x y)          (* truncating *)
  | BModulo => if y =? 0 then None else Some (Z.rem x y)          (* sign of the dividend *)
  | BPow => if (0 <=? y) && (y <=? 4294967295) then fit (x ^ y) else None
  | BAnd => Some (Z.land x y)
  | BOr => Some (Z.lor x y)
  | BLeftShift => if (0 <=? y) && (y <=? 63) then fit (x * 2 ^ y) else None
  | BRightShift => if (0 <=? y) && (y <=? 63) then Some (x / 2 ^ y) else None   (* floor *)
  | _ => None
  end.
Fixpoint denoteZ (a : node Z) : option Z :=
  match a with
  | NNum v => Some v
  | NUn u x => match denoteZ x with Some v => ref_un u v | None => None end
  | NBin b x y => match denoteZ x with
                  | Some v => match denoteZ y with Some w => ref_bin b v w | None => None end
                  | None => None
                  end
  | NAgg _ _ => None
  end.

Section Exact.
  Variable L : libm.

  Lemma un_exact u v : scope_un u = true -> un_i64 L u v = of_option (ref_un u v).
  Proof.
    destruct u; try discriminate; intros _; simpl; try reflexivity.
    destruct (v <? 0) eqn:E; [reflexivity|]. apply Z.ltb_ge in E.
    rewrite <- (factorial_spec v E). destruct (20 <? v); reflexivity.
  Qed.

  Lemma bin_exact b x y : scope_bin b = true -> bin_i64 L b x y = of_option (ref_bin b x y).
  Proof.
    destruct b; try discriminate; intros _; simpl; unfold checked_div, shift_ok, u32_max;
      change (2 ^ 32 - 1) with 4294967295;
      try (destruct (y =? 0); reflexivity); try reflexivity.
    - destruct ((0 <=? y) && (y <=? 4294967295)) eqn:E; [|reflexivity].
      apply andb_prop in E. destruct E as [E _]. apply Z.leb_le in E. now rewrite checked_pow_spec.
    - destruct ((0 <=? y) && (y <=? 63)); reflexivity.
    - destruct ((0 <=? y) && (y <=? 63)) eqn:E; [|reflexivity].
      apply andb_prop in E. destruct E as [E _]. apply Z.leb_le in E. now rewrite shr_spec.
  Qed.

  (** eval_i64 returns the exact integer when every intermediate fits, Err otherwise *)
  Theorem eval_i64_exact a : scope a = true -> eval_i64 L a = of_option (denoteZ a).
  Proof.
    induction a as [v|u a IH|b a1 a2 IH1 IH2|g args IH] using node_ind2; simpl; intros S.
    - reflexivity.
    - apply andb_prop in S. destruct S as [Su Sa]. rewrite (IH Sa).
      destruct (denoteZ a); simpl; [now apply un_exact|reflexivity].
    - apply andb_prop in S. destruct S as [S S2]. apply andb_prop in S. destruct S as [Sb S1].
      rewrite (IH1 S1), (IH2 S2).
      destruct (denoteZ a1); simpl; [|reflexivity]. destruct (denoteZ a2); simpl; [now apply bin_exact|reflexivity].
    - discriminate.
  Qed.
End Exact.
