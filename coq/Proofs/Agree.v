(** C15: eval_number agrees with eval_i64 on the integer sub-language. *)
From Coq Require Import List ZArith Bool Lia.
From SC Require Import Base.Res Base.F64 Base.RustInt Base.Oracle Base.Num Lang.Syntax Eval.Common
  Eval.EvalI64 Eval.EvalNum Proofs.NoPanic Proofs.I64Facts.
Import ListNotations.
Local Open Scope Z_scope.

Fixpoint embed (a : node Z) : node number :=
  match a with
  | NNum z => NNum (Int z)
  | NUn u x => NUn u (embed x)
  | NBin b x y => NBin b (embed x) (embed y)
  | NAgg g l => NAgg g (map embed l)
  end.

Section Agree.
  Variable L : libm.

  Definition val (a : node Z) : Z := match eval_i64 L a with Ok v => v | _ => 0 end.

  (** the integer sub-language of the property: + - * % ^ unary minus, abs, sgn, n! (n >= 0), exact / *)
  Fixpoint int_lang (a : node Z) : bool :=
    match a with
    | NNum z => in_i64 z
    | NUn u x => int_lang x &&
                 match u with
                 | UNegative | UAbs | USign => true
                 | UFactorial => 0 <=? val x
                 | _ => false
                 end
    | NBin b x y => int_lang x && int_lang y &&
                    match b with
                    | BAdd | BSubtract | BMultiply | BModulo | BPow => true
                    | BDivide => Z.rem (val x) (val y) =? 0          (* exact division only *)
                    | _ => false
                    end
    | NAgg _ _ => false
    end.

  Lemma rem_euclid_zero x y : y <> 0 -> (x mod Z.abs y = 0 <-> Z.rem x y = 0).
  Proof.
    intros Hy. rewrite Z.rem_divide by assumption. rewrite Z.mod_divide by lia.
    split; intros [k Hk].
    - exists (k * Z.sgn y). rewrite Hk. rewrite <- Z.mul_assoc. f_equal. symmetry. rewrite Z.mul_comm. apply Z.sgn_abs.
    - exists (k * Z.sgn y). rewrite Hk. rewrite <- Z.mul_assoc. f_equal. rewrite Z.mul_comm. symmetry. apply Z.abs_sgn.
  Qed.

  Lemma un_agree u v r :
    match u with UNegative | UAbs | USign => True | UFactorial => 0 <= v | _ => False end ->
    un_i64 L u v = Ok r -> un_num L u (Int v) = Ok (Int r).
  Proof.
    destruct u; simpl; try tauto; intros Hs H.
    - unfold checked_neg in H. unfold checked_sub. change (0 - v) with (- v). destruct (fit (- v)); inversion H; reflexivity.
    - destruct (v <? 0) eqn:E; [apply Z.ltb_lt in E; lia|].
      destruct (20 <? v) eqn:E2; [discriminate|]. inversion H; subst.
      apply Z.ltb_ge in E2. destruct (0 <=? v) eqn:E0; [|apply Z.leb_gt in E0; lia].
      destruct (v <=? 20) eqn:E1; [reflexivity|apply Z.leb_gt in E1; lia].
    - unfold checked_abs in *. destruct (fit (Z.abs v)); inversion H; reflexivity.
    - inversion H; reflexivity.
  Qed.

  Lemma bin_agree b x y r :
    match b with
    | BAdd | BSubtract | BMultiply | BModulo | BPow => True
    | BDivide => Z.rem x y = 0
    | _ => False
    end ->
    bin_i64 L b x y = Ok r -> bin_num L b (Int x) (Int y) = Ok (Int r).
  Proof.
    destruct b; simpl; try tauto; intros Hs H.
    - unfold checked_add in *. destruct (fit (x + y)); inversion H; reflexivity.
    - unfold checked_sub in *. destruct (fit (x - y)); inversion H; reflexivity.
    - unfold checked_mul in *. destruct (fit (x * y)); inversion H; reflexivity.
    - unfold checked_div in H. destruct (y =? 0) eqn:Ey; [discriminate|]. apply Z.eqb_neq in Ey.
      unfold checked_rem_euclid. rewrite (proj2 (Z.eqb_neq y 0) Ey).
      destruct ((x =? i64_min) && (y =? -1)) eqn:Em.
      + apply andb_prop in Em. destruct Em as [E1 E2]. apply Z.eqb_eq in E1, E2. subst.
        unfold fit, in_i64, i64_min, i64_max in H. simpl in H. discriminate.
      + assert (Hz : x mod Z.abs y = 0) by (now apply rem_euclid_zero).
        rewrite Hz. simpl. unfold fit in H. destruct (in_i64 (Z.quot x y)); inversion H; reflexivity.
    - destruct (y =? 0); [discriminate|]. inversion H; reflexivity.
    - unfold u32_max in *. destruct ((0 <=? y) && (y <=? 2 ^ 32 - 1)) eqn:E; [|discriminate].
      apply andb_prop in E. destruct E as [E0 E1]. rewrite E0, E1.
      destruct (checked_pow x y); inversion H; reflexivity.
  Qed.

  Theorem embed_i64_number a v :
    int_lang a = true -> eval_i64 L a = Ok v -> eval_num L (embed a) = Ok (Int v).
  Proof.
    revert v. induction a as [z|u a IH|b a1 a2 IH1 IH2|g args IH] using node_ind2; intros v S H; simpl in *.
    - inversion H; reflexivity.
    - apply andb_prop in S. destruct S as [Sa Su].
      destruct (eval_i64 L a) as [va| | |] eqn:Ea; simpl in H; try discriminate.
      rewrite (IH va Sa eq_refl). simpl. apply un_agree; [|exact H].
      unfold val in Su. rewrite Ea in Su. destruct u; try discriminate; auto. now apply Z.leb_le.
    - apply andb_prop in S. destruct S as [S Sb]. apply andb_prop in S. destruct S as [S1 S2].
      destruct (eval_i64 L a1) as [v1| | |] eqn:E1; simpl in H; try discriminate.
      destruct (eval_i64 L a2) as [v2| | |] eqn:E2; simpl in H; try discriminate.
      rewrite (IH1 v1 S1 eq_refl), (IH2 v2 S2 eq_refl). simpl. apply bin_agree; [|exact H].
      unfold val in Sb. rewrite E1, E2 in Sb. destruct b; try discriminate; auto. now apply Z.eqb_eq.
    - discriminate.
  Qed.
End Agree.
