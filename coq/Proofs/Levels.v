(** The fixed precedence order of property C04 and decidable checks of a table against it. *)
From Coq Require Import List Bool Arith.
From SC Require Import Base.Res Lang.Syntax Lang.Parser.
Import ListNotations.

(** loosest to tightest:  | ; & ; << >> ; + - ; * / % ° rad ; ^ superscript ; (prefix sign = 7) ; ! function *)
Definition spec_prec (k : kind) : nat :=
  match k with
  | KBar => 1 | KAmpersand => 2 | KLeftShift | KRightShift => 3
  | KAdd | KSubtract => 4
  | KMultiply | KDivide | KModulo | KDegToRad | KRadToDeg => 5
  | KCaret | KSuperscript => 6
  | KExclamationMark | KFunc _ => 8
  | _ => 0
  end.
Definition spec_prefix_level : nat := 7.
Definition spec_juxt_level : nat := 5.

Section Check.
  Context {V : Type}.
  Variable T : ptab V.
  Definition levels_ok (vocab : list kind) : bool :=
    forallb (fun k => pt_prec T k =? spec_prec k) vocab &&
    (pt_neg_level T =? spec_prefix_level) && (pt_impl_level T =? spec_juxt_level) &&
    (* every binary operator parses its right operand at its own level: left associative *)
    forallb (fun k => match pt_infix T k with Some (_, l) => l =? pt_prec T k | None => true end) all_kinds.

  Definition infix_kinds : list kind :=
    filter (fun k => match pt_infix T k with Some _ => true | None => false end) all_kinds.

  Definition expected (k1 k2 : kind) (a b c : V) : node V :=
    match pt_infix T k1, pt_infix T k2 with
    | Some (b1, _), Some (b2, _) =>
        if pt_prec T k2 <=? pt_prec T k1 then NBin b2 (NBin b1 (NNum a) (NNum b)) (NNum c)
        else NBin b1 (NNum a) (NBin b2 (NNum b) (NNum c))
    | _, _ => NNum (pt_zero T)
    end.
End Check.
