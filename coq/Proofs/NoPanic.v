(** No evaluator model panics on a well-formed tree (and the parser only returns well-formed
    trees): the only panic sites left in the repaired ast.rs files are the indexing of the sorted
    median vector, the i128 division by the argument count in avg, and unwrap() of the gcd/lcm/
    min/max folds -- all guarded by "the argument list is not empty". *)
From Coq Require Import List Bool Arith ZArith Lia.
From SC Require Import Base.Res Base.F64 Base.RustInt Base.Oracle Base.Num Base.Dec Lang.Syntax Lang.Parser
  Eval.Common Eval.EvalI64 Eval.EvalF64 Eval.EvalNum Eval.EvalCpx Eval.EvalDec Proofs.ParserWf.
Import ListNotations.

Lemma of_option_not_panic {A} (o : option A) : of_option o <> Panic.
Proof. destruct o; discriminate. Qed.

Lemma index_ok {A} (l : list A) i : (i < length l)%nat -> exists x, index l i = Ok x.
Proof.
  intros H. unfold index. destruct (nth_error l i) eqn:E; [eauto|].
  apply nth_error_None in E. lia.
Qed.

Lemma div2_lt n : (0 < n)%nat -> (Nat.div2 n < n)%nat.
Proof. intros H. apply Nat.lt_div2. exact H. Qed.

Lemma even_pos_ge2 n : (0 < n)%nat -> Nat.even n = true -> (2 <= n)%nat.
Proof. destruct n as [|[|n]]; simpl; intros; try lia; discriminate. Qed.

Lemma div2_ge1 n : (2 <= n)%nat -> (1 <= Nat.div2 n)%nat.
Proof. destruct n as [|[|n]]; simpl; lia. Qed.

(** the median indices are in range for a non-empty vector *)
Lemma med_indices {A} (s : list A) len :
  length s = len -> (0 < len)%nat ->
  (exists x, index s (Nat.div2 len) = Ok x) /\
  (Nat.even len = true -> exists y, index s (Nat.div2 len - 1) = Ok y).
Proof.
  intros Hl Hp. split.
  - apply index_ok. rewrite Hl. now apply div2_lt.
  - intros He. apply index_ok. rewrite Hl. pose proof (div2_lt len Hp). lia.
Qed.

(** the argument loop preserves the number of arguments *)
Section Args.
  Context {V R : Type}.
  Variable ev : node V -> res R.
  Definition go_args :=
    fix go (l : list (node V)) : res (list R) :=
      match l with
      | [] => Ok []
      | x :: xs => let* v := ev x in let* vs := go xs in Ok (v :: vs)
      end.
  Lemma go_args_length l vs : go_args l = Ok vs -> length vs = length l.
  Proof.
    revert vs. induction l as [|x xs IH]; simpl; intros vs H.
    - inversion H; reflexivity.
    - destruct (ev x); simpl in H; try discriminate.
      destruct (go_args xs) eqn:E; simpl in H; try discriminate.
      inversion H; subst. simpl. f_equal. now apply IH.
  Qed.
  Lemma go_args_not_panic l :
    Forall (fun x => ev x <> Panic) l -> go_args l <> Panic.
  Proof.
    induction 1 as [|x xs Hx _ IH]; simpl; [discriminate|].
    destruct (ev x); simpl; try discriminate; try congruence.
    destruct (go_args xs); simpl; try discriminate; congruence.
  Qed.
End Args.

Lemma wf_agg_inv {V} g (args : list (node V)) :
  wf (NAgg g args) = true -> args <> [] /\ Forall (fun x => wf x = true) args.
Proof.
  rewrite wf_agg. intros H. apply andb_prop in H. destruct H as [H1 H2]. split.
  - destruct args; [discriminate|discriminate].
  - apply Forall_forall. now apply forallb_forall.
Qed.

(** * eval_i64 *)
Section I64.
  Variable L : libm.

  Lemma un_i64_np u v : un_i64 L u v <> Panic.
  Proof. destruct u; simpl; try discriminate; try apply of_option_not_panic;
         repeat match goal with |- context [if ?c then _ else _] => destruct c end; discriminate. Qed.
  Lemma bin_i64_np b x y : bin_i64 L b x y <> Panic.
  Proof. destruct b; simpl; try discriminate; try apply of_option_not_panic;
         repeat match goal with |- context [if ?c then _ else _] => destruct c end;
         try discriminate; apply of_option_not_panic. Qed.

  Lemma ugcd_np a b : ugcd a b <> Panic.
  Proof. unfold ugcd. generalize gcd_fuel. intros n. revert a b. induction n; simpl; intros; [discriminate|].
         destruct (b =? 0)%Z; [discriminate|]. apply IHn. Qed.
  Lemma ulcm_np a b : ulcm a b <> Panic.
  Proof. unfold ulcm. destruct ((a =? 0)%Z || (b =? 0)%Z); [discriminate|].
         pose proof (ugcd_np a b). destruct (ugcd a b); simpl; try discriminate; try congruence.
         destruct (_ <=? _)%Z; discriminate. Qed.
  Lemma rfold_np f acc vs : (forall a b, f a b <> Panic) -> rfold f acc vs <> Panic.
  Proof. intros Hf. revert acc. induction vs as [|v vs IH]; intros acc; simpl; [discriminate|].
         pose proof (Hf acc v). destruct (f acc v); simpl; try discriminate; try congruence; apply IH. Qed.

  Lemma agg_i64_np g vs : vs <> [] -> agg_i64 g vs <> Panic.
  Proof.
    intros Hne. assert (Hlen : (0 < length vs)%nat) by (destruct vs; [congruence|simpl; lia]).
    destruct g; simpl.
    - destruct (1 <? length vs)%nat; [discriminate|]. destruct vs; discriminate.
    - destruct (1 <? length vs)%nat; [discriminate|]. destruct vs; discriminate.
    - destruct vs; [congruence|discriminate].
    - destruct (med_indices (sortZ vs) (length vs)) as [[x Hx] Hy]; [apply isort_length|assumption|].
      destruct (Nat.even (length vs)).
      + destruct (Hy eq_refl) as [y Hy']. rewrite Hx, Hy'. simpl. destruct vs; [congruence|discriminate].
      + rewrite Hx. discriminate.
    - pose proof (rfold_np ugcd 0%Z (map Z.abs vs) ugcd_np). destruct (rfold ugcd 0%Z (map Z.abs vs)); simpl; try discriminate; try congruence.
      apply of_option_not_panic.
    - destruct (existsb (Z.eqb 0) (map Z.abs vs)); [discriminate|].
      pose proof (rfold_np ulcm 1%Z (map Z.abs vs) ulcm_np). destruct (rfold ulcm 1%Z (map Z.abs vs)); simpl; try discriminate; try congruence.
      apply of_option_not_panic.
  Qed.

  Theorem eval_i64_no_panic a : wf a = true -> eval_i64 L a <> Panic.
  Proof.
    induction a as [v|u a IH|b a1 a2 IH1 IH2|g args IH] using node_ind2; intros W.
    - discriminate.
    - simpl in *. specialize (IH W). destruct (eval_i64 L a); simpl; try discriminate; try congruence. apply un_i64_np.
    - simpl in *. apply andb_prop in W. destruct W as [W1 W2]. specialize (IH1 W1). specialize (IH2 W2).
      destruct (eval_i64 L a1); simpl; try discriminate; try congruence.
      destruct (eval_i64 L a2); simpl; try discriminate; try congruence. apply bin_i64_np.
    - destruct (wf_agg_inv _ _ W) as [Hne Hall].
      change (eval_i64 L (NAgg g args)) with (let* vs := go_args (eval_i64 L) args in agg_i64 g vs).
      assert (Hnp : go_args (eval_i64 L) args <> Panic).
      { apply go_args_not_panic. rewrite Forall_forall in *. intros x Hx. apply IH; auto. }
      destruct (go_args (eval_i64 L) args) eqn:E; simpl; try discriminate; try congruence.
      apply agg_i64_np. apply go_args_length in E. destruct a; [destruct args; simpl in E; congruence|discriminate].
  Qed.
End I64.

(** * eval_f64 *)
Section F64.
  Variable L : libm.

  Lemma un_f64_np u v : un_f64 L u v <> Panic.
  Proof. destruct u; simpl; try discriminate.
         - destruct (feq v fzero); discriminate.
         - unfold lambert_w. repeat match goal with |- context [if ?c then _ else _] => destruct c end; discriminate. Qed.
  Lemma bin_f64_np b x y : bin_f64 L b x y <> Panic.
  Proof. destruct b; simpl; discriminate. Qed.

  Lemma agg_f64_np g vs : vs <> [] -> agg_f64 L g vs <> Panic.
  Proof.
    intros Hne. assert (Hlen : (0 < length vs)%nat) by (destruct vs; [congruence|simpl; lia]).
    destruct g; simpl; try discriminate.
    - destruct (1 <? length vs)%nat; [discriminate|]. destruct vs; discriminate.
    - destruct (1 <? length vs)%nat; [discriminate|]. destruct vs; discriminate.
    - destruct (existsb fis_nan vs); [discriminate|].
      destruct (med_indices (sortF vs) (length vs)) as [[x Hx] Hy]; [apply isort_length|assumption|].
      destruct (Nat.even (length vs)).
      + destruct (Hy eq_refl) as [y Hy']. rewrite Hx, Hy'. discriminate.
      + rewrite Hx. discriminate.
  Qed.

  Theorem eval_f64_no_panic a : wf a = true -> eval_f64 L a <> Panic.
  Proof.
    induction a as [v|u a IH|b a1 a2 IH1 IH2|g args IH] using node_ind2; intros W.
    - discriminate.
    - simpl in *. specialize (IH W). destruct (eval_f64 L a); simpl; try discriminate; try congruence. apply un_f64_np.
    - simpl in *. apply andb_prop in W. destruct W as [W1 W2]. specialize (IH1 W1). specialize (IH2 W2).
      destruct (eval_f64 L a1); simpl; try discriminate; try congruence.
      destruct (eval_f64 L a2); simpl; try discriminate; try congruence. apply bin_f64_np.
    - destruct (wf_agg_inv _ _ W) as [Hne Hall].
      change (eval_f64 L (NAgg g args)) with (let* vs := go_args (eval_f64 L) args in agg_f64 L g vs).
      assert (Hnp : go_args (eval_f64 L) args <> Panic).
      { apply go_args_not_panic. rewrite Forall_forall in *. intros x Hx. apply IH; auto. }
      destruct (go_args (eval_f64 L) args) eqn:E; simpl; try discriminate; try congruence.
      apply agg_f64_np. apply go_args_length in E. destruct a; [destruct args; simpl in E; congruence|discriminate].
  Qed.
End F64.

(** * eval_number *)
Section NumS.
  Variable L : libm.

  Lemma un_num_np u v : un_num L u v <> Panic.
  Proof.
    destruct u; simpl; try discriminate;
      try (destruct v; simpl;
           repeat match goal with
                  | |- context [if ?c then _ else _] => destruct c
                  | |- context [match ?o with Some _ => _ | None => _ end] => destruct o
                  end; discriminate).
    unfold lambert_w.
    repeat match goal with |- context [if ?c then _ else _] => destruct c end; simpl; discriminate.
  Qed.
  Lemma bin_num_np b x y : bin_num L b x y <> Panic.
  Proof.
    destruct b; simpl; try discriminate;
      destruct x, y; simpl;
      repeat match goal with
             | |- context [if ?c then _ else _] => destruct c
             | |- context [match ?o with Some _ => _ | None => _ end] => destruct o
             end; discriminate.
  Qed.

  Lemma pick_some better acc vs : (acc <> None \/ vs <> []) -> pick better acc vs <> None.
  Proof.
    revert acc. induction vs as [|v vs IH]; intros acc [Ha|Hv]; simpl; try congruence.
    - destruct acc; apply IH; left; discriminate.
    - destruct acc; apply IH; left; discriminate.
  Qed.

  Lemma ninsert_length x l : length (ninsert x l) = S (length l).
  Proof. induction l; simpl; [reflexivity|]. destruct (nle x a); simpl; auto. Qed.
  Lemma sortN_length l : length (sortN l) = length l.
  Proof. induction l; simpl; [reflexivity|]. now rewrite ninsert_length, IHl. Qed.

  Lemma agg_num_np g vs : vs <> [] -> agg_num g vs <> Panic.
  Proof.
    intros Hne. assert (Hlen : (0 < length vs)%nat) by (destruct vs; [congruence|simpl; lia]).
    destruct g; simpl; try discriminate.
    - destruct (1 <? length vs)%nat.
      + pose proof (pick_some Lt None vs (or_intror Hne)). destruct (pick Lt None vs); [discriminate|congruence].
      + destruct vs; discriminate.
    - destruct (1 <? length vs)%nat.
      + pose proof (pick_some Gt None vs (or_intror Hne)). destruct (pick Gt None vs); [discriminate|congruence].
      + destruct vs; discriminate.
    - destruct (existsb _ vs); [discriminate|].
      destruct (med_indices (sortN vs) (length vs)) as [[x Hx] Hy]; [apply sortN_length|assumption|].
      destruct (Nat.even (length vs)).
      + destruct (Hy eq_refl) as [y Hy']. rewrite Hx, Hy'. discriminate.
      + rewrite Hx. discriminate.
  Qed.

  Theorem eval_num_no_panic a : wf a = true -> eval_num L a <> Panic.
  Proof.
    induction a as [v|u a IH|b a1 a2 IH1 IH2|g args IH] using node_ind2; intros W.
    - discriminate.
    - simpl in *. specialize (IH W). destruct (eval_num L a); simpl; try discriminate; try congruence. apply un_num_np.
    - simpl in *. apply andb_prop in W. destruct W as [W1 W2]. specialize (IH1 W1). specialize (IH2 W2).
      destruct (eval_num L a1); simpl; try discriminate; try congruence.
      destruct (eval_num L a2); simpl; try discriminate; try congruence. apply bin_num_np.
    - destruct (wf_agg_inv _ _ W) as [Hne Hall].
      change (eval_num L (NAgg g args)) with (let* vs := go_args (eval_num L) args in agg_num g vs).
      assert (Hnp : go_args (eval_num L) args <> Panic).
      { apply go_args_not_panic. rewrite Forall_forall in *. intros x Hx. apply IH; auto. }
      destruct (go_args (eval_num L) args) eqn:E; simpl; try discriminate; try congruence.
      apply agg_num_np. apply go_args_length in E. destruct a; [destruct args; simpl in E; congruence|discriminate].
  Qed.
End NumS.

(** * eval_complex: no aggregate nodes, no partial operation *)
Section CpxS.
  Variable C : cpxlib.
  Theorem eval_cpx_no_panic a : eval_cpx C a <> Panic.
  Proof.
    induction a as [v|u a IH|b a1 a2 IH1 IH2|g args IH] using node_ind2; simpl; try discriminate.
    - destruct (eval_cpx C a); simpl; try discriminate; try congruence. destruct u; simpl; discriminate.
    - destruct (eval_cpx C a1); simpl; try discriminate; try congruence.
      destruct (eval_cpx C a2); simpl; try discriminate; try congruence. destruct b; simpl; discriminate.
  Qed.
End CpxS.

(** * eval_decimal: relative to the assumption that the *infallible* rust_decimal methods the code
      calls through raw operators / plain methods do not panic (validated by the primitive-level
      correspondence, where a panic inside primsrv is reported) *)
Lemma bind_np {A B} (r : res A) (f : A -> res B) :
  r <> Panic -> (forall a, f a <> Panic) -> bind r f <> Panic.
Proof. intros Hr Hf. destruct r; simpl; try discriminate; try congruence; apply Hf. Qed.

Section DecS.
  Variable D : declib.

  Definition infallible1 (op : d1op) : bool :=
    match op with DNeg | DAbs | DFloor | DCeil | DRound | DTrunc | DSignum => true | _ => false end.

  Record raw_total : Prop := {
    rt_d1 : forall op x, infallible1 op = true -> d1 D op x <> None;
    rt_exp_m1 : d1 D DExp (dnew (-1) 0) <> None;
    rt_ln2 : d1 D DLn d_two <> None;
    rt_rem1 : forall x, d2 D DRem x d_one <> None;
    rt_div3 : forall x, d2 D DDiv x d_three <> None;
    rt_min : forall x y, d2 D DMin x y <> None;
    rt_max : forall x y, d2 D DMax x y <> None;
    rt_inc : forall x, dec_ge x (dnew 64 0) = false -> d2 D DAdd x d_one <> None
  }.
  Hypothesis RT : raw_total.

  Lemma o1_np op x : o1 D op x <> Panic. Proof. apply of_option_not_panic. Qed.
  Lemma o2_np op x y : o2 D op x y <> Panic. Proof. apply of_option_not_panic. Qed.
  Lemma ex2_np f op x y : ex2 D f op x y <> Panic.
  Proof. unfold ex2. destruct (f x y); [discriminate|apply o2_np]. Qed.
  Lemma raw1_np op x : d1 D op x <> None -> raw1 D op x <> Panic.
  Proof. unfold raw1. destruct (d1 D op x); [discriminate|congruence]. Qed.
  Lemma raw2_np op x y : d2 D op x y <> None -> raw2 D op x y <> Panic.
  Proof. unfold raw2. destruct (d2 D op x y); [discriminate|congruence]. Qed.

  Ltac np :=
    repeat first
      [ apply o1_np | apply o2_np | apply ex2_np | discriminate
      | apply raw1_np; first [apply (rt_d1 RT); reflexivity | apply (rt_exp_m1 RT) | apply (rt_ln2 RT)]
      | apply raw2_np; first [apply (rt_rem1 RT) | apply (rt_div3 RT) | apply (rt_min RT) | apply (rt_max RT)]
      | apply bind_np; [|intros ?]
      | match goal with |- (if ?c then _ else _) <> Panic => destruct c end
      | match goal with |- (match ?o with Some _ => _ | None => _ end) <> Panic => destruct o end ].

  Lemma dgsum_np s cs dv k : (forall j, dv j <> Panic) -> dgsum D s cs dv k <> Panic.
  Proof. intros Hd. revert s k. induction cs as [|c cs IH]; intros s k; simpl; [discriminate|].
         apply bind_np; [apply Hd|intros d]. apply bind_np; [np|intros q]. apply bind_np; [np|intros s']. apply IH. Qed.

  Lemma dgamma_np a : dgamma D a <> Panic.
  Proof. unfold dgamma. destruct (dec_lt a d_half).
         - apply bind_np; [apply dgsum_np; intros; np|intros ?]. np.
         - apply bind_np; [apply dgsum_np; intros; np|intros ?]. np. Qed.

  Lemma dfact_loop_np fuel i n r : dfact_loop D fuel i n r <> Panic.
  Proof. revert i r. induction fuel; intros; simpl; [discriminate|]. destruct (n <? i)%Z; [discriminate|].
         apply bind_np; [np|intros ?]. apply IHfuel. Qed.

  Lemma dhalley_np n x w : dhalley D n x w <> Panic.
  Proof. revert w. induction n; intros; simpl; [discriminate|].
         do 13 (apply bind_np; [np|intros ?]). apply IHn. Qed.

  Lemma dilog_np fuel n b x : dilog_loop D fuel n b x <> Panic.
  Proof. revert n x. induction fuel; intros; simpl; [discriminate|].
         destruct (dec_gt n d_one); [|discriminate].
         destruct (dec_ge x (dnew 64 0)) eqn:E; [discriminate|].
         apply bind_np; [apply raw2_np; apply (rt_inc RT); exact E|intros ?].
         do 3 (apply bind_np; [np|intros ?]). apply bind_np; [np|intros ?]. apply IHfuel. Qed.

  Lemma un_dec_np u v : un_dec D u v <> Panic.
  Proof.
    destruct u; unfold un_dec; try (np; fail).
    - (* factorial *) unfold dfactorial. apply bind_np; [np|intros frac].
      repeat match goal with |- (if ?c then _ else _) <> Panic => destruct c end; try discriminate.
      + apply bind_np; [np|intros ?]. apply dgamma_np.
      + destruct (d_to_i64 D v); [apply dfact_loop_np|discriminate].
      + apply bind_np; [np|intros ?]. apply dgamma_np.
    - (* lambert *) unfold dlambert. apply bind_np; [np|intros ?]. apply bind_np; [np|intros ?].
      destruct (dec_lt v a0); [discriminate|].
      apply bind_np; [destruct (d1 D DLog10 v); np|intros ?]. apply bind_np; [np|intros ?]. apply dhalley_np.
  Qed.

  Lemma bin_dec_np b x y : bin_dec D b x y <> Panic.
  Proof. destruct b; unfold bin_dec; try (np; fail). apply dilog_np. Qed.

  Lemma dfold_np f acc vs : (forall a b, f a b <> Panic) -> dfold f acc vs <> Panic.
  Proof. intros Hf. revert acc. induction vs; intros; simpl; [discriminate|]. apply bind_np; [apply Hf|intros ?]. apply IHvs. Qed.

  Lemma dinsert_length x l : length (dinsert x l) = S (length l).
  Proof. induction l; simpl; [reflexivity|]. destruct (dec_gt x a); simpl; auto. Qed.
  Lemma dsort_length l : length (dsort l) = length l.
  Proof. induction l; simpl; [reflexivity|]. now rewrite dinsert_length, IHl. Qed.

  Lemma agg_dec_np g vs : vs <> [] -> agg_dec D g vs <> Panic.
  Proof.
    intros Hne. assert (Hlen : (0 < length vs)%nat) by (destruct vs; [congruence|simpl; lia]).
    destruct g; simpl; try discriminate.
    - destruct (1 <? length vs)%nat; [apply dfold_np; intros; np|destruct vs; discriminate].
    - destruct (1 <? length vs)%nat; [apply dfold_np; intros; np|destruct vs; discriminate].
    - apply bind_np; [apply dfold_np; intros; np|intros ?]. np.
    - destruct (med_indices (dsort vs) (length vs)) as [[x Hx] Hy]; [apply dsort_length|assumption|].
      destruct (Nat.even (length vs)).
      + destruct (Hy eq_refl) as [y Hy']. rewrite Hx, Hy'. simpl. np.
      + rewrite Hx. discriminate.
  Qed.

  Theorem eval_dec_no_panic a : wf a = true -> eval_dec D a <> Panic.
  Proof.
    induction a as [v|u a IH|b a1 a2 IH1 IH2|g args IH] using node_ind2; intros W.
    - discriminate.
    - simpl in *. specialize (IH W). destruct (eval_dec D a); simpl; try discriminate; try congruence. apply un_dec_np.
    - simpl in *. apply andb_prop in W. destruct W as [W1 W2]. specialize (IH1 W1). specialize (IH2 W2).
      destruct (eval_dec D a1); simpl; try discriminate; try congruence.
      destruct (eval_dec D a2); simpl; try discriminate; try congruence. apply bin_dec_np.
    - destruct (wf_agg_inv _ _ W) as [Hne Hall].
      change (eval_dec D (NAgg g args)) with (let* vs := go_args (eval_dec D) args in agg_dec D g vs).
      assert (Hnp : go_args (eval_dec D) args <> Panic).
      { apply go_args_not_panic. rewrite Forall_forall in *. intros x Hx. apply IH; auto. }
      destruct (go_args (eval_dec D) args) eqn:E; simpl; try discriminate; try congruence.
      apply agg_dec_np. apply go_args_length in E. destruct a; [destruct args; simpl in E; congruence|discriminate].
  Qed.
End DecS.
