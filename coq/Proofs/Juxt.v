(** Juxtaposition is multiplication by a bracketed right factor (C12), and notation equivalences (C13). *)
From Coq Require Import List Bool Arith Lia.
From SC Require Import Base.Res Lang.Syntax Lang.Parser Spec.Surface Proofs.Grammar Proofs.Subst.
Import ListNotations.

Section Juxt.
  Context {V : Type}.
  Variable T : ptab V.
  Variable ph : V.
  Notation sx := (@sx V).
  Notation W := (W T).
  Notation desugar := (desugar T ph).

  (** a tree that is complete in a tighter context is complete in a looser one *)
  Lemma W_mono : forall (s : sx) p q, q <= p -> W p s -> W q s.
  Proof.
    induction s using sx_ind2; intros p q Hle Hw; simpl in Hw |- *; auto.
    - destruct Hw as (A & B & C & D & E & F). repeat split; eauto. lia.
    - destruct Hw as (A & B & C & D & E & F). repeat split; eauto. lia.
    - destruct Hw as (A & B & C & D & E & F & G & H). repeat split; eauto. lia.
    - destruct Hw as (A & B & C & D & E & F & G). repeat split; eauto. lia.
    - destruct Hw as (A & B & C & D & E). repeat split; eauto. lia.
  Qed.

  Lemma capable_noabs (a : sx) q : capable a = true -> noabs T q a = true.
  Proof. destruct a; simpl; auto; discriminate. Qed.

  Definition juxt_ok : bool :=
    compose_ok T &&
    match pt_infix T KMultiply with Some (BMultiply, _) => true | _ => false end &&
    (0 <? pt_prec T KMultiply).

  Hypothesis OK : juxt_ok = true.

  (** A R  ==  (A*(R)) : same tree, and the explicit form is well-formed wherever it is put *)
  Theorem juxt_is_product (a r : sx) p :
    W p (SJuxt a r) ->
    let explicit := SGroup KLeftParen (SBin KMultiply a (SGroup KLeftParen r)) in
    (forall q, W q explicit) /\ desugar explicit = desugar (SJuxt a r).
  Proof.
    unfold juxt_ok in OK. apply andb_prop in OK. destruct OK as [O1 Hp]. apply andb_prop in O1. destruct O1 as [Hc Hm].
    intros (Ca & Wa & St & Wr & _) explicit.
    assert (FT : followers_not_triggers T).
    { unfold compose_ok in Hc.
      apply andb_prop in Hc; destruct Hc as [O1 _]. apply andb_prop in O1; destruct O1 as [O1 _].
      apply andb_prop in O1; destruct O1 as [O1 _]. apply andb_prop in O1; destruct O1 as [O1 _].
      apply andb_prop in O1; destruct O1 as [Hft _]. now apply followers_not_triggersb_sound. }
    assert (Hw : wrapper T KLeftParen = None).
    { unfold compose_ok in Hc.
      apply andb_prop in Hc; destruct Hc as [O1 _]. apply andb_prop in O1; destruct O1 as [O1 _].
      apply andb_prop in O1; destruct O1 as [O1 _]. apply andb_prop in O1; destruct O1 as [O1 _].
      apply andb_prop in O1; destruct O1 as [_ X]. destruct (wrapper T KLeftParen); [discriminate|reflexivity]. }
    destruct (pt_infix T KMultiply) as [[b lvl]|] eqn:Ei; [|discriminate]. destruct b; try discriminate.
    split.
    - intros q. apply (group_W T Hc). simpl. split; [exists BMultiply, lvl; exact Ei|]. split; [now apply Nat.ltb_lt|].
      split; [now apply capable_noabs|]. split; [intros _; apply (proj1 FT); congruence|]. split; [exact Wa|].
      change (W (rlevel T KMultiply) (SGroup KLeftParen r)). apply (group_W T Hc).
      apply (W_mono r (pt_impl_level T) 0); [lia|exact Wr].
    - unfold explicit. simpl. rewrite Hw, Ei. reflexivity.
  Qed.

  (** L ! R  ==  (L!*(R)) *)
  Theorem fact_juxt_is_product (l r : sx) p :
    W p (SFactJuxt l r) ->
    let explicit := SBin KMultiply (SFact l) (SGroup KLeftParen r) in
    desugar explicit = desugar (SFactJuxt l r).
  Proof.
    unfold juxt_ok in OK. apply andb_prop in OK. destruct OK as [O1 Hp]. apply andb_prop in O1. destruct O1 as [Hc Hm].
    intros _ explicit.
    assert (Hw : wrapper T KLeftParen = None).
    { unfold compose_ok in Hc.
      apply andb_prop in Hc; destruct Hc as [O1 _]. apply andb_prop in O1; destruct O1 as [O1 _].
      apply andb_prop in O1; destruct O1 as [O1 _]. apply andb_prop in O1; destruct O1 as [O1 _].
      apply andb_prop in O1; destruct O1 as [_ X]. destruct (wrapper T KLeftParen); [discriminate|reflexivity]. }
    destruct (pt_infix T KMultiply) as [[b lvl]|] eqn:Ei; [|discriminate]. destruct b; try discriminate.
    unfold explicit. simpl. rewrite Hw, Ei. reflexivity.
  Qed.

  (** what can take part in an implicit product: by the grammar, the left factor is a literal, a
      bracketed group or a call (or follows a factorial); the right factor starts with a trigger *)
  Theorem juxt_shape (a r : sx) p :
    W p (SJuxt a r) -> capable a = true /\ pt_trigger T (hdk (print T r)) = true /\
                       numjuxt_ok T a (hdk (print T r)) = true.
  Proof. intros (Ca & _ & St & _ & Hj). split; [exact Ca|split; [exact St|exact Hj]]. Qed.
End Juxt.
