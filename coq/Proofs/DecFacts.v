(** Exactness of the written-out paths of decimal + - * and unary minus (C07). *)
From Coq Require Import List ZArith NArith QArith Bool Lia.
From SC Require Import Base.Res Base.Dec Base.Oracle Lang.Syntax Eval.Common Eval.EvalDec.
Import ListNotations.

(** the exact value of a Decimal *)
Definition dq (d : dec) : Q := inject_Z (dec_signed d) / inject_Z (pow10 (d_scale d)).

Lemma pow10_pos n : (0 < pow10 n)%Z.
Proof. unfold pow10. apply Z.pow_pos_nonneg; lia. Qed.
Lemma pow10_add a b : pow10 (a + b) = (pow10 a * pow10 b)%Z.
Proof. unfold pow10. rewrite N2Z.inj_add. apply Z.pow_add_r; lia. Qed.
Lemma pow10_q_nz n : ~ inject_Z (pow10 n) == 0.
Proof. intros H. pose proof (pow10_pos n). unfold Qeq in H. simpl in H. lia. Qed.

Lemma signed_mkdec z s : dec_signed (mkdec z s) = z.
Proof. unfold dec_signed, mkdec; simpl. destruct (Z.ltb_spec z 0); rewrite N2Z.inj_abs_N; lia. Qed.

Lemma signed_neg x : dec_signed (dec_neg x) = (- dec_signed x)%Z.
Proof. unfold dec_signed, dec_neg; simpl. destruct (d_neg x); simpl; lia. Qed.

Lemma dq_neg x : dq (dec_neg x) == - dq x.
Proof. unfold dq. rewrite signed_neg. simpl d_scale. rewrite inject_Z_opp. field. apply pow10_q_nz. Qed.

Lemma zero_dq x : dec_is_zero x = true -> dq x == 0.
Proof.
  unfold dec_is_zero, dq, dec_signed. intros H. apply N.eqb_eq in H. rewrite H.
  destruct (d_neg x); simpl; unfold Qdiv; rewrite Qmult_0_l; reflexivity.
Qed.

Lemma dq_scale_up x s : (d_scale x <= s)%N ->
  dq x == inject_Z (dec_signed x * pow10 (s - d_scale x)) / inject_Z (pow10 s).
Proof.
  intros H. unfold dq. replace s with ((s - d_scale x) + d_scale x)%N at 2 by lia.
  rewrite pow10_add, !inject_Z_mult. field. split; apply pow10_q_nz.
Qed.

Lemma aligned_exact x y sg r : dec_aligned x y sg = Some r -> dq r == dq x + inject_Z sg * dq y.
Proof.
  unfold dec_aligned. set (s := N.max (d_scale x) (d_scale y)).
  destruct (_ && _)%bool; [|discriminate]. intros E; inversion E; subst r; clear E.
  unfold dq at 1. rewrite signed_mkdec. simpl d_scale.
  rewrite (dq_scale_up x s), (dq_scale_up y s) by (unfold s; lia).
  rewrite inject_Z_plus, !inject_Z_mult. field. apply pow10_q_nz.
Qed.

Theorem add_exact x y r : dec_add_exact x y = Some r -> dq r == dq x + dq y.
Proof.
  unfold dec_add_exact. destruct (dec_is_zero x) eqn:Zx.
  - intros E; inversion E; subst. rewrite (zero_dq x Zx). ring.
  - destruct (dec_is_zero y) eqn:Zy.
    + intros E; inversion E; subst. rewrite (zero_dq y Zy). ring.
    + intros E. rewrite (aligned_exact _ _ _ _ E). ring.
Qed.

Theorem sub_exact x y r : dec_sub_exact x y = Some r -> dq r == dq x - dq y.
Proof.
  unfold dec_sub_exact. destruct (dec_is_zero x) eqn:Zx.
  - destruct (dec_is_zero y) eqn:Zy; intros E; inversion E; subst.
    + rewrite (zero_dq x Zx), (zero_dq r Zy). ring.
    + rewrite dq_neg, (zero_dq x Zx). ring.
  - destruct (dec_is_zero y) eqn:Zy.
    + intros E; inversion E; subst. rewrite (zero_dq y Zy). ring.
    + intros E. rewrite (aligned_exact _ _ _ _ E). ring.
Qed.

Lemma signed_xor x y s :
  dec_signed {| d_neg := xorb (d_neg x) (d_neg y); d_coef := d_coef x * d_coef y; d_scale := s |} =
  (dec_signed x * dec_signed y)%Z.
Proof. unfold dec_signed; simpl. rewrite N2Z.inj_mul. destruct (d_neg x), (d_neg y); simpl; ring. Qed.

Theorem mul_exact x y r : dec_mul_exact x y = Some r -> dq r == dq x * dq y.
Proof.
  unfold dec_mul_exact. destruct (dec_is_zero x) eqn:Zx; [|destruct (dec_is_zero y) eqn:Zy]; simpl orb; cbv iota.
  - intros E; inversion E; subst. rewrite (zero_dq x Zx). unfold dq, dec_zero, dec_int; simpl. reflexivity.
  - intros E; inversion E; subst. rewrite (zero_dq y Zy). unfold dq, dec_zero, dec_int; simpl. ring_simplify. reflexivity.
  - destruct (_ && _)%bool; [|discriminate]. intros E; inversion E; subst r; clear E.
    unfold dq at 1. rewrite signed_xor. simpl d_scale. unfold dq.
    rewrite pow10_add, !inject_Z_mult. field. split; apply pow10_q_nz.
Qed.

(** results of the exact paths are valid Decimals (96-bit coefficient, scale <= 28) *)
Lemma aligned_ok x y sg r : dec_ok x = true -> dec_ok y = true -> dec_aligned x y sg = Some r -> dec_ok r = true.
Proof.
  unfold dec_aligned, dec_ok. intros Hx Hy.
  apply andb_prop in Hx as [_ Hx]. apply andb_prop in Hy as [_ Hy]. apply N.leb_le in Hx, Hy.
  destruct (_ && _)%bool eqn:E; [|discriminate]. intros R; inversion R; subst r; clear R. simpl.
  apply andb_prop in E as [_ E]. apply Z.ltb_lt in E. unfold dec_lim in E.
  apply andb_true_intro; split; [apply N.ltb_lt|apply N.leb_le; lia].
  apply N2Z.inj_lt. rewrite N2Z.inj_abs_N. change (Z.of_N (2 ^ 96)) with (2 ^ 96)%Z. exact E.
Qed.

(** the exact paths cover every sum / product that needs no rescaling *)
Lemma add_exact_defined x y :
  dec_is_zero x = false -> dec_is_zero y = false ->
  let s := N.max (d_scale x) (d_scale y) in
  let cx := (dec_signed x * pow10 (s - d_scale x))%Z in
  let cy := (dec_signed y * pow10 (s - d_scale y))%Z in
  (Z.abs cx < dec_lim)%Z -> (Z.abs cy < dec_lim)%Z -> (Z.abs (cx + cy) < dec_lim)%Z ->
  dec_add_exact x y = Some (mkdec (cx + cy) s).
Proof.
  intros Zx Zy s cx cy H1 H2 H3. unfold dec_add_exact, dec_aligned. rewrite Zx, Zy.
  fold s. replace (1 * dec_signed y)%Z with (dec_signed y) by ring. fold cx cy.
  apply Z.ltb_lt in H1, H2, H3. rewrite H1, H2, H3. reflexivity.
Qed.

Lemma mul_exact_defined x y :
  (d_coef x * d_coef y < 2 ^ 96)%N -> (d_scale x + d_scale y <= 28)%N -> dec_mul_exact x y <> None.
Proof.
  intros H1 H2. unfold dec_mul_exact. destruct (_ || _)%bool; [discriminate|].
  apply N.ltb_lt in H1. apply N.leb_le in H2. rewrite H1, H2. discriminate.
Qed.

(** ** Trees over + - * and unary minus *)
Section Trees.
  Variable D : declib.

  (** exact rational value of a tree over literals, + - * and unary minus (None outside that fragment) *)
  Fixpoint exactQ (a : node dec) : option Q :=
    match a with
    | NNum v => Some (dq v)
    | NUn UNegative x => match exactQ x with Some q => Some (- q) | None => None end
    | NBin b x y =>
        match exactQ x, exactQ y with
        | Some p, Some q =>
            match b with
            | BAdd => Some (p + q) | BSubtract => Some (p - q) | BMultiply => Some (p * q)
            | _ => None
            end
        | _, _ => None
        end
    | _ => None
    end.

  (** evaluation with the written-out exact paths only: defined when no step needs the library *)
  Fixpoint simple_eval (a : node dec) : option dec :=
    match a with
    | NNum v => Some v
    | NUn UNegative x => match simple_eval x with Some v => Some (dec_neg v) | None => None end
    | NBin b x y =>
        match simple_eval x, simple_eval y with
        | Some v, Some w =>
            match b with
            | BAdd => dec_add_exact v w | BSubtract => dec_sub_exact v w | BMultiply => dec_mul_exact v w
            | _ => None
            end
        | _, _ => None
        end
    | _ => None
    end.

  Theorem simple_eval_exact a r :
    simple_eval a = Some r ->
    eval_dec D a = Ok r /\ exists q, exactQ a = Some q /\ dq r == q.
  Proof.
    revert r. induction a as [v|u x IH|b x y IHx IHy|g args _] using node_ind2; intros r; simpl.
    - intros E; inversion E; subst. split; [reflexivity|]. eexists; split; [reflexivity|reflexivity].
    - destruct u; try discriminate. destruct (simple_eval x) as [v|] eqn:Sx; [|discriminate].
      intros E; inversion E; subst. destruct (IH v eq_refl) as [Ev [q [Eq Hq]]]. rewrite Ev, Eq. simpl.
      split; [reflexivity|]. eexists; split; [reflexivity|]. rewrite dq_neg, Hq. reflexivity.
    - destruct (simple_eval x) as [v|] eqn:Sx; [|discriminate]. destruct (simple_eval y) as [w|] eqn:Sy; [|discriminate].
      destruct (IHx v eq_refl) as [Ev [p [Ep Hp]]]. destruct (IHy w eq_refl) as [Ew [q [Eq Hq]]].
      rewrite Ev, Ew, Ep, Eq. simpl.
      destruct b; try discriminate; intros E; cbn [bin_dec]; unfold ex2; rewrite E; (split; [reflexivity|]); eexists; (split; [reflexivity|]).
      + rewrite (add_exact _ _ _ E), Hp, Hq. reflexivity.
      + rewrite (sub_exact _ _ _ E), Hp, Hq. reflexivity.
      + rewrite (mul_exact _ _ _ E), Hp, Hq. reflexivity.
    - discriminate.
  Qed.
End Trees.
