(** Euclid as written in eval_i64/ast.rs: termination within the model's fuel for every pair of
    i64 values (Lame-style halving argument), and the value it computes. *)
From Coq Require Import ZArith Bool Lia.
From SC Require Import Base.Res Base.RustInt.
Local Open Scope Z_scope.

Lemma rem_half x y : y <> 0 -> Z.abs y <= Z.abs x -> 2 * Z.abs (Z.rem x y) <= Z.abs x.
Proof.
  intros Hy Hle. rewrite <- (Z.rem_abs x y Hy).
  assert (Y : 0 < Z.abs y) by lia. set (X := Z.abs x) in *. set (Yv := Z.abs y) in *.
  rewrite Z.rem_mod_nonneg by lia.
  pose proof (Z.mod_pos_bound X Yv Y). pose proof (Z.div_mod X Yv ltac:(lia)).
  assert (1 <= X / Yv) by (apply Z.div_le_lower_bound; lia). nia.
Qed.

Lemma gcd_loop_mono f a b r : gcd_loop f a b = Ok r -> forall f', (f <= f')%nat -> gcd_loop f' a b = Ok r.
Proof.
  revert a b. induction f as [|f IH]; intros a b H f' Hle; [discriminate|].
  destruct f' as [|f']; [lia|]. simpl in *. destruct (b =? 0); [exact H|]. apply IH; [exact H|lia].
Qed.

(** with |b| < 2^n, 2n+1 rounds suffice *)
Lemma gcd_loop_terminates n : forall a b, Z.abs b < 2 ^ Z.of_nat n ->
  exists g, gcd_loop (2 * n + 1) a b = Ok g.
Proof.
  induction n as [|n IH]; intros a b Hb.
  - simpl in Hb. assert (b = 0) by lia. subst. simpl. eauto.
  - replace (2 * S n + 1)%nat with (S (S (2 * n + 1))) by lia.
    cbn [gcd_loop]. destruct (b =? 0) eqn:Eb; [eauto|]. apply Z.eqb_neq in Eb.
    unfold wrapping_rem. set (r1 := Z.rem a b).
    destruct (r1 =? 0) eqn:Er; [eauto|]. apply Z.eqb_neq in Er.
    apply IH.
    pose proof (Z.rem_bound_abs a b Eb). fold r1 in H.
    pose proof (rem_half b r1 Er ltac:(lia)).
    rewrite Nat2Z.inj_succ, Z.pow_succ_r in Hb by lia. lia.
Qed.

Theorem gcd_loop_i64 a b : in_i64 b = true -> exists g, gcd_loop gcd_fuel a b = Ok g.
Proof.
  intros Hb. destruct (gcd_loop_terminates 64 a b) as [g Hg].
  - unfold in_i64, i64_min, i64_max in Hb. apply andb_prop in Hb. destruct Hb as [H1 H2].
    apply Z.leb_le in H1, H2. change (2 ^ Z.of_nat 64) with (2 * 2 ^ 63). lia.
  - exists g. eapply gcd_loop_mono; [exact Hg|]. unfold gcd_fuel. lia.
Qed.

(** the value: the last non-zero remainder is +- gcd *)
Lemma gcd_loop_value f : forall a b g, gcd_loop f a b = Ok g -> Z.abs g = Z.gcd a b.
Proof.
  induction f as [|f IH]; intros a b g H; [discriminate|]. simpl in H.
  destruct (b =? 0) eqn:Eb.
  - apply Z.eqb_eq in Eb. subst. inversion H; subst. now rewrite Z.gcd_0_r.
  - apply Z.eqb_neq in Eb. apply IH in H. rewrite H. unfold wrapping_rem.
    rewrite (Z.gcd_comm b), (Z.gcd_rem a b Eb). apply Z.gcd_comm.
Qed.

Theorem ugcd_spec a b : 0 <= b < 2 ^ 64 -> ugcd a b = Ok (Z.gcd a b) \/ exists g, ugcd a b = Ok g /\ Z.abs g = Z.gcd a b.
Proof.
  intros Hb. right. destruct (gcd_loop_terminates 64 a b) as [g Hg].
  - change (2 ^ Z.of_nat 64) with (2 ^ 64). lia.
  - exists g. split; [|now apply (gcd_loop_value _ _ _ _ Hg)].
    unfold ugcd. eapply gcd_loop_mono; [exact Hg|]. unfold gcd_fuel. lia.
Qed.

(** number of rounds (the tick count of the loop) *)
Lemma gcd_steps_bound n : forall a b, Z.abs b < 2 ^ Z.of_nat n -> forall f, (gcd_steps f a b <= 2 * n)%nat.
Proof.
  induction n as [|n IH]; intros a b Hb f.
  - simpl in Hb. assert (b = 0) by lia. subst. destruct f; simpl; lia.
  - destruct f as [|f]; [simpl; lia|]. cbn [gcd_steps]. destruct (b =? 0) eqn:Eb; [lia|]. apply Z.eqb_neq in Eb.
    destruct f as [|f]; [simpl; lia|]. cbn [gcd_steps]. unfold wrapping_rem. set (r1 := Z.rem a b).
    destruct (r1 =? 0) eqn:Er; [lia|]. apply Z.eqb_neq in Er.
    pose proof (Z.rem_bound_abs a b Eb). fold r1 in H.
    pose proof (rem_half b r1 Er ltac:(lia)).
    rewrite Nat2Z.inj_succ, Z.pow_succ_r in Hb by lia.
    specialize (IH r1 (Z.rem b r1) ltac:(lia) f). lia.
Qed.
