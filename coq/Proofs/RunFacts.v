(** Top-level facts about the five entry points. *)
From Coq Require Import List Bool Arith ZArith NArith Lia.
From SC Require Import Base.Res Base.F64 Base.Oracle Base.Num Base.Dec Lang.Syntax Lang.Lexer Lang.Literal Lang.Parser
  Eval.EvalI64 Eval.EvalF64 Eval.EvalNum Eval.EvalCpx Eval.EvalDec Eval.Run Gen.Tables
  Proofs.ParserWf Proofs.NoPanic.
Import ListNotations.

Section Engine.
  Context {V : Type}.
  Variable T : ptab V.
  Variable ph : V.

  Lemma expect_np k (ts : list (tok V)) : expect k ts <> Panic.
  Proof. destruct ts as [|[k'| |] ts']; simpl; try discriminate. destruct (kind_eqb k k'); discriminate. Qed.

  Lemma run_not_panic : forall fuel c ts, Parser.run T ph fuel c ts <> Panic.
  Proof.
    induction fuel as [|f IH]; intros c ts; [discriminate|].
    assert (B : forall (r : res (node V * list (tok V))) (g : node V * list (tok V) -> res (node V * list (tok V))),
               r <> Panic -> (forall a, g a <> Panic) -> bind r g <> Panic) by (intros; now apply bind_np).
    assert (BE : forall k (l : list (tok V)) (g : list (tok V) -> res (node V * list (tok V))),
               (forall a, g a <> Panic) -> bind (expect k l) g <> Panic)
      by (intros; apply bind_np; [apply expect_np|assumption]).
    destruct c; simpl.
    - apply B; [apply IH|intros [l ts1]; apply IH].
    - destruct ts as [|[k|v|v] ts']; try discriminate; [|destruct (pt_numnum T || negb (kind_eqb (hdk ts') KNum)); [apply IH|discriminate]].
      destruct k; try discriminate;
        try (destruct (pt_const T _); [discriminate|];
             destruct (pt_open T _) as [[close w]|]; [|discriminate];
             apply B; [apply IH|intros [e ts2]]; apply BE; intros; apply IH).
      + destruct (pt_pos T); [apply IH|discriminate].
      + destruct (pt_neg T); [|discriminate]. apply B; [apply IH|intros [e ts2]; discriminate].
      + destruct (pt_fn T f0) as [sp|]; [|discriminate]. apply BE. intros ts''. destruct sp; apply IH.
      + destruct (pt_ans T); discriminate.
    - destruct (pt_trigger T (hdk ts)); [|discriminate]. apply B; [apply IH|intros [r ts1]; discriminate].
    - destruct (p <? pt_prec T (hdk ts)); [|discriminate].
      destruct ts as [|[k|v|v] ts']; try discriminate.
      + destruct (pt_infix T k) as [[b lvl]|].
        * apply B; [apply IH|intros [r ts2]; apply IH].
        * destruct (kind_eqb k KExclamationMark && pt_bang T).
          -- apply B; [apply IH|intros [l' ts2]; apply IH].
          -- destruct (pt_postconst T k); [apply IH|discriminate].
      + destruct (pt_sup T); [apply IH|discriminate].
    - apply B; [apply IH|intros [a ts1]]. apply BE; intros; apply IH.
    - apply B; [apply IH|intros [a ts1]]. apply BE; intros; apply IH.
    - apply B; [apply IH|intros [a ts1]]. apply BE; intros; apply IH.
    - assert (S : (let* (a, ts1) := Parser.run T ph f (CGen 0) ts in
                   match ts1 with
                   | TK KComma :: ts2 => Parser.run T ph f (CItems g ez (a :: acc)) ts2
                   | TK KRightParen :: ts2 => Parser.run T ph f (CImpl (NAgg g (rev (a :: acc)))) ts2
                   | _ => Err
                   end) <> Panic).
      { apply B; [apply IH|intros [a ts1]]. destruct ts1 as [|[k| |] ts2]; try discriminate.
        destruct k; try discriminate; apply IH. }
      destruct acc; [|exact S].
      destruct ts as [|[k| |] ts']; try exact S. destruct k; try exact S.
      destruct ez; [apply IH|discriminate].
  Qed.

  Lemma parse_not_panic ts : parse T ph ts <> Panic.
  Proof.
    unfold parse. apply bind_np; [apply run_not_panic|intros [n rest]]. destruct rest; discriminate.
  Qed.
End Engine.

Section Top.
  Context {V : Type}.
  Variable LT : lextab.
  Variable conv : lit -> option V.
  Variable PT : ptab V.
  Variable ev : node V -> res V.
  Hypothesis ev_np : forall a, wf a = true -> ev a <> Panic.

  Theorem run_no_panic s p : run LT conv PT ev s p <> Panic.
  Proof.
    unfold run, ast_of. destruct (tokens_of LT conv s) as [ts|]; simpl; [|discriminate].
    pose proof (parse_not_panic PT p ts) as Hp.
    destruct (parse PT p ts) eqn:E; simpl; try discriminate; try congruence.
    apply ev_np. eapply parse_wf; exact E.
  Qed.
End Top.
