(** Number literals: the double handed to the parser is the correctly rounded value of the decimal text. *)
From Coq Require Import ZArith NArith Nnat Reals Lia Lra Bool List.
From Flocq Require Import Core.Core IEEE754.BinarySingleNaN.
From SC Require Import Base.F64 Base.RustInt Base.Dec Lang.Lexer Lang.Literal.
Import ListNotations.
Local Open Scope R_scope.

Notation rndNE := (round radix2 (SpecFloat.fexp 53 1024) (round_mode mode_NE)).

(** quotient of two positive integers, correctly rounded (round to nearest, ties to even) *)
Theorem fdiv_pos_correct (a b : positive) :
  Rabs (rndNE (IZR (Zpos a) / IZR (Zpos b))) < bpow radix2 1024 ->
  @B2R 53 1024 (fdiv_pos a b) = rndNE (IZR (Zpos a) / IZR (Zpos b)) /\ is_finite (fdiv_pos a b) = true.
Proof.
  intros Hov. unfold fdiv_pos.
  destruct (Bdiv_correct_aux 53 1024 Hprec Hemax mode_NE false a 0 false b 0) as [Hv Hr].
  simpl in Hr. unfold F2R in Hr. simpl in Hr. rewrite !Rmult_1_r in Hr.
  rewrite Rlt_bool_true in Hr by exact Hov. destruct Hr as (Hr & Hf & _).
  split.
  - rewrite B2R_SF2B. exact Hr.
  - rewrite is_finite_SF2B. exact Hf.
Qed.

(** when the rounded quotient is out of range the literal is +infinity (as str::parse does) *)
Theorem fdiv_pos_overflow (a b : positive) :
  ~ Rabs (rndNE (IZR (Zpos a) / IZR (Zpos b))) < bpow radix2 1024 ->
  B2SF (fdiv_pos a b) = SpecFloat.S754_infinity false.
Proof.
  intros Hov. unfold fdiv_pos.
  destruct (Bdiv_correct_aux 53 1024 Hprec Hemax mode_NE false a 0 false b 0) as [Hv Hr].
  simpl in Hr. unfold F2R in Hr. simpl in Hr. rewrite !Rmult_1_r in Hr.
  rewrite Rlt_bool_false in Hr by (apply Rnot_lt_le; exact Hov).
  rewrite B2SF_SF2B. exact Hr.
Qed.

(** digits_val reads a digit string in base 10 *)
Lemma digits_val_app acc a b :
  digits_val acc (a ++ b) = digits_val (digits_val acc a) b.
Proof. revert acc. induction a; simpl; auto. Qed.

Local Open Scope N_scope.
Lemma digit_not_dot c : is_digit c = true -> N.eqb c ch_dot = false.
Proof.
  unfold is_digit, ch_dot. intros H. apply andb_prop in H. destruct H as [H1 H2].
  apply N.leb_le in H1, H2. apply N.eqb_neq. lia.
Qed.

Lemma split_point_digits ip : forallb is_digit ip = true -> split_point ip = (ip, None).
Proof.
  induction ip as [|c ip IH]; simpl; [reflexivity|]. intros H. apply andb_prop in H. destruct H as [Hc Hr].
  rewrite (digit_not_dot c Hc). now rewrite (IH Hr).
Qed.
Lemma split_point_dot ip fp : forallb is_digit ip = true -> split_point (ip ++ ch_dot :: fp) = (ip, Some fp).
Proof.
  induction ip as [|c ip IH]; simpl.
  - intros _. reflexivity.
  - intros H. apply andb_prop in H. destruct H as [Hc Hr]. rewrite (digit_not_dot c Hc). now rewrite (IH Hr).
Qed.

(** DIGITS, DIGITS. and DIGITS.DIGITS (leading zeros allowed) *)
Theorem parse_f64_integer ip :
  ip <> [] -> forallb is_digit ip = true -> parse_f64 ip = Some (f64_of_decimal (digits_val 0 ip) 0).
Proof.
  intros Hne Hd. unfold parse_f64. rewrite (split_point_digits ip Hd). destruct ip; [congruence|]. now rewrite Hd.
Qed.
Theorem parse_f64_point ip fp :
  ip <> [] -> forallb is_digit ip = true -> forallb is_digit fp = true ->
  parse_f64 (ip ++ ch_dot :: fp) = Some (f64_of_decimal (digits_val 0 (ip ++ fp)) (N.of_nat (length fp))).
Proof.
  intros Hne Hd Hf. unfold parse_f64. rewrite (split_point_dot ip fp Hd). destruct ip; [congruence|]. now rewrite Hd, Hf.
Qed.
(** a second point is a parse error (the tokenizer then returns None) *)
Theorem parse_f64_two_points ip fp rest :
  forallb is_digit ip = true -> parse_f64 (ip ++ ch_dot :: fp ++ ch_dot :: rest) = None.
Proof.
  intros Hd. unfold parse_f64. rewrite (split_point_dot ip _ Hd). destruct ip; [reflexivity|]. rewrite Hd.
  rewrite forallb_app. simpl. rewrite andb_false_r. reflexivity.
Qed.

(** ** Decimal literals: the written-out exact path of Decimal::from_str *)
Lemma digits_val_bound cs : forallb is_digit cs = true ->
  forall acc, digits_val acc cs < (acc + 1) * 10 ^ N.of_nat (length cs).
Proof.
  induction cs as [|c cs IH]; intros H acc.
  - simpl. lia.
  - simpl in H. apply andb_prop in H as [Hc Hr]. cbn [digits_val length].
    specialize (IH Hr (acc * 10 + digit_val c)).
    unfold is_digit in Hc. apply andb_prop in Hc as [H1 H2]. apply N.leb_le in H1, H2.
    assert (digit_val c <= 9) by (unfold digit_val; lia).
    rewrite Nat2N.inj_succ, N.pow_succ_r'. nia.
Qed.

Theorem parse_dec_exact_spec ip fp :
  ip <> [] -> forallb is_digit ip = true -> forallb is_digit fp = true -> (length ip + length fp <= 28)%nat ->
  parse_dec_exact ip = Some {| d_neg := false; d_coef := digits_val 0 ip; d_scale := 0 |} /\
  parse_dec_exact (ip ++ ch_dot :: fp) =
    Some {| d_neg := false; d_coef := digits_val 0 (ip ++ fp); d_scale := N.of_nat (length fp) |} /\
  digits_val 0 (ip ++ fp) < 2 ^ 96.
Proof.
  intros Hne Hi Hf Hl. unfold parse_dec_exact. rewrite (split_point_digits ip Hi), (split_point_dot ip fp Hi).
  destruct ip as [|c ip']; [congruence|]. rewrite Hi, Hf.
  assert (L1 : (length (c :: ip') <=? 28)%nat = true) by (apply Nat.leb_le; lia).
  assert (L2 : (length (c :: ip') + length fp <=? 28)%nat = true) by (apply Nat.leb_le; lia).
  rewrite L1, L2. simpl andb. repeat split.
  assert (Hd : forallb is_digit ((c :: ip') ++ fp) = true) by (rewrite forallb_app, Hi, Hf; reflexivity).
  pose proof (digits_val_bound _ Hd 0) as B. rewrite app_length in B.
  apply N.lt_le_trans with (1 := B). rewrite N.add_0_l, N.mul_1_l.
  apply N.le_trans with (10 ^ 28); [apply N.pow_le_mono_r; lia|]. vm_compute. discriminate.
Qed.
