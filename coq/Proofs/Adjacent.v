(** Which tokens can stand next to each other in an accepted input (C12, C14).
    [quiet] tokens end an operand without leaving it open for an implicit product: the placeholder @, the
    constants, the postfix degree / radian operators and superscript exponents. In the token sequence of a
    well-formed surface tree a quiet token is never directly followed by a token that would start an implicit
    right factor (a trigger: ( ⌊ ⌈, a function name, a literal). By soundness of the parser, EVERY input that
    contains such an adjacency is rejected. *)
From Coq Require Import List Bool Arith Lia.
From SC Require Import Base.Res Lang.Syntax Lang.Parser Spec.Surface Proofs.ParserRel Proofs.Grammar Proofs.FuelFacts Proofs.RunFacts.
Import ListNotations.

Section Adjacent.
  Context {V : Type}.
  Variable T : ptab V.
  Variable ph : V.
  Notation tok := (tok V).
  Notation sx := (@sx V).
  Notation print := (print T).
  Notation W := (W T).

  Definition trig (t : tok) : bool := pt_trigger T (kind_of t).

  Definition quiet_kind (k : kind) : bool :=
    match k with
    | KAns => true
    | _ => match pt_const T k with Some _ => true | None => match pt_postconst T k with Some _ => true | None => false end end
    end.
  Definition quiet (t : tok) : bool :=
    match t with TK k => quiet_kind k | TSup _ => true | TNum _ => false end.

  (** side conditions on the tables (checked by computation for each evaluator): tokens that can FOLLOW an operand
      inside a well-formed tree (closing brackets, commas, binary operators, !, postfix constants, superscripts)
      are not triggers, and tokens that PRECEDE an operand start (operators, openers, commas, function names, signs, !)
      are not quiet *)
  Definition follower (k : kind) : bool :=
    kind_eqb k KRightParen || kind_eqb k KComma || kind_eqb k KExclamationMark || kind_eqb k KSuperscript ||
    match pt_infix T k with Some _ => true | None => false end ||
    match pt_postconst T k with Some _ => true | None => false end ||
    existsb (fun o => match pt_open T o with Some (c, _) => kind_eqb c k | None => false end) all_kinds.
  Definition leader (k : kind) : bool :=
    kind_eqb k KLeftParen || kind_eqb k KComma || kind_eqb k KExclamationMark || kind_eqb k KSubtract || kind_eqb k KAdd ||
    match k with KFunc _ => true | _ => false end ||
    match pt_infix T k with Some _ => true | None => false end ||
    match pt_open T k with Some _ => true | None => false end.
  Definition is_closer (k : kind) : bool :=
    kind_eqb k KRightParen ||
    existsb (fun o => match pt_open T o with Some (c, _) => kind_eqb c k | None => false end) all_kinds.
  Definition adj_tab_ok : bool :=
    forallb (fun k => (negb (follower k) || negb (pt_trigger T k)) && (negb (leader k) || negb (quiet_kind k)) &&
                      (negb (is_closer k) || negb (quiet_kind k))) all_kinds.

  Hypothesis TOK : adj_tab_ok = true.

  Lemma follower_nt k : follower k = true -> pt_trigger T k = false.
  Proof.
    intros H. unfold adj_tab_ok in TOK. rewrite forallb_forall in TOK. specialize (TOK k (all_kinds_complete k)).
    apply andb_prop in TOK as [A _]. apply andb_prop in A as [A _]. rewrite H in A. simpl in A. now apply negb_true_iff in A.
  Qed.
  Lemma closer_nq k : is_closer k = true -> quiet_kind k = false.
  Proof.
    intros H. unfold adj_tab_ok in TOK. rewrite forallb_forall in TOK. specialize (TOK k (all_kinds_complete k)).
    apply andb_prop in TOK as [_ A]. rewrite H in A. simpl in A. now apply negb_true_iff in A.
  Qed.
  Lemma leader_nq k : leader k = true -> quiet_kind k = false.
  Proof.
    intros H. unfold adj_tab_ok in TOK. rewrite forallb_forall in TOK. specialize (TOK k (all_kinds_complete k)).
    apply andb_prop in TOK as [A _]. apply andb_prop in A as [_ A]. rewrite H in A. simpl in A. now apply negb_true_iff in A.
  Qed.

  (** adjacency in a list *)
  Definition adj (x y : tok) (l : list tok) : Prop := exists l1 l2, l = l1 ++ x :: y :: l2.

  Lemma adj_app x y (a b : list tok) :
    adj x y (a ++ b) -> adj x y a \/ adj x y b \/ (exists a', a = a' ++ [x]) /\ (exists b', b = y :: b').
  Proof.
    intros (l1 & l2 & E). revert l1 E. induction a as [|h a IH]; intros l1 E.
    - right; left. exists l1, l2. exact E.
    - destruct l1 as [|h1 l1]; simpl in E.
      + inversion E; subst. destruct a as [|h2 a].
        * right; right. split; [exists []; reflexivity|]. simpl in H1. eexists; eauto.
        * left. exists [], a. simpl in *. inversion H1; subst. reflexivity.
      + inversion E; subst. destruct (IH l1 H1) as [(m1 & m2 & A)|[B|[(a' & A) Bq]]].
        * left. exists (h1 :: m1), m2. now rewrite A.
        * right; left. exact B.
        * right; right. split; [exists (h1 :: a'); now rewrite A|exact Bq].
  Qed.

  Lemma adj_cons x y h (l : list tok) : adj x y (h :: l) -> adj x y l \/ (h = x /\ exists l', l = y :: l').
  Proof.
    intros (l1 & l2 & E). destruct l1 as [|h1 l1]; simpl in E; inversion E; subst.
    - right. split; [reflexivity|eexists; eauto].
    - left. exists l1, l2. reflexivity.
  Qed.
  Lemma adj_single x y t : ~ adj x y [t].
  Proof. intros (l1 & l2 & E). destruct l1 as [|? [|? ?]]; simpl in E; inversion E. Qed.
  Lemma adj_nil x y : ~ adj x y [].
  Proof. intros (l1 & l2 & E). destruct l1; inversion E. Qed.


  Lemma closer_is_closer k : pt_open T k <> None -> is_closer (closer T k) = true.
  Proof.
    intros H. unfold is_closer. apply orb_true_iff. right. apply existsb_exists. exists k. split; [apply all_kinds_complete|].
    unfold closer. destruct (pt_open T k) as [[c w]|]; [apply kind_eqb_refl|congruence].
  Qed.
  Lemma closer_follower k : pt_open T k <> None -> follower (closer T k) = true.
  Proof.
    intros H. unfold follower. apply orb_true_iff. right. apply existsb_exists. exists k. split; [apply all_kinds_complete|].
    unfold closer. destruct (pt_open T k) as [[c w]|]; [apply kind_eqb_refl|congruence].
  Qed.
  Lemma rparen_closer : is_closer KRightParen = true. Proof. reflexivity. Qed.

  (** the last token of the printed form of a juxtaposition-capable primary is a literal or a closing bracket: not quiet *)
  Lemma capable_last (a : sx) x a' : capable a = true -> W 0 a -> print a = a' ++ [x] -> quiet x = false.
  Proof.
    intros C Wa E. destruct a; try discriminate; simpl in E.
    - destruct a' as [|? [|? ?]]; inversion E; subst. reflexivity.
    - change (TK k :: print a ++ [TK (closer T k)]) with ((TK k :: print a) ++ [TK (closer T k)]) in E.
      apply app_inj_tail in E. destruct E as [_ <-]. simpl in Wa. destruct Wa as (_ & _ & Ho & _).
      change (quiet_kind (closer T k) = false). apply closer_nq. now apply closer_is_closer.
    - change (TK (KFunc f) :: TK KLeftParen :: print a ++ [TK KRightParen]) with ((TK (KFunc f) :: TK KLeftParen :: print a) ++ [TK KRightParen]) in E.
      apply app_inj_tail in E. destruct E as [_ <-]. change (quiet_kind KRightParen = false). apply closer_nq. reflexivity.
    - replace (TK (KFunc f) :: TK KLeftParen :: print a1 ++ TK KComma :: print a2 ++ [TK KRightParen])
        with ((TK (KFunc f) :: TK KLeftParen :: print a1 ++ TK KComma :: print a2) ++ [TK KRightParen]) in E
        by (simpl; rewrite <- app_assoc; reflexivity).
      apply app_inj_tail in E. destruct E as [_ <-]. change (quiet_kind KRightParen = false). apply closer_nq. reflexivity.
    - replace (TK (KFunc f) :: TK KLeftParen :: commas (map print args) ++ [TK KRightParen])
        with ((TK (KFunc f) :: TK KLeftParen :: commas (map print args)) ++ [TK KRightParen]) in E by reflexivity.
      apply app_inj_tail in E. destruct E as [_ <-]. change (quiet_kind KRightParen = false). apply closer_nq. reflexivity.
  Qed.

  Lemma trig_follower k : follower k = true -> trig (TK k) = false.
  Proof. intros H. unfold trig. simpl. now apply follower_nt. Qed.
  Lemma quiet_leader k : leader k = true -> quiet (TK k) = true -> False.
  Proof. intros H Q. simpl in Q. rewrite (leader_nq k H) in Q. discriminate. Qed.

  Lemma follower_infix k : pt_infix T k <> None -> follower k = true.
  Proof. intros H. unfold follower. destruct (pt_infix T k); [|congruence].
         apply orb_true_iff; left. apply orb_true_iff; left. apply orb_true_iff; right. reflexivity. Qed.
  Lemma follower_post k : pt_postconst T k <> None -> follower k = true.
  Proof. intros H. unfold follower. destruct (pt_postconst T k); [|congruence].
         apply orb_true_iff; left. apply orb_true_iff; right. reflexivity. Qed.
  Lemma leader_infix k : pt_infix T k <> None -> leader k = true.
  Proof. intros H. unfold leader. destruct (pt_infix T k); [|congruence].
         apply orb_true_iff; left. apply orb_true_iff; right. reflexivity. Qed.
  Lemma leader_open k : pt_open T k <> None -> leader k = true.
  Proof. intros H. unfold leader. destruct (pt_open T k); [|congruence]. apply orb_true_iff; right. reflexivity. Qed.
  Lemma leader_fn f : leader (KFunc f) = true.
  Proof. unfold leader. apply orb_true_iff; left. apply orb_true_iff; left. apply orb_true_iff; right. reflexivity. Qed.

  (** the goal of the induction, for one tree *)
  Definition clean (l : list tok) : Prop := forall x y, adj x y l -> quiet x = true -> trig y = false.

  Lemma clean_app_follow (a : list tok) k : clean a -> follower k = true -> clean (a ++ [TK k]).
  Proof.
    intros Ca F x y H Q. apply adj_app in H. destruct H as [H|[H|[_ (b' & E)]]].
    - now apply (Ca x y).
    - exfalso. now apply (adj_single x y (TK k)).
    - inversion E; subst. now apply trig_follower.
  Qed.
  Lemma clean_cons_leader k (l : list tok) : leader k = true -> clean l -> clean (TK k :: l).
  Proof.
    intros L C x y H Q. apply adj_cons in H. destruct H as [H|[E _]].
    - now apply (C x y).
    - subst x. exfalso. now apply (quiet_leader k).
  Qed.
  Lemma clean_app_mid (a b : list tok) k : clean a -> clean b -> follower k = true -> leader k = true -> clean (a ++ TK k :: b).
  Proof.
    intros Ca Cb F L x y H Q. apply adj_app in H. destruct H as [H|[H|[_ (b' & E)]]].
    - now apply (Ca x y).
    - now apply (clean_cons_leader k b L Cb x y).
    - inversion E; subst. now apply trig_follower.
  Qed.
  Lemma clean_single (t : tok) : clean [t].
  Proof. intros x y H _. exfalso. now apply (adj_single x y t). Qed.

  Lemma comma_follower : follower KComma = true. Proof. reflexivity. Qed.
  Lemma comma_leader : leader KComma = true. Proof. reflexivity. Qed.
  Lemma rparen_follower : follower KRightParen = true. Proof. reflexivity. Qed.
  Lemma lparen_leader : leader KLeftParen = true. Proof. reflexivity. Qed.
  Lemma bang_follower : follower KExclamationMark = true. Proof. reflexivity. Qed.
  Lemma bang_leader : leader KExclamationMark = true. Proof. reflexivity. Qed.
  Lemma sup_follower : follower KSuperscript = true. Proof. reflexivity. Qed.

  Lemma clean_commas (ls : list (list tok)) : Forall clean ls -> clean (commas ls).
  Proof.
    induction 1 as [|l ls Hl Hls IH]; simpl.
    - intros x y H. exfalso. now apply (adj_nil x y).
    - destruct ls as [|l2 ls']; [exact Hl|].
      apply clean_app_mid; auto using comma_follower, comma_leader.
  Qed.

  Theorem no_quiet_before_trigger : forall (s : sx) p, W p s -> clean (print s).
  Proof.
    induction s using sx_ind2; intros p Hw; simpl in Hw |- *.
    - apply clean_single.
    - apply clean_single.
    - apply clean_single.
    - (* group *)
      destruct Hw as (_ & _ & Ho & We & _).
      apply clean_cons_leader; [now apply leader_open|]. apply clean_app_follow; [now apply (IHs 0)|now apply closer_follower].
    - (* call1 *)
      destruct Hw as (_ & Wa & _). apply clean_cons_leader; [apply leader_fn|]. apply clean_cons_leader; [apply lparen_leader|].
      apply clean_app_follow; [now apply (IHs 0)|apply rparen_follower].
    - (* call2 *)
      destruct Hw as (_ & Wa & _ & Wb & _). apply clean_cons_leader; [apply leader_fn|]. apply clean_cons_leader; [apply lparen_leader|].
      apply clean_app_mid; auto using comma_follower, comma_leader; [now apply (IHs1 0)|].
      apply clean_app_follow; [now apply (IHs2 0)|apply rparen_follower].
    - (* calln *)
      destruct Hw as (_ & _ & Hall). apply clean_cons_leader; [apply leader_fn|]. apply clean_cons_leader; [apply lparen_leader|].
      apply clean_app_follow; [|apply rparen_follower]. apply clean_commas.
      revert Hall. induction H as [|x xs Hx Hxs IH]; intros Hall; simpl; constructor.
      + destruct Hall as (Wx & _ & _). now apply (Hx 0).
      + apply IH. now destruct Hall as (_ & _ & R).
    - (* neg *)
      destruct Hw as (_ & We). apply clean_cons_leader; [reflexivity|]. now apply (IHs _ We).
    - (* pos *)
      destruct Hw as (_ & We). apply clean_cons_leader; [reflexivity|]. now apply (IHs _ We).
    - (* juxt *)
      destruct Hw as (Ca & Wa & _ & Wr & _). intros x y H Q. apply adj_app in H. destruct H as [H|[H|[(a' & E) _]]].
      + now apply (IHs1 0 Wa x y).
      + now apply (IHs2 _ Wr x y).
      + rewrite (capable_last s1 x a' Ca Wa E) in Q. discriminate.
    - (* bin *)
      destruct Hw as ((b & lvl & Hi) & _ & _ & _ & Wl & Wr).
      assert (Ni : pt_infix T k <> None) by congruence.
      apply clean_app_mid; auto using follower_infix, leader_infix; [now apply (IHs1 _ Wl)|now apply (IHs2 _ Wr)].
    - (* fact *)
      destruct Hw as (_ & _ & _ & _ & _ & Wl). apply clean_app_follow; [now apply (IHs _ Wl)|apply bang_follower].
    - (* fact juxt *)
      destruct Hw as (_ & _ & _ & _ & _ & Wl & _ & Wr).
      apply clean_app_mid; auto using bang_follower, bang_leader; [now apply (IHs1 _ Wl)|now apply (IHs2 _ Wr)].
    - (* post *)
      destruct Hw as (_ & _ & Hp & _ & _ & _ & Wl). apply clean_app_follow; [now apply (IHs _ Wl)|now apply follower_post].
    - (* sup *)
      destruct Hw as (_ & _ & _ & _ & Wl). intros x y H Q. apply adj_app in H. destruct H as [H|[H|[_ (b' & E)]]].
      + now apply (IHs _ Wl x y).
      + exfalso. now apply (adj_single x y (TSup v)).
      + inversion E; subst. unfold trig. simpl. apply follower_nt. apply sup_follower.
  Qed.

  (** every input in which a quiet token (the placeholder, a constant, a postfix constant operator, a superscript
      exponent) is directly followed by a trigger token (an opening bracket, a function name, a literal) is rejected *)
  Theorem quiet_then_trigger_rejected (ts : list tok) x y :
    adj x y ts -> quiet x = true -> trig y = true -> parse T ph ts = Err.
  Proof.
    intros A Q Tr. destruct (parse T ph ts) as [n| | |] eqn:E; [|reflexivity| |].
    - exfalso. apply parser_sound in E. destruct E as (s & Ws & Ep & _). subst ts.
      pose proof (no_quiet_before_trigger s 0 Ws x y A Q). congruence.
    - exfalso. eapply parse_not_panic; eauto.
    - exfalso. eapply parse_never_fuel; eauto.
  Qed.

  (** ** the other side: the placeholder and the constants never directly follow a token that ends an operand *)
  Definition atom_kind (k : kind) : bool :=
    match k with KAns => true | _ => match pt_const T k with Some _ => true | None => false end end.
  Definition atom (t : tok) : bool := match t with TK k => atom_kind k | _ => false end.
  Definition ender_kind (k : kind) : bool := is_closer k || quiet_kind k || kind_eqb k KExclamationMark.
  Definition ender (t : tok) : bool := match t with TK k => ender_kind k | _ => true end.
  Definition adj_tab_ok2 : bool :=
    forallb (fun k => (negb (leader k) || kind_eqb k KExclamationMark || negb (ender_kind k)) &&
                      (negb (follower k) || negb (atom_kind k)) && (negb (atom_kind k) || negb (pt_trigger T k))) all_kinds.
  Hypothesis TOK2 : adj_tab_ok2 = true.
  Hypothesis NB : pt_infix T KExclamationMark = None.
  Hypothesis NO : pt_open T KExclamationMark = None.

  Lemma tok2 k : (leader k = true -> k <> KExclamationMark -> ender_kind k = false) /\
                 (follower k = true -> atom_kind k = false) /\ (atom_kind k = true -> pt_trigger T k = false).
  Proof.
    unfold adj_tab_ok2 in TOK2. rewrite forallb_forall in TOK2. specialize (TOK2 k (all_kinds_complete k)).
    apply andb_prop in TOK2 as [A C]. apply andb_prop in A as [A B]. repeat split.
    - intros L N. rewrite L in A. simpl in A. destruct (kind_eqb k KExclamationMark) eqn:E.
      + apply kind_eqb_eq in E. congruence.
      + simpl in A. now apply negb_true_iff in A.
    - intros F. rewrite F in B. simpl in B. now apply negb_true_iff in B.
    - intros H. rewrite H in C. simpl in C. now apply negb_true_iff in C.
  Qed.

  Definition clean2 (l : list tok) : Prop := forall x y, adj x y l -> atom y = true -> ender x = false.

  Lemma clean2_single (t : tok) : clean2 [t].
  Proof. intros x y H _. exfalso. now apply (adj_single x y t). Qed.
  Lemma clean2_app_follow (a : list tok) k : clean2 a -> follower k = true -> clean2 (a ++ [TK k]).
  Proof.
    intros Ca F x y H Q. apply adj_app in H. destruct H as [H|[H|[_ (b' & E)]]].
    - now apply (Ca x y).
    - exfalso. now apply (adj_single x y (TK k)).
    - inversion E; subst. change (atom_kind k = true) in Q. rewrite (proj1 (proj2 (tok2 k)) F) in Q. discriminate.
  Qed.
  Lemma clean2_cons_leader k (l : list tok) : leader k = true -> k <> KExclamationMark -> clean2 l -> clean2 (TK k :: l).
  Proof.
    intros L N C x y H Q. apply adj_cons in H. destruct H as [H|[E _]].
    - now apply (C x y).
    - subst x. simpl. now apply (proj1 (tok2 k)).
  Qed.
  Lemma clean2_app_mid (a b : list tok) k : clean2 a -> clean2 b -> follower k = true -> leader k = true -> k <> KExclamationMark -> clean2 (a ++ TK k :: b).
  Proof.
    intros Ca Cb F L N x y H Q. apply adj_app in H. destruct H as [H|[H|[_ (b' & E)]]].
    - now apply (Ca x y).
    - now apply (clean2_cons_leader k b L N Cb x y).
    - inversion E; subst. change (atom_kind k = true) in Q. rewrite (proj1 (proj2 (tok2 k)) F) in Q. discriminate.
  Qed.
  Lemma clean2_commas (ls : list (list tok)) : Forall clean2 ls -> clean2 (commas ls).
  Proof.
    induction 1 as [|l ls Hl Hls IH]; simpl.
    - intros x y H. exfalso. now apply (adj_nil x y).
    - destruct ls as [|l2 ls']; [exact Hl|].
      apply clean2_app_mid; auto using comma_follower, comma_leader. discriminate.
  Qed.
  Lemma atom_not_trigger y : atom y = true -> trig y = false.
  Proof. destruct y as [k| |]; simpl; try discriminate. unfold trig. simpl. apply (proj2 (proj2 (tok2 k))). Qed.
  Lemma starts_first (r : sx) y b' : print r = y :: b' -> starts_trigger T r = true -> trig y = true.
  Proof. intros E H. unfold starts_trigger in H. rewrite E in H. exact H. Qed.

  Theorem no_atom_after_ender : forall (s : sx) p, W p s -> clean2 (print s).
  Proof.
    induction s using sx_ind2; intros p Hw; simpl in Hw |- *.
    - apply clean2_single.
    - apply clean2_single.
    - apply clean2_single.
    - destruct Hw as (Hp & _ & Ho & We & _).
      apply clean2_cons_leader; [now apply leader_open| |].
      + intros ->. congruence.
      + apply clean2_app_follow; [now apply (IHs 0)|now apply closer_follower].
    - destruct Hw as (_ & Wa & _). apply clean2_cons_leader; [apply leader_fn|discriminate|]. apply clean2_cons_leader; [apply lparen_leader|discriminate|].
      apply clean2_app_follow; [now apply (IHs 0)|apply rparen_follower].
    - destruct Hw as (_ & Wa & _ & Wb & _). apply clean2_cons_leader; [apply leader_fn|discriminate|]. apply clean2_cons_leader; [apply lparen_leader|discriminate|].
      apply clean2_app_mid; auto using comma_follower, comma_leader; [now apply (IHs1 0)| |discriminate].
      apply clean2_app_follow; [now apply (IHs2 0)|apply rparen_follower].
    - destruct Hw as (_ & _ & Hall). apply clean2_cons_leader; [apply leader_fn|discriminate|]. apply clean2_cons_leader; [apply lparen_leader|discriminate|].
      apply clean2_app_follow; [|apply rparen_follower]. apply clean2_commas.
      revert Hall. induction H as [|x xs Hx Hxs IH]; intros Hall; simpl; constructor.
      + destruct Hall as (Wx & _ & _). now apply (Hx 0).
      + apply IH. now destruct Hall as (_ & _ & R).
    - destruct Hw as (_ & We). apply clean2_cons_leader; [reflexivity|discriminate|]. now apply (IHs _ We).
    - destruct Hw as (_ & We). apply clean2_cons_leader; [reflexivity|discriminate|]. now apply (IHs _ We).
    - (* juxt: the right factor starts with a trigger, which is never an atom *)
      destruct Hw as (Ca & Wa & St & Wr & _). intros x y H Q. apply adj_app in H. destruct H as [H|[H|[_ (b' & E)]]].
      + now apply (IHs1 0 Wa x y).
      + now apply (IHs2 _ Wr x y).
      + pose proof (starts_first s2 y b' E St) as Ty. rewrite (atom_not_trigger y Q) in Ty. discriminate.
    - destruct Hw as ((b & lvl & Hi) & _ & _ & _ & Wl & Wr).
      assert (Ni : pt_infix T k <> None) by congruence.
      apply clean2_app_mid; auto using follower_infix, leader_infix; [now apply (IHs1 _ Wl)|now apply (IHs2 _ Wr)|].
      intros ->. congruence.
    - (* fact *)
      destruct Hw as (_ & _ & _ & _ & _ & Wl). apply clean2_app_follow; [now apply (IHs _ Wl)|apply bang_follower].
    - (* fact juxt: ! is followed by a trigger, never by an atom *)
      destruct Hw as (_ & _ & _ & _ & _ & Wl & St & Wr). intros x y H Q. apply adj_app in H. destruct H as [H|[H|[_ (b' & E)]]].
      + now apply (IHs1 _ Wl x y).
      + apply adj_cons in H. destruct H as [H|[_ (l' & E)]].
        * now apply (IHs2 _ Wr x y).
        * pose proof (starts_first s2 y l' E St) as Ty. rewrite (atom_not_trigger y Q) in Ty. discriminate.
      + inversion E; subst. change (atom_kind KExclamationMark = true) in Q. rewrite (proj1 (proj2 (tok2 KExclamationMark)) bang_follower) in Q. discriminate.
    - destruct Hw as (_ & _ & Hp & _ & _ & _ & Wl). apply clean2_app_follow; [now apply (IHs _ Wl)|now apply follower_post].
    - destruct Hw as (_ & _ & _ & _ & Wl). intros x y H Q. apply adj_app in H. destruct H as [H|[H|[_ (b' & E)]]].
      + now apply (IHs _ Wl x y).
      + exfalso. now apply (adj_single x y (TSup v)).
      + inversion E; subst. discriminate.
  Qed.

  (** every input in which the placeholder or a constant directly follows a token that ends an operand (a literal, a
      closing bracket, the placeholder, a constant, a postfix operator, a superscript exponent or !) is rejected *)
  Theorem ender_then_atom_rejected (ts : list tok) x y :
    adj x y ts -> ender x = true -> atom y = true -> parse T ph ts = Err.
  Proof.
    intros A Q Tr. destruct (parse T ph ts) as [n| | |] eqn:E; [|reflexivity| |].
    - exfalso. apply parser_sound in E. destruct E as (s & Ws & Ep & _). subst ts.
      pose proof (no_atom_after_ender s 0 Ws x y A Tr). congruence.
    - exfalso. eapply parse_not_panic; eauto.
    - exfalso. eapply parse_never_fuel; eauto.
  Qed.
  (** ** a literal is never directly followed by a literal (tables whose Num arm rejects it) *)
  Definition isnum (t : tok) : bool := match t with TNum _ => true | _ => false end.
  Definition clean3 (l : list tok) : Prop := forall x y, adj x y l -> isnum x = true -> isnum y = true -> False.

  Lemma clean3_single (t : tok) : clean3 [t].
  Proof. intros x y H _ _. now apply (adj_single x y t). Qed.
  Lemma clean3_cons (t : tok) (l : list tok) : isnum t = false -> clean3 l -> clean3 (t :: l).
  Proof.
    intros N C x y H Qx Qy. apply adj_cons in H. destruct H as [H|[E _]].
    - now apply (C x y).
    - subst x. congruence.
  Qed.
  Lemma clean3_app_last (a : list tok) (t : tok) : clean3 a -> isnum t = false -> clean3 (a ++ [t]).
  Proof.
    intros Ca N x y H Qx Qy. apply adj_app in H. destruct H as [H|[H|[_ (b' & E)]]].
    - now apply (Ca x y).
    - now apply (adj_single x y t).
    - inversion E; subst. congruence.
  Qed.
  Lemma clean3_app_mid (a b : list tok) (t : tok) : clean3 a -> clean3 b -> isnum t = false -> clean3 (a ++ t :: b).
  Proof.
    intros Ca Cb N x y H Qx Qy. apply adj_app in H. destruct H as [H|[H|[_ (b' & E)]]].
    - now apply (Ca x y).
    - now apply (clean3_cons t b N Cb x y).
    - inversion E; subst. congruence.
  Qed.
  Lemma clean3_commas (ls : list (list tok)) : Forall clean3 ls -> clean3 (commas ls).
  Proof.
    induction 1 as [|l ls Hl Hls IH]; simpl.
    - intros x y H. exfalso. now apply (adj_nil x y).
    - destruct ls as [|l2 ls']; [exact Hl|]. apply clean3_app_mid; auto.
  Qed.

  Hypothesis NN : pt_numnum T = false.

  Theorem no_num_after_num : forall (s : sx) p, W p s -> clean3 (print s).
  Proof.
    induction s using sx_ind2; intros p Hw; simpl in Hw |- *.
    - apply clean3_single.
    - apply clean3_single.
    - apply clean3_single.
    - destruct Hw as (_ & _ & _ & We & _). apply clean3_cons; [reflexivity|]. apply clean3_app_last; [now apply (IHs 0)|reflexivity].
    - destruct Hw as (_ & Wa & _). apply clean3_cons; [reflexivity|]. apply clean3_cons; [reflexivity|].
      apply clean3_app_last; [now apply (IHs 0)|reflexivity].
    - destruct Hw as (_ & Wa & _ & Wb & _). apply clean3_cons; [reflexivity|]. apply clean3_cons; [reflexivity|].
      apply clean3_app_mid; [now apply (IHs1 0)| |reflexivity]. apply clean3_app_last; [now apply (IHs2 0)|reflexivity].
    - destruct Hw as (_ & _ & Hall). apply clean3_cons; [reflexivity|]. apply clean3_cons; [reflexivity|].
      apply clean3_app_last; [|reflexivity]. apply clean3_commas.
      revert Hall. induction H as [|x xs Hx Hxs IH]; intros Hall; simpl; constructor.
      + destruct Hall as (Wx & _ & _). now apply (Hx 0).
      + apply IH. now destruct Hall as (_ & _ & R).
    - destruct Hw as (_ & We). apply clean3_cons; [reflexivity|]. now apply (IHs _ We).
    - destruct Hw as (_ & We). apply clean3_cons; [reflexivity|]. now apply (IHs _ We).
    - (* juxt: a literal on the left is never followed by a literal *)
      destruct Hw as (Ca & Wa & St & Wr & Hj). intros x y H Qx Qy. apply adj_app in H. destruct H as [H|[H|[(a' & Ea) (b' & Eb)]]].
      + now apply (IHs1 0 Wa x y).
      + now apply (IHs2 _ Wr x y).
      + destruct s1; try discriminate; simpl in Ea.
        * rewrite Eb in Hj. simpl in Hj. rewrite NN in Hj. destruct y; simpl in *; discriminate.
        * change (TK k :: print s1 ++ [TK (closer T k)]) with ((TK k :: print s1) ++ [TK (closer T k)]) in Ea.
          apply app_inj_tail in Ea. destruct Ea as [_ <-]. discriminate.
        * change (TK (KFunc f) :: TK KLeftParen :: print s1 ++ [TK KRightParen]) with ((TK (KFunc f) :: TK KLeftParen :: print s1) ++ [TK KRightParen]) in Ea.
          apply app_inj_tail in Ea. destruct Ea as [_ <-]. discriminate.
        * replace (TK (KFunc f) :: TK KLeftParen :: print s1_1 ++ TK KComma :: print s1_2 ++ [TK KRightParen])
            with ((TK (KFunc f) :: TK KLeftParen :: print s1_1 ++ TK KComma :: print s1_2) ++ [TK KRightParen]) in Ea
            by (simpl; rewrite <- app_assoc; reflexivity).
          apply app_inj_tail in Ea. destruct Ea as [_ <-]. discriminate.
        * replace (TK (KFunc f) :: TK KLeftParen :: commas (map print args) ++ [TK KRightParen])
            with ((TK (KFunc f) :: TK KLeftParen :: commas (map print args)) ++ [TK KRightParen]) in Ea by reflexivity.
          apply app_inj_tail in Ea. destruct Ea as [_ <-]. discriminate.
    - destruct Hw as (_ & _ & _ & _ & Wl & Wr). apply clean3_app_mid; [now apply (IHs1 _ Wl)|now apply (IHs2 _ Wr)|reflexivity].
    - destruct Hw as (_ & _ & _ & _ & _ & Wl). apply clean3_app_last; [now apply (IHs _ Wl)|reflexivity].
    - destruct Hw as (_ & _ & _ & _ & _ & Wl & _ & Wr). apply clean3_app_mid; [now apply (IHs1 _ Wl)|now apply (IHs2 _ Wr)|reflexivity].
    - destruct Hw as (_ & _ & _ & _ & _ & _ & Wl). apply clean3_app_last; [now apply (IHs _ Wl)|reflexivity].
    - destruct Hw as (_ & _ & _ & _ & Wl). apply clean3_app_last; [now apply (IHs _ Wl)|reflexivity].
  Qed.

  (** every input in which a literal token is directly followed by a literal token (`.5.5`, `1.5.5`, `2ii`) is rejected *)
  Theorem num_then_num_rejected (ts : list tok) a b :
    adj (TNum a) (TNum b) ts -> parse T ph ts = Err.
  Proof.
    intros A. destruct (parse T ph ts) as [n| | |] eqn:E; [|reflexivity| |].
    - exfalso. apply parser_sound in E. destruct E as (s & Ws & Ep & _). subst ts.
      exact (no_num_after_num s 0 Ws _ _ A eq_refl eq_refl).
    - exfalso. eapply parse_not_panic; eauto.
    - exfalso. eapply parse_never_fuel; eauto.
  Qed.
End Adjacent.
