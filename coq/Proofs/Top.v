(** From token-level grammar theorems to the public entry points. *)
From Coq Require Import List Bool Arith NArith Lia String Ascii.
From SC Require Import Base.Res Lang.Syntax Lang.Lexer Lang.Literal Lang.Parser Eval.Run
  Spec.Surface Proofs.ParserRel Proofs.Grammar.
Import ListNotations.

(** ASCII text as code points (for keyword statements) *)
Definition s2n (s : string) : list N := map N_of_ascii (list_ascii_of_string s).

Section Top.
  Context {V : Type}.
  Variable LT : lextab.
  Variable conv : lit -> option V.
  Variable PT : ptab V.
  Variable ev : node V -> res V.
  Hypothesis eof_not_trigger : pt_trigger PT KEof = false.
  Hypothesis num_trigger : pt_numnum PT || pt_trigger PT KNum = true.

  (** Ok only if the whole input (after white-space removal) lexes to the printed form of one
      well-formed surface tree, and the value is that of its tree *)
  Theorem ok_implies_wellformed s p v :
    run LT conv PT ev s p = Ok v ->
    exists sx, W PT 0 sx /\ tokens_of LT conv s = Some (print PT sx) /\ ev (desugar PT p sx) = Ok v.
  Proof.
    unfold run, ast_of. destruct (tokens_of LT conv s) as [ts|] eqn:Et; simpl; [|discriminate].
    destruct (parse PT p ts) as [a| | |] eqn:Ep; simpl; try discriminate. intros Hv.
    destruct (parser_sound PT p ts a Ep) as (sx & Ws & <- & <- & _). eauto.
  Qed.

  (** conversely every well-formed expression is evaluated as its tree says *)
  Theorem wellformed_evaluates s p sx :
    W PT 0 sx -> tokens_of LT conv s = Some (print PT sx) ->
    run LT conv PT ev s p = ev (desugar PT p sx).
  Proof.
    intros Ws Et. unfold run, ast_of. rewrite Et.
    rewrite (parser_complete PT p num_trigger sx Ws (fun _ => eof_not_trigger)). reflexivity.
  Qed.

  (** anything that is not the printed form of a well-formed tree is rejected *)
  Theorem not_wellformed_rejected s p ts :
    tokens_of LT conv s = Some ts -> (forall sx, W PT 0 sx -> print PT sx <> ts) ->
    forall v, run LT conv PT ev s p <> Ok v.
  Proof.
    intros Et Hn v Hr. destruct (ok_implies_wellformed s p v Hr) as (sx & Ws & Et' & _).
    rewrite Et in Et'. inversion Et'. eapply Hn; eauto.
  Qed.

  Theorem lex_error_rejected s p : tokens_of LT conv s = None -> run LT conv PT ev s p = Err.
  Proof. intros Et. unfold run, ast_of. now rewrite Et. Qed.

  (** the tree does not depend on the placeholder except at the [@] leaves *)
  Theorem parse_parametric_in_placeholder ts p a :
    parse PT p ts = Ok a ->
    exists sx, a = desugar PT p sx /\ forall p', parse PT p' ts = Ok (desugar PT p' sx).
  Proof.
    intros Hp. destruct (parser_sound PT p ts a Hp) as (sx & Ws & <- & <- & Hf).
    exists sx. split; [reflexivity|]. intros p'. now apply parser_complete.
  Qed.

  (** white space: the result only depends on the stripped text *)
  Theorem strip_invariant s s' p : strip s = strip s' -> run LT conv PT ev s p = run LT conv PT ev s' p.
  Proof. intros E. unfold run, ast_of, tokens_of. now rewrite E. Qed.
End Top.

Lemma strip_app a b : strip (a ++ b) = strip a ++ strip b.
Proof. unfold strip. apply filter_app. Qed.
Lemma strip_ws c : is_ws c = true -> strip [c] = [].
Proof. intros H. unfold strip. simpl. now rewrite H. Qed.
(** inserting a white-space character anywhere does not change the stripped text *)
Lemma strip_insert a c b : is_ws c = true -> strip (a ++ c :: b) = strip (a ++ b).
Proof. intros H. rewrite !strip_app. change (c :: b) with ([c] ++ b). rewrite strip_app, (strip_ws c H). reflexivity. Qed.
Lemma strip_idem s : strip (strip s) = strip s.
Proof.
  unfold strip. induction s as [|c s IH]; simpl; [reflexivity|].
  destruct (is_ws c) eqn:E; simpl; [exact IH|]. rewrite E. simpl. now rewrite IH.
Qed.
