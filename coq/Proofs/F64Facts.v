(** eval_f64 on the IEEE fragment of C05 is total and node-wise IEEE arithmetic. *)
From Coq Require Import List ZArith Bool.
From SC Require Import Base.Res Base.F64 Base.Oracle Lang.Syntax Eval.Common Eval.EvalF64.
Import ListNotations.

Definition ieee_un (u : unop) : bool :=
  match u with UNegative | UAbs | UFloor | UCeil | UTruncate | URound | USqrt => true | _ => false end.
Definition ieee_bin (b : binop) : bool :=
  match b with BAdd | BSubtract | BMultiply | BDivide | BModulo | BPow => true | _ => false end.
Fixpoint ieee_scope (a : node f64) : bool :=
  match a with
  | NNum _ => true
  | NUn u x => ieee_un u && ieee_scope x
  | NBin b x y => ieee_bin b && ieee_scope x && ieee_scope y
  | NAgg _ _ => false
  end.

Section Denote.
  Variable L : libm.
  (** the reference: apply the IEEE-754 / C-library operation at every node *)
  Fixpoint denoteF (a : node f64) : f64 :=
    match a with
    | NNum v => v
    | NUn u x =>
        let v := denoteF x in
        match u with
        | UNegative => fneg v            (* sign flip *)
        | UAbs => fabs v
        | UFloor => ffloor v | UCeil => fceil v | UTruncate => ftrunc v
        | URound => fround v             (* ties away from zero *)
        | USqrt => fsqrt v
        | _ => fnan
        end
    | NBin b x y =>
        let v := denoteF x in let w := denoteF y in
        match b with
        | BAdd => fadd v w | BSubtract => fsub v w | BMultiply => fmul v w | BDivide => fdiv v w
        | BModulo => fmod v w            (* C fmod *)
        | BPow => m2 L MPow v w          (* C pow *)
        | _ => fnan
        end
    | NAgg _ _ => fnan
    end.

  Theorem eval_f64_ieee a : ieee_scope a = true -> eval_f64 L a = Ok (denoteF a).
  Proof.
    induction a as [v|u a IH|b a1 a2 IH1 IH2|g args IH] using node_ind2; simpl; intros S.
    - reflexivity.
    - apply andb_prop in S. destruct S as [Su Sa]. rewrite (IH Sa). simpl. destruct u; try discriminate; reflexivity.
    - apply andb_prop in S. destruct S as [S S2]. apply andb_prop in S. destruct S as [Sb S1].
      rewrite (IH1 S1), (IH2 S2). simpl. destruct b; try discriminate; reflexivity.
    - discriminate.
  Qed.
End Denote.
