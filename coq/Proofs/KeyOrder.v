(** The sort key of [f64::total_cmp] orders the doubles numerically: smaller key, smaller (or equal) value.
    Hence the sorted vector used by eval_f64's [med] is sorted by value, and its middle is a true median. *)
From Coq Require Import List ZArith Bool Lia Floats.SpecFloat.
From Flocq Require Import Core.Zaux Core.Digits IEEE754.Binary IEEE754.Bits IEEE754.BinarySingleNaN.
From SC Require Import Base.F64.
Local Open Scope Z_scope.

(** magnitude part of the bit pattern *)
Definition mag (x : f64) : Z :=
  match x with
  | B754_zero _ => 0
  | B754_infinity _ => 2047 * 2 ^ 52
  | B754_nan => 2047 * 2 ^ 52 + 2 ^ 51
  | B754_finite _ m e _ => (e + 1074) * 2 ^ 52 + Zpos m
  end.
Definition sgn (x : f64) : bool :=
  match x with B754_zero s | B754_infinity s | B754_finite s _ _ _ => s | B754_nan => false end.

Lemma bounded_facts m e : SpecFloat.bounded 53 1024 m e = true ->
  -1074 <= e <= 971 /\ 0 < Zpos m < 2 ^ 53 /\ (Zpos m < 2 ^ 52 -> e = -1074).
Proof.
  intros H. apply andb_prop in H. destruct H as [Hc He].
  apply Z.leb_le in He. unfold canonical_mantissa in Hc. apply Zeq_bool_eq in Hc.
  rewrite Zpos_digits2_pos in Hc. unfold fexp, emin in Hc.
  pose proof (Zdigits_correct radix2 (Zpos m)) as Hd. simpl Z.abs in Hd.
  set (d := Zdigits radix2 (Zpos m)) in *.
  assert (Hd0 : 0 < d) by (apply Zdigits_gt_0; discriminate).
  change (radix_val radix2) with 2 in Hd.
  assert (P1 : 2 ^ (d - 1) <= Zpos m < 2 ^ d) by exact Hd.
  split; [lia|]. split.
  - split; [lia|]. assert (d <= 53) by lia. apply Z.lt_le_trans with (2 ^ d); [lia|]. apply Z.pow_le_mono_r; lia.
  - intros Hm. destruct (Z_lt_le_dec d 53) as [L|G]; [lia|].
    assert (2 ^ 52 <= 2 ^ (d - 1)) by (apply Z.pow_le_mono_r; lia). lia.
Qed.

Lemma bits_mag (x : f64) : bits_of_f64 x = (if sgn x then 2 ^ 63 else 0) + mag x.
Proof.
  destruct x as [s|s| |s m e H]; unfold bits_of_f64, bits_of_b64; simpl BSN2B.
  - destruct s; reflexivity.
  - destruct s; reflexivity.
  - reflexivity.
  - destruct (bounded_facts m e H) as (He & Hm & Hs).
    unfold bits_of_binary_float. change (2 ^ 52) with 4503599627370496 in *.
    destruct (Zle_bool 0 (Zpos m - 4503599627370496)) eqn:E.
    + apply Zle_bool_imp_le in E. unfold join_bits, mag, sgn. change (emin 53 1024) with (-1074).
      change (2 ^ 52) with 4503599627370496. change (2 ^ 11) with 2048. change (2 ^ 63) with 9223372036854775808.
      rewrite Z.shiftl_mul_pow2 by lia. change (2 ^ 52) with 4503599627370496.
      replace (emin (52 + 1) (2 ^ (11 - 1))) with (-1074) by reflexivity. destruct s; lia.
    + apply Z.leb_gt in E. assert (e = -1074) by (apply Hs; lia). subst e.
      unfold join_bits, mag, sgn. rewrite Z.shiftl_mul_pow2 by lia.
      change (2 ^ 52) with 4503599627370496. change (2 ^ 11) with 2048. change (2 ^ 63) with 9223372036854775808.
      destruct s; lia.
Qed.

Lemma mag_range (x : f64) : x <> B754_nan -> 0 <= mag x <= 2047 * 4503599627370496.
Proof.
  destruct x as [s|s| |s m e H]; cbn [mag]; intros N; try congruence; change (2 ^ 52) with 4503599627370496; try lia.
  destruct (bounded_facts m e H) as (He & Hm & _). change (2 ^ 53) with 9007199254740992 in *. lia.
Qed.

Lemma total_key_mag (x : f64) : x <> B754_nan -> total_key x = if sgn x then - 1 - mag x else mag x.
Proof.
  intros N. unfold total_key. rewrite bits_mag. pose proof (mag_range x N) as R.
  change (2 ^ 63) with 9223372036854775808.
  destruct (sgn x).
  - destruct (9223372036854775808 + mag x <? 9223372036854775808) eqn:E; [apply Z.ltb_lt in E; lia|lia].
  - rewrite Z.add_0_l. destruct (mag x <? 9223372036854775808) eqn:E; [reflexivity|apply Z.ltb_ge in E; lia].
Qed.

(** numerically [x <= y] (both not NaN; infinities included; the two zeros are equal) *)
Definition num_le (x y : f64) : Prop := Bcompare x y = Some Lt \/ Bcompare x y = Some Eq.

Ltac fin_facts :=
  repeat match goal with
         | H : bounded _ _ ?m ?e = true |- _ =>
             let A := fresh "A" in let B := fresh "B" in let C := fresh "C" in
             destruct (bounded_facts m e H) as (A & B & C); clear H
         end;
  change (2 ^ 52) with 4503599627370496 in *; change (2 ^ 53) with 9007199254740992 in *.

Ltac decide_le := first [left; reflexivity | right; reflexivity | exfalso; lia].

Theorem key_le_num (x y : f64) : x <> B754_nan -> y <> B754_nan -> total_key x <= total_key y -> num_le x y.
Proof.
  intros Nx Ny. rewrite (total_key_mag x Nx), (total_key_mag y Ny). unfold num_le, Bcompare.
  destruct x as [s1|s1| |s1 m1 e1 H1]; destruct y as [s2|s2| |s2 m2 e2 H2]; try congruence; clear Nx Ny;
    cbn [B2SF SFcompare mag sgn]; fin_facts; intros K; destruct s1, s2; try decide_le.
  - (* both negative: larger magnitude is smaller *)
    destruct (Z.compare_spec e1 e2) as [E|E|E]; try decide_le.
    subst e2. change (Pos.compare_cont Eq m1 m2) with (Pos.compare m1 m2).
    destruct (Pos.compare_spec m1 m2) as [F|F|F]; cbn [CompOpp]; decide_le.
  - destruct (Z.compare_spec e1 e2) as [E|E|E]; try decide_le.
    subst e2. change (Pos.compare_cont Eq m1 m2) with (Pos.compare m1 m2).
    destruct (Pos.compare_spec m1 m2) as [F|F|F]; decide_le.
Qed.

(** conversely: numerically smaller, smaller key *)
Theorem num_lt_key (x y : f64) : Bcompare x y = Some Lt -> total_key x < total_key y.
Proof.
  intros H. assert (Nx : x <> B754_nan) by (intros ->; discriminate H).
  assert (Ny : y <> B754_nan) by (intros ->; destruct x; discriminate H).
  rewrite (total_key_mag x Nx), (total_key_mag y Ny). revert H. unfold Bcompare.
  destruct x as [s1|s1| |s1 m1 e1 H1]; destruct y as [s2|s2| |s2 m2 e2 H2]; try congruence; clear Nx Ny;
    cbn [B2SF SFcompare mag sgn]; fin_facts; destruct s1, s2; intros K; try discriminate K; try lia.
  - destruct (Z.compare_spec e1 e2) as [E|E|E]; try discriminate K; try lia.
    subst e2. change (Pos.compare_cont Eq m1 m2) with (Pos.compare m1 m2) in K.
    destruct (Pos.compare_spec m1 m2) as [F|F|F]; try discriminate K. lia.
  - destruct (Z.compare_spec e1 e2) as [E|E|E]; try discriminate K; try lia.
    subst e2. change (Pos.compare_cont Eq m1 m2) with (Pos.compare m1 m2) in K.
    destruct (Pos.compare_spec m1 m2) as [F|F|F]; try discriminate K. lia.
Qed.
