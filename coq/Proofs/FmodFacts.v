(** The [fmod] of Base/F64.v (Rust's [%] on f64, C fmod) is the mathematical remainder
    x - trunc(x / y) * y, computed exactly, with the sign of the dividend. *)
From Coq Require Import ZArith Reals Lia Lra Bool Floats.SpecFloat.
From Flocq Require Import Core.Core IEEE754.BinarySingleNaN.
From SC Require Import Base.F64 Proofs.NumberFrom.
Local Open Scope R_scope.

Lemma valid64' : Valid_exp fexp64.
Proof. apply (fexp_correct 53 1024 Hprec). Qed.
#[local] Existing Instance valid64'.

Lemma bounded_facts mx ex : bounded 53 1024 mx ex = true -> (Zpos mx < 2 ^ 53)%Z /\ (-1074 <= ex)%Z.
Proof.
  intros H. apply andb_prop in H as [H _]. apply Zeq_bool_eq in H.
  rewrite Zpos_digits2_pos in H. unfold fexp, emin in H.
  destruct (Zdigits_correct radix2 (Zpos mx)) as [_ Hd]. simpl Z.abs in Hd.
  split; [|lia].
  apply Z.lt_le_trans with (1 := Hd). change (Zpower radix2 (Zdigits radix2 (Z.pos mx))) with (2 ^ Zdigits radix2 (Z.pos mx))%Z.
  apply Z.pow_le_mono_r; lia.
Qed.

Lemma small_mantissa_format m e : (Z.abs m < 2 ^ 53)%Z -> (-1074 <= e)%Z -> generic_format radix2 fexp64 (F2R (Float radix2 m e)).
Proof.
  intros Hm He. apply generic_format_F2R. intros Nz. unfold cexp. rewrite mag_F2R_Zdigits by exact Nz.
  assert (Zdigits radix2 m <= 53)%Z by (apply Zdigits_le_Zpower; exact Hm).
  unfold fexp, emin. lia.
Qed.

Lemma bpow_split (a b : Z) : (b <= a)%Z -> IZR (2 ^ (a - b)) * bpow radix2 b = bpow radix2 a.
Proof.
  intros H. change 2%Z with (radix2 : Z). rewrite IZR_Zpower by lia. rewrite <- bpow_plus. f_equal. lia.
Qed.

Lemma trunc_pos_div (a b : Z) : (0 <= a)%Z -> (0 < b)%Z -> Ztrunc (IZR a / IZR b) = (a / b)%Z.
Proof.
  intros Ha Hb. rewrite Ztrunc_floor.
  - apply Zfloor_div. lia.
  - apply Rmult_le_pos; [now apply IZR_le|]. apply Rlt_le, Rinv_0_lt_compat. now apply IZR_lt.
Qed.

Section Fmod.
  Variables (sx sy : bool) (mx my : positive) (ex ey : Z).
  Hypothesis Hx : bounded 53 1024 mx ex = true.
  Hypothesis Hy : bounded 53 1024 my ey = true.
  Let x : f64 := B754_finite sx mx ex Hx.
  Let y : f64 := B754_finite sy my ey Hy.
  Let e := Z.min ex ey.
  Let a := (Zpos mx * 2 ^ (ex - e))%Z.
  Let b := (Zpos my * 2 ^ (ey - e))%Z.
  Let r := Z.rem a b.

  Lemma ab_pos : (0 < a)%Z /\ (0 < b)%Z.
  Proof. unfold a, b, e. split; apply Z.mul_pos_pos; try lia; apply Z.pow_pos_nonneg; lia. Qed.

  Lemma r_bounds : (0 <= r < b)%Z /\ (r <= a)%Z /\ (r < 2 ^ 53)%Z /\ r = (a - b * (a / b))%Z.
  Proof.
    destruct ab_pos as [Ha Hb]. unfold r.
    assert (H1 : (0 <= Z.rem a b < b)%Z) by (apply Z.rem_bound_pos; lia).
    assert (H2 : (Z.rem a b <= a)%Z) by (apply Z.rem_le; lia).
    assert (H4 : Z.rem a b = (a - b * (a / b))%Z).
    { rewrite Z.rem_mod_nonneg by lia. pose proof (Z.div_mod a b). lia. }
    repeat split; try lia.
    destruct (bounded_facts mx ex Hx) as [Mx _]. destruct (bounded_facts my ey Hy) as [My _].
    destruct (Z.le_ge_cases ex ey) as [L|L].
    - assert (a = Zpos mx) by (unfold a, e; rewrite Z.min_l by lia; rewrite Z.sub_diag; simpl; lia). lia.
    - assert (b = Zpos my) by (unfold b, e; rewrite Z.min_r by lia; rewrite Z.sub_diag; simpl; lia). lia.
  Qed.

  Lemma B2R_x : B2R64 x = (if sx then -1 else 1) * IZR a * bpow radix2 e.
  Proof.
    unfold x. cbn [B2R]. unfold F2R. cbn [Fnum Fexp]. unfold a. rewrite mult_IZR.
    rewrite <- (bpow_split ex e) by (unfold e; lia). destruct sx; cbn [cond_Zopp]; rewrite ?opp_IZR; ring.
  Qed.
  Lemma B2R_y : B2R64 y = (if sy then -1 else 1) * IZR b * bpow radix2 e.
  Proof.
    unfold y. cbn [B2R]. unfold F2R. cbn [Fnum Fexp]. unfold b. rewrite mult_IZR.
    rewrite <- (bpow_split ey e) by (unfold e; lia). destruct sy; cbn [cond_Zopp]; rewrite ?opp_IZR; ring.
  Qed.

  Lemma quotient : Ztrunc (B2R64 x / B2R64 y) = ((if Bool.eqb sx sy then 1 else -1) * (a / b))%Z.
  Proof.
    destruct ab_pos as [Ha Hb]. rewrite B2R_x, B2R_y.
    assert (Nb : IZR b <> 0) by (apply not_0_IZR; lia).
    assert (Ne : bpow radix2 e <> 0) by (apply Rgt_not_eq, bpow_gt_0).
    destruct sx, sy; simpl Bool.eqb; cbv iota.
    - replace (-1 * IZR a * bpow radix2 e / (-1 * IZR b * bpow radix2 e)) with (IZR a / IZR b) by (field; auto).
      rewrite trunc_pos_div by lia. lia.
    - replace (-1 * IZR a * bpow radix2 e / (1 * IZR b * bpow radix2 e)) with (- (IZR a / IZR b)) by (field; auto).
      rewrite Ztrunc_opp, trunc_pos_div by lia. lia.
    - replace (1 * IZR a * bpow radix2 e / (-1 * IZR b * bpow radix2 e)) with (- (IZR a / IZR b)) by (field; auto).
      rewrite Ztrunc_opp, trunc_pos_div by lia. lia.
    - replace (1 * IZR a * bpow radix2 e / (1 * IZR b * bpow radix2 e)) with (IZR a / IZR b) by (field; auto).
      rewrite trunc_pos_div by lia. lia.
  Qed.

  Theorem fmod_finite_spec :
    B2R64 (fmod x y) = B2R64 x - IZR (Ztrunc (B2R64 x / B2R64 y)) * B2R64 y /\
    is_finite (fmod x y) = true /\ Bsign (fmod x y) = sx.
  Proof.
    destruct ab_pos as [Ha Hb]. destruct r_bounds as [[R0 Rb] [Ra [R53 Rdef]]].
    destruct (bounded_facts mx ex Hx) as [_ Ex]. destruct (bounded_facts my ey Hy) as [_ Ey].
    assert (He : (-1074 <= e)%Z) by (unfold e; lia).
    set (m := if sx then (- r)%Z else r).
    assert (Hm : (Z.abs m < 2 ^ 53)%Z) by (unfold m; destruct sx; lia).
    assert (Efm : fmod x y = binary_normalize 53 1024 Hprec Hemax mode_NE m e sx) by reflexivity.
    pose proof (binary_normalize_correct 53 1024 Hprec Hemax mode_NE m e sx) as H. cbv zeta in H.
    assert (Gen : generic_format radix2 fexp64 (F2R (Float radix2 m e))) by (now apply small_mantissa_format).
    rewrite round_generic in H by (auto with typeclass_instances).
    assert (Val : F2R (Float radix2 m e) = (if sx then -1 else 1) * IZR r * bpow radix2 e).
    { unfold F2R, m. simpl. destruct sx; [rewrite opp_IZR|]; ring. }
    rewrite Rlt_bool_true in H.
    - destruct H as [H1 [H2 H3]]. rewrite Efm. split; [|split; [exact H2|]].
      + unfold F64.prec, F64.emax in *. rewrite H1, Val, quotient, B2R_x, B2R_y. rewrite Rdef.
        rewrite minus_IZR, !mult_IZR. destruct sx, sy; simpl Bool.eqb; cbv iota; simpl IZR; ring.
      + unfold F64.prec, F64.emax in *. rewrite H3, Val.
        assert (P : 0 < bpow radix2 e) by apply bpow_gt_0.
        destruct (Z.eq_dec r 0) as [Z0|N0].
        * rewrite Z0. replace ((if sx then -1 else 1) * 0 * bpow radix2 e) with 0 by (destruct sx; ring).
          rewrite Rcompare_Eq by reflexivity. reflexivity.
        * assert (0 < IZR r) by (apply IZR_lt; lia).
          destruct sx.
          -- rewrite Rcompare_Lt; [reflexivity|]. nra.
          -- rewrite Rcompare_Gt; [reflexivity|]. nra.
    - rewrite Val. apply Rle_lt_trans with (Rabs (B2R64 x)); [|apply abs_B2R_lt_emax].
      rewrite B2R_x. assert (P : 0 < bpow radix2 e) by apply bpow_gt_0.
      assert (0 <= IZR r <= IZR a) by (split; apply IZR_le; lia).
      destruct sx; rewrite !Rabs_mult; rewrite ?Rabs_Ropp, ?(Rabs_pos_eq (bpow radix2 e)) by lra;
        rewrite ?(Rabs_pos_eq (IZR r)), ?(Rabs_pos_eq (IZR a)) by lra;
        (replace (Rabs (-1)) with 1 by (rewrite Rabs_left; lra)) || (replace (Rabs 1) with 1 by (rewrite Rabs_pos_eq; lra)); nra.
  Qed.
End Fmod.

(** the special cases are by definition: NaN operands, an infinite dividend and a zero divisor give NaN;
    a zero dividend or an infinite divisor give the dividend *)
Theorem fmod_special (x y : f64) :
  (is_nan x = true \/ is_nan y = true -> fmod x y = fnan) /\
  (is_finite x = false -> fmod x y = fnan) /\
  (forall s, y = B754_zero s -> fmod x y = fnan) /\
  (forall s, x = B754_zero s -> is_nan y = false -> (forall s', y <> B754_zero s') -> fmod x y = x) /\
  (forall s, is_finite x = true -> y = B754_infinity s -> fmod x y = x).
Proof.
  repeat split.
  - intros [H|H]; destruct x, y; try discriminate; reflexivity.
  - intros H; destruct x, y; try discriminate; reflexivity.
  - intros s ->. destruct x; reflexivity.
  - intros s -> Hn Hz. destruct y; try discriminate; try reflexivity. exfalso. eapply Hz. reflexivity.
  - intros s Hf ->. destruct x; try discriminate; reflexivity.
Qed.

(** all finite operands with a non-zero divisor *)
Theorem fmod_spec (x y : f64) :
  is_finite x = true -> is_finite y = true -> (forall s, y <> B754_zero s) ->
  B2R64 (fmod x y) = B2R64 x - IZR (Ztrunc (B2R64 x / B2R64 y)) * B2R64 y /\
  is_finite (fmod x y) = true /\ Bsign (fmod x y) = Bsign x.
Proof.
  intros Fx Fy Ny. destruct x as [sx|sx| |sx mx ex Hx]; try discriminate; destruct y as [sy|sy| |sy my ey Hy]; try discriminate.
  - exfalso. eapply Ny. reflexivity.
  - simpl. unfold Rdiv. rewrite Rmult_0_l, Ztrunc_IZR. repeat split; ring.
  - exfalso. eapply Ny. reflexivity.
  - apply fmod_finite_spec.
Qed.
