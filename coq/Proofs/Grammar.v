(** The two parser theorems, generic in the tables:
      parser_complete : W 0 s -> parse (print s) = Ok (desugar s)
      parser_sound    : parse ts = Ok n -> exists s, W 0 s /\ print s = ts /\ desugar s = n   *)
From Coq Require Import List Bool Arith Lia.
From SC Require Import Base.Res Lang.Syntax Lang.Parser Proofs.ParserRel Spec.Surface.
Import ListNotations.

Section Grammar.
  Context {V : Type}.
  Variable T : ptab V.
  Variable ph : V.
  Notation Run := (Run T ph).
  Notation sx := (@sx V).
  Notation print := (print T).
  Notation desugar := (desugar T ph).
  Notation W := (W T).
  Notation follows := (follows T).
  Notation follow_ok := (follow_ok T).
  Notation noabs := (noabs T).
  (* either literal-literal products exist (old tables), or a literal token triggers implicit_multiply *)
  Hypothesis Hnn : pt_numnum T || pt_trigger T KNum = true.

  Lemma print_cons s : exists t l, print s = t :: l.
  Proof.
    induction s using sx_ind2; simpl; eauto;
      try (destruct IHs as [t [l ->]]; simpl; eauto; fail);
      try (destruct IHs1 as [t [l ->]]; simpl; eauto).
  Qed.

  Lemma hdk_print_app s rest : hdk (print s ++ rest) = hdk (print s).
  Proof. destruct (print_cons s) as [t [l ->]]. reflexivity. Qed.

  (** a loop at level [q] stops in front of [rest] *)
  Lemma loop_stops q n rest :
    (match rest with [] => True | t :: _ => pt_prec T (kind_of t) <= q end) ->
    Run (CLoop q n) rest (n, rest).
  Proof.
    intros H. destruct rest as [|t rest'].
    - destruct (q <? pt_prec T KEof) eqn:E; [now apply RLoopEof|now apply RLoopStop].
    - apply RLoopStop. simpl. apply Nat.ltb_ge. exact H.
  Qed.

  Lemma impl_no n s rest :
    follows s rest -> opn s = true -> Run (CImpl n) rest (n, rest).
  Proof.
    intros F O. apply RImplNo. destruct rest as [|t rest']; simpl in *.
    - auto.
    - destruct F as [_ F]. auto.
  Qed.

  (** [follows] transfers along the right edge *)
  Lemma follows_noabs s rest q :
    follows s rest -> (forall k, noabs (pt_prec T k) s = true -> pt_prec T k <= q) ->
    match rest with [] => True | t :: _ => pt_prec T (kind_of t) <= q end.
  Proof. intros F H. destruct rest as [|t rest']; [trivial|]. destruct F as [F _]. now apply H. Qed.

  Definition delim_follows s k rest : delim_ok T s k -> follows s (TK k :: rest).
  Proof. intros [F _]. exact F. Qed.

  (** the argument list of a variadic call *)
  Lemma items_complete : forall (args : list sx) g ez acc rest res,
      Forall (fun s => forall p rest res, W p s -> follows s rest ->
                 Run (CLoop p (desugar s)) rest res -> Run (CGen p) (print s ++ rest) res) args ->
      args <> [] ->
      (acc = [] -> forall x xs, args = x :: xs -> hdk (print x) <> KRightParen) ->
      (fix all (l : list sx) : Prop :=
         match l with
         | [] => True
         | x :: xs => W 0 x /\ delim_ok T x (match xs with [] => KRightParen | _ => KComma end) /\ all xs
         end) args ->
      Run (CImpl (NAgg g (rev acc ++ map desugar args))) rest res ->
      Run (CItems g ez acc) (commas (map print args) ++ TK KRightParen :: rest) res.
  Proof.
    induction args as [|x xs IH]; intros g ez acc rest res HF Hne Hhd Hall HR; [congruence|].
    inversion HF as [|? ? Hx Hxs]; subst. destruct Hall as [Wx [Dx Hall]].
    destruct xs as [|y ys].
    - simpl. eapply RItemsLast.
      + intros Ha. rewrite hdk_print_app. eapply Hhd; eauto.
      + apply Hx; [exact Wx|apply delim_follows; exact Dx|].
        apply loop_stops. simpl. destruct Dx as [_ ->]. lia.
      + simpl in HR. simpl. exact HR.
    - change (commas (map print (x :: y :: ys))) with (print x ++ TK KComma :: commas (map print (y :: ys))).
      rewrite <- app_assoc. simpl app.
      eapply RItemsMore.
      + intros Ha. rewrite hdk_print_app. eapply Hhd; eauto.
      + apply Hx; [exact Wx|apply delim_follows; exact Dx|].
        apply loop_stops. simpl. destruct Dx as [_ ->]. lia.
      + apply IH; auto; try discriminate.
        simpl rev. rewrite <- app_assoc. exact HR.
  Qed.

  Lemma states : forall s,
      (forall p rest res, W p s -> follows s rest ->
         Run (CLoop p (desugar s)) rest res -> Run (CGen p) (print s ++ rest) res)
      /\ (capable s = true -> forall rest res, W 0 s -> numjuxt_ok T s (hdk rest) = true ->
            Run (CImpl (desugar s)) rest res -> Run CPrim (print s ++ rest) res).
  Proof.
    induction s as [v| |k|k e IHe|f a IHa|f a b IHa IHb|f args IHargs|e IHe|e IHe|a r IHa IHr
                   |k l r IHl IHr|l IHl|l r IHl IHr|k l IHl|l v IHl] using sx_ind2.
    - (* SNum *) split.
      + intros p rest res _ F HL. simpl. eapply RGen; [|exact HL].
        apply RPrimNum; [|eapply impl_no; eauto].
        destruct (pt_numnum T) eqn:En; [reflexivity|]. simpl in Hnn |- *.
        destruct rest as [|t rest']; [reflexivity|]. simpl in F. destruct F as [_ F]. specialize (F eq_refl).
        simpl. destruct (kind_eqb (kind_of t) KNum) eqn:Ek; [|reflexivity].
        apply kind_eqb_eq in Ek. rewrite Ek in F. congruence.
      + intros _ rest res _ Hj HI. simpl. apply RPrimNum; [exact Hj|exact HI].
    - (* SAns *) split; [|discriminate].
      intros p rest res Wp F HL. simpl in *. eapply RGen; [|exact HL]. now apply RPrimAns.
    - (* SConst *) split; [|discriminate].
      intros p rest res [Hp Hc] F HL. simpl in *. destruct (pt_const T k) eqn:E; [|congruence].
      eapply RGen; [|exact HL]. now apply RPrimConst.
    - (* SGroup *)
      assert (B : forall rest res, W 0 (SGroup k e) -> Run (CImpl (desugar (SGroup k e))) rest res ->
                    Run CPrim (print (SGroup k e) ++ rest) res).
      { intros rest res (Hp & Hc & Ho & We & De) HI. simpl in HI |- *. rewrite <- app_assoc. simpl.
        unfold closer, wrapper in *. destruct (pt_open T k) as [[c w]|] eqn:Eo; [|congruence].
        eapply RPrimOpen; [exact Hp|exact Hc|exact Eo| |exact HI].
        apply (proj1 IHe); [exact We|apply delim_follows; exact De|].
        apply loop_stops. simpl. destruct De as [_ ->]. lia. }
      split; [|intros _ rest res Ws _; now apply B].
      intros p rest res Wp F HL. eapply RGen; [|exact HL].
      apply B; [exact Wp|]. eapply impl_no; eauto.
    - (* SCall1 *)
      assert (B : forall rest res, W 0 (SCall1 f a) -> Run (CImpl (desugar (SCall1 f a))) rest res ->
                    Run CPrim (print (SCall1 f a) ++ rest) res).
      { intros rest res ([u Hu] & Wa & Da) HI. simpl in *. rewrite Hu in HI. rewrite <- app_assoc. simpl.
        eapply RPrimF1; eauto. eapply RArg1; [|exact HI].
        apply (proj1 IHa); [exact Wa|apply delim_follows; exact Da|].
        apply loop_stops. simpl. destruct Da as [_ ->]. lia. }
      split; [|intros _ rest res Ws _; now apply B].
      intros p rest res Wp F HL. eapply RGen; [|exact HL]. apply B; [exact Wp|]. eapply impl_no; eauto.
    - (* SCall2 *)
      assert (B : forall rest res, W 0 (SCall2 f a b) -> Run (CImpl (desugar (SCall2 f a b))) rest res ->
                    Run CPrim (print (SCall2 f a b) ++ rest) res).
      { intros rest res ([o Ho] & Wa & Da & Wb & Db) HI. simpl in *. rewrite Ho in HI.
        rewrite <- app_assoc. simpl. rewrite <- app_assoc. simpl.
        eapply RPrimF2; eauto. eapply RArg2a.
        - apply (proj1 IHa); [exact Wa|apply delim_follows; exact Da|].
          apply loop_stops. simpl. destruct Da as [_ ->]. lia.
        - eapply RArg2b; [|exact HI].
          apply (proj1 IHb); [exact Wb|apply delim_follows; exact Db|].
          apply loop_stops. simpl. destruct Db as [_ ->]. lia. }
      split; [|intros _ rest res Ws _; now apply B].
      intros p rest res Wp F HL. eapply RGen; [|exact HL]. apply B; [exact Wp|]. eapply impl_no; eauto.
    - (* SCallN *)
      assert (B : forall rest res, W 0 (SCallN f args) -> Run (CImpl (desugar (SCallN f args))) rest res ->
                    Run CPrim (print (SCallN f args) ++ rest) res).
      { intros rest res ((g & ez & Hf & Hez) & Hhd & Hall) HI. simpl in *. rewrite Hf in HI.
        rewrite <- app_assoc. simpl.
        eapply RPrimFL; eauto.
        destruct args as [|x xs].
        - simpl. rewrite (Hez eq_refl). now apply RItemsEmpty.
        - apply items_complete; auto; try discriminate.
          eapply Forall_impl; [|exact IHargs]. intros s0 [H0 _]. exact H0. }
      split; [|intros _ rest res Ws _; now apply B].
      intros p rest res Wp F HL. eapply RGen; [|exact HL]. apply B; [exact Wp|]. eapply impl_no; eauto.
    - (* SNeg *) split; [|discriminate].
      intros p rest res [Hn We] F HL. simpl. eapply RGen; [|exact HL].
      apply RPrimNeg; [exact Hn|].
      apply (proj1 IHe); [exact We| |].
      + destruct rest as [|t rest']; simpl in *; [exact F|].
        destruct F as [F1 F2]. simpl in F1. apply andb_prop in F1. destruct F1 as [_ F1]. split; assumption.
      + apply loop_stops. destruct rest as [|t rest']; [trivial|]. destruct F as [F1 _]. simpl in F1.
        apply andb_prop in F1. destruct F1 as [F1 _]. now apply Nat.leb_le.
    - (* SPos *) split; [|discriminate].
      intros p rest res [Hn We] F HL. simpl.
      (* the operand is parsed by CGen neg_level and handed back as the primary *)
      eapply RGen; [|exact HL].
      apply RPrimPos; [exact Hn|].
      apply (proj1 IHe); [exact We| |].
      + destruct rest as [|t rest']; simpl in *; [exact F|].
        destruct F as [F1 F2]. simpl in F1. apply andb_prop in F1. destruct F1 as [_ F1]. split; assumption.
      + apply loop_stops. destruct rest as [|t rest']; [trivial|]. destruct F as [F1 _]. simpl in F1.
        apply andb_prop in F1. destruct F1 as [F1 _]. now apply Nat.leb_le.
    - (* SJuxt *) split; [|discriminate].
      intros p rest res (Ca & Wa & St & Wr & Hj) F HL. simpl. rewrite <- app_assoc.
      eapply RGen; [|exact HL].
      apply (proj2 IHa Ca); [exact Wa|rewrite hdk_print_app; exact Hj|].
      apply RImplYes.
      + rewrite hdk_print_app. exact St.
      + apply (proj1 IHr); [exact Wr| |].
        * destruct rest as [|t rest']; simpl in *; [exact F|].
          destruct F as [F1 F2]. simpl in F1. apply andb_prop in F1. destruct F1 as [_ F1]. split; assumption.
        * apply loop_stops. destruct rest as [|t rest']; [trivial|]. destruct F as [F1 _]. simpl in F1.
          apply andb_prop in F1. destruct F1 as [F1 _]. now apply Nat.leb_le.
    - (* SBin *) split; [|discriminate].
      intros p rest res ((b & lvl & Hi) & Hp & Nl & Ol & Wl & Wr) F HL. simpl. rewrite <- app_assoc. simpl.
      unfold rlevel in *. simpl in HL. rewrite Hi in *.
      apply (proj1 IHl); [exact Wl|split; assumption|].
      eapply RLoopBin; [apply Nat.ltb_lt; exact Hp|exact Hi| |exact HL].
      apply (proj1 IHr); [exact Wr| |].
      + destruct rest as [|t rest']; simpl in *; [exact F|].
        destruct F as [F1 F2]. simpl in F1. apply andb_prop in F1. destruct F1 as [_ F1]. split; assumption.
      + apply loop_stops. destruct rest as [|t rest']; [trivial|]. destruct F as [F1 _]. simpl in F1.
        unfold rlevel in F1. rewrite Hi in F1.
        apply andb_prop in F1. destruct F1 as [F1 _]. now apply Nat.leb_le.
    - (* SFact *) split; [|discriminate].
      intros p rest res (Hb & Hi & Hp & Nl & Ol & Wl) F HL. simpl. rewrite <- app_assoc. simpl.
      apply (proj1 IHl); [exact Wl|split; assumption|].
      eapply RLoopBang; [apply Nat.ltb_lt; exact Hp|exact Hi|exact Hb| |exact HL].
      eapply impl_no; [exact F|reflexivity].
    - (* SFactJuxt *) split; [|discriminate].
      intros p rest res (Hb & Hi & Hp & Nl & Ol & Wl & St & Wr) F HL. simpl. rewrite <- app_assoc. simpl.
      apply (proj1 IHl); [exact Wl|split; assumption|].
      eapply RLoopBang; [apply Nat.ltb_lt; exact Hp|exact Hi|exact Hb| |exact HL].
      apply RImplYes.
      + rewrite hdk_print_app. exact St.
      + apply (proj1 IHr); [exact Wr| |].
        * destruct rest as [|t rest']; simpl in *; [exact F|].
          destruct F as [F1 F2]. simpl in F1. apply andb_prop in F1. destruct F1 as [_ F1]. split; assumption.
        * apply loop_stops. destruct rest as [|t rest']; [trivial|]. destruct F as [F1 _]. simpl in F1.
          apply andb_prop in F1. destruct F1 as [F1 _]. now apply Nat.leb_le.
    - (* SPost *) split; [|discriminate].
      intros p rest res (Hi & Hnb & Hc & Hp & Nl & Ol & Wl) F HL. simpl in *. rewrite <- app_assoc. simpl.
      destruct (pt_postconst T k) as [c|] eqn:Ec; [|congruence].
      apply (proj1 IHl); [exact Wl|split; assumption|].
      eapply RLoopPost; [apply Nat.ltb_lt; exact Hp|exact Hi|exact Hnb|exact Ec|exact HL].
    - (* SSup *) split; [|discriminate].
      intros p rest res (Hs & Hp & Nl & Ol & Wl) F HL. simpl in *. rewrite <- app_assoc. simpl.
      apply (proj1 IHl); [exact Wl|split; assumption|].
      apply RLoopSup; [apply Nat.ltb_lt; exact Hp|exact Hs|exact HL].
  Qed.

  Theorem parser_complete_rel s :
    W 0 s -> (opn s = true -> pt_trigger T KEof = false) -> Run (CGen 0) (print s) (desugar s, []).
  Proof.
    intros Ws F. rewrite <- (app_nil_r (print s)).
    apply (proj1 (states s)); [exact Ws|exact F|]. now apply loop_stops.
  Qed.

  Theorem parser_complete s :
    W 0 s -> (opn s = true -> pt_trigger T KEof = false) -> parse T ph (print s) = Ok (desugar s).
  Proof. intros. apply parse_iff_Run. now apply parser_complete_rel. Qed.
End Grammar.

Section Soundness.
  Context {V : Type}.
  Variable T : ptab V.
  Variable ph : V.
  Notation Run := (Run T ph).
  Notation sx := (@sx V).
  Notation print := (print T).
  Notation desugar := (desugar T ph).
  Notation W := (W T).
  Notation follows := (follows T).
  Notation noabs := (noabs T).
  Notation tok := (tok V).
  Notation node := (node V).

  Definition stopped (p : nat) (rest : list tok) : Prop :=
    match rest with [] => True | t :: _ => pt_prec T (kind_of t) <= p end.

  (** what implicit_multiply(m) does on [ts] *)
  Definition ImplPost (m : node) (ts : list tok) (r : node * list tok) : Prop :=
    let '(n, rest) := r in
    (n = m /\ rest = ts /\ pt_trigger T (hdk ts) = false) \/
    (exists sr, ts = print sr ++ rest /\ n = NBin BMultiply m (desugar sr) /\
                W (pt_impl_level T) sr /\ starts_trigger T sr = true /\ follows sr rest /\
                stopped (pt_impl_level T) rest).

  Definition allW : list sx -> Prop :=
    fix all (l : list sx) : Prop :=
      match l with
      | [] => True
      | x :: xs => W 0 x /\ delim_ok T x (match xs with [] => KRightParen | _ => KComma end) /\ all xs
      end.

  Definition GenPost (p : nat) (ts : list tok) (r : node * list tok) : Prop :=
    let '(n, rest) := r in
    exists s, ts = print s ++ rest /\ desugar s = n /\ W p s /\ follows s rest /\ stopped p rest.

  Definition Sound (c : @cmd V) (ts : list tok) (r : node * list tok) : Prop :=
    match c with
    | CGen p => GenPost p ts r
    | CPrim => let '(n, rest) := r in
               exists s, ts = print s ++ rest /\ desugar s = n /\ (forall p, W p s) /\ follows s rest
    | CImpl m => ImplPost m ts r
    | CLoop p l => forall sl, desugar sl = l -> W p sl -> follows sl ts ->
                   let '(n, rest) := r in
                   exists s, print sl ++ ts = print s ++ rest /\ desugar s = n /\ W p s /\
                             follows s rest /\ stopped p rest
    | CArg1 u => exists a tail, ts = print a ++ TK KRightParen :: tail /\ W 0 a /\
                                delim_ok T a KRightParen /\ ImplPost (NUn u (desugar a)) tail r
    | CArg2a b => exists a1 a2 tail, ts = print a1 ++ TK KComma :: print a2 ++ TK KRightParen :: tail /\
                                W 0 a1 /\ delim_ok T a1 KComma /\ W 0 a2 /\ delim_ok T a2 KRightParen /\
                                ImplPost (NBin b (desugar a1) (desugar a2)) tail r
    | CArg2b b n1 => exists a2 tail, ts = print a2 ++ TK KRightParen :: tail /\ W 0 a2 /\
                                delim_ok T a2 KRightParen /\ ImplPost (NBin b n1 (desugar a2)) tail r
    | CItems g ez acc =>
        exists xs tail, ts = commas (map print xs) ++ TK KRightParen :: tail /\ allW xs /\
                        (acc = [] -> forall x xs', xs = x :: xs' -> hdk (print x) <> KRightParen) /\
                        (xs = [] -> acc = [] /\ ez = true) /\
                        ImplPost (match acc, xs with
                                  | [], [] => NNum (pt_zero T)
                                  | _, _ => NAgg g (rev acc ++ map desugar xs)
                                  end) tail r
    end.

  Lemma capable_opn (a : sx) : capable a = true -> opn a = true /\ forall q, noabs q a = true.
  Proof. destruct a; simpl; try discriminate; auto. Qed.

  Lemma follows_of_trigger (s : sx) rest :
    (forall q, noabs q s = true) -> pt_trigger T (hdk rest) = false -> follows s rest.
  Proof.
    intros N Ht. destruct rest as [|t rest']; simpl in *.
    - auto.
    - split; auto.
  Qed.

  (** a capable primary followed by what implicit_multiply did *)
  Lemma prim_of_impl (a : sx) tail n rest :
    capable a = true -> (forall p, W p a) -> numjuxt_ok T a (hdk tail) = true -> ImplPost (desugar a) tail (n, rest) ->
    exists s, print a ++ tail = print s ++ rest /\ desugar s = n /\ (forall p, W p s) /\ follows s rest.
  Proof.
    intros Ca Wa Hj [[-> [-> Ht]]|[sr (-> & -> & Wr & St & Fr & Sr)]].
    - exists a. repeat split; auto. apply follows_of_trigger; auto. apply (capable_opn a Ca).
    - exists (SJuxt a sr). simpl. rewrite app_assoc. rewrite hdk_print_app in Hj. repeat split; auto.
      + destruct rest as [|t rest']; simpl in *; [exact Fr|].
        destruct Fr as [F1 F2]. split; [|exact F2]. simpl. rewrite F1.
        apply Nat.leb_le in Sr. now rewrite Sr.
  Qed.

  Lemma follows_right (mk : sx) (sr : sx) rest q :
    (forall x, noabs x mk = (x <=? q) && noabs x sr) -> opn mk = opn sr ->
    follows sr rest -> stopped q rest -> follows mk rest.
  Proof.
    intros Hn Ho Fr Sr. destruct rest as [|t rest']; simpl in *.
    - now rewrite Ho.
    - destruct Fr as [F1 F2]. split; [|now rewrite Ho]. rewrite Hn, F1.
      apply Nat.leb_le in Sr. now rewrite Sr.
  Qed.

  Lemma mk_delim (s : sx) k rest :
    follows s (TK k :: rest) -> stopped 0 (TK k :: rest) -> delim_ok T s k.
  Proof. simpl. intros F S. split; [exact F|lia]. Qed.

  Theorem Run_sound c ts r : Run c ts r -> Sound c ts r.
  Proof.
    induction 1; simpl in *.
    - (* RGen *)
      destruct r as [n rest]. destruct IHRun1 as (s0 & -> & D0 & W0 & F0).
      specialize (IHRun2 s0 D0 (W0 p) F0). exact IHRun2.
    - (* RLoopStop *)
      intros sl D Wl Fl. exists sl. repeat split; auto.
      destruct ts as [|t ts']; simpl in *; [trivial|]. now apply Nat.ltb_ge.
    - (* RLoopEof *)
      intros sl D Wl Fl. exists sl. repeat split; auto.
    - (* RLoopSup *)
      intros sl D Wl Fl. destruct r as [n rest].
      assert (Fl' := Fl). simpl in Fl'. destruct Fl' as [N O].
      specialize (IHRun (SSup sl v)). simpl in IHRun. rewrite D in IHRun.
      destruct IHRun as (s & E & Ds & Ws & Fs & Ss); auto.
      + repeat split; auto. now apply Nat.ltb_lt.
      + destruct ts' as [|t' ts'']; simpl; [discriminate|split; [reflexivity|discriminate]].
      + exists s. rewrite <- app_assoc in E. simpl in E. auto.
    - (* RLoopBin *)
      intros sl D Wl Fl. destruct r as [n rest].
      destruct IHRun1 as (sr & -> & Dr & Wr & Fr & Sr).
      assert (Fl' := Fl). simpl in Fl'. destruct Fl' as [N O].
      specialize (IHRun2 (SBin k sl sr)). simpl in IHRun2. rewrite H0, D, Dr in IHRun2.
      destruct IHRun2 as (s & E & Ds & Ws & Fs & Ss); auto.
      + repeat split; eauto.
        * now apply Nat.ltb_lt.
        * unfold rlevel. now rewrite H0.
      + apply (follows_right (SBin k sl sr) sr ts2 lvl); auto.
        intros x. simpl. unfold rlevel. now rewrite H0.
      + exists s. rewrite <- app_assoc in E. simpl in E. auto.
    - (* RLoopBang *)
      intros sl D Wl Fl. destruct r as [n rest].
      assert (Fl' := Fl). simpl in Fl'. destruct Fl' as [N O].
      destruct IHRun1 as [[-> [-> Ht]]|[sr (-> & -> & Wr & St & Fr & Sr)]].
      + specialize (IHRun2 (SFact sl)). simpl in IHRun2. rewrite D in IHRun2.
        destruct IHRun2 as (s & E & Ds & Ws & Fs & Ss); auto.
        * repeat split; auto. now apply Nat.ltb_lt.
        * apply follows_of_trigger; auto.
        * exists s. rewrite <- app_assoc in E. simpl in E. auto.
      + specialize (IHRun2 (SFactJuxt sl sr)). simpl in IHRun2. rewrite D in IHRun2.
        destruct IHRun2 as (s & E & Ds & Ws & Fs & Ss); auto.
        * repeat split; auto. now apply Nat.ltb_lt.
        * apply (follows_right (SFactJuxt sl sr) sr ts2 (pt_impl_level T)); auto.
        * exists s. rewrite <- app_assoc in E. simpl in E. auto.
    - (* RLoopPost *)
      intros sl D Wl Fl. destruct r as [n rest].
      assert (Fl' := Fl). simpl in Fl'. destruct Fl' as [N O].
      specialize (IHRun (SPost k sl)). simpl in IHRun. rewrite H2, D in IHRun.
      destruct IHRun as (s & E & Ds & Ws & Fs & Ss); auto.
      + repeat split; auto; [congruence|now apply Nat.ltb_lt].
      + destruct ts' as [|t' ts'']; simpl; [discriminate|split; [reflexivity|discriminate]].
      + exists s. rewrite <- app_assoc in E. simpl in E. auto.
    - (* RImplYes *)
      destruct IHRun as (sr & -> & Dr & Wr & Fr & Sr). right. exists sr. repeat split; auto.
      + now rewrite Dr.
      + unfold starts_trigger. rewrite <- (hdk_print_app T sr ts1). exact H.
    - (* RImplNo *) left. auto.
    - (* RPrimNum *)
      destruct r as [n rest]. change (TNum v :: ts') with (print (SNum v) ++ ts').
      apply prim_of_impl; simpl; auto.
    - (* RPrimAns *)
      exists SAns. simpl. repeat split; auto. destruct ts'; simpl; [discriminate|split; [reflexivity|discriminate]].
    - (* RPrimF1 *)
      destruct r as [n rest]. destruct IHRun as (a & tail & -> & Wa & Da & IP).
      replace (TK (KFunc f) :: TK KLeftParen :: print a ++ TK KRightParen :: tail)
        with (print (SCall1 f a) ++ tail) by (simpl; now rewrite <- app_assoc).
      apply prim_of_impl; auto.
      + intros p. simpl. eauto.
      + simpl. now rewrite H.
    - (* RPrimF2 *)
      destruct r as [n rest]. destruct IHRun as (a1 & a2 & tail & -> & Wa1 & Da1 & Wa2 & Da2 & IP).
      replace (TK (KFunc f) :: TK KLeftParen :: print a1 ++ TK KComma :: print a2 ++ TK KRightParen :: tail)
        with (print (SCall2 f a1 a2) ++ tail) by (simpl; rewrite <- !app_assoc; simpl; now rewrite <- app_assoc).
      apply prim_of_impl; auto.
      + intros p. simpl. split; [eauto|]. split; [exact Wa1|]. split; [exact Da1|]. split; [exact Wa2|exact Da2].
      + simpl. now rewrite H.
    - (* RPrimFL *)
      destruct r as [n rest]. destruct IHRun as (xs & tail & -> & Ax & Hhd & Hem & IP).
      replace (TK (KFunc f) :: TK KLeftParen :: commas (map print xs) ++ TK KRightParen :: tail)
        with (print (SCallN f xs) ++ tail) by (simpl; now rewrite <- app_assoc).
      apply prim_of_impl; auto.
      + intros p. simpl. split; [exists g, ez; split; [exact H|intros E; now apply Hem]|]. split; [now apply Hhd|exact Ax].
      + simpl. rewrite H. destruct xs; exact IP.
    - (* RPrimNeg *)
      destruct IHRun as (se & -> & De & We & Fe & Se). exists (SNeg se). simpl. repeat split; auto.
      + now rewrite De.
      + apply (follows_right (SNeg se) se ts2 (pt_neg_level T)); auto.
    - (* RPrimPos *)
      destruct r as [n rest]. destruct IHRun as (se & -> & De & We & Fe & Se). exists (SPos se). simpl. repeat split; auto.
      apply (follows_right (SPos se) se rest (pt_neg_level T)); auto.
    - (* RPrimConst *)
      exists (SConst k). simpl. rewrite H0. repeat split; auto; try congruence.
      destruct ts'; simpl; [discriminate|split; [reflexivity|discriminate]].
    - (* RPrimOpen *)
      destruct r as [n rest]. destruct IHRun1 as (se & -> & De & We & Fe & Se).
      assert (Ecl : closer T k = close) by (unfold closer; now rewrite H1).
      replace (TK k :: print se ++ TK close :: ts3) with (print (SGroup k se) ++ ts3)
        by (simpl; rewrite Ecl; now rewrite <- app_assoc).
      apply prim_of_impl; auto.
      + intros p. simpl. rewrite Ecl. split; [exact H|]. split; [exact H0|]. split; [congruence|].
        split; [exact We|]. exact (mk_delim _ _ [] Fe Se).
      + simpl. unfold wrapper. rewrite H1, De. exact IHRun2.
    - (* RArg1 *)
      destruct IHRun1 as (sa & -> & Da & Wa & Fa & Sa). exists sa, ts2. rewrite <- Da in IHRun2.
      split; [reflexivity|]. split; [exact Wa|]. split; [exact (mk_delim _ _ [] Fa Sa)|exact IHRun2].
    - (* RArg2a *)
      destruct IHRun1 as (sa & -> & Da & Wa & Fa & Sa).
      destruct IHRun2 as (a2 & tail & -> & Wa2 & Da2 & IP).
      exists sa, a2, tail. rewrite Da. split; [reflexivity|]. split; [exact Wa|]. split; [exact (mk_delim _ _ [] Fa Sa)|].
      split; [exact Wa2|]. split; [exact Da2|exact IP].
    - (* RArg2b *)
      destruct IHRun1 as (sa & -> & Da & Wa & Fa & Sa). exists sa, ts2. rewrite <- Da in IHRun2.
      split; [reflexivity|]. split; [exact Wa|]. split; [exact (mk_delim _ _ [] Fa Sa)|exact IHRun2].
    - (* RItemsEmpty *)
      exists [], ts'. simpl. repeat split; auto. intros _ x xs' E. discriminate.
    - (* RItemsMore *)
      destruct IHRun1 as (sa & -> & Da & Wa & Fa & Sa).
      destruct IHRun2 as (xs & tail & -> & Ax & Hhd & Hem & IP).
      destruct xs as [|y ys]; [destruct (Hem eq_refl) as [E _]; discriminate|].
      exists (sa :: y :: ys), tail.
      change (commas (map print (sa :: y :: ys))) with (print sa ++ TK KComma :: commas (map print (y :: ys))).
      rewrite <- app_assoc. simpl app. split; [reflexivity|]. split; [|split; [|split]].
      + simpl. split; [exact Wa|]. split; [exact (mk_delim _ _ [] Fa Sa)|]. exact Ax.
      + intros Ea x xs' E. inversion E; subst. rewrite <- (hdk_print_app T x (TK KComma :: commas (map print (y :: ys)) ++ TK KRightParen :: tail)). now apply H.
      + discriminate.
      + simpl in IP. rewrite <- Da in IP. rewrite <- app_assoc in IP. simpl in IP.
        destruct acc; exact IP.
    - (* RItemsLast *)
      destruct IHRun1 as (sa & -> & Da & Wa & Fa & Sa).
      exists [sa], ts2. simpl. split; [reflexivity|]. split; [|split; [|split]].
      + split; [exact Wa|]. split; [exact (mk_delim _ _ [] Fa Sa)|trivial].
      + intros Ea x xs' E. inversion E; subst. rewrite <- (hdk_print_app T x (TK KRightParen :: ts2)). now apply H.
      + discriminate.
      + rewrite <- Da in IHRun2. simpl in IHRun2. destruct acc; exact IHRun2.
  Qed.

  Theorem parser_sound ts n :
    parse T ph ts = Ok n ->
    exists s, W 0 s /\ print s = ts /\ desugar s = n /\ (opn s = true -> pt_trigger T KEof = false).
  Proof.
    intros H. apply parse_iff_Run in H. apply Run_sound in H. simpl in H.
    destruct H as (s & E & D & Ws & Fs & _). exists s. rewrite app_nil_r in E. auto.
  Qed.

  (** accepted exactly the printed forms of well-formed surface trees, with their desugaring *)
  Corollary accepted_iff_wellformed ts n :
    pt_numnum T || pt_trigger T KNum = true ->
    parse T ph ts = Ok n <->
    exists s, W 0 s /\ (opn s = true -> pt_trigger T KEof = false) /\ print s = ts /\ desugar s = n.
  Proof.
    intros Hnn. split.
    - intros H. destruct (parser_sound _ _ H) as (s & A & B & C & D). eauto.
    - intros (s & A & B & <- & <-). now apply parser_complete.
  Qed.
End Soundness.
