(** Compositionality (C20) and the placeholder (C14): replacing every [@] of a well-formed context by
    a bracketed well-formed expression keeps it well-formed, and evaluation only sees the value. *)
From Coq Require Import List Bool Arith Lia.
From SC Require Import Base.Res Lang.Syntax Lang.Parser Eval.Common Spec.Surface Proofs.Grammar.
Import ListNotations.

Section Subst.
  Context {V : Type}.
  Variable T : ptab V.
  Notation sx := (@sx V).
  Notation print := (print T).
  Notation W := (W T).
  Notation noabs := (noabs T).

  (** replace every [@] by [h] *)
  Fixpoint subst (h : sx) (s : sx) : sx :=
    match s with
    | SAns => h
    | SNum _ | SConst _ => s
    | SGroup k e => SGroup k (subst h e)
    | SCall1 f a => SCall1 f (subst h a)
    | SCall2 f a b => SCall2 f (subst h a) (subst h b)
    | SCallN f args => SCallN f (map (subst h) args)
    | SNeg e => SNeg (subst h e)
    | SPos e => SPos (subst h e)
    | SJuxt a r => SJuxt (subst h a) (subst h r)
    | SBin k l r => SBin k (subst h l) (subst h r)
    | SFact l => SFact (subst h l)
    | SFactJuxt l r => SFactJuxt (subst h l) (subst h r)
    | SPost k l => SPost k (subst h l)
    | SSup l v => SSup (subst h l) v
    end.

  (** the tokens that can follow an operand inside a well-formed tree are never juxtaposition triggers *)
  Definition followers_not_triggers : Prop :=
    (forall k, pt_infix T k <> None -> pt_trigger T k = false) /\
    pt_trigger T KExclamationMark = false /\
    (forall k, pt_postconst T k <> None -> pt_trigger T k = false) /\
    pt_trigger T KSuperscript = false /\
    pt_trigger T KComma = false /\ pt_trigger T KRightParen = false /\
    (forall k c w, pt_open T k = Some (c, w) -> pt_trigger T c = false) /\
    pt_trigger T KAns = false /\ pt_trigger T KEof = false.

  Definition followers_not_triggersb : bool :=
    forallb (fun k => match pt_infix T k with Some _ => negb (pt_trigger T k) | None => true end) all_kinds &&
    negb (pt_trigger T KExclamationMark) &&
    forallb (fun k => match pt_postconst T k with Some _ => negb (pt_trigger T k) | None => true end) all_kinds &&
    negb (pt_trigger T KSuperscript) && negb (pt_trigger T KComma) && negb (pt_trigger T KRightParen) &&
    forallb (fun k => match pt_open T k with Some (c, _) => negb (pt_trigger T c) | None => true end) all_kinds &&
    negb (pt_trigger T KAns) && negb (pt_trigger T KEof).

  Lemma followers_not_triggersb_sound : followers_not_triggersb = true -> followers_not_triggers.
  Proof.
    unfold followers_not_triggersb, followers_not_triggers. intros H.
    apply andb_prop in H; destruct H as [H He]. apply andb_prop in H; destruct H as [H Ha].
    apply andb_prop in H; destruct H as [H Ho]. apply andb_prop in H; destruct H as [H Hr].
    apply andb_prop in H; destruct H as [H Hc]. apply andb_prop in H; destruct H as [H Hs].
    apply andb_prop in H; destruct H as [H Hp]. apply andb_prop in H; destruct H as [Hi Hb].
    apply negb_true_iff in He, Ha, Hr, Hc, Hs, Hb.
    rewrite forallb_forall in Hi, Hp, Ho.
    split; [|split; [|split; [|split; [|split; [|split; [|split; [|split]]]]]]]; auto.
    - intros k Hk. specialize (Hi k (all_kinds_complete k)). destruct (pt_infix T k); [now apply negb_true_iff|congruence].
    - intros k Hk. specialize (Hp k (all_kinds_complete k)). destruct (pt_postconst T k); [now apply negb_true_iff|congruence].
    - intros k c w Hk. specialize (Ho k (all_kinds_complete k)). rewrite Hk in Ho. now apply negb_true_iff.
  Qed.

  Variable h : sx.
  Hypothesis h_closed : forall q, noabs q h = true.        (* h is a bracketed group *)
  Hypothesis h_W : forall p, W p h.
  Hypothesis h_head : hdk (print h) <> KRightParen.
  Hypothesis FT : followers_not_triggers.

  Lemma noabs_subst q s : noabs q (subst h s) = noabs q s.
  Proof.
    induction s using sx_ind2; simpl; auto; try (now rewrite ?IHs, ?IHs1, ?IHs2).
  Qed.

  (** the leftmost leaf is [@] *)
  Fixpoint leads_ans (s : sx) : bool :=
    match s with
    | SAns => true
    | SJuxt a _ => leads_ans a
    | SBin _ l _ | SFactJuxt l _ => leads_ans l
    | SFact l | SPost _ l | SSup l _ => leads_ans l
    | _ => false
    end.

  Lemma leads_ans_head s : leads_ans s = true -> hdk (print s) = KAns.
  Proof.
    induction s using sx_ind2; simpl; try discriminate; auto; intros H; rewrite hdk_print_app; auto.
  Qed.

  Lemma head_subst s :
    hdk (print (subst h s)) = if leads_ans s then hdk (print h) else hdk (print s).
  Proof.
    induction s using sx_ind2; simpl; auto; rewrite !hdk_print_app; auto.
  Qed.

  Lemma trigger_head_subst s :
    pt_trigger T (hdk (print s)) = true -> hdk (print (subst h s)) = hdk (print s).
  Proof.
    intros Ht. rewrite head_subst. destruct (leads_ans s) eqn:E; [|reflexivity].
    apply leads_ans_head in E. rewrite E in Ht. destruct FT as (_ & _ & _ & _ & _ & _ & _ & Ha & _). congruence.
  Qed.

  Lemma capable_subst a : capable a = true -> capable (subst h a) = true.
  Proof. destruct a; simpl; auto; discriminate. Qed.

  Lemma follow_any s k : pt_trigger T k = false -> noabs (pt_prec T k) s = true -> follow_ok T (subst h s) k.
  Proof. intros Hk Hn. split; [now rewrite noabs_subst|auto]. Qed.

  Lemma delim_subst s k : pt_trigger T k = false -> delim_ok T s k -> delim_ok T (subst h s) k.
  Proof. intros Hk [[Hn _] Hp]. split; [now apply follow_any|exact Hp]. Qed.

  Theorem W_subst : forall s p, W p s -> W p (subst h s).
  Proof.
    destruct FT as (Fi & Fb & Fp & Fs & Fc & Fr & Fo & Fa & Fe).
    induction s as [v| |k|k e IHe|f a IHa|f a b IHa IHb|f args IHargs|e IHe|e IHe|a r IHa IHr
                   |k l r IHl IHr|l IHl|l r IHl IHr|k l IHl|l v IHl] using sx_ind2; intros p Hw; simpl in Hw |- *; auto.
    - destruct Hw as (Hp & Hc & Ho & We & De). split; [exact Hp|]. split; [exact Hc|]. split; [exact Ho|]. split; [auto|].
      apply delim_subst; [|exact De]. unfold closer. destruct (pt_open T k) as [[c w]|] eqn:E; [eapply Fo; eauto|exact Fr].
    - destruct Hw as (Hf & Wa & Da). split; [exact Hf|]. split; [auto|]. now apply delim_subst.
    - destruct Hw as (Hf & Wa & Da & Wb & Db). split; [exact Hf|]. split; [auto|]. split; [now apply delim_subst|].
      split; [auto|now apply delim_subst].
    - destruct Hw as ((g & ez & Hf & Hez) & Hhd & Hall). split; [|split].
      + exists g, ez. split; [exact Hf|]. intros E. apply Hez. destruct args; [reflexivity|discriminate].
      + intros x xs E. destruct args as [|y ys]; [discriminate|]. simpl in E. inversion E; subst.
        rewrite head_subst. destruct (leads_ans y); [exact h_head|]. eapply Hhd; eauto.
      + clear Hf Hez Hhd. induction args as [|x xs IH]; [trivial|]. simpl.
        inversion IHargs as [|? ? Hx Hxs]; subst. destruct Hall as (Wx & Dx & Hall).
        split; [now apply Hx|]. split.
        * destruct xs; simpl; apply delim_subst; auto.
        * now apply IH.
    - destruct Hw as (Hn & We). auto.
    - destruct Hw as (Hn & We). auto.
    - destruct Hw as (Ca & Wa & St & Wr & Hj). split; [now apply capable_subst|]. split; [auto|].
      unfold starts_trigger in *. split; [now rewrite trigger_head_subst|]. split; [auto|].
      rewrite (trigger_head_subst _ St). destruct a; simpl in *; try reflexivity; try discriminate; exact Hj.
    - destruct Hw as ((b & lvl & Hi) & Hp & Nl & Ol & Wl & Wr). split; [eauto|]. split; [exact Hp|].
      split; [now rewrite noabs_subst|]. split; [intros _; apply Fi; congruence|]. auto.
    - destruct Hw as (Hb & Hi & Hp & Nl & Ol & Wl). repeat split; auto. now rewrite noabs_subst.
    - destruct Hw as (Hb & Hi & Hp & Nl & Ol & Wl & St & Wr). repeat split; auto.
      + now rewrite noabs_subst.
      + unfold starts_trigger in *. now rewrite trigger_head_subst.
    - destruct Hw as (Hi & Hnb & Hc & Hp & Nl & Ol & Wl). repeat split; auto. now rewrite noabs_subst.
    - destruct Hw as (Hs & Hp & Nl & Ol & Wl). repeat split; auto. now rewrite noabs_subst.
  Qed.
End Subst.

(** * evaluation only sees the values of subtrees *)
Section Compositional.
  Context {V : Type}.

  Record compositional (ev : node V -> res V) : Type := {
    c_un : unop -> V -> res V;
    c_bin : binop -> V -> V -> res V;
    c_agg : aggop -> list (res V) -> res V;
    c_eq_num : forall v, ev (NNum v) = Ok v;
    c_eq_un : forall u a, ev (NUn u a) = bind (ev a) (c_un u);
    c_eq_bin : forall b a c, ev (NBin b a c) = bind (ev a) (fun v => bind (ev c) (c_bin b v));
    c_eq_agg : forall g args, ev (NAgg g args) = c_agg g (map ev args)
  }.

  Variable ev : node V -> res V.
  Variable C : compositional ev.

  (** [refines n1 n2]: n1 is n2 with some number leaves [v] replaced by trees that evaluate to [v] *)
  Inductive refines : node V -> node V -> Prop :=
  | RfLeaf e v : ev e = Ok v -> refines e (NNum v)
  | RfNum v : refines (NNum v) (NNum v)
  | RfUn u a a' : refines a a' -> refines (NUn u a) (NUn u a')
  | RfBin b a a' c c' : refines a a' -> refines c c' -> refines (NBin b a c) (NBin b a' c')
  | RfAgg g l l' : Forall2 refines l l' -> refines (NAgg g l) (NAgg g l').

  Section refines_ind2.
    Variable P : node V -> node V -> Prop.
    Hypothesis HLeaf : forall e v, ev e = Ok v -> P e (NNum v).
    Hypothesis HNum : forall v, P (NNum v) (NNum v).
    Hypothesis HUn : forall u a a', refines a a' -> P a a' -> P (NUn u a) (NUn u a').
    Hypothesis HBin : forall b a a' c c', refines a a' -> P a a' -> refines c c' -> P c c' -> P (NBin b a c) (NBin b a' c').
    Hypothesis HAgg : forall g l l', Forall2 refines l l' -> Forall2 P l l' -> P (NAgg g l) (NAgg g l').
    Fixpoint refines_ind2 n1 n2 (r : refines n1 n2) : P n1 n2 :=
      match r with
      | RfLeaf e v H => HLeaf e v H
      | RfNum v => HNum v
      | RfUn u a a' r1 => HUn u a a' r1 (refines_ind2 a a' r1)
      | RfBin b a a' c c' r1 r2 => HBin b a a' c c' r1 (refines_ind2 a a' r1) r2 (refines_ind2 c c' r2)
      | RfAgg g l l' f =>
          HAgg g l l' f
            ((fix go l l' (f : Forall2 refines l l') : Forall2 P l l' :=
                match f with
                | Forall2_nil _ => Forall2_nil P
                | Forall2_cons x y rx fr => Forall2_cons x y (refines_ind2 x y rx) (go _ _ fr)
                end) l l' f)
      end.
  End refines_ind2.

  Theorem eval_refines n1 n2 : refines n1 n2 -> ev n1 = ev n2.
  Proof.
    intros r. induction r using refines_ind2.
    - now rewrite (c_eq_num ev C).
    - reflexivity.
    - rewrite !(c_eq_un ev C). now rewrite IHr.
    - rewrite !(c_eq_bin ev C). now rewrite IHr1, IHr2.
    - rewrite !(c_eq_agg ev C). f_equal. induction H0; simpl; [reflexivity|]. inversion H; subst. f_equal; auto.
  Qed.
End Compositional.

(** * C20 on surface trees *)
Section Plug.
  Context {V : Type}.
  Variable T : ptab V.
  Variable ev : node V -> res V.
  Variable C : compositional ev.
  Hypothesis paren_plain : wrapper T KLeftParen = None.

  Lemma refines_refl n : refines ev n n.
  Proof.
    induction n using node_ind2; [apply RfNum|apply RfUn; auto|apply RfBin; auto|apply RfAgg].
    induction H; constructor; auto.
  Qed.

  Lemma desugar_subst p v (e : @sx V) :
    ev (desugar T p e) = Ok v ->
    forall c, refines ev (desugar T p (subst (SGroup KLeftParen e) c)) (desugar T v c).
  Proof.
    intros He. induction c using sx_ind2; simpl.
    - apply refines_refl.
    - (* SAns *) rewrite paren_plain. simpl. now apply RfLeaf.
    - apply refines_refl.
    - destruct (wrapper T k); simpl; [apply RfUn|]; auto.
    - destruct (pt_fn T f) as [[u| |]|]; try apply refines_refl. now apply RfUn.
    - destruct (pt_fn T f) as [[|o|]|]; try apply refines_refl. now apply RfBin.
    - destruct (pt_fn T f) as [[| |g ez]|]; try apply refines_refl.
      destruct args as [|x xs]; [apply refines_refl|]. simpl map. apply RfAgg.
      rewrite map_map. inversion H as [|? ? Hx Hxs]; subst. simpl. constructor; [exact Hx|].
      clear H Hx. induction Hxs; simpl; constructor; auto.
    - now apply RfUn.
    - assumption.
    - now apply RfBin.
    - destruct (pt_infix T k) as [[b lvl]|]; [now apply RfBin|apply refines_refl].
    - now apply RfUn.
    - apply RfBin; [now apply RfUn|assumption].
    - destruct (pt_postconst T k); [apply RfBin; [assumption|apply refines_refl]|apply refines_refl].
    - apply RfBin; [assumption|apply refines_refl].
  Qed.

  (** evaluating C[(E)] with placeholder p = evaluating C[@] with placeholder v, when E evaluates to v *)
  Theorem plug_value p v e c :
    ev (desugar T p e) = Ok v ->
    ev (desugar T p (subst (SGroup KLeftParen e) c)) = ev (desugar T v c).
  Proof. intros He. apply (eval_refines ev C). now apply desugar_subst. Qed.
End Plug.

(** * the two pieces together, for a table set that passes the decidable side conditions *)
Section Compose.
  Context {V : Type}.
  Variable T : ptab V.
  Variable ev : node V -> res V.
  Variable C : compositional ev.

  Definition compose_ok : bool :=
    followers_not_triggersb T &&
    match wrapper T KLeftParen with None => true | Some _ => false end &&
    is_plain KLeftParen && match pt_const T KLeftParen with None => true | Some _ => false end &&
    match pt_open T KLeftParen with Some (c, _) => kind_eqb c KRightParen | None => false end &&
    (pt_prec T KRightParen =? 0).

  Lemma noabs_zero (s : @sx V) : noabs T 0 s = true.
  Proof. induction s using sx_ind2; simpl; auto. Qed.

  Hypothesis OK : compose_ok = true.

  Lemma group_W e : W T 0 e -> forall p, W T p (SGroup KLeftParen e).
  Proof.
    unfold compose_ok in OK.
    apply andb_prop in OK; destruct OK as [O1 Hprec]. apply andb_prop in O1; destruct O1 as [O1 Hopen].
    apply andb_prop in O1; destruct O1 as [O1 Hconst]. apply andb_prop in O1; destruct O1 as [O1 Hplain].
    apply andb_prop in O1; destruct O1 as [Hft Hwrap].
    apply followers_not_triggersb_sound in Hft. destruct Hft as (_ & _ & _ & _ & _ & Fr & _).
    intros We p. simpl. split; [exact Hplain|]. split; [destruct (pt_const T KLeftParen); [discriminate|reflexivity]|].
    unfold closer. destruct (pt_open T KLeftParen) as [[c w]|]; [|discriminate]. apply kind_eqb_eq in Hopen. subst c.
    split; [discriminate|]. split; [exact We|]. split; [split; [|auto]|now apply Nat.eqb_eq].
    apply Nat.eqb_eq in Hprec. rewrite Hprec. apply noabs_zero.
  Qed.

  Theorem compositionality p v e c :
    W T 0 c -> W T 0 e -> ev (desugar T p e) = Ok v ->
    W T 0 (subst (SGroup KLeftParen e) c) /\
    ev (desugar T p (subst (SGroup KLeftParen e) c)) = ev (desugar T v c).
  Proof.
    intros Wc We Hv. split.
    - apply W_subst; auto.
      + now apply group_W.
      + simpl. discriminate.
      + unfold compose_ok in OK.
        apply andb_prop in OK; destruct OK as [O1 _]. apply andb_prop in O1; destruct O1 as [O1 _].
        apply andb_prop in O1; destruct O1 as [O1 _]. apply andb_prop in O1; destruct O1 as [O1 _].
        apply andb_prop in O1; destruct O1 as [Hft _]. now apply followers_not_triggersb_sound.
    - apply plug_value; auto.
      unfold compose_ok in OK.
      apply andb_prop in OK; destruct OK as [O1 _]. apply andb_prop in O1; destruct O1 as [O1 _].
      apply andb_prop in O1; destruct O1 as [O1 _]. apply andb_prop in O1; destruct O1 as [O1 _].
      apply andb_prop in O1; destruct O1 as [_ Hw].
      destruct (wrapper T KLeftParen); [discriminate|reflexivity].
  Qed.
End Compose.
