(** The fuel of the parser engine always suffices: for EVERY token list (well-formed or not) a run with
    at least 4 * tokens + base(command) units of fuel ends in Ok or Err, never in Fuel. Fuel counts nested
    engine calls (every tick point of parser.rs is one), so this bounds the recursion depth and the parser's
    share of the counted steps for rejected inputs too. *)
From Coq Require Import List Bool Arith Lia.
From SC Require Import Base.Res Lang.Syntax Lang.Parser Proofs.ParserRel.
Import ListNotations.

Section Fuel.
  Context {V : Type}.
  Variable T : ptab V.
  Variable ph : V.
  Notation tok := (tok V).
  Notation cmd := (@cmd V).

  Lemma run_len f (c : cmd) ts n rest : run T ph f c ts = Ok (n, rest) ->
    length rest <= length ts /\ (strict c = true -> length rest < length ts).
  Proof. intros H. apply run_Run in H. apply (Run_len T ph) in H. exact H. Qed.

  Ltac len H :=
    let L1 := fresh "L" in let L2 := fresh "L" in
    apply run_len in H; cbn [strict] in H; destruct H as [L1 L2]; try specialize (L2 eq_refl).

  (** sequencing: the first call does not run out of fuel and, when it succeeds, the continuation does not either *)
  Lemma bind_nf {A B} (r : res A) (k : A -> res B) :
    r <> Fuel -> (forall a, r = Ok a -> k a <> Fuel) -> bind r k <> Fuel.
  Proof. destruct r; simpl; intros H1 H2; try discriminate; [now apply H2|congruence]. Qed.

  Lemma expect_nf k (ts : list tok) : expect k ts <> Fuel.
  Proof. destruct ts as [|[k'| |] l]; simpl; try discriminate. destruct (kind_eqb k k'); discriminate. Qed.

  Lemma expect_len k (ts ts' : list tok) : expect k ts = Ok ts' -> length ts = S (length ts').
  Proof. intros H. apply expect_inv in H. subst. reflexivity. Qed.

  Theorem run_never_fuel : forall F (c : cmd) ts, 4 * length ts + base c <= F -> run T ph F c ts <> Fuel.
  Proof.
    induction F as [|f IH]; intros c ts HF; [destruct c; cbn [base] in HF; lia|].
    destruct c; cbn [base] in HF; simpl.
    - (* CGen *)
      apply bind_nf; [apply IH; cbn [base]; lia|]. intros [l ts1] E. len E. apply IH. cbn [base]. lia.
    - (* CPrim *)
      destruct ts as [|[k|v|v] ts']; try discriminate; cbn [length] in HF.
      + destruct k; try discriminate;
          try (destruct (pt_const T _); [discriminate|]; destruct (pt_open T _) as [[close w]|]; [|discriminate];
               apply bind_nf; [apply IH; cbn [base]; lia|]; intros [e ts2] E; len E;
               apply bind_nf; [apply expect_nf|]; intros ts3 E3; apply expect_len in E3; apply IH; cbn [base]; lia).
        * destruct (pt_pos T); [|discriminate]. apply IH. cbn [base]. lia.
        * destruct (pt_neg T); [|discriminate]. apply bind_nf; [apply IH; cbn [base]; lia|]. intros [e ts2] _. discriminate.
        * destruct (pt_fn T f0) as [sp|]; [|discriminate].
          apply bind_nf; [apply expect_nf|]. intros ts'' E. apply expect_len in E.
          destruct sp; apply IH; cbn [base]; lia.
        * destruct (pt_ans T); discriminate.
      + destruct (pt_numnum T || negb (kind_eqb (hdk ts') KNum)); [|discriminate]. apply IH. cbn [base]. lia.
    - (* CImpl *)
      destruct (pt_trigger T (hdk ts)); [|discriminate].
      apply bind_nf; [apply IH; cbn [base]; lia|]. intros [r ts1] _. discriminate.
    - (* CLoop *)
      destruct (p <? pt_prec T (hdk ts)); [|discriminate].
      destruct ts as [|[k|v|v] ts']; try discriminate; cbn [length] in HF.
      + destruct (pt_infix T k) as [[b lvl]|].
        * apply bind_nf; [apply IH; cbn [base]; lia|]. intros [r ts2] E. len E. apply IH. cbn [base]. lia.
        * destruct (kind_eqb k KExclamationMark && pt_bang T).
          -- apply bind_nf; [apply IH; cbn [base]; lia|]. intros [l' ts2] E. len E. apply IH. cbn [base]. lia.
          -- destruct (pt_postconst T k); [|discriminate]. apply IH. cbn [base]. lia.
      + destruct (pt_sup T); [|discriminate]. apply IH. cbn [base]. lia.
    - (* CArg1 *)
      apply bind_nf; [apply IH; cbn [base]; lia|]. intros [a ts1] E. len E.
      apply bind_nf; [apply expect_nf|]. intros ts2 E2. apply expect_len in E2. apply IH. cbn [base]. lia.
    - (* CArg2a *)
      apply bind_nf; [apply IH; cbn [base]; lia|]. intros [a ts1] E. len E.
      apply bind_nf; [apply expect_nf|]. intros ts2 E2. apply expect_len in E2. apply IH. cbn [base]. lia.
    - (* CArg2b *)
      apply bind_nf; [apply IH; cbn [base]; lia|]. intros [a ts1] E. len E.
      apply bind_nf; [apply expect_nf|]. intros ts2 E2. apply expect_len in E2. apply IH. cbn [base]. lia.
    - (* CItems *)
      assert (G : forall ts0, length ts0 <= length ts ->
                  bind (run T ph f (CGen 0) ts0)
                       (fun '(a, ts1) => match ts1 with
                                         | TK KComma :: ts2 => run T ph f (CItems g ez (a :: acc)) ts2
                                         | TK KRightParen :: ts2 => run T ph f (CImpl (NAgg g (rev (a :: acc)))) ts2
                                         | _ => Err
                                         end) <> Fuel).
      { intros ts0 L0. apply bind_nf; [apply IH; cbn [base]; lia|]. intros [a ts1] E. len E.
        destruct ts1 as [|[k|v|v] ts2]; try discriminate. cbn [length] in *.
        destruct k; try discriminate; apply IH; cbn [base]; lia. }
      destruct acc as [|a0 acc'].
      + destruct ts as [|[k|v|v] ts']; try (apply G; lia).
        destruct k; try (apply G; lia).
        destruct ez; [|discriminate]. apply IH. cbn [base length] in *. lia.
      + apply G. lia.
  Qed.

  (** Parser::parse never runs out of fuel: every input is accepted or rejected within 4 * tokens + 8 nested calls *)
  Theorem parse_never_fuel ts : parse T ph ts <> Fuel.
  Proof.
    unfold parse. apply bind_nf.
    - apply run_never_fuel. unfold parse_fuel. cbn [base]. lia.
    - intros [n rest] _. destruct rest; discriminate.
  Qed.
End Fuel.
