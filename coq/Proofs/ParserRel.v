(** A fuel-free big-step presentation [Run] of the engine, equivalent to the executable [run]:
      run fuel c ts = Ok r  ->  Run c ts r                         (run_Run)
      Run c ts (n, rest)    ->  run (4*consumed + B c) c ts = Ok (n, rest)   (Run_run)
    The second direction is where the fuel bound of [parse] (4 * tokens + 8) comes from; the
    fuel counts nested calls, and every tick point of parser.rs is such a call. *)
From Coq Require Import List Bool Arith Lia.
From SC Require Import Base.Res Lang.Syntax Lang.Parser.
Import ListNotations.

Section Rel.
  Context {V : Type}.
  Variable T : ptab V.
  Variable ph : V.
  Notation tok := (tok V).
  Notation node := (node V).
  Notation cmd := (@cmd V).

  Inductive Run : cmd -> list tok -> node * list tok -> Prop :=
  | RGen p ts l ts1 r :
      Run CPrim ts (l, ts1) -> Run (CLoop p l) ts1 r -> Run (CGen p) ts r
  (* the while loop *)
  | RLoopStop p l ts :
      (p <? pt_prec T (hdk ts)) = false -> Run (CLoop p l) ts (l, ts)
  | RLoopEof p l :
      (p <? pt_prec T KEof) = true -> Run (CLoop p l) [] (l, [])
  | RLoopSup p l v ts' r :
      (p <? pt_prec T KSuperscript) = true -> pt_sup T = true ->
      Run (CLoop p (NBin BPow l (NNum v))) ts' r -> Run (CLoop p l) (TSup v :: ts') r
  | RLoopBin p l k ts' b lvl rr ts2 r :
      (p <? pt_prec T k) = true -> pt_infix T k = Some (b, lvl) ->
      Run (CGen lvl) ts' (rr, ts2) -> Run (CLoop p (NBin b l rr)) ts2 r ->
      Run (CLoop p l) (TK k :: ts') r
  | RLoopBang p l ts' l' ts2 r :
      (p <? pt_prec T KExclamationMark) = true -> pt_infix T KExclamationMark = None -> pt_bang T = true ->
      Run (CImpl (NUn UFactorial l)) ts' (l', ts2) -> Run (CLoop p l') ts2 r ->
      Run (CLoop p l) (TK KExclamationMark :: ts') r
  | RLoopPost p l k c ts' r :
      (p <? pt_prec T k) = true -> pt_infix T k = None ->
      (kind_eqb k KExclamationMark && pt_bang T) = false -> pt_postconst T k = Some c ->
      Run (CLoop p (NBin BMultiply l (NNum c))) ts' r -> Run (CLoop p l) (TK k :: ts') r
  (* implicit_multiply *)
  | RImplYes n ts r ts1 :
      pt_trigger T (hdk ts) = true -> Run (CGen (pt_impl_level T)) ts (r, ts1) ->
      Run (CImpl n) ts (NBin BMultiply n r, ts1)
  | RImplNo n ts :
      pt_trigger T (hdk ts) = false -> Run (CImpl n) ts (n, ts)
  (* parse_number *)
  | RPrimNum v ts' r : pt_numnum T || negb (kind_eqb (hdk ts') KNum) = true ->
      Run (CImpl (NNum v)) ts' r -> Run CPrim (TNum v :: ts') r
  | RPrimAns ts' : pt_ans T = true -> Run CPrim (TK KAns :: ts') (NNum ph, ts')
  | RPrimF1 f u ts'' r :
      pt_fn T f = Some (F1 u) -> Run (CArg1 u) ts'' r -> Run CPrim (TK (KFunc f) :: TK KLeftParen :: ts'') r
  | RPrimF2 f b ts'' r :
      pt_fn T f = Some (F2 b) -> Run (CArg2a b) ts'' r -> Run CPrim (TK (KFunc f) :: TK KLeftParen :: ts'') r
  | RPrimFL f g ez ts'' r :
      pt_fn T f = Some (FList g ez) -> Run (CItems g ez []) ts'' r ->
      Run CPrim (TK (KFunc f) :: TK KLeftParen :: ts'') r
  | RPrimNeg ts' e ts2 :
      pt_neg T = true -> Run (CGen (pt_neg_level T)) ts' (e, ts2) ->
      Run CPrim (TK KSubtract :: ts') (NUn UNegative e, ts2)
  | RPrimPos ts' r :
      pt_pos T = true -> Run (CGen (pt_neg_level T)) ts' r -> Run CPrim (TK KAdd :: ts') r
  | RPrimConst k c ts' :
      is_plain k = true -> pt_const T k = Some c -> Run CPrim (TK k :: ts') (NNum c, ts')
  | RPrimOpen k close w ts' e ts3 r :
      is_plain k = true -> pt_const T k = None -> pt_open T k = Some (close, w) ->
      Run (CGen 0) ts' (e, TK close :: ts3) -> Run (CImpl (wrap w e)) ts3 r ->
      Run CPrim (TK k :: ts') r
  (* function_static_arguments *)
  | RArg1 u ts a ts2 r :
      Run (CGen 0) ts (a, TK KRightParen :: ts2) -> Run (CImpl (NUn u a)) ts2 r -> Run (CArg1 u) ts r
  | RArg2a b ts a1 ts2 r :
      Run (CGen 0) ts (a1, TK KComma :: ts2) -> Run (CArg2b b a1) ts2 r -> Run (CArg2a b) ts r
  | RArg2b b a1 ts a2 ts2 r :
      Run (CGen 0) ts (a2, TK KRightParen :: ts2) -> Run (CImpl (NBin b a1 a2)) ts2 r ->
      Run (CArg2b b a1) ts r
  (* find_item_list *)
  | RItemsEmpty g ts' r :
      Run (CImpl (NNum (pt_zero T))) ts' r -> Run (CItems g true []) (TK KRightParen :: ts') r
  | RItemsMore g ez acc ts a ts2 r :
      (acc = [] -> hdk ts <> KRightParen) ->
      Run (CGen 0) ts (a, TK KComma :: ts2) -> Run (CItems g ez (a :: acc)) ts2 r ->
      Run (CItems g ez acc) ts r
  | RItemsLast g ez acc ts a ts2 r :
      (acc = [] -> hdk ts <> KRightParen) ->
      Run (CGen 0) ts (a, TK KRightParen :: ts2) -> Run (CImpl (NAgg g (rev (a :: acc)))) ts2 r ->
      Run (CItems g ez acc) ts r.
End Rel.

Section Equiv.
  Context {V : Type}.
  Variable T : ptab V.
  Variable ph : V.
  Notation Run := (Run T ph).
  Notation run := (run T ph).

  Lemma expect_inv k (ts ts' : list (tok V)) : expect k ts = Ok ts' -> ts = TK k :: ts'.
  Proof.
    destruct ts as [|[k'| |] l]; simpl; try discriminate.
    destruct (kind_eqb k k') eqn:E; [|discriminate]. apply kind_eqb_eq in E. intros H; inversion H; now subst.
  Qed.

  Ltac inv_bind H :=
    match type of H with
    | bind ?r _ = Ok _ =>
        let E := fresh "E" in
        destruct r as [[? ?]| | |] eqn:E; simpl in H; try discriminate
    end.
  Ltac inv_expect H :=
    match type of H with
    | bind (expect ?k ?l) _ = Ok _ =>
        let E := fresh "Ex" in
        destruct (expect k l) eqn:E; simpl in H; try discriminate; apply expect_inv in E; subst
    end.

  Lemma run_Run : forall fuel c ts r, run fuel c ts = Ok r -> Run c ts r.
  Proof.
    induction fuel as [|f IH]; intros c ts r H; [discriminate|].
    destruct c; simpl in H.
    - inv_bind H. eapply RGen; eauto.
    - destruct ts as [|t ts']; [discriminate|].
      destruct t as [k|v|v]; [|destruct (pt_numnum T || negb (kind_eqb (hdk ts') KNum)) eqn:Enn; [apply RPrimNum; eauto|discriminate]|discriminate].
      destruct k; try discriminate;
        try (destruct (pt_const T _) eqn:Ec;
             [inversion H; subst; apply RPrimConst; [reflexivity|assumption]|];
             destruct (pt_open T _) as [[close w]|] eqn:Eo; [|discriminate];
             inv_bind H; inv_expect H;
             eapply RPrimOpen; [reflexivity|eassumption|eassumption|eauto|eauto]).
      + destruct (pt_pos T) eqn:Ep; [|discriminate]. apply RPrimPos; eauto.
      + destruct (pt_neg T) eqn:Ep; [|discriminate]. inv_bind H. inversion H; subst. apply RPrimNeg; eauto.
      + destruct (pt_fn T f0) as [sp|] eqn:Ef; [|discriminate]. inv_expect H.
        destruct sp; [eapply RPrimF1|eapply RPrimF2|eapply RPrimFL]; eauto.
      + destruct (pt_ans T) eqn:Ea; [|discriminate]. inversion H; subst. now apply RPrimAns.
    - destruct (pt_trigger T (hdk ts)) eqn:Et.
      + inv_bind H. inversion H; subst. apply RImplYes; eauto.
      + inversion H; subst. now apply RImplNo.
    - destruct (p <? pt_prec T (hdk ts)) eqn:Ep; [|inversion H; subst; now apply RLoopStop].
      destruct ts as [|t ts']; [inversion H; subst; now apply RLoopEof|].
      destruct t as [k|v|v].
      + destruct (pt_infix T k) as [[b lvl]|] eqn:Ei.
        * inv_bind H. eapply RLoopBin; eauto.
        * destruct (kind_eqb k KExclamationMark && pt_bang T) eqn:Eb.
          -- apply andb_prop in Eb. destruct Eb as [Ek Eb]. apply kind_eqb_eq in Ek. subst k.
             inv_bind H. eapply RLoopBang; eauto.
          -- destruct (pt_postconst T k) eqn:Ec; [|discriminate]. eapply RLoopPost; eauto.
      + discriminate.
      + destruct (pt_sup T) eqn:Es; [|discriminate]. apply RLoopSup; eauto.
    - inv_bind H. inv_expect H. eapply RArg1; eauto.
    - inv_bind H. inv_expect H. eapply RArg2a; eauto.
    - inv_bind H. inv_expect H. eapply RArg2b; eauto.
    - assert (Hstep : (acc = [] -> hdk ts <> KRightParen) ->
                 (let* (a, ts1) := run f (CGen 0) ts in
                  match ts1 with
                  | TK KComma :: ts2 => run f (CItems g ez (a :: acc)) ts2
                  | TK KRightParen :: ts2 => run f (CImpl (NAgg g (rev (a :: acc)))) ts2
                  | _ => Err
                  end) = Ok r -> Run (CItems g ez acc) ts r).
      { intros Hne H'. inv_bind H'.
        destruct l as [|t l']; [discriminate|].
        destruct t as [k| |]; try discriminate.
        destruct k; try discriminate.
        - eapply RItemsLast; eauto.
        - eapply RItemsMore; eauto. }
      destruct acc as [|a0 acc'].
      + destruct ts as [|t ts']; [apply Hstep; [intros _; discriminate|exact H]|].
        destruct t as [k| |]; try (apply Hstep; [intros _; discriminate|exact H]).
        destruct k; try (apply Hstep; [intros _; discriminate|exact H]).
        destruct ez; [|discriminate]. apply RItemsEmpty; eauto.
      + apply Hstep; [discriminate|exact H].
  Qed.

  (** fuel needed: 4 per consumed token plus a constant per command *)
  Definition base (c : @cmd V) : nat :=
    match c with
    | CPrim => 1 | CLoop _ _ => 1 | CGen _ => 2 | CImpl _ => 3
    | CArg1 _ | CArg2a _ | CArg2b _ _ | CItems _ _ _ => 3
    end.

  Lemma run_mono : forall f c ts r, run f c ts = Ok r -> forall f', f <= f' -> run f' c ts = Ok r.
  Proof.
    induction f as [|f IH]; intros c ts r H f' Hle; [discriminate|].
    destruct f' as [|f']; [lia|]. assert (Hle' : f <= f') by lia.
    assert (IH' : forall c ts r, run f c ts = Ok r -> run f' c ts = Ok r) by (intros; eapply IH; eauto).
    clear IH Hle.
    destruct c; simpl in H |- *.
    - inv_bind H. rewrite (IH' _ _ _ E). simpl. auto.
    - destruct ts as [|[k|v|v] ts']; try discriminate; [|destruct (pt_numnum T || negb (kind_eqb (hdk ts') KNum)); [auto|discriminate]].
      destruct k; try discriminate; try exact H;
        try (destruct (pt_const T _); [exact H|];
             destruct (pt_open T _) as [[close w]|]; [|discriminate];
             inv_bind H; rewrite (IH' _ _ _ E); simpl;
             destruct (expect close _); simpl in *; try discriminate; auto).
      + destruct (pt_pos T); [auto|discriminate].
      + destruct (pt_neg T); [|discriminate]. inv_bind H. rewrite (IH' _ _ _ E). exact H.
      + destruct (pt_fn T f0) as [sp|]; [|discriminate].
        destruct (expect KLeftParen ts'); simpl in *; try discriminate. destruct sp; auto.
    - destruct (pt_trigger T (hdk ts)); [|exact H]. inv_bind H. rewrite (IH' _ _ _ E). exact H.
    - destruct (p <? pt_prec T (hdk ts)); [|exact H].
      destruct ts as [|[k|v|v] ts']; try exact H.
      + destruct (pt_infix T k) as [[b lvl]|].
        * inv_bind H. rewrite (IH' _ _ _ E). simpl. auto.
        * destruct (kind_eqb k KExclamationMark && pt_bang T).
          -- inv_bind H. rewrite (IH' _ _ _ E). simpl. auto.
          -- destruct (pt_postconst T k); [auto|discriminate].
      + destruct (pt_sup T); [auto|discriminate].
    - inv_bind H. rewrite (IH' _ _ _ E). simpl. destruct (expect KRightParen _); simpl in *; try discriminate; auto.
    - inv_bind H. rewrite (IH' _ _ _ E). simpl. destruct (expect KComma _); simpl in *; try discriminate; auto.
    - inv_bind H. rewrite (IH' _ _ _ E). simpl. destruct (expect KRightParen _); simpl in *; try discriminate; auto.
    - assert (S : forall r0,
                 (let* (a, ts1) := run f (CGen 0) ts in
                  match ts1 with
                  | TK KComma :: ts2 => run f (CItems g ez (a :: acc)) ts2
                  | TK KRightParen :: ts2 => run f (CImpl (NAgg g (rev (a :: acc)))) ts2
                  | _ => Err
                  end) = Ok r0 ->
                 (let* (a, ts1) := run f' (CGen 0) ts in
                  match ts1 with
                  | TK KComma :: ts2 => run f' (CItems g ez (a :: acc)) ts2
                  | TK KRightParen :: ts2 => run f' (CImpl (NAgg g (rev (a :: acc)))) ts2
                  | _ => Err
                  end) = Ok r0).
      { intros r0 H'. inv_bind H'. rewrite (IH' _ _ _ E). simpl.
        destruct l as [|[k| |] l']; try discriminate. destruct k; try discriminate; auto. }
      destruct acc; [|auto].
      destruct ts as [|[k| |] ts']; auto. destruct k; auto. destruct ez; [auto|discriminate].
  Qed.
End Equiv.

Section Bound.
  Context {V : Type}.
  Variable T : ptab V.
  Variable ph : V.
  Notation Run := (Run T ph).
  Notation run := (run T ph).

  Definition strict (c : @cmd V) : bool :=
    match c with CImpl _ | CLoop _ _ => false | _ => true end.

  Lemma Run_len c ts r : Run c ts r ->
    length (snd r) <= length ts /\ (strict c = true -> length (snd r) < length ts).
  Proof.
    induction 1; simpl in *; repeat match goal with H : _ /\ _ |- _ => destruct H end;
      split; intros; try discriminate;
      repeat match goal with H : ?a = ?a -> _ |- _ => specialize (H eq_refl) end; try lia.
  Qed.

  Ltac arith := cbn [snd base length] in *; lia.

  Lemma Run_run c ts r : Run c ts r ->
    forall F, 4 * (length ts - length (snd r)) + base c <= F -> run F c ts = Ok r.
  Proof.
    induction 1; intros F HF; cbn [snd base] in HF;
      repeat match goal with
             | H : Run _ _ _ |- _ => apply Run_len in H; cbn [snd strict] in H; destruct H
             end;
      repeat match goal with H : ?a = ?a -> _ |- _ => specialize (H eq_refl) end;
      (destruct F as [|F]; [lia|]); simpl.
    - rewrite IHRun1 by arith. simpl. apply IHRun2. arith.
    - rewrite H. reflexivity.
    - simpl in H. rewrite H. reflexivity.
    - simpl. rewrite H, H0. apply IHRun. arith.
    - simpl. rewrite H, H0. rewrite IHRun1 by arith. simpl. apply IHRun2. arith.
    - simpl. rewrite H, H0, H1. simpl. rewrite IHRun1 by arith. simpl. apply IHRun2. arith.
    - simpl. rewrite H, H0, H1, H2. apply IHRun. arith.
    - rewrite H. rewrite IHRun by arith. reflexivity.
    - rewrite H. reflexivity.
    - rewrite H. apply IHRun. arith.
    - rewrite H. reflexivity.
    - rewrite H. simpl. apply IHRun. arith.
    - rewrite H. simpl. apply IHRun. arith.
    - rewrite H. simpl. apply IHRun. arith.
    - rewrite H. rewrite IHRun by arith. reflexivity.
    - rewrite H. apply IHRun. arith.
    - destruct k; try discriminate; rewrite H0; reflexivity.
    - destruct k; try discriminate; rewrite H0, H1;
        (rewrite IHRun1 by arith); simpl; rewrite kind_eqb_refl; simpl;
        apply IHRun2; arith.
    - rewrite IHRun1 by arith. simpl. apply IHRun2. arith.
    - rewrite IHRun1 by arith. simpl. apply IHRun2. arith.
    - rewrite IHRun1 by arith. simpl. apply IHRun2. arith.
    - apply IHRun. arith.
    - assert (E : run F (CGen 0) ts = Ok (a, TK KComma :: ts2)) by (apply IHRun1; arith).
      assert (E2 : run F (CItems g ez (a :: acc)) ts2 = Ok r) by (apply IHRun2; arith).
      destruct acc as [|a0 acc'].
      + destruct ts as [|[k| |] ts']; try (rewrite E; simpl; exact E2).
        destruct k; try (rewrite E; simpl; exact E2). exfalso. now apply H.
      + rewrite E. simpl. exact E2.
    - assert (E : run F (CGen 0) ts = Ok (a, TK KRightParen :: ts2)) by (apply IHRun1; arith).
      assert (E2 : run F (CImpl (NAgg g (rev (a :: acc)))) ts2 = Ok r) by (apply IHRun2; arith).
      destruct acc as [|a0 acc'].
      + destruct ts as [|[k| |] ts']; try (rewrite E; simpl; exact E2).
        destruct k; try (rewrite E; simpl; exact E2). exfalso. now apply H.
      + rewrite E. simpl. exact E2.
  Qed.

  (** the fuel of [parse] always suffices: parsing either fails or is described by [Run] *)
  Theorem parse_iff_Run ts n : parse T ph ts = Ok n <-> Run (CGen 0) ts (n, []).
  Proof.
    unfold parse. split.
    - intros H. destruct (run (parse_fuel ts) (CGen 0) ts) as [[n' rest]| | |] eqn:E; simpl in H; try discriminate.
      destruct rest; [|discriminate]. inversion H; subst. eapply run_Run; eauto.
    - intros H. rewrite (Run_run _ _ _ H); [reflexivity|]. simpl. unfold parse_fuel. lia.
  Qed.

End Bound.
