(** Values of the unbounded-Z reference semantics of eval_i64 stay inside the i64 range: the bitwise operators, the
    remainder and the right shift cannot leave it (this is what makes the "no range check" branches of [ref_bin] sound),
    and every other step checks with [fit]. *)
From Coq Require Import ZArith Lia Bool List.
From SC Require Import Base.Res Base.RustInt Lang.Syntax Proofs.I64Facts.
Local Open Scope Z_scope.
Ltac Zify.zify_post_hook ::= Z.div_mod_to_equations.

Lemma range_shiftr z : in_i64 z = true <-> (Z.shiftr z 63 = 0 \/ Z.shiftr z 63 = -1).
Proof.
  rewrite in_i64_iff, Z.shiftr_div_pow2 by lia. change (2 ^ 63) with 9223372036854775808. split; intros H; lia.
Qed.

Lemma land_range x y : in_i64 x = true -> in_i64 y = true -> in_i64 (Z.land x y) = true.
Proof.
  rewrite !range_shiftr, Z.shiftr_land. intros [-> | ->] [-> | ->]; [left|left|left|right]; reflexivity.
Qed.
Lemma lor_range x y : in_i64 x = true -> in_i64 y = true -> in_i64 (Z.lor x y) = true.
Proof.
  rewrite !range_shiftr, Z.shiftr_lor. intros [-> | ->] [-> | ->]; [left|right|right|right]; reflexivity.
Qed.
Lemma rem_range x y : in_i64 y = true -> y <> 0 -> in_i64 (Z.rem x y) = true.
Proof.
  rewrite !in_i64_iff. intros Hy Ny. pose proof (Z.rem_bound_abs x y Ny). lia.
Qed.
Lemma shr_range x c : in_i64 x = true -> 0 <= c -> in_i64 (x / 2 ^ c) = true.
Proof.
  rewrite !in_i64_iff. intros Hx Hc. assert (P : 0 < 2 ^ c) by (apply Z.pow_pos_nonneg; lia).
  assert (1 <= 2 ^ c) by lia.
  pose proof (Z.div_mod x (2 ^ c)). pose proof (Z.mod_pos_bound x (2 ^ c) P). nia.
Qed.

(** every value of the reference semantics is an i64 *)
Lemma fit_range z v : fit z = Some v -> in_i64 v = true.
Proof. unfold fit. destruct (in_i64 z) eqn:E; [|discriminate]. intros H; inversion H; subst. exact E. Qed.

Lemma ref_un_range u x v : in_i64 x = true -> ref_un u x = Some v -> in_i64 v = true.
Proof.
  intros Hx. destruct u; simpl; try discriminate; try (apply fit_range).
  - destruct (x <? 0); [intros H; inversion H; reflexivity|apply fit_range].
  - intros H; inversion H; subst. apply in_i64_iff. destruct x; simpl; lia.
Qed.

Lemma ref_bin_range b x y v : in_i64 x = true -> in_i64 y = true -> ref_bin b x y = Some v -> in_i64 v = true.
Proof.
  intros Hx Hy. destruct b; simpl; try discriminate; try (apply fit_range).
  - destruct (y =? 0); [discriminate|apply fit_range].
  - destruct (y =? 0) eqn:E; [discriminate|]. apply Z.eqb_neq in E. intros H; inversion H; subst. now apply rem_range.
  - destruct ((0 <=? y) && (y <=? 4294967295)); [apply fit_range|discriminate].
  - intros H; inversion H; subst. now apply land_range.
  - intros H; inversion H; subst. now apply lor_range.
  - destruct ((0 <=? y) && (y <=? 63)); [apply fit_range|discriminate].
  - destruct ((0 <=? y) && (y <=? 63)) eqn:E; [|discriminate]. apply andb_prop in E as [E _]. apply Z.leb_le in E.
    intros H; inversion H; subst. now apply shr_range.
Qed.

Theorem denoteZ_range a v : scope a = true -> denoteZ a = Some v -> in_i64 v = true.
Proof.
  revert v. induction a as [z|u a IH|b a1 a2 IH1 IH2|g args _] using node_ind2; simpl; intros v S H.
  - inversion H; subst. exact S.
  - apply andb_prop in S as [_ Sa]. destruct (denoteZ a) as [x|] eqn:E; [|discriminate].
    apply (ref_un_range u x v); [now apply IH|exact H].
  - apply andb_prop in S as [S S2]. apply andb_prop in S as [_ S1].
    destruct (denoteZ a1) as [x|] eqn:E1; [|discriminate]. destruct (denoteZ a2) as [y|] eqn:E2; [|discriminate].
    apply (ref_bin_range b x y v); [now apply IH1|now apply IH2|exact H].
  - discriminate.
Qed.
