(** The loops of the evaluator models respect the caps that [Spec.Cost.cost_bound] charges. *)
From Coq Require Import ZArith Reals Lia Lra Bool List.
From Flocq Require Import Core.Core IEEE754.BinarySingleNaN.
From SC Require Import Base.Res Base.F64 Base.RustInt Base.Oracle Base.Dec Eval.EvalF64 Eval.EvalDec
  Proofs.NumberFrom Proofs.GcdFacts.
Local Open Scope Z_scope.

(** f64 / number factorial: the product loop runs at most 169 times *)
Lemma B2R_170 : @B2R 53 1024 f170 = 170%R /\ is_finite f170 = true.
Proof.
  split; [|reflexivity]. rewrite <- SF2R_B2SF.
  replace (B2SF f170) with (SpecFloat.S754_finite false 5981343255101440 (-45)) by (vm_compute; reflexivity).
  unfold SF2R, F2R. simpl. lra.
Qed.

Theorem fact_loop_bound (x : f64) :
  fge x fzero = true -> fgt x f170 = false -> (Z.to_nat (f64_to_usize x - 1) <= 169)%nat.
Proof.
  intros Hge Hgt. destruct B2R_170 as [R170 F170].
  destruct x as [s|s| |s m e B] eqn:Ex.
  - simpl. lia.
  - destruct s; [discriminate Hge|]. discriminate Hgt.
  - discriminate Hge.
  - rewrite <- Ex in *. assert (Fx : is_finite x = true) by (subst x; reflexivity).
    unfold fgt, flt, fge, fle, F64.prec, F64.emax in *.
    rewrite Bltb_correct in Hgt by assumption. rewrite Bleb_correct in Hge by (auto; reflexivity).
    rewrite R170 in Hgt. simpl (B2R fzero) in Hge.
    revert Hgt Hge. case Rlt_bool_spec; [discriminate|]. intros H170 _. case Rle_bool_spec; [|discriminate]. intros H0 _.
    unfold f64_to_usize, sat_cast. rewrite Ex. rewrite <- Ex.
    assert (Ht : (Btrunc x <= 170)%Z).
    { apply le_IZR. rewrite Btrunc_correct by exact Hemax. rewrite round_FIX_IZR.
      unfold F64.prec, F64.emax in *. change 170%R with (IZR 170) in H170.
      apply IZR_le. rewrite <- (Ztrunc_IZR 170). apply Ztrunc_le. exact H170. }
    lia.
Qed.

(** Lambert W: at most 128 Halley steps, whatever log10 returns *)
Theorem halley_steps_bound (L : libm) (x : f64) : (Z.to_nat (w_iterations L x) <= 128)%nat.
Proof. unfold w_iterations. lia. Qed.

(** gcd: at most 128 rounds per pair of i64 values *)
Theorem gcd_rounds_bound a b f : in_i64 b = true -> (gcd_steps f a b <= 128)%nat.
Proof.
  intros Hb. apply (gcd_steps_bound 64).
  unfold in_i64, i64_min, i64_max in Hb. apply andb_prop in Hb. destruct Hb as [H1 H2].
  apply Z.leb_le in H1, H2. change (2 ^ Z.of_nat 64) with (2 * 2 ^ 63). lia.
Qed.

(** iterated logarithm: the loop is cut after 65 rounds (fuel 66 is never exhausted: the 64-round
    cap fires first) -- by construction of [ilog_loop]; the count of rounds is at most its fuel *)
Fixpoint ilog_rounds (L : libm) (fuel : nat) (n b x : f64) : nat :=
  match fuel with
  | O => O
  | S f => if fgt n fone then
             if fge x (f64_of_Z 64) then O
             else S (ilog_rounds L f (ffloor (fdiv (m1 L MLog10 n) (m1 L MLog10 b))) b (fadd x fone))
           else O
  end.
Theorem ilog_rounds_bound L fuel n b x : (ilog_rounds L fuel n b x <= fuel)%nat.
Proof. revert n x. induction fuel; intros; simpl; [lia|]. destruct (fgt n fone); [|lia]. destruct (fge x _); [lia|]. specialize (IHfuel (ffloor (fdiv (m1 L MLog10 n) (m1 L MLog10 b))) (fadd x fone)). lia. Qed.
