(** First clause of C19, END TO END: a literal text DIGITS or DIGITS.DIGITS given to the public entry point goes through
    white-space stripping, the tokenizer of the regenerated tables (all three scanning modes), the parser and the evaluator
    and comes back as exactly the value the literal reader assigns to that text -- for digit strings of any length, every
    placeholder and every library behaviour. LiteralFacts.v / C19_*_literal_* speak about the conversion alone; this file
    adds the rest of the pipeline, and the prefix minus for the printed form of negative decimals. *)
From Coq Require Import List NArith ZArith Bool Lia.
From SC Require Import Base.Res Base.F64 Base.RustInt Base.Dec Base.Num Base.Oracle Lang.Syntax Lang.Lexer Lang.Literal
  Lang.Parser Eval.EvalF64 Eval.EvalNum Eval.EvalDec Eval.EvalCpx Gen.Tables Eval.Run
  Proofs.LiteralFacts Proofs.ShowRoundtrip.
Import ListNotations.
Local Open Scope N_scope.

Definition is_numch (x : N) : bool := is_digit x || (x =? ch_dot).

Lemma span_all {f : N -> bool} cs : forallb f cs = true -> span f cs = (cs, []).
Proof.
  induction cs as [|c cs IH]; intros H; [reflexivity|].
  cbn [forallb] in H. apply andb_true_iff in H. destruct H as [Hc Hcs].
  cbn [span]. rewrite Hc, (IH Hcs). reflexivity.
Qed.

Lemma numch_digits cs : forallb is_digit cs = true -> forallb is_numch cs = true.
Proof.
  induction cs as [|c cs IH]; intros H; [reflexivity|].
  cbn [forallb] in *. apply andb_true_iff in H. destruct H as [Hc Hcs].
  unfold is_numch at 1. rewrite Hc, (IH Hcs). reflexivity.
Qed.

Lemma numch_point ip fp :
  forallb is_digit ip = true -> forallb is_digit fp = true -> forallb is_numch (ip ++ ch_dot :: fp) = true.
Proof.
  intros Hi Hf. rewrite forallb_app. cbn [forallb]. rewrite (numch_digits ip Hi), (numch_digits fp Hf).
  unfold is_numch. rewrite N.eqb_refl, orb_true_r. reflexivity.
Qed.

Lemma span_onepoint_point ip fp :
  forallb is_digit ip = true -> forallb is_digit fp = true ->
  span_onepoint false (ip ++ ch_dot :: fp) = (ip ++ ch_dot :: fp, []).
Proof.
  induction ip as [|c ip IH]; intros Hi Hf.
  - cbn [app span_onepoint]. rewrite N.eqb_refl, (span_onepoint_digits fp true Hf). reflexivity.
  - cbn [forallb] in Hi. apply andb_true_iff in Hi. destruct Hi as [Hc Hi].
    cbn [app span_onepoint]. rewrite (digit_not_dot c Hc), Hc, (IH Hi Hf). reflexivity.
Qed.

Lemma strip_numch cs : forallb is_numch cs = true -> strip cs = cs.
Proof.
  induction cs as [|c cs IH]; intros H; [reflexivity|].
  cbn [forallb] in H. apply andb_true_iff in H. destruct H as [Hc Hcs].
  unfold strip in *. cbn [filter].
  assert (Hw : is_ws c = false).
  { unfold is_numch in Hc. apply orb_true_iff in Hc. destruct Hc as [Hc|Hc]; [exact (digit_not_ws c Hc)|].
    apply N.eqb_eq in Hc. subst c. reflexivity. }
  rewrite Hw. cbn [negb]. now rewrite (IH Hcs).
Qed.

Section Lex.
  Context {V : Type}.
  Variable T : lextab.
  Variable conv : lit -> option V.
  Hypothesis Hmode : lt_mode T <> IntOnly.

  (** DIGITS.DIGITS is one Num token carrying what the conversion makes of exactly that text *)
  Lemma lex_point_literal c ip fp v :
    forallb is_digit (c :: ip) = true -> forallb is_digit fp = true ->
    conv (LNum ((c :: ip) ++ ch_dot :: fp) false) = Some v ->
    lex_step T conv ((c :: ip) ++ ch_dot :: fp) = Some (TNum v, []).
  Proof.
    intros Hi Hf Hv. cbn [forallb] in Hi. apply andb_true_iff in Hi. destruct Hi as [Hc Hi].
    change ((c :: ip) ++ ch_dot :: fp) with (c :: (ip ++ ch_dot :: fp)) in *.
    unfold lex_step. rewrite Hc.
    destruct (lt_mode T); [congruence| |].
    - change (fun x : N => is_digit x || (x =? ch_dot)) with is_numch.
      rewrite (span_all _ (numch_point ip fp Hi Hf)). unfold imag_tail.
      destruct (lt_imag_suffix T); rewrite Hv; reflexivity.
    - rewrite (span_onepoint_point ip fp Hi Hf). unfold imag_tail.
      destruct (lt_imag_suffix T); rewrite Hv; reflexivity.
  Qed.

  Lemma tokens_point_literal ip fp v :
    ip <> [] -> forallb is_digit ip = true -> forallb is_digit fp = true ->
    conv (LNum (ip ++ ch_dot :: fp) false) = Some v ->
    tokens_of T conv (ip ++ ch_dot :: fp) = Some [TNum v].
  Proof.
    intros Hne Hi Hf Hv. unfold tokens_of, tokenize_all. rewrite (strip_numch _ (numch_point ip fp Hi Hf)).
    destruct ip as [|c ip]; [congruence|].
    change (length ((c :: ip) ++ ch_dot :: fp)) with (S (length (ip ++ ch_dot :: fp))).
    remember (length (ip ++ ch_dot :: fp)) as f eqn:Ef.
    change ((c :: ip) ++ ch_dot :: fp) with (c :: (ip ++ ch_dot :: fp)).
    cbn [tokenize]. change (c :: (ip ++ ch_dot :: fp)) with ((c :: ip) ++ ch_dot :: fp).
    rewrite (lex_point_literal c ip fp v Hi Hf Hv). destruct f; reflexivity.
  Qed.

  (** the same after a prefix minus, when the table's '-' arm is the plain Subtract token *)
  Hypothesis Hminus : forall rest, lex_step T conv (45 :: rest) = Some (TK KSubtract, rest).

  Lemma tokens_minus_point_literal ip fp v :
    ip <> [] -> forallb is_digit ip = true -> forallb is_digit fp = true ->
    conv (LNum (ip ++ ch_dot :: fp) false) = Some v ->
    tokens_of T conv (45 :: ip ++ ch_dot :: fp) = Some [TK KSubtract; TNum v].
  Proof.
    intros Hne Hi Hf Hv. unfold tokens_of, tokenize_all.
    change (strip (45 :: ip ++ ch_dot :: fp)) with (45 :: strip (ip ++ ch_dot :: fp)).
    rewrite (strip_numch _ (numch_point ip fp Hi Hf)).
    destruct ip as [|c ip]; [congruence|].
    change (length (45 :: (c :: ip) ++ ch_dot :: fp)) with (S (S (length (ip ++ ch_dot :: fp)))).
    remember (length (ip ++ ch_dot :: fp)) as f eqn:Ef.
    cbn [tokenize]. rewrite Hminus.
    change ((c :: ip) ++ ch_dot :: fp) with (c :: (ip ++ ch_dot :: fp)).
    cbn [tokenize]. change (c :: (ip ++ ch_dot :: fp)) with ((c :: ip) ++ ch_dot :: fp).
    rewrite (lex_point_literal c ip fp v Hi Hf Hv). destruct f; reflexivity.
  Qed.
End Lex.

Lemma mode_f64 : lt_mode lt_f64 <> IntOnly. Proof. discriminate. Qed.
Lemma mode_number : lt_mode lt_number <> IntOnly. Proof. discriminate. Qed.
Lemma mode_decimal : lt_mode lt_decimal <> IntOnly. Proof. discriminate. Qed.
Lemma mode_complex : lt_mode lt_complex <> IntOnly. Proof. discriminate. Qed.

(** ** eval_f64: DIGITS.DIGITS of any length evaluates to the correctly rounded quotient (LiteralFacts.fdiv_pos_correct) *)
Theorem f64_point_literal_run (L : libm) (p : f64) ip fp :
  ip <> [] -> forallb is_digit ip = true -> forallb is_digit fp = true ->
  run_f64 L (ip ++ ch_dot :: fp) p = Ok (f64_of_decimal (digits_val 0 (ip ++ fp)) (N.of_nat (length fp))).
Proof.
  intros Hne Hi Hf. unfold run_f64, run, ast_of.
  rewrite (tokens_point_literal lt_f64 conv_f64 mode_f64 ip fp _ Hne Hi Hf (parse_f64_point ip fp Hne Hi Hf)).
  reflexivity.
Qed.

(** ** eval_number: a literal with a point is the Float of the same rounding *)
Lemma has_point_point ip fp : has_point (ip ++ ch_dot :: fp) = true.
Proof. unfold has_point. rewrite existsb_app. cbn [existsb]. rewrite N.eqb_refl. apply orb_true_r. Qed.

Theorem number_point_literal_run (L : libm) (p : number) ip fp :
  ip <> [] -> forallb is_digit ip = true -> forallb is_digit fp = true ->
  run_num L (ip ++ ch_dot :: fp) p = Ok (Flt (f64_of_decimal (digits_val 0 (ip ++ fp)) (N.of_nat (length fp)))).
Proof.
  intros Hne Hi Hf. unfold run_num, run, ast_of.
  assert (Hv : conv_num (LNum (ip ++ ch_dot :: fp) false)
               = Some (Flt (f64_of_decimal (digits_val 0 (ip ++ fp)) (N.of_nat (length fp))))).
  { unfold conv_num. rewrite has_point_point, (parse_f64_point ip fp Hne Hi Hf). reflexivity. }
  rewrite (tokens_point_literal lt_number conv_num mode_number ip fp _ Hne Hi Hf Hv). reflexivity.
Qed.

(** ** eval_complex: the real literal *)
Theorem complex_point_literal_run (C : cpxlib) (p : cpx) ip fp :
  ip <> [] -> forallb is_digit ip = true -> forallb is_digit fp = true ->
  run_cpx C (ip ++ ch_dot :: fp) p = Ok (f64_of_decimal (digits_val 0 (ip ++ fp)) (N.of_nat (length fp)), fzero).
Proof.
  intros Hne Hi Hf. unfold run_cpx, run, ast_of.
  assert (Hv : conv_cpx (LNum (ip ++ ch_dot :: fp) false)
               = Some (f64_of_decimal (digits_val 0 (ip ++ fp)) (N.of_nat (length fp)), fzero)).
  { unfold conv_cpx. rewrite (parse_f64_point ip fp Hne Hi Hf). reflexivity. }
  rewrite (tokens_point_literal lt_complex conv_cpx mode_complex ip fp _ Hne Hi Hf Hv). reflexivity.
Qed.

(** ** eval_decimal: at most 28 digits in all -- exactly the written decimal, and its negative after a prefix minus
    (what Display prints for a Decimal: sign, integer digits, point, exactly [scale] fraction digits) *)
Lemma minus_decimal (D : declib) rest : lex_step lt_decimal (conv_dec D) (45 :: rest) = Some (TK KSubtract, rest).
Proof. reflexivity. Qed.

Theorem decimal_point_literal_run (D : declib) (p : dec) ip fp :
  ip <> [] -> forallb is_digit ip = true -> forallb is_digit fp = true -> (length ip + length fp <= 28)%nat ->
  let d := {| d_neg := false; d_coef := digits_val 0 (ip ++ fp); d_scale := N.of_nat (length fp) |} in
  run_dec D (ip ++ ch_dot :: fp) p = Ok d /\ run_dec D (45 :: ip ++ ch_dot :: fp) p = Ok (dec_neg d).
Proof.
  intros Hne Hi Hf Hl d.
  destruct (parse_dec_exact_spec ip fp Hne Hi Hf Hl) as (_ & B & _).
  assert (Hv : conv_dec D (LNum (ip ++ ch_dot :: fp) false) = Some d).
  { unfold conv_dec, parse_dec. rewrite B. reflexivity. }
  split.
  - unfold run_dec, run, ast_of.
    rewrite (tokens_point_literal lt_decimal (conv_dec D) mode_decimal ip fp _ Hne Hi Hf Hv). reflexivity.
  - unfold run_dec, run, ast_of.
    rewrite (tokens_minus_point_literal lt_decimal (conv_dec D) mode_decimal (minus_decimal D) ip fp _ Hne Hi Hf Hv).
    reflexivity.
Qed.

(** ** the forms without a point *)
Lemma tokens_digit_run {V} (T : lextab) (conv : lit -> option V) ds v :
  lt_imag_suffix T = false -> ds <> [] -> forallb is_digit ds = true -> conv (LNum ds false) = Some v ->
  tokens_of T conv ds = Some [TNum v].
Proof.
  intros Hs Hne Hd Hv. unfold tokens_of, tokenize_all. rewrite (strip_digits ds Hd).
  destruct ds as [|c cs]; [congruence|]. cbn [length].
  apply tokenize_digit_run; assumption.
Qed.

Theorem f64_integer_literal_run (L : libm) (p : f64) ip :
  ip <> [] -> forallb is_digit ip = true -> run_f64 L ip p = Ok (f64_of_decimal (digits_val 0 ip) 0).
Proof.
  intros Hne Hi. unfold run_f64, run, ast_of.
  rewrite (tokens_digit_run lt_f64 conv_f64 ip _ eq_refl Hne Hi (parse_f64_integer ip Hne Hi)). reflexivity.
Qed.

Theorem decimal_integer_literal_run (D : declib) (p : dec) ip :
  ip <> [] -> forallb is_digit ip = true -> (length ip <= 28)%nat ->
  run_dec D ip p = Ok {| d_neg := false; d_coef := digits_val 0 ip; d_scale := 0 |}.
Proof.
  intros Hne Hi Hl.
  assert (Hl' : (length ip + length (@nil N) <= 28)%nat) by (cbn [length]; lia).
  destruct (parse_dec_exact_spec ip [] Hne Hi eq_refl Hl') as (A & _ & _).
  assert (Hv : conv_dec D (LNum ip false) = Some {| d_neg := false; d_coef := digits_val 0 ip; d_scale := 0 |}).
  { unfold conv_dec, parse_dec. rewrite A. reflexivity. }
  unfold run_dec, run, ast_of.
  rewrite (tokens_digit_run lt_decimal (conv_dec D) ip _ eq_refl Hne Hi Hv). reflexivity.
Qed.

(** ** the printed form of negative doubles: a prefix minus on either shape negates the value (sign flip, exact) *)
Lemma tokens_minus_digit_run {V} (T : lextab) (conv : lit -> option V) ds v :
  lt_imag_suffix T = false -> (forall rest, lex_step T conv (45 :: rest) = Some (TK KSubtract, rest)) ->
  ds <> [] -> forallb is_digit ds = true -> conv (LNum ds false) = Some v ->
  tokens_of T conv (45 :: ds) = Some [TK KSubtract; TNum v].
Proof.
  intros Hs Hm Hne Hd Hv. unfold tokens_of, tokenize_all.
  change (strip (45 :: ds)) with (45 :: strip ds). rewrite (strip_digits ds Hd).
  destruct ds as [|c cs]; [congruence|].
  change (length (45 :: c :: cs)) with (S (S (length cs))).
  remember (S (length cs)) as f eqn:Ef. cbn [tokenize]. rewrite Hm. subst f.
  rewrite (tokenize_digit_run T conv Hs (length cs) c cs v Hd Hv). reflexivity.
Qed.

Lemma minus_f64 rest : lex_step lt_f64 conv_f64 (45 :: rest) = Some (TK KSubtract, rest).
Proof. reflexivity. Qed.
Lemma minus_number rest : lex_step lt_number conv_num (45 :: rest) = Some (TK KSubtract, rest).
Proof. reflexivity. Qed.

Theorem f64_signed_literal_run (L : libm) (p : f64) ip fp :
  ip <> [] -> forallb is_digit ip = true -> forallb is_digit fp = true ->
  run_f64 L (45 :: ip) p = Ok (fneg (f64_of_decimal (digits_val 0 ip) 0)) /\
  run_f64 L (45 :: ip ++ ch_dot :: fp) p = Ok (fneg (f64_of_decimal (digits_val 0 (ip ++ fp)) (N.of_nat (length fp)))).
Proof.
  intros Hne Hi Hf. split; unfold run_f64, run, ast_of.
  - rewrite (tokens_minus_digit_run lt_f64 conv_f64 ip _ eq_refl minus_f64 Hne Hi (parse_f64_integer ip Hne Hi)). reflexivity.
  - rewrite (tokens_minus_point_literal lt_f64 conv_f64 mode_f64 minus_f64 ip fp _ Hne Hi Hf (parse_f64_point ip fp Hne Hi Hf)).
    reflexivity.
Qed.

Theorem number_signed_point_literal_run (L : libm) (p : number) ip fp :
  ip <> [] -> forallb is_digit ip = true -> forallb is_digit fp = true ->
  run_num L (45 :: ip ++ ch_dot :: fp) p = Ok (Flt (fneg (f64_of_decimal (digits_val 0 (ip ++ fp)) (N.of_nat (length fp))))).
Proof.
  intros Hne Hi Hf. unfold run_num, run, ast_of.
  assert (Hv : conv_num (LNum (ip ++ ch_dot :: fp) false)
               = Some (Flt (f64_of_decimal (digits_val 0 (ip ++ fp)) (N.of_nat (length fp))))).
  { unfold conv_num. rewrite has_point_point, (parse_f64_point ip fp Hne Hi Hf). reflexivity. }
  rewrite (tokens_minus_point_literal lt_number conv_num mode_number minus_number ip fp _ Hne Hi Hf Hv). reflexivity.
Qed.

(** ** eval_complex: a literal directly followed by [i] is the imaginary number with that coefficient *)
Lemma span_stop {f : N -> bool} cs x rest : forallb f cs = true -> f x = false -> span f (cs ++ x :: rest) = (cs, x :: rest).
Proof.
  induction cs as [|c cs IH]; intros H Hx.
  - cbn [app span]. rewrite Hx. reflexivity.
  - cbn [forallb] in H. apply andb_true_iff in H. destruct H as [Hc Hcs].
    cbn [app span]. rewrite Hc, (IH Hcs Hx). reflexivity.
Qed.

Lemma strip_app_i cs : forallb is_numch cs = true -> strip (cs ++ [ch_i]) = cs ++ [ch_i].
Proof.
  intros H. unfold strip. rewrite filter_app. fold (strip cs). rewrite (strip_numch cs H). reflexivity.
Qed.

Theorem complex_imaginary_literal_run (C : cpxlib) (p : cpx) ip fp :
  ip <> [] -> forallb is_digit ip = true -> forallb is_digit fp = true ->
  run_cpx C ((ip ++ ch_dot :: fp) ++ [ch_i]) p = Ok (fzero, f64_of_decimal (digits_val 0 (ip ++ fp)) (N.of_nat (length fp))).
Proof.
  intros Hne Hi Hf. unfold run_cpx, run, ast_of, tokens_of, tokenize_all.
  rewrite (strip_app_i _ (numch_point ip fp Hi Hf)).
  destruct ip as [|c ip]; [congruence|].
  cbn [forallb] in Hi. apply andb_true_iff in Hi. destruct Hi as [Hc Hi].
  change (((c :: ip) ++ ch_dot :: fp) ++ [ch_i]) with (c :: ((ip ++ ch_dot :: fp) ++ [ch_i])).
  change (length (c :: ((ip ++ ch_dot :: fp) ++ [ch_i]))) with (S (length ((ip ++ ch_dot :: fp) ++ [ch_i]))).
  remember (length ((ip ++ ch_dot :: fp) ++ [ch_i])) as f eqn:Ef.
  assert (Hl : lex_step lt_complex conv_cpx (c :: ((ip ++ ch_dot :: fp) ++ [ch_i]))
               = Some (TNum (fzero, f64_of_decimal (digits_val 0 ((c :: ip) ++ fp)) (N.of_nat (length fp))), [])).
  { unfold lex_step. rewrite Hc.
    change (lt_mode lt_complex) with FloatGreedy. cbv iota.
    change (fun x : N => is_digit x || (x =? ch_dot)) with is_numch.
    rewrite (span_stop (f := is_numch) (ip ++ ch_dot :: fp) ch_i [] (numch_point ip fp Hi Hf) eq_refl).
    unfold imag_tail. change (lt_imag_suffix lt_complex) with true. cbv iota. rewrite N.eqb_refl.
    assert (Hi' : forallb is_digit (c :: ip) = true) by (cbn [forallb]; rewrite Hc, Hi; reflexivity).
    assert (Hne' : c :: ip <> []) by discriminate.
    unfold conv_cpx. change (c :: ip ++ ch_dot :: fp) with ((c :: ip) ++ ch_dot :: fp).
    rewrite (parse_f64_point (c :: ip) fp Hne' Hi' Hf). reflexivity. }
  cbn [tokenize]. rewrite Hl. destruct f; reflexivity.
Qed.

(** ** eval_i64: a digit string of any length is exactly that integer, or Err when it exceeds i64::MAX -- end to end *)
Theorem i64_literal_run (L : libm) (p : Z) ds :
  ds <> [] -> forallb is_digit ds = true ->
  run_i64 L ds p = match parse_i64 ds with Some z => Ok z | None => Err end.
Proof.
  intros Hne Hd. destruct (parse_i64 ds) as [z|] eqn:Hp.
  - unfold run_i64, run, ast_of. rewrite (tokens_digits_i64 ds z Hne Hd Hp). reflexivity.
  - unfold run_i64, run, ast_of, tokens_of, tokenize_all. rewrite (strip_digits ds Hd).
    destruct ds as [|c cs]; [congruence|].
    pose proof Hd as Hd'. cbn [forallb] in Hd'. apply andb_true_iff in Hd'. destruct Hd' as [Hc Hcs].
    cbn [length tokenize]. unfold lex_step. rewrite Hc.
    change (lt_mode lt_i64) with IntOnly. cbv iota. rewrite (span_all_digits cs Hcs).
    unfold imag_tail. change (lt_imag_suffix lt_i64) with false. cbv iota.
    change (conv_i64 (LNum (c :: cs) false)) with (parse_i64 (c :: cs)). rewrite Hp. reflexivity.
Qed.

(** ** eval_number: a digit string without a point is Integer of exactly that value, or Err when it exceeds i64::MAX
    (it is never silently turned into a Float) -- end to end *)
Theorem number_integer_literal_run (L : libm) (p : number) ds :
  ds <> [] -> forallb is_digit ds = true ->
  run_num L ds p = match parse_i64 ds with Some z => Ok (Int z) | None => Err end.
Proof.
  intros Hne Hd. destruct (parse_i64 ds) as [z|] eqn:Hp.
  - unfold run_num, run, ast_of. rewrite (tokens_digits_num ds z Hne Hd Hp). reflexivity.
  - unfold run_num, run, ast_of, tokens_of, tokenize_all. rewrite (strip_digits ds Hd).
    destruct ds as [|c cs]; [congruence|].
    pose proof Hd as Hd'. cbn [forallb] in Hd'. apply andb_true_iff in Hd'. destruct Hd' as [Hc Hcs].
    cbn [length tokenize]. unfold lex_step. rewrite Hc.
    change (lt_mode lt_number) with FloatOnePoint. cbv iota. rewrite (span_onepoint_digits cs false Hcs).
    unfold imag_tail. change (lt_imag_suffix lt_number) with false. cbv iota.
    unfold conv_num. rewrite (digits_no_point (c :: cs) Hd), Hp. reflexivity.
Qed.
