(** The decimal text of a non-negative integer (what [Display] prints for an i64 / the integer part of a result) reads back
    as the same value: second clause of C19 for eval_i64 at the level of the literal reader. *)
From Coq Require Import List NArith ZArith Bool Lia.
From SC Require Import Base.RustInt Lang.Lexer Lang.Literal.
Import ListNotations.
Local Open Scope N_scope.

Fixpoint digs (fuel : nat) (n : N) (acc : list N) : list N :=
  match fuel with
  | O => acc
  | S f => let d := 48 + n mod 10 in
           if n <? 10 then d :: acc else digs f (n / 10) (d :: acc)
  end.
(** 20 digits cover every value below 10^20 > 2^64 *)
Definition show_N (n : N) : list N := digs 20 n [].

Lemma digit_ok n : is_digit (48 + n mod 10) = true /\ digit_val (48 + n mod 10) = n mod 10.
Proof.
  assert (n mod 10 < 10) by (apply N.mod_lt; discriminate).
  set (m := n mod 10) in *. clearbody m.
  unfold is_digit, digit_val. split.
  - apply andb_true_intro. split; apply N.leb_le; lia.
  - lia.
Qed.

Lemma digits_val_acc : forall cs a, digits_val a cs = a * 10 ^ N.of_nat (length cs) + digits_val 0 cs.
Proof.
  induction cs as [|c cs IH]; intros a.
  - simpl. lia.
  - change (digits_val a (c :: cs)) with (digits_val (a * 10 + digit_val c) cs).
    change (digits_val 0 (c :: cs)) with (digits_val (0 * 10 + digit_val c) cs).
    rewrite (IH (a * 10 + digit_val c)), (IH (0 * 10 + digit_val c)).
    change (length (c :: cs)) with (S (length cs)). rewrite Nat2N.inj_succ, N.pow_succ_r'. lia.
Qed.

Lemma digs_spec : forall f n acc, n < 10 ^ N.of_nat f -> (0 < f)%nat ->
  forallb is_digit acc = true ->
  forallb is_digit (digs f n acc) = true /\
  digits_val 0 (digs f n acc) = n * 10 ^ N.of_nat (length acc) + digits_val 0 acc /\ digs f n acc <> [].
Proof.
  induction f as [|f IH]; intros n acc Hn Hf Ha; [lia|]. cbn [digs].
  destruct (digit_ok n) as [D1 D2].
  destruct (n <? 10) eqn:E.
  - apply N.ltb_lt in E. split; [cbn [forallb]; rewrite D1, Ha; reflexivity|]. split; [|discriminate].
    change (digits_val 0 ((48 + n mod 10) :: acc)) with (digits_val (0 * 10 + digit_val (48 + n mod 10)) acc).
    rewrite digits_val_acc. rewrite D2. rewrite N.mod_small by exact E. lia.
  - apply N.ltb_ge in E.
    assert (Hq : n / 10 < 10 ^ N.of_nat f).
    { apply N.div_lt_upper_bound; [discriminate|]. rewrite Nat2N.inj_succ, N.pow_succ_r' in Hn. lia. }
    assert (Hf' : (0 < f)%nat).
    { destruct f; [|lia]. simpl in Hn. change (10 ^ 1) with 10 in Hn. lia. }
    destruct (IH (n / 10) ((48 + n mod 10) :: acc) Hq Hf') as (A & B & C); [cbn [forallb]; rewrite D1, Ha; reflexivity|].
    split; [exact A|]. split; [|exact C]. rewrite B.
    change (length ((48 + n mod 10) :: acc)) with (S (length acc)). rewrite Nat2N.inj_succ, N.pow_succ_r'.
    change (digits_val 0 ((48 + n mod 10) :: acc)) with (digits_val (0 * 10 + digit_val (48 + n mod 10)) acc).
    rewrite (digits_val_acc acc (0 * 10 + digit_val (48 + n mod 10))). rewrite D2.
    pose proof (N.div_mod n 10). lia.
Qed.

Theorem show_read (n : N) : n < 10 ^ 20 ->
  forallb is_digit (show_N n) = true /\ digits_val 0 (show_N n) = n /\ show_N n <> [].
Proof.
  intros H. unfold show_N. destruct (digs_spec 20 n [] H) as (A & B & C); [lia|reflexivity|].
  split; [exact A|]. split; [|exact C]. rewrite B. simpl. lia.
Qed.

(** the text of every non-negative i64 is read back exactly; one more digit than i64::MAX is rejected *)
Theorem parse_show_i64 (z : Z) : (0 <= z <= i64_max)%Z -> parse_i64 (show_N (Z.to_N z)) = Some z.
Proof.
  intros Hz. assert (Hn : Z.to_N z < 10 ^ 20).
  { unfold i64_max in Hz. apply N2Z.inj_lt. rewrite Z2N.id by lia. change (Z.of_N (10 ^ 20)) with (10 ^ 20)%Z. lia. }
  destruct (show_read _ Hn) as (A & B & C). unfold parse_i64.
  destruct (show_N (Z.to_N z)) as [|d ds] eqn:E; [congruence|].
  rewrite A, B. rewrite Z2N.id by lia. replace (z <=? i64_max)%Z with true by (symmetry; apply Z.leb_le; lia). reflexivity.
Qed.
