(** eval_number's mixed comparison [compare(Integer i, Float f)] is the exact comparison of the two
    real numbers, for every i64 and every finite double; infinities compare as expected; NaN gives None. *)
From Coq Require Import List ZArith Reals Lia Lra Bool Permutation Sorting.Sorted Floats.SpecFloat.
From Flocq Require Import Core.Core IEEE754.BinarySingleNaN Plus_error.
From SC Require Import Base.Res Base.F64 Base.RustInt Base.Num Base.Oracle Lang.Syntax Eval.EvalNum Proofs.NumberFrom.
Local Open Scope R_scope.

Lemma trunc_near x : IZR (Ztrunc x) - 1 < x < IZR (Ztrunc x) + 1.
Proof.
  destruct (Rle_or_lt 0 x) as [H|H].
  - rewrite Ztrunc_floor by exact H. pose proof (Zfloor_lb x). pose proof (Zfloor_ub x). lra.
  - rewrite Ztrunc_ceil by lra. pose proof (Zceil_ub x). pose proof (Zceil_lb x). lra.
Qed.

Lemma B2R_2p63 : B2R64 f_2p63 = IZR (2 ^ 63) /\ is_finite f_2p63 = true.
Proof.
  split; [|reflexivity]. rewrite <- SF2R_B2SF.
  replace (B2SF f_2p63) with (SpecFloat.S754_finite false 4503599627370496 11) by (vm_compute; reflexivity).
  unfold SF2R, F2R. simpl. lra.
Qed.
Lemma B2R_m2p63 : B2R64 f_m2p63 = IZR (- 2 ^ 63) /\ is_finite f_m2p63 = true.
Proof.
  split; [|reflexivity]. rewrite <- SF2R_B2SF.
  replace (B2SF f_m2p63) with (SpecFloat.S754_finite true 4503599627370496 11) by (vm_compute; reflexivity).
  unfold SF2R, F2R. simpl. lra.
Qed.

(** the fractional part f - trunc(f) keeps its sign through the rounding of the subtraction *)
Lemma frac_sign (f : f64) :
  is_finite f = true ->
  let w := ftrunc f in
  is_finite (fsub f w) = true /\
  Rcompare 0 (B2R64 (fsub f w)) = Rcompare (IZR (Ztrunc (B2R64 f))) (B2R64 f).
Proof.
  intros Ff w. destruct (nearbyint_int mode_ZR f) as [Hw Fw]. fold (ftrunc f) in Hw, Fw. fold w in Hw, Fw.
  rewrite Ff in Fw. simpl round_mode in Hw.
  set (x := B2R64 f) in *. set (t := Ztrunc x) in *.
  pose proof (trunc_near x) as Hn. fold t in Hn.
  pose proof (Bminus_correct 53 1024 Hprec Hemax mode_NE f w Ff Fw) as HB.
  fold x in HB. rewrite Hw in HB.
  pose proof (fexp_correct 53 1024 Hprec) as VE.
  assert (F1 : generic_format radix2 fexp64 1).
  { change 1 with (bpow radix2 0). apply (generic_format_bpow radix2 fexp64 0). vm_compute. discriminate. }
  assert (Fm1 : generic_format radix2 fexp64 (-1)) by (apply generic_format_opp; exact F1).
  assert (Hr : -1 <= round radix2 fexp64 (round_mode mode_NE) (x - IZR t) <= 1).
  { split.
    - apply round_ge_generic; auto with typeclass_instances. lra.
    - apply round_le_generic; auto with typeclass_instances. lra. }
  assert (Hsmall : Rabs (round radix2 fexp64 (round_mode mode_NE) (x - IZR t)) < bpow radix2 1024).
  { apply Rle_lt_trans with 1; [apply Rabs_le; lra|].
    change 1 with (bpow radix2 0). apply bpow_lt. lia. }
  rewrite Rlt_bool_true in HB by exact Hsmall. destruct HB as [HR [HF _]].
  unfold fsub, F64.prec, F64.emax in *. split; [exact HF|]. rewrite HR.
  set (r := round radix2 fexp64 (round_mode mode_NE) (x - IZR t)) in *.
  destruct (Rtotal_order (IZR t) x) as [Hlt|[Heq|Hgt]].
  - (* t < x : the difference is positive and does not round to zero *)
    rewrite (Rcompare_Lt (IZR t) x) by exact Hlt. apply Rcompare_Lt.
    assert (0 <= r) by (apply round_ge_generic; auto with typeclass_instances; [apply generic_format_0|lra]).
    assert (r <> 0).
    { apply (round_plus_neq_0 radix2 fexp64 (round_mode mode_NE) x (- IZR t)); auto with typeclass_instances.
      - apply generic_format_B2R.
      - apply generic_format_opp. rewrite <- Hw. apply generic_format_B2R.
      - lra. }
    lra.
  - rewrite (Rcompare_Eq (IZR t) x) by exact Heq. apply Rcompare_Eq. unfold r.
    replace (x - IZR t) with 0 by lra. rewrite round_0; auto with typeclass_instances.
  - rewrite (Rcompare_Gt (IZR t) x) by exact Hgt. apply Rcompare_Gt.
    assert (r <= 0) by (apply round_le_generic; auto with typeclass_instances; [apply generic_format_0|lra]).
    assert (r <> 0).
    { apply (round_plus_neq_0 radix2 fexp64 (round_mode mode_NE) x (- IZR t)); auto with typeclass_instances.
      - apply generic_format_B2R.
      - apply generic_format_opp. rewrite <- Hw. apply generic_format_B2R.
      - lra. }
    lra.
Qed.

Theorem int_float_exact (i : Z) (f : f64) :
  in_range i -> is_finite f = true ->
  int_float i f = Some (Rcompare (IZR i) (B2R64 f)).
Proof.
  intros Hi Ff. destruct B2R_2p63 as [R1 F1]. destruct B2R_m2p63 as [R2 F2].
  destruct (nearbyint_int mode_ZR f) as [Hw Fw]. fold (ftrunc f) in Hw, Fw. rewrite Ff in Fw. simpl round_mode in Hw.
  unfold int_float. replace (fis_nan f) with false by (destruct f; try discriminate; reflexivity).
  unfold fge, fle, flt, F64.prec, F64.emax in *.
  rewrite Bleb_correct, Bltb_correct by assumption. rewrite R1, R2.
  unfold in_range in Hi.
  case Rle_bool_spec; intros A.
  { f_equal. symmetry. apply Rcompare_Lt. apply Rlt_le_trans with (IZR (2 ^ 63)); [apply IZR_lt; lia|exact A]. }
  case Rlt_bool_spec; intros B.
  { f_equal. symmetry. apply Rcompare_Gt. apply Rlt_le_trans with (IZR (- 2 ^ 63)); [exact B|apply IZR_le; lia]. }
  set (x := B2R64 f) in *. set (t := Ztrunc x) in *. pose proof (trunc_near x) as Hn. fold t in Hn.
  assert (Ht : (- 2 ^ 63 <= t < 2 ^ 63)%Z).
  { split.
    - apply le_IZR. destruct (Rle_or_lt 0 x) as [H0|H0].
      + apply Rle_trans with 0; [apply IZR_le; lia|]. unfold t. rewrite Ztrunc_floor by exact H0.
        apply IZR_le. apply Zfloor_lub. simpl. exact H0.
      + unfold t. rewrite Ztrunc_ceil by lra. apply Rle_trans with x; [exact B|apply Zceil_ub].
    - apply lt_IZR. destruct (Rle_or_lt 0 x) as [H0|H0].
      + unfold t. rewrite Ztrunc_floor by exact H0. apply Rle_lt_trans with x; [apply Zfloor_lb|exact A].
      + apply Rle_lt_trans with 0; [|apply IZR_lt; lia]. unfold t. rewrite Ztrunc_ceil by lra.
        apply IZR_le. apply Zceil_glb. simpl. lra. }
  assert (Hc : f64_to_i64 (ftrunc f) = t).
  { unfold f64_to_i64, sat_cast. rewrite (trunc_of_int (ftrunc f) _ Hw).
    destruct (ftrunc f); try discriminate; unfold F64.i64_min, F64.i64_max; lia. }
  rewrite Hc. destruct (Z.compare_spec i t) as [E|E|E].
  - subst i. destruct (frac_sign f Ff) as [Ffr Hs]. fold x in Hs. fold t in Hs.
    unfold F64.prec, F64.emax in *. rewrite Bcompare_correct by (auto; reflexivity). simpl B2R. f_equal. exact Hs.
  - f_equal. symmetry. apply Rcompare_Lt. apply Rle_lt_trans with (IZR t - 1); [|lra].
    rewrite <- minus_IZR. apply IZR_le. lia.
  - f_equal. symmetry. apply Rcompare_Gt. apply Rlt_le_trans with (IZR t + 1); [lra|].
    rewrite <- plus_IZR. apply IZR_le. lia.
Qed.

(** infinities and NaN *)
Lemma int_float_nonfinite (i : Z) :
  int_float i (B754_infinity false) = Some Lt /\ int_float i (B754_infinity true) = Some Gt /\ int_float i B754_nan = None.
Proof. repeat split; reflexivity. Qed.

(** ** the comparison of two Numbers is the comparison of their real values *)
Definition nfinite (n : number) : bool := match n with Int _ => true | Flt x => is_finite x end.
Definition nval (n : number) : R := match n with Int i => IZR i | Flt x => B2R64 x end.
Definition nrange (n : number) : Prop := match n with Int i => in_range i | Flt _ => True end.

Theorem ncmp_exact a b : nrange a -> nrange b -> nfinite a = true -> nfinite b = true ->
  ncmp a b = Some (Rcompare (nval a) (nval b)).
Proof.
  destruct a as [x|x], b as [y|y]; simpl; intros Ra Rb Fa Fb.
  - now rewrite Rcompare_IZR.
  - now apply int_float_exact.
  - rewrite (int_float_exact y x Rb Fa). simpl. f_equal. symmetry. apply Rcompare_sym.
  - unfold F64.prec, F64.emax in *. now apply Bcompare_correct.
Qed.

Section Pick.
  Lemma pick_spec want (Hw : want = Lt \/ want = Gt) :
    forall vs l, Forall (fun v => nrange v /\ nfinite v = true) vs -> nrange l -> nfinite l = true ->
    forall r, pick want (Some l) vs = Some r ->
      (r = l \/ List.In r vs) /\ nrange r /\ nfinite r = true /\
      (if match want with Lt => true | _ => false end
       then nval r <= nval l /\ Forall (fun v => nval r <= nval v) vs
       else nval l <= nval r /\ Forall (fun v => nval v <= nval r) vs).
  Proof.
    induction vs as [|v vs IH]; intros l HF Rl Fl r H; simpl in H.
    - inversion H; subst. repeat split; auto; destruct Hw as [->| ->]; split; try lra; constructor.
    - inversion HF as [|? ? [Rv Fv] HF']; subst.
      rewrite (ncmp_exact l v Rl Rv Fl Fv) in H.
      set (c := Rcompare (nval l) (nval v)) in *.
      set (keep := match c, want with Lt, Lt | Gt, Gt => true | _, _ => false end) in *.
      assert (Hk : if keep then True else True) by (destruct keep; exact I).
      destruct keep eqn:K.
      + destruct (IH l HF' Rl Fl r H) as [Hin [Rr [Fr Hord]]].
        split; [destruct Hin; [left|right; right]; assumption|]. split; [exact Rr|]. split; [exact Fr|].
        unfold keep, c in K. destruct Hw as [->| ->].
        * destruct Hord as [H1 H2]. split; [exact H1|]. constructor; [|exact H2].
          revert K. case Rcompare_spec; intros; try discriminate. lra.
        * destruct Hord as [H1 H2]. split; [exact H1|]. constructor; [|exact H2].
          revert K. case Rcompare_spec; intros; try discriminate. lra.
      + destruct (IH v HF' Rv Fv r H) as [Hin [Rr [Fr Hord]]].
        split; [destruct Hin; [right; left; symmetry|right; right]; assumption|]. split; [exact Rr|]. split; [exact Fr|].
        unfold keep, c in K. destruct Hw as [->| ->].
        * destruct Hord as [H1 H2]. assert (nval v <= nval l) by (revert K; case Rcompare_spec; intros; try discriminate; lra).
          split; [lra|]. constructor; [exact H1|exact H2].
        * destruct Hord as [H1 H2]. assert (nval l <= nval v) by (revert K; case Rcompare_spec; intros; try discriminate; lra).
          split; [lra|]. constructor; [exact H1|exact H2].
  Qed.
End Pick.

Definition nfin_all (vs : list number) : Prop := Forall (fun v => nrange v /\ nfinite v = true) vs.

Section AggNum.
  (** min / max of eval_number: one of the arguments, and below / above every argument as real numbers *)
  Theorem agg_num_min vs r : nfin_all vs -> vs <> nil -> agg_num AMin vs = Ok r ->
    List.In r vs /\ Forall (fun v => nval r <= nval v) vs.
  Proof.
    intros HF Hne H. destruct vs as [|v vs]; [congruence|]. unfold agg_num in H.
    inversion HF as [|? ? [Rv Fv] HF']; subst.
    destruct (1 <? length (v :: vs))%nat eqn:E.
    - simpl pick in H. destruct (pick Lt (Some v) vs) as [r0|] eqn:P; [|discriminate]. inversion H; subst r0.
      destruct (pick_spec Lt (or_introl eq_refl) vs v HF' Rv Fv r P) as [Hin [_ [_ [H1 H2]]]].
      split; [destruct Hin; [left; symmetry|right]; assumption|]. constructor; assumption.
    - inversion H; subst. destruct vs; [|simpl in E; discriminate]. split; [now left|]. constructor; [lra|constructor].
  Qed.

  Theorem agg_num_max vs r : nfin_all vs -> vs <> nil -> agg_num AMax vs = Ok r ->
    List.In r vs /\ Forall (fun v => nval v <= nval r) vs.
  Proof.
    intros HF Hne H. destruct vs as [|v vs]; [congruence|]. unfold agg_num in H.
    inversion HF as [|? ? [Rv Fv] HF']; subst.
    destruct (1 <? length (v :: vs))%nat eqn:E.
    - simpl pick in H. destruct (pick Gt (Some v) vs) as [r0|] eqn:P; [|discriminate]. inversion H; subst r0.
      destruct (pick_spec Gt (or_intror eq_refl) vs v HF' Rv Fv r P) as [Hin [_ [_ [H1 H2]]]].
      split; [destruct Hin; [left; symmetry|right]; assumption|]. constructor; assumption.
    - inversion H; subst. destruct vs; [|simpl in E; discriminate]. split; [now left|]. constructor; [lra|constructor].
  Qed.

  (** hence their VALUE does not depend on the order of the arguments (the variant may: Integer(2) vs Float(2.0)) *)
  Theorem agg_num_minmax_perm g vs vs' r r' : g = AMin \/ g = AMax -> nfin_all vs -> vs <> nil -> Permutation vs vs' ->
    agg_num g vs = Ok r -> agg_num g vs' = Ok r' -> nval r = nval r'.
  Proof.
    intros Hg HF Hne P H H'.
    assert (HF' : nfin_all vs') by (unfold nfin_all in *; rewrite Forall_forall in *; intros x Hx; apply HF; eapply Permutation_in; [apply Permutation_sym; exact P|exact Hx]).
    assert (Hne' : vs' <> nil) by (intros ->; apply Permutation_sym, Permutation_nil in P; congruence).
    destruct Hg as [->| ->].
    - destruct (agg_num_min vs r HF Hne H) as [I1 A1]. destruct (agg_num_min vs' r' HF' Hne' H') as [I2 A2].
      rewrite Forall_forall in A1, A2.
      pose proof (A1 r' (Permutation_in _ (Permutation_sym P) I2)). pose proof (A2 r (Permutation_in _ P I1)). lra.
    - destruct (agg_num_max vs r HF Hne H) as [I1 A1]. destruct (agg_num_max vs' r' HF' Hne' H') as [I2 A2].
      rewrite Forall_forall in A1, A2.
      pose proof (A1 r' (Permutation_in _ (Permutation_sym P) I2)). pose proof (A2 r (Permutation_in _ P I1)). lra.
  Qed.
End AggNum.

(** ** the sort of eval_number's med: a permutation sorted by real value *)
Lemma ninsert_perm x l : Permutation (x :: l) (ninsert x l).
Proof.
  induction l as [|y l IH]; simpl; [apply Permutation_refl|].
  destruct (nle x y); [apply Permutation_refl|].
  eapply Permutation_trans; [apply perm_swap|]. now apply perm_skip.
Qed.
Lemma sortN_perm l : Permutation l (sortN l).
Proof.
  induction l as [|x l IH]; simpl; [constructor|].
  eapply Permutation_trans; [apply perm_skip; exact IH|apply ninsert_perm].
Qed.

Definition vle (a b : number) : Prop := nval a <= nval b.

Lemma nfin_all_perm l l' : Permutation l l' -> nfin_all l -> nfin_all l'.
Proof.
  unfold nfin_all. intros P H. rewrite Forall_forall in *. intros x Hx. apply H.
  eapply Permutation_in; [apply Permutation_sym; exact P|exact Hx].
Qed.

Lemma nle_exact a b : nrange a -> nrange b -> nfinite a = true -> nfinite b = true ->
  nle a b = true <-> nval a <= nval b.
Proof.
  intros Ra Rb Fa Fb. unfold nle. rewrite (ncmp_exact a b Ra Rb Fa Fb).
  case Rcompare_spec; intros H; split; intros; try lra; try reflexivity; discriminate.
Qed.

Lemma ninsert_sorted x l : nrange x -> nfinite x = true -> nfin_all l ->
  StronglySorted vle l -> StronglySorted vle (ninsert x l).
Proof.
  intros Rx Fx HF HS. induction HS as [|y l HS IH Hy]; simpl.
  - constructor; constructor.
  - inversion HF as [|? ? [Ry Fy] HF']; subst.
    destruct (nle x y) eqn:E.
    + apply (nle_exact x y Rx Ry Fx Fy) in E. constructor; [constructor; assumption|].
      constructor; [exact E|]. rewrite Forall_forall in *. intros z Hz. specialize (Hy z Hz). unfold vle in *. lra.
    + assert (E' : nval y <= nval x).
      { destruct (Rle_or_lt (nval x) (nval y)) as [H|H]; [|lra].
        apply (nle_exact x y Rx Ry Fx Fy) in H. congruence. }
      constructor; [apply IH; exact HF'|].
      rewrite Forall_forall in *. intros z Hz.
      apply (Permutation_in _ (Permutation_sym (ninsert_perm x l))) in Hz. destruct Hz as [<-|Hz]; [exact E'|now apply Hy].
Qed.

Lemma sortN_sorted l : nfin_all l -> StronglySorted vle (sortN l).
Proof.
  induction l as [|x l IH]; intros HF; simpl; [constructor|].
  inversion HF as [|? ? [Rx Fx] HF']; subst.
  apply ninsert_sorted; auto. eapply nfin_all_perm; [apply sortN_perm|exact HF'].
Qed.

(** two lists of reals that are sorted and permutations of each other are equal *)
Lemma sorted_perm_eq (l l' : list R) :
  StronglySorted Rle l -> StronglySorted Rle l' -> Permutation l l' -> l = l'.
Proof.
  revert l'. induction l as [|x l IH]; intros l' S S' P.
  - apply Permutation_nil in P. now subst.
  - destruct l' as [|y l']; [apply Permutation_sym, Permutation_nil in P; discriminate|].
    inversion S as [|? ? S1 H1]; subst. inversion S' as [|? ? S1' H1']; subst.
    assert (x = y).
    { rewrite Forall_forall in H1, H1'.
      assert (Hy : List.In y (x :: l)) by (eapply Permutation_in; [apply Permutation_sym; exact P|now left]).
      assert (Hx : List.In x (y :: l')) by (eapply Permutation_in; [exact P|now left]).
      destruct Hy as [Hy|Hy]; [now symmetry|]. destruct Hx as [Hx|Hx]; [exact (eq_sym Hx)|].
      apply Rle_antisym; [now apply H1|now apply H1']. }
    subst y. f_equal. apply IH; auto. now apply Permutation_cons_inv in P.
Qed.

Lemma sorted_map_vle l : StronglySorted vle l -> StronglySorted Rle (map nval l).
Proof.
  induction 1 as [|x l S IH H]; simpl; constructor; auto.
  rewrite Forall_forall in *. intros r Hr. apply in_map_iff in Hr. destruct Hr as (z & <- & Hz). now apply H.
Qed.

(** the sorted VALUES depend only on the multiset of arguments *)
Theorem sortN_values_perm l l' : nfin_all l -> Permutation l l' -> map nval (sortN l) = map nval (sortN l').
Proof.
  intros HF P. apply sorted_perm_eq.
  - apply sorted_map_vle, sortN_sorted, HF.
  - apply sorted_map_vle, sortN_sorted. eapply nfin_all_perm; eauto.
  - apply Permutation_map.
    eapply Permutation_trans; [apply Permutation_sym, sortN_perm|].
    eapply Permutation_trans; [exact P|apply sortN_perm].
Qed.

(** odd count, finite arguments: med is an argument, as many arguments are <= it as are >= it (it is the middle of the
    sorted permutation), and its value does not depend on the order of the arguments *)
Theorem agg_num_med_odd_perm vs vs' r r' : nfin_all vs -> Permutation vs vs' -> Nat.even (length vs) = false ->
  agg_num AMed vs = Ok r -> agg_num AMed vs' = Ok r' -> nval r = nval r'.
Proof.
  intros HF P He H H'.
  assert (HF' : nfin_all vs') by (eapply nfin_all_perm; eauto).
  assert (NN : forall l, nfin_all l -> existsb (fun n => match n with Flt x => fis_nan x | Int _ => false end) l = false).
  { induction l as [|x l IH]; intros HL; [reflexivity|]. inversion HL as [|? ? [_ Fx] HL']; subst. simpl.
    rewrite (IH HL'). destruct x as [i|x]; [reflexivity|]. simpl in Fx. destruct x; try discriminate; reflexivity. }
  unfold agg_num in H, H'. rewrite (NN _ HF) in H. rewrite (NN _ HF') in H'.
  rewrite <- (Permutation_length P) in H'. rewrite He in H, H'.
  unfold Eval.Common.index in H, H'.
  destruct (nth_error (sortN vs) (Nat.div2 (length vs))) as [a|] eqn:E; [|discriminate].
  destruct (nth_error (sortN vs') (Nat.div2 (length vs))) as [b|] eqn:E'; [|discriminate].
  inversion H; inversion H'; subst.
  apply (map_nth_error nval) in E. apply (map_nth_error nval) in E'.
  rewrite (sortN_values_perm vs vs' HF P) in E. congruence.
Qed.
