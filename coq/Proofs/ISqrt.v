(** eval_i64's sqrt (the double square root of the operand, truncated) is the integer square root or one more,
    for every operand 0 <= v < 2^53: "within 1 of the real result" (C10). *)
From Coq Require Import ZArith Reals Lia Lra Bool Floats.SpecFloat.
From Flocq Require Import Core.Core IEEE754.BinarySingleNaN.
From SC Require Import Base.Res Base.F64 Base.RustInt Base.Oracle Lang.Syntax Eval.EvalI64 Proofs.NumberFrom Proofs.AgreeF64.
Local Open Scope R_scope.

Lemma sqrt_between v : (0 <= v)%Z -> IZR (Z.sqrt v) <= sqrt (IZR v) < IZR (Z.sqrt v + 1).
Proof.
  intros Hv. destruct (Z.sqrt_spec v Hv) as [L U]. set (k := Z.sqrt v) in *.
  assert (Hk : (0 <= k)%Z) by apply Z.sqrt_nonneg.
  split.
  - rewrite <- (sqrt_Rsqr (IZR k)) by (apply IZR_le; lia). apply sqrt_le_1_alt. unfold Rsqr. rewrite <- mult_IZR. apply IZR_le. lia.
  - rewrite <- (sqrt_Rsqr (IZR (k + 1))) by (apply IZR_le; lia). apply sqrt_lt_1_alt. split; [apply IZR_le; lia|].
    unfold Rsqr. rewrite <- mult_IZR. apply IZR_lt. unfold Z.succ in U. lia.
Qed.

Theorem isqrt_within_1 (L : libm) v : (0 <= v < 2 ^ 53)%Z ->
  exists r, un_i64 L USqrt v = Ok r /\ (Z.sqrt v <= r <= Z.sqrt v + 1)%Z.
Proof.
  intros Hv. simpl. unfold as_f. eexists; split; [reflexivity|].
  assert (Hs : (Z.abs v < 2 ^ 53)%Z) by lia.
  destruct (of_Z_small v Hs) as [Rv [Fv Sv]].
  destruct (Bsqrt_correct 53 1024 Hprec Hemax mode_NE (f64_of_Z v)) as [H1 [H2 _]].
  set (k := Z.sqrt v). destruct (sqrt_between v (proj1 Hv)) as [Lo Up]. fold k in Lo, Up.
  assert (Hk : (0 <= k)%Z) by apply Z.sqrt_nonneg.
  assert (Hk53 : (k + 1 < 2 ^ 53)%Z).
  { assert (k <= v)%Z by (apply Z.sqrt_le_lin; lia). destruct (Z.eq_dec v 0) as [->|Nz]; [unfold k; simpl; lia|].
    assert (k * k <= v)%Z by (apply Z.sqrt_spec; lia). nia. }
  set (q := fsqrt (f64_of_Z v)) in *.
  assert (Gk : generic_format radix2 fexp64 (IZR k)) by (apply small_format; lia).
  assert (Gk1 : generic_format radix2 fexp64 (IZR (k + 1))) by (apply small_format; lia).
  assert (Bq : IZR k <= B2R64 q <= IZR (k + 1)).
  { unfold q, fsqrt, F64.prec, F64.emax in *. rewrite H1, Rv. split.
    - exact (round_ge_generic radix2 fexp64 (round_mode mode_NE) (IZR k) (sqrt (IZR v)) Gk Lo).
    - apply (round_le_generic radix2 fexp64 (round_mode mode_NE) (sqrt (IZR v)) (IZR (k + 1)) Gk1). lra. }
  assert (Fq : is_finite q = true).
  { unfold q, fsqrt. unfold F64.prec, F64.emax in *. rewrite H2. clear - Fv Sv Hv.
    destruct (f64_of_Z v) as [s|s| |s m e B]; try discriminate; try reflexivity.
    simpl in Sv. subst s. destruct (Z.ltb_spec v 0); [lia|reflexivity]. }
  assert (Tq : (k <= Btrunc q <= k + 1)%Z).
  { assert (E : IZR (Btrunc q) = IZR (Ztrunc (B2R64 q))).
    { unfold F64.prec, F64.emax in *. rewrite (Btrunc_correct 53 1024 Hemax). now rewrite round_FIX_IZR. }
    apply eq_IZR in E. rewrite E. rewrite Ztrunc_floor by (apply Rle_trans with (IZR k); [apply IZR_le; lia|apply Bq]).
    split.
    - apply Zfloor_lub. apply Bq.
    - apply le_IZR. apply Rle_trans with (B2R64 q); [apply Zfloor_lb|apply Bq]. }
  unfold f64_to_i64, sat_cast. fold q. destruct q as [s|s| |s m e B]; try discriminate; unfold F64.i64_min, F64.i64_max; lia.
Qed.
