(** Number::from(f64) (after the repair) for ALL doubles: Integer exactly for the finite integral
    values in [-2^63, 2^63), with the same numeric value; Float with the same bits otherwise. *)
From Coq Require Import ZArith Reals Lia Lra Bool Floats.SpecFloat.
From Flocq Require Import Core.Core IEEE754.BinarySingleNaN Plus_error.
From SC Require Import Base.F64 Base.RustInt Base.Num Base.Oracle Eval.EvalNum.
Local Open Scope R_scope.

Notation fexp64 := (SpecFloat.fexp 53 1024).
Notation B2R64 := (@B2R 53 1024).

Lemma floor_correct (v : f64) :
  B2R64 (ffloor v) = IZR (Zfloor (B2R64 v)) /\ is_finite (ffloor v) = is_finite v.
Proof.
  unfold ffloor. destruct (Bnearbyint_correct 53 1024 Hemax mode_DN v) as [H1 [H2 _]].
  split; [|exact H2]. exact (eq_trans H1 (round_FIX_IZR _ _)).
Qed.

Lemma sub_floor_zero (v : f64) :
  is_finite v = true ->
  feq (fsub v (ffloor v)) fzero = true <-> B2R64 v = IZR (Zfloor (B2R64 v)).
Proof.
  intros Fv. destruct (floor_correct v) as [Hfl Ffl]. rewrite Fv in Ffl.
  set (x := B2R64 v) in *. set (k := Zfloor x) in *.
  assert (Hk : IZR k <= x < IZR k + 1).
  { split; [apply Zfloor_lb|]. apply Zfloor_ub. }
  pose proof (Bminus_correct 53 1024 Hprec Hemax mode_NE v (ffloor v) Fv Ffl) as HB.
  fold x in HB. rewrite Hfl in HB.
  pose proof (fexp_correct 53 1024 Hprec) as VE.
  assert (F1 : generic_format radix2 fexp64 1).
  { change 1 with (bpow radix2 0). apply (generic_format_bpow radix2 fexp64 0). vm_compute. discriminate. }
  assert (Hr : 0 <= round radix2 fexp64 (round_mode mode_NE) (x - IZR k) <= 1).
  { split.
    - apply round_ge_generic; auto with typeclass_instances. apply generic_format_0. lra.
    - apply round_le_generic; auto with typeclass_instances. lra. }
  assert (Hsmall : Rabs (round radix2 fexp64 (round_mode mode_NE) (x - IZR k)) < bpow radix2 1024).
  { rewrite Rabs_pos_eq by lra. apply Rle_lt_trans with 1; [lra|].
    change 1 with (bpow radix2 0). apply bpow_lt. lia. }
  rewrite Rlt_bool_true in HB by exact Hsmall. destruct HB as [HR [HF _]].
  unfold feq, fsub, fzero, F64.prec, F64.emax in *. rewrite Beqb_correct by (auto; reflexivity). rewrite HR. simpl B2R.
  split.
  - intros H. apply Req_bool_true_iff in H || (revert H; case Req_bool_spec; [intros H _|discriminate]).
    destruct (Req_dec (x - IZR k) 0) as [E|E]; [lra|]. exfalso.
    apply (round_plus_neq_0 radix2 fexp64 (round_mode mode_NE) x (- IZR k)); auto with typeclass_instances.
    + apply generic_format_B2R.
    + apply generic_format_opp. rewrite <- Hfl. apply generic_format_B2R.
  - intros H. rewrite H. replace (IZR k - IZR k) with 0 by ring. rewrite round_0; auto with typeclass_instances.
    now apply Req_bool_true.
Qed.

Lemma B2R_min : B2R64 (f64_of_Z RustInt.i64_min) = IZR (- 2 ^ 63) /\ is_finite (f64_of_Z RustInt.i64_min) = true.
Proof.
  split; [|reflexivity].
  rewrite <- SF2R_B2SF.
  replace (B2SF (f64_of_Z RustInt.i64_min)) with (SpecFloat.S754_finite true 4503599627370496 11) by (vm_compute; reflexivity).
  unfold SF2R, F2R. simpl. lra.
Qed.
Lemma B2R_max : B2R64 (f64_of_Z RustInt.i64_max) = IZR (2 ^ 63) /\ is_finite (f64_of_Z RustInt.i64_max) = true.
Proof.
  split; [|reflexivity].
  rewrite <- SF2R_B2SF.
  replace (B2SF (f64_of_Z RustInt.i64_max)) with (SpecFloat.S754_finite false 4503599627370496 11) by (vm_compute; reflexivity).
  unfold SF2R, F2R. simpl. lra.
Qed.

Lemma trunc_of_int (x : f64) k : B2R64 x = IZR k -> Btrunc x = k.
Proof.
  intros H. apply eq_IZR. rewrite Btrunc_correct by exact Hemax. rewrite round_FIX_IZR. unfold F64.prec, F64.emax in *. rewrite H. now rewrite Ztrunc_IZR.
Qed.

Definition in_range (n : Z) : Prop := (- 2 ^ 63 <= n < 2 ^ 63)%Z.

Theorem number_of_f64_spec (v : f64) :
  match number_of_f64 v with
  | Int n => is_finite v = true /\ B2R64 v = IZR n /\ in_range n
  | Flt x => x = v /\ ~ (is_finite v = true /\ exists n, B2R64 v = IZR n /\ in_range n)
  end.
Proof.
  destruct (is_finite v) eqn:Fv.
  2:{ (* infinities and NaN stay Floats *)
      destruct v as [s|s| |s m e B]; try discriminate; try destruct s;
        (change (number_of_f64 _) with (Flt (B754_infinity true : f64)) || change (number_of_f64 _) with (Flt (B754_infinity false : f64)) || change (number_of_f64 _) with (Flt (B754_nan : f64)));
        (split; [reflexivity|intros [H _]; discriminate]). }
  unfold number_of_f64.
  destruct (floor_correct v) as [Hfl Ffl]. rewrite Fv in Ffl.
  pose proof (sub_floor_zero v Fv) as Hz.
  destruct (feq (fsub v (ffloor v)) fzero) eqn:Ez.
  - (* integral *)
    assert (Hint : B2R64 v = IZR (Zfloor (B2R64 v))) by (now apply Hz).
    set (k := Zfloor (B2R64 v)) in *.
    destruct B2R_min as [Rmin Fmin]. destruct B2R_max as [Rmax Fmax].
    unfold fge, fle, flt, F64.prec, F64.emax in *.
    rewrite Bleb_correct, Bltb_correct by assumption.
    rewrite Hfl, Rmin, Rmax.
    destruct (Rle_bool_spec (IZR (- 2 ^ 63)) (IZR k)) as [H1|H1];
      destruct (Rlt_bool_spec (IZR k) (IZR (2 ^ 63))) as [H2|H2]; simpl.
    + apply le_IZR in H1. apply lt_IZR in H2.
      assert (Et : f64_to_i64 (ffloor v) = k).
      { unfold f64_to_i64, sat_cast. rewrite (trunc_of_int (ffloor v) k Hfl).
        destruct (ffloor v); try discriminate; unfold F64.i64_min, F64.i64_max; lia. }
      rewrite Et. repeat split; auto.
    + split; [reflexivity|]. intros [_ [n [Hn [_ Hn2]]]]. rewrite Hint in Hn. apply eq_IZR in Hn. subst n.
      apply IZR_lt in Hn2. lra.
    + split; [reflexivity|]. intros [_ [n [Hn [Hn1 _]]]]. rewrite Hint in Hn. apply eq_IZR in Hn. subst n.
      apply IZR_le in Hn1. lra.
    + split; [reflexivity|]. intros [_ [n [Hn [Hn1 _]]]]. rewrite Hint in Hn. apply eq_IZR in Hn. subst n.
      apply IZR_le in Hn1. lra.
  - (* not integral *)
    split; [reflexivity|]. intros [_ [n [Hn _]]].
    assert (E : false = true); [|discriminate].
    apply Hz. rewrite Hn. now rewrite Zfloor_IZR.
Qed.

(** floor / ceil / round / trunc of a Float in eval_number: the correctly rounded integer *)
Definition rnd_of (md : mode) : R -> Z := round_mode md.

Lemma nearbyint_int (md : mode) (x : f64) :
  B2R64 (Bnearbyint md x) = IZR (round_mode md (B2R64 x)) /\ is_finite (Bnearbyint md x) = is_finite x.
Proof.
  destruct (Bnearbyint_correct 53 1024 Hemax md x) as [H1 [H2 _]].
  split; [|exact H2]. exact (eq_trans H1 (round_FIX_IZR _ _)).
Qed.

Lemma in_i64_f_spec (f : f64) k :
  is_finite f = true -> B2R64 f = IZR k ->
  in_i64_f f = true <-> (- 2 ^ 63 <= k < 2 ^ 63)%Z.
Proof.
  intros Ff Hk. destruct B2R_min as [Rmin Fmin]. destruct B2R_max as [Rmax Fmax].
  unfold in_i64_f, fge, fle, flt, F64.prec, F64.emax in *.
  rewrite Bleb_correct, Bltb_correct by assumption. rewrite Hk, Rmin, Rmax.
  rewrite andb_true_iff. split.
  - intros [A B]. revert A B. case Rlt_bool_spec; [|discriminate]. intros A _.
    case Rle_bool_spec; [|discriminate]. intros B _. apply lt_IZR in A. apply le_IZR in B. lia.
  - intros [A B]. split; [apply Rlt_bool_true; apply IZR_lt; lia|apply Rle_bool_true; apply IZR_le; lia].
Qed.

Lemma in_i64_f_nonfinite (f : f64) : is_finite f = false -> in_i64_f f = false.
Proof. destruct f as [s|[|]| |]; try discriminate; intros _; reflexivity. Qed.

(** the Integer result of a rounding function is the mathematically rounded value *)
Theorem rounding_to_integer (md : mode) (x : f64) :
  let f := Bnearbyint md x in
  if in_i64_f f then
    is_finite x = true /\ f64_to_i64 f = round_mode md (B2R64 x) /\
    (- 2 ^ 63 <= round_mode md (B2R64 x) < 2 ^ 63)%Z
  else
    is_finite x = false \/ ~ (- 2 ^ 63 <= round_mode md (B2R64 x) < 2 ^ 63)%Z.
Proof.
  intros f. destruct (nearbyint_int md x) as [Hv Hf]. fold f in Hv, Hf.
  destruct (is_finite x) eqn:Fx.
  - pose proof (in_i64_f_spec f _ Hf Hv) as HS. destruct (in_i64_f f) eqn:E.
    + assert (R : (- 2 ^ 63 <= round_mode md (B2R64 x) < 2 ^ 63)%Z) by (now apply HS).
      repeat split; try apply R.
      unfold f64_to_i64, sat_cast. rewrite (trunc_of_int f _ Hv).
      destruct f; try discriminate; unfold F64.i64_min, F64.i64_max; lia.
    + right. intros R. apply HS in R. discriminate.
  - rewrite (in_i64_f_nonfinite f Hf). now left.
Qed.
