(** Aggregates (C11): argument evaluation, order independence, and the values computed (eval_i64;
    the f64/number/decimal aggregates share the structure and differ in the library primitives). *)
From Coq Require Import List ZArith Bool Lia Permutation Sorting.Sorted.
From SC Require Import Base.Res Base.RustInt Base.Oracle Lang.Syntax Eval.Common Eval.EvalI64 Proofs.NoPanic Proofs.GcdFacts.
Import ListNotations.
Local Open Scope Z_scope.

(** an aggregate is evaluated only when every argument evaluates; the first failure is the result *)
Lemma go_args_ok {V R} (ev : node V -> res R) args vs :
  go_args ev args = Ok vs -> Forall2 (fun a v => ev a = Ok v) args vs.
Proof.
  revert vs. induction args as [|x xs IH]; simpl; intros vs H.
  - inversion H. constructor.
  - destruct (ev x) eqn:E; simpl in H; try discriminate.
    destruct (go_args ev xs) eqn:E2; simpl in H; try discriminate. inversion H; subst. constructor; auto.
Qed.
Lemma go_args_err {V R} (ev : node V -> res R) pre x post vs :
  go_args ev pre = Ok vs -> ev x = Err -> go_args ev (pre ++ x :: post) = Err.
Proof.
  revert vs. induction pre as [|y ys IH]; simpl; intros vs H Hx.
  - now rewrite Hx.
  - destruct (ev y); simpl in *; try discriminate. destruct (go_args ev ys) eqn:E; simpl in H; try discriminate.
    now rewrite (IH _ eq_refl Hx).
Qed.

(** insertion sort only depends on the multiset when the key order is antisymmetric *)
Section SortPerm.
  Context {A : Type}.
  Variable key : A -> Z.
  Hypothesis key_inj : forall x y, key x = key y -> x = y.

  Lemma insert_comm x y l : insert key x (insert key y l) = insert key y (insert key x l).
  Proof.
    induction l as [|z l IH]; simpl.
    - destruct (key x <=? key y) eqn:E1; destruct (key y <=? key x) eqn:E2; try reflexivity.
      + apply Z.leb_le in E1, E2. assert (x = y) by (apply key_inj; lia). now subst.
      + apply Z.leb_gt in E1, E2. lia.
    - destruct (key y <=? key z) eqn:Ey; destruct (key x <=? key z) eqn:Ex; simpl; rewrite ?Ey, ?Ex.
      + destruct (key x <=? key y) eqn:E1; destruct (key y <=? key x) eqn:E2; try reflexivity.
        * apply Z.leb_le in E1, E2. assert (x = y) by (apply key_inj; lia). now subst.
        * apply Z.leb_gt in E1, E2. lia.
      + destruct (key x <=? key y) eqn:E1; [|reflexivity]. apply Z.leb_le in E1, Ey. apply Z.leb_gt in Ex. lia.
      + destruct (key y <=? key x) eqn:E2; [|reflexivity]. apply Z.leb_le in E2, Ex. apply Z.leb_gt in Ey. lia.
      + now rewrite IH.
  Qed.

  Lemma isort_perm l l' : Permutation l l' -> isort key l = isort key l'.
  Proof.
    induction 1; simpl; auto.
    - now rewrite IHPermutation.
    - apply insert_comm.
    - congruence.
  Qed.
End SortPerm.

Lemma insert_sorted x l : StronglySorted Z.le l -> StronglySorted Z.le (insert (fun z => z) x l).
Proof.
  induction 1 as [|y l Hs IH Hall]; simpl.
  - repeat constructor.
  - destruct (x <=? y) eqn:E.
    + apply Z.leb_le in E. constructor; [constructor; assumption|]. constructor; [assumption|].
      eapply Forall_impl; [|exact Hall]. intros; lia.
    + apply Z.leb_gt in E. constructor; [assumption|].
      assert (P : forall l0, Forall (Z.le y) l0 -> Forall (Z.le y) (insert (fun z => z) x l0)).
      { induction 1; simpl; [repeat constructor; lia|]. destruct (x <=? x0); repeat constructor; auto; lia. }
      now apply P.
Qed.
Lemma sortZ_sorted l : StronglySorted Z.le (sortZ l).
Proof. unfold sortZ. induction l; simpl; [constructor|]. now apply insert_sorted. Qed.
Lemma insert_permZ x l : Permutation (x :: l) (insert (fun z => z) x l).
Proof. induction l as [|y l IH]; simpl; [reflexivity|]. destruct (x <=? y); [reflexivity|]. rewrite perm_swap. now constructor. Qed.
Lemma sortZ_perm l : Permutation l (sortZ l).
Proof. unfold sortZ. induction l; simpl; [constructor|]. rewrite <- insert_permZ. now constructor. Qed.

(** folds with a commutative, associative operation *)
Lemma fold_left_perm (f : Z -> Z -> Z) :
  (forall a b c, f (f a b) c = f (f a c) b) ->
  forall l l', Permutation l l' -> forall a, fold_left f l a = fold_left f l' a.
Proof.
  intros Hf l l' P. induction P; intros a0; simpl; auto.
  - now rewrite Hf.
  - now rewrite IHP1.
Qed.

Local Arguments ugcd : simpl never.
Local Arguments ulcm : simpl never.
Local Arguments Z.pow : simpl never.

Section I64Agg.
  Variable L : libm.

  Theorem agg_i64_perm g vs vs' : g <> ALcm -> g <> AGcd -> Permutation vs vs' -> agg_i64 g vs = agg_i64 g vs'.
  Proof.
    intros Hg Hg' P. assert (Hlen : length vs = length vs') by (now apply Permutation_length).
    destruct g; simpl; rewrite <- ?Hlen; try congruence.
    - destruct (1 <? length vs)%nat eqn:E.
      + f_equal. apply fold_left_perm; [intros; lia|assumption].
      + destruct vs as [|a [|b vs]]; simpl in E; try discriminate.
        * apply Permutation_nil in P. now subst.
        * apply Permutation_length_1_inv in P. now subst.
    - destruct (1 <? length vs)%nat eqn:E.
      + f_equal. apply fold_left_perm; [intros; lia|assumption].
      + destruct vs as [|a [|b vs]]; simpl in E; try discriminate.
        * apply Permutation_nil in P. now subst.
        * apply Permutation_length_1_inv in P. now subst.
    - destruct vs as [|a vs]; [apply Permutation_nil in P; now subst|].
      destruct vs' as [|a' vs']; [symmetry in P; apply Permutation_nil in P; discriminate|].
      f_equal. f_equal. apply fold_left_perm; [intros; lia|assumption].
    - unfold sortZ. rewrite (isort_perm (fun z => z) (fun x y H => H) vs vs' P).
      destruct vs as [|a vs]; [apply Permutation_nil in P; now subst|].
      destruct vs' as [|a' vs']; [symmetry in P; apply Permutation_nil in P; discriminate|]. reflexivity.
  Qed.

  (** gcd: Euclid on magnitudes is Z.gcd, so the aggregate is the gcd of the list in any order *)
  Lemma gcd_loop_nonneg f : forall a b g, 0 <= a -> 0 <= b -> gcd_loop f a b = Ok g -> 0 <= g.
  Proof.
    induction f as [|f IH]; intros a b g Ha Hb H; [discriminate|]. simpl in H.
    destruct (b =? 0) eqn:E; [inversion H; subst; assumption|]. apply Z.eqb_neq in E.
    eapply IH; [| |exact H]; [assumption|]. unfold wrapping_rem. apply Z.rem_nonneg; lia.
  Qed.

  Lemma ugcd_nonneg a b g : 0 <= a -> 0 <= b -> ugcd a b = Ok g -> 0 <= g.
  Proof. unfold ugcd. apply gcd_loop_nonneg. Qed.

  Lemma ugcd_is_gcd a b : 0 <= a -> 0 <= b < 2 ^ 64 -> ugcd a b = Ok (Z.gcd a b).
  Proof.
    intros Ha Hb. destruct (ugcd_spec a b Hb) as [H|[g [Hg Habs]]]; [exact H|].
    rewrite Hg. f_equal. rewrite <- Habs. symmetry. apply Z.abs_eq.
    exact (ugcd_nonneg a b g Ha (proj1 Hb) Hg).
  Qed.

  Definition list_gcd (vs : list Z) : Z := fold_left Z.gcd (map Z.abs vs) 0.

  Lemma rfold_ugcd ms : Forall (fun m => 0 <= m < 2 ^ 64) ms ->
    forall acc, 0 <= acc -> rfold ugcd acc ms = Ok (fold_left Z.gcd ms acc).
  Proof.
    induction 1 as [|m ms Hm _ IH]; intros acc Ha; simpl; [reflexivity|].
    rewrite (ugcd_is_gcd acc m Ha Hm). simpl. apply IH. apply Z.gcd_nonneg.
  Qed.

  Theorem agg_gcd_value vs : Forall (fun v => in_i64 v = true) vs ->
    agg_i64 AGcd vs = of_option (fit (list_gcd vs)).
  Proof.
    intros Hr. simpl. unfold list_gcd. rewrite rfold_ugcd; [reflexivity| |lia].
    rewrite Forall_map. eapply Forall_impl; [|exact Hr]. intros v Hv. simpl in Hv.
    unfold in_i64, i64_min, i64_max in Hv. apply andb_prop in Hv. destruct Hv as [H1 H2]. apply Z.leb_le in H1, H2.
    assert (2 ^ 64 = 2 * 2 ^ 63) by reflexivity. lia.
  Qed.

  Theorem agg_gcd_perm vs vs' : Forall (fun v => in_i64 v = true) vs -> Permutation vs vs' ->
    agg_i64 AGcd vs = agg_i64 AGcd vs'.
  Proof.
    intros Hr P. rewrite (agg_gcd_value vs Hr), (agg_gcd_value vs').
    - unfold list_gcd. f_equal. f_equal. apply fold_left_perm; [|now apply Permutation_map].
      intros a b c. rewrite <- !Z.gcd_assoc. f_equal. apply Z.gcd_comm.
    - rewrite Forall_forall in *. intros x Hx. apply Hr. eapply Permutation_in; [symmetry; exact P|exact Hx].
  Qed.

  (** min / max: the fold from the neutral extreme is the least / greatest argument *)
  Lemma fold_min_spec : forall l acc,
      let m := fold_left (fun acc v => Z.min v acc) l acc in
      (m = acc \/ In m l) /\ m <= acc /\ Forall (fun v => m <= v) l.
  Proof.
    induction l as [|x l IH]; intros acc; cbn [fold_left].
    - repeat split; auto. lia.
    - specialize (IH (Z.min x acc)). cbv zeta in IH |- *. destruct IH as ([A|A] & B & C).
      + split; [|split; [lia|constructor; [lia|exact C]]].
        destruct (Z.min_spec x acc) as [[_ M]|[_ M]]; rewrite A, M; [right; now left|now left].
      + split; [right; now right|]. split; [lia|constructor; [lia|exact C]].
  Qed.

  Theorem agg_min_value vs r : Forall (fun v => in_i64 v = true) vs -> vs <> [] ->
    agg_i64 AMin vs = Ok r -> In r vs /\ Forall (fun v => r <= v) vs.
  Proof.
    intros Hr Hne. simpl. destruct (1 <? length vs)%nat eqn:E.
    - intros H; inversion H; subst; clear H.
      assert (Hmax : Forall (fun v => v <= i64_max) vs).
      { eapply Forall_impl; [|exact Hr]. intros v Hv. simpl in Hv. unfold in_i64 in Hv. apply andb_prop in Hv. destruct Hv as [_ H2]. now apply Z.leb_le. }
      destruct (fold_min_spec vs i64_max) as ([A|A] & B & C); [|split; assumption].
      split; [|exact C]. destruct vs as [|a vs']; [congruence|].
      inversion C; subst. inversion Hmax; subst. left. rewrite A in *. lia.
    - destruct vs as [|a [|b vs']]; try congruence; simpl in E; try discriminate.
      intros H; inversion H; subst. split; [now left|repeat constructor; lia].
  Qed.
  (** max: mirror image of min *)
  Lemma fold_max_spec : forall l acc,
      let m := fold_left (fun acc v => Z.max v acc) l acc in
      (m = acc \/ In m l) /\ acc <= m /\ Forall (fun v => v <= m) l.
  Proof.
    induction l as [|x l IH]; intros acc; cbn [fold_left].
    - repeat split; auto. lia.
    - specialize (IH (Z.max x acc)). cbv zeta in IH |- *. destruct IH as ([A|A] & B & C).
      + split; [|split; [lia|constructor; [lia|exact C]]].
        destruct (Z.max_spec x acc) as [[_ M]|[_ M]]; rewrite A, M; [now left|right; now left].
      + split; [right; now right|]. split; [lia|constructor; [lia|exact C]].
  Qed.

  Theorem agg_max_value vs r : Forall (fun v => in_i64 v = true) vs -> vs <> [] ->
    agg_i64 AMax vs = Ok r -> In r vs /\ Forall (fun v => v <= r) vs.
  Proof.
    intros Hr Hne. simpl. destruct (1 <? length vs)%nat eqn:E.
    - intros H; inversion H; subst; clear H.
      assert (Hmin : Forall (fun v => i64_min <= v) vs).
      { eapply Forall_impl; [|exact Hr]. intros v Hv. simpl in Hv. unfold in_i64 in Hv. apply andb_prop in Hv. destruct Hv as [H1 _]. now apply Z.leb_le. }
      destruct (fold_max_spec vs i64_min) as ([A|A] & B & C); [|split; assumption].
      split; [|exact C]. destruct vs as [|a vs']; [congruence|].
      inversion C; subst. inversion Hmin; subst. left. rewrite A in *. lia.
    - destruct vs as [|a [|b vs']]; try congruence; simpl in E; try discriminate.
      intros H; inversion H; subst. split; [now left|repeat constructor; lia].
  Qed.

  (** lcm: the fold of Z.lcm over the magnitudes when it fits i64, Err otherwise (an intermediate that leaves u64
      can only happen when the final value does not fit either: every prefix lcm divides the total) *)
  Definition list_lcm (vs : list Z) : Z := fold_left Z.lcm (map Z.abs vs) 1.

  Lemma quot_lcm a b : 0 < a -> 0 < b -> Z.quot a (Z.gcd a b) * b = Z.lcm a b.
  Proof.
    intros Ha Hb. pose proof (Z.gcd_nonneg a b) as Hg0.
    assert (Hg : 0 < Z.gcd a b).
    { destruct (Z.eq_dec (Z.gcd a b) 0) as [E|E]; [apply Z.gcd_eq_0_l in E; lia|lia]. }
    rewrite Z.quot_div_nonneg by lia. unfold Z.lcm.
    destruct (Z.gcd_divide_l a b) as [k Hk]. destruct (Z.gcd_divide_r a b) as [j Hj].
    set (g := Z.gcd a b) in *.
    assert (a / g = k) by (rewrite Hk at 1; apply Z.div_mul; lia).
    assert (b / g = j) by (rewrite Hj at 1; apply Z.div_mul; lia).
    rewrite H, H0. rewrite Z.abs_eq.
    - clear H H0. transitivity (k * j * g); [rewrite Hj at 1; ring|]. symmetry. rewrite Hk at 1. ring.
    - apply Z.mul_nonneg_nonneg; [lia|]. rewrite <- H0. apply Z.div_pos; lia.
  Qed.

  Lemma lcm_pos a b : 0 < a -> 0 < b -> 0 < Z.lcm a b.
  Proof.
    intros Ha Hb. pose proof (Z.lcm_nonneg a b). destruct (Z.eq_dec (Z.lcm a b) 0) as [E|E]; [|lia].
    apply Z.lcm_eq_0 in E. lia.
  Qed.

  Lemma fold_lcm_ge ms : Forall (fun m => 0 < m) ms -> forall acc, 0 < acc -> acc <= fold_left Z.lcm ms acc.
  Proof.
    induction 1 as [|m ms Hm _ IH]; intros acc Ha; simpl; [lia|].
    pose proof (lcm_pos acc m Ha Hm) as Hl. specialize (IH _ Hl).
    assert (acc <= Z.lcm acc m).
    { apply Z.divide_pos_le; [exact Hl|apply Z.divide_lcm_l]. }
    lia.
  Qed.

  Lemma rfold_ulcm ms : Forall (fun m => 0 < m < 2 ^ 64) ms -> forall acc, 0 < acc <= u64_max ->
    rfold ulcm acc ms = Ok (fold_left Z.lcm ms acc) \/
    (rfold ulcm acc ms = Err /\ u64_max < fold_left Z.lcm ms acc).
  Proof.
    induction 1 as [|m ms Hm Hms IH]; intros acc Ha; simpl; [now left|].
    unfold ulcm. replace (acc =? 0) with false by (symmetry; apply Z.eqb_neq; lia).
    replace (m =? 0) with false by (symmetry; apply Z.eqb_neq; lia). simpl orb. cbv iota.
    rewrite (ugcd_is_gcd acc m) by (unfold u64_max in *; lia). simpl.
    rewrite (quot_lcm acc m) by lia.
    pose proof (lcm_pos acc m (proj1 Ha) (proj1 Hm)) as Hl.
    destruct (Z.lcm acc m <=? u64_max) eqn:E.
    - apply Z.leb_le in E. apply IH. lia.
    - apply Z.leb_gt in E. right. split; [reflexivity|].
      assert (Hpos : Forall (fun x => 0 < x) ms) by (eapply Forall_impl; [|exact Hms]; simpl; intros; lia).
      pose proof (fold_lcm_ge ms Hpos _ Hl). lia.
  Qed.

  Theorem agg_lcm_value vs : Forall (fun v => in_i64 v = true) vs ->
    agg_i64 ALcm vs = if existsb (Z.eqb 0) (map Z.abs vs) then Ok 0 else of_option (fit (list_lcm vs)).
  Proof.
    intros Hr. simpl. destruct (existsb (Z.eqb 0) (map Z.abs vs)) eqn:Ez; [reflexivity|].
    assert (Hms : Forall (fun m => 0 < m < 2 ^ 64) (map Z.abs vs)).
    { rewrite Forall_forall. intros m Hm. apply in_map_iff in Hm. destruct Hm as (v & <- & Hv).
      rewrite Forall_forall in Hr. specialize (Hr v Hv). unfold in_i64, i64_min, i64_max in Hr.
      apply andb_prop in Hr. destruct Hr as [H1 H2]. apply Z.leb_le in H1, H2.
      assert (Z.abs v <> 0).
      { intros E0. assert (existsb (Z.eqb 0) (map Z.abs vs) = true); [|congruence].
        apply existsb_exists. exists (Z.abs v). split; [now apply in_map|now rewrite E0]. }
      assert (2 ^ 64 = 2 * 2 ^ 63) by reflexivity. lia. }
    destruct (rfold_ulcm _ Hms 1) as [E|[E Hbig]]; [unfold u64_max; lia| |].
    - unfold list_lcm. now rewrite E.
    - unfold list_lcm. rewrite E. simpl. unfold fit, in_i64, i64_max.
      replace (fold_left Z.lcm (map Z.abs vs) 1 <=? 2 ^ 63 - 1) with false; [now rewrite andb_false_r|].
      symmetry. apply Z.leb_gt. unfold u64_max in Hbig. assert (2 ^ 64 = 2 * 2 ^ 63) by reflexivity. lia.
  Qed.

  Theorem agg_lcm_perm vs vs' : Forall (fun v => in_i64 v = true) vs -> Permutation vs vs' ->
    agg_i64 ALcm vs = agg_i64 ALcm vs'.
  Proof.
    intros Hr P.
    assert (Hr' : Forall (fun v => in_i64 v = true) vs').
    { rewrite Forall_forall in *. intros x Hx. apply Hr. eapply Permutation_in; [symmetry; exact P|exact Hx]. }
    rewrite (agg_lcm_value vs Hr), (agg_lcm_value vs' Hr').
    assert (PM : Permutation (map Z.abs vs) (map Z.abs vs')) by now apply Permutation_map.
    replace (existsb (Z.eqb 0) (map Z.abs vs')) with (existsb (Z.eqb 0) (map Z.abs vs)).
    - destruct (existsb (Z.eqb 0) (map Z.abs vs)); [reflexivity|]. unfold list_lcm. f_equal. f_equal.
      apply fold_left_perm; [|exact PM]. intros a b c. rewrite <- !Z.lcm_assoc. f_equal. apply Z.lcm_comm.
    - clear -PM. induction PM; cbn [existsb]; auto.
      + now rewrite IHPM.
      + rewrite !orb_assoc. f_equal. apply orb_comm.
      + congruence.
  Qed.
End I64Agg.
