(** One generic precedence-climbing engine for the five parser.rs files. The per-evaluator
    differences are rows of [ptab]; the control structure below is the one of parser.rs:
      generate_ast       = CGen      (parse_number, then the while loop = CLoop)
      parse_number       = CPrim
      implicit_multiply  = CImpl
      function_static_arguments(1|2) = CArg1 / CArg2a, CArg2b
      find_item_list     = CItems
    Every transition costs one unit of fuel; the Rust tick points (generate_ast entry, loop
    iteration, argument-loop iteration) are a subset of the transitions. *)
From Coq Require Import List NArith Bool Arith Lia.
From SC Require Import Base.Res Lang.Syntax.
Import ListNotations.

Inductive fspec :=
| F1 (u : unop)                     (* function_static_arguments(1) -> Node::u *)
| F2 (b : binop)                    (* function_static_arguments(2) -> Node::b(args[0], args[1]) *)
| FList (g : aggop) (empty_zero : bool).
   (* function_arguments(); an empty list is an error, or the literal zero (avg) *)

Record ptab (V : Type) := {
  pt_prec : kind -> nat;                         (* Token::get_oper_prec as a level number *)
  pt_infix : kind -> option (binop * nat);       (* binary arms: node, level of the right operand *)
  pt_fn : fn -> option fspec;                    (* ExplicitFunction arms of parse_number *)
  pt_trigger : kind -> bool;                     (* implicit_multiply's condition *)
  pt_bang : bool;                                (* ExclamationMark arm *)
  pt_postconst : kind -> option V;               (* DegToRad / RadToDeg arms: Multiply(left, c) *)
  pt_sup : bool;                                 (* Superscript arm *)
  pt_const : kind -> option V;                   (* Pi / E arms *)
  pt_open : kind -> option (kind * option unop); (* ( ⌊ ⌈ arms: closing token, wrapper *)
  pt_neg : bool;                                 (* prefix Subtract arm *)
  pt_pos : bool;                                 (* prefix Add arm *)
  pt_ans : bool;                                 (* Ans arm *)
  pt_neg_level : nat;                            (* OperatorCategory::Negative *)
  pt_impl_level : nat;                           (* OperatorCategory::Multiplicative *)
  pt_zero : V;                                   (* what avg() becomes *)
  pt_numnum : bool                               (* false: the Num arm of parse_number rejects a directly following Num token *)
}.
Arguments pt_prec {V}. Arguments pt_infix {V}. Arguments pt_fn {V}. Arguments pt_trigger {V}.
Arguments pt_bang {V}. Arguments pt_postconst {V}. Arguments pt_sup {V}. Arguments pt_const {V}.
Arguments pt_open {V}. Arguments pt_neg {V}. Arguments pt_pos {V}. Arguments pt_ans {V}.
Arguments pt_neg_level {V}. Arguments pt_impl_level {V}. Arguments pt_zero {V}. Arguments pt_numnum {V}.

(** token kinds that parse_number handles in its catch-all tail (constants, brackets, errors) *)
Definition is_plain (k : kind) : bool :=
  match k with KAns | KFunc _ | KSubtract | KAdd => false | _ => true end.

Section Engine.
  Context {V : Type}.
  Variable T : ptab V.
  Variable ph : V.                 (* the placeholder *)

  Notation tok := (tok V).
  Notation node := (node V).

  Inductive cmd :=
  | CGen (p : nat)
  | CPrim
  | CImpl (n : node)
  | CLoop (p : nat) (l : node)
  | CArg1 (u : unop)
  | CArg2a (b : binop)
  | CArg2b (b : binop) (a1 : node)
  | CItems (g : aggop) (ez : bool) (acc : list node).

  Definition wrap (w : option unop) (e : node) : node :=
    match w with Some u => NUn u e | None => e end.

  (** check_paren(expected) *)
  Definition expect (k : kind) (ts : list tok) : res (list tok) :=
    match ts with
    | TK k' :: ts' => if kind_eqb k k' then Ok ts' else Err
    | _ => Err
    end.

  Fixpoint run (fuel : nat) (c : cmd) (ts : list tok) {struct fuel} : res (node * list tok) :=
    match fuel with
    | O => Fuel
    | S f =>
      match c with
      | CGen p =>
          let* (l, ts1) := run f CPrim ts in run f (CLoop p l) ts1
      | CLoop p l =>
          if p <? pt_prec T (hdk ts) then
            match ts with
            | [] => Ok (l, ts)                          (* the inner `if Eof break` *)
            | TSup v :: ts' =>
                if pt_sup T then run f (CLoop p (NBin BPow l (NNum v))) ts' else Err
            | TNum _ :: _ => Err
            | TK k :: ts' =>
                match pt_infix T k with
                | Some (b, lvl) =>
                    let* (r, ts2) := run f (CGen lvl) ts' in
                    run f (CLoop p (NBin b l r)) ts2
                | None =>
                    if kind_eqb k KExclamationMark && pt_bang T then
                      let* (l', ts2) := run f (CImpl (NUn UFactorial l)) ts' in
                      run f (CLoop p l') ts2
                    else
                      match pt_postconst T k with
                      | Some c => run f (CLoop p (NBin BMultiply l (NNum c))) ts'
                      | None => Err
                      end
                end
            end
          else Ok (l, ts)
      | CImpl n =>
          if pt_trigger T (hdk ts) then
            let* (r, ts1) := run f (CGen (pt_impl_level T)) ts in
            Ok (NBin BMultiply n r, ts1)
          else Ok (n, ts)
      | CPrim =>
          match ts with
          | [] => Err
          | TNum v :: ts' =>
              if pt_numnum T || negb (kind_eqb (hdk ts') KNum) then run f (CImpl (NNum v)) ts' else Err
          | TSup _ :: _ => Err
          | TK k :: ts' =>
              match k with
              | KAns => if pt_ans T then Ok (NNum ph, ts') else Err
              | KFunc fn =>
                  match pt_fn T fn with
                  | None => Err
                  | Some sp =>
                      let* ts'' := expect KLeftParen ts' in
                      match sp with
                      | F1 u => run f (CArg1 u) ts''
                      | F2 b => run f (CArg2a b) ts''
                      | FList g ez => run f (CItems g ez []) ts''
                      end
                  end
              | KSubtract =>
                  if pt_neg T then
                    let* (e, ts2) := run f (CGen (pt_neg_level T)) ts' in Ok (NUn UNegative e, ts2)
                  else Err
              | KAdd =>
                  if pt_pos T then run f (CGen (pt_neg_level T)) ts' else Err
              | _ =>
                  match pt_const T k with
                  | Some c => Ok (NNum c, ts')
                  | None =>
                      match pt_open T k with
                      | Some (close, w) =>
                          let* (e, ts2) := run f (CGen 0) ts' in
                          let* ts3 := expect close ts2 in
                          run f (CImpl (wrap w e)) ts3
                      | None => Err
                      end
                  end
              end
          end
      | CArg1 u =>
          let* (a, ts1) := run f (CGen 0) ts in
          let* ts2 := expect KRightParen ts1 in
          run f (CImpl (NUn u a)) ts2
      | CArg2a b =>
          let* (a1, ts1) := run f (CGen 0) ts in
          let* ts2 := expect KComma ts1 in
          run f (CArg2b b a1) ts2
      | CArg2b b a1 =>
          let* (a2, ts1) := run f (CGen 0) ts in
          let* ts2 := expect KRightParen ts1 in
          run f (CImpl (NBin b a1 a2)) ts2
      | CItems g ez acc =>
          match acc, ts with
          | [], TK KRightParen :: ts' =>
              if ez then run f (CImpl (NNum (pt_zero T))) ts' else Err
          | _, _ =>
              let* (a, ts1) := run f (CGen 0) ts in
              match ts1 with
              | TK KComma :: ts2 => run f (CItems g ez (a :: acc)) ts2
              | TK KRightParen :: ts2 => run f (CImpl (NAgg g (rev (a :: acc)))) ts2
              | _ => Err
              end
          end
      end
    end.

  Definition parse_fuel (ts : list tok) : nat := 4 * length ts + 8.

  (** Parser::parse (after the repair): the whole token stream must be consumed *)
  Definition parse (ts : list tok) : res node :=
    let* (n, rest) := run (parse_fuel ts) (CGen 0) ts in
    match rest with [] => Ok n | _ :: _ => Err end.
End Engine.
