(** What [str::parse::<i64>], [str::parse::<f64>] do on the texts the tokenizers build
    (ASCII digits and points only), and the per-evaluator conversion of a literal to a value. *)
From Coq Require Import List ZArith NArith Bool.
From SC Require Import Base.F64 Base.RustInt Base.Dec Base.Num Base.Oracle Lang.Lexer.
Import ListNotations.
Local Open Scope N_scope.

Definition digit_val (c : N) : N := c - 48.

Fixpoint digits_val (acc : N) (cs : list N) : N :=
  match cs with [] => acc | c :: cs' => digits_val (acc * 10 + digit_val c) cs' end.

(** "ddd" -> value, provided it fits i64 (the tokenizer never produces a sign) *)
Definition parse_i64 (cs : list N) : option Z :=
  match cs with
  | [] => None
  | _ => if forallb is_digit cs then
           let v := Z.of_N (digits_val 0 cs) in
           if (v <=? RustInt.i64_max)%Z then Some v else None
         else None
  end.

(** split at the first point *)
Fixpoint split_point (cs : list N) : list N * option (list N) :=
  match cs with
  | [] => ([], None)
  | c :: cs' => if c =? ch_dot then ([], Some cs')
                else let (a, b) := split_point cs' in (c :: a, b)
  end.

(** "ddd", "ddd.", "ddd.ddd" (at least one digit before the point; the tokenizers always supply
    one) -> the correctly rounded double. Anything else (a second point) is a parse error. *)
Definition parse_f64 (cs : list N) : option f64 :=
  let (ip, fp) := split_point cs in
  match ip with
  | [] => None
  | _ =>
      if forallb is_digit ip then
        match fp with
        | None => Some (f64_of_decimal (digits_val 0 ip) 0)
        | Some fr => if forallb is_digit fr
                     then Some (f64_of_decimal (digits_val 0 (ip ++ fr)) (N.of_nat (length fr)))
                     else None
        end
      else None
  end.

Definition has_point (cs : list N) : bool := existsb (N.eqb ch_dot) cs.

Definition conv_i64 (l : lit) : option Z :=
  match l with
  | LNum t _ => parse_i64 t
  | LSup d => parse_i64 d
  | LImagUnit => None
  end.
Definition conv_f64 (l : lit) : option f64 :=
  match l with
  | LNum t _ => parse_f64 t
  | LSup d => parse_f64 d
  | LImagUnit => None
  end.
Definition conv_num (l : lit) : option number :=
  match l with
  | LNum t _ => if has_point t then option_map Flt (parse_f64 t) else option_map Int (parse_i64 t)
  | LSup d => option_map Int (parse_i64 d)
  | LImagUnit => None
  end.
Definition conv_cpx (l : lit) : option cpx :=
  match l with
  | LNum t im => match parse_f64 t with
                 | Some v => Some (if im then (fzero, v) else (v, fzero))
                 | None => None
                 end
  | LSup d => option_map (fun v => (v, fzero)) (parse_f64 d)
  | LImagUnit => Some (fzero, fone)
  end.
(** Decimal::from_str on "ddd", "ddd.", "ddd.ddd" with at most 28 digits in all: the coefficient is the digit
    string read as an integer and the scale is the number of digits after the point (exact, no rounding, and
    10^28 < 2^96 so the coefficient always fits). Longer or malformed texts are left to the library (oracle). *)
Definition parse_dec_exact (cs : list N) : option dec :=
  let (ip, fp) := split_point cs in
  match ip with
  | [] => None
  | _ =>
      if forallb is_digit ip then
        match fp with
        | None => if (length ip <=? 28)%nat
                  then Some {| d_neg := false; d_coef := digits_val 0 ip; d_scale := 0 |} else None
        | Some fr => if forallb is_digit fr && (length ip + length fr <=? 28)%nat
                     then Some {| d_neg := false; d_coef := digits_val 0 (ip ++ fr); d_scale := N.of_nat (length fr) |}
                     else None
        end
      else None
  end.
Definition parse_dec (D : declib) (t : list N) : option dec :=
  match parse_dec_exact t with Some d => Some d | None => d_parse D t end.
Definition conv_dec (D : declib) (l : lit) : option dec :=
  match l with
  | LNum t _ => parse_dec D t
  | LSup d => parse_dec D d
  | LImagUnit => None
  end.
