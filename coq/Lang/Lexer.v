(** Table-driven model of the five tokenizer.rs files (one [match] on the first character,
    look-ahead strings that include the opening parenthesis, numeric scanning arms). *)
From Coq Require Import List NArith Bool Lia.
From SC Require Import Base.Res Lang.Syntax.
Import ListNotations.
Local Open Scope N_scope.

(** * Characters (Unicode scalar values as [N]) *)
Definition is_digit (c : N) : bool := (48 <=? c) && (c <=? 57).
Definition ch_dot : N := 46.
Definition ch_i : N := 105.

(** [char::is_whitespace] = Unicode White_Space (25 code points) *)
Definition is_ws (c : N) : bool :=
  ((9 <=? c) && (c <=? 13)) || (c =? 32) || (c =? 133) || (c =? 160) || (c =? 5760)
  || ((8192 <=? c) && (c <=? 8202)) || (c =? 8232) || (c =? 8233) || (c =? 8239)
  || (c =? 8287) || (c =? 12288).

(** [expr.split_whitespace().collect::<String>()] *)
Definition strip (cs : list N) : list N := filter (fun c => negb (is_ws c)) cs.

(** * Tables *)
(** [self.expr.clone().take(r_take).collect::<String>() == r_look], then drop [r_drop] chars *)
Record row := { r_take : nat; r_look : list N; r_drop : nat; r_kind : kind }.
Record arm := { a_char : N; a_rows : list row; a_default : option kind }.
Inductive nummode := IntOnly | FloatGreedy | FloatOnePoint.
Record lextab := {
  lt_arms : list arm;
  lt_sup : list (N * N);       (* superscript_digit_to_digit: (superscript char, ascii digit) *)
  lt_sup_arms : list N;        (* first characters that have a Superscript arm *)
  lt_dot : bool;               (* the '.' DIGIT* arm exists *)
  lt_mode : nummode;           (* what the digit arm scans *)
  lt_imag_suffix : bool;       (* a literal swallows a following 'i' (eval_complex) *)
  lt_imag_unit : bool          (* a bare 'i' is the literal 0+1i (eval_complex) *)
}.

(** What the tokenizer hands to [str::parse] / [Decimal::from_str] *)
Inductive lit :=
| LNum (text : list N) (imag : bool)
| LSup (digits : list N)
| LImagUnit.

Fixpoint assoc (c : N) (l : list (N * N)) : option N :=
  match l with [] => None | (k, v) :: l' => if k =? c then Some v else assoc c l' end.

Fixpoint list_eqb (p cs : list N) : bool :=
  match p, cs with
  | [], [] => true
  | a :: p', b :: cs' => (a =? b) && list_eqb p' cs'
  | _, _ => false
  end.

Fixpoint span (f : N -> bool) (cs : list N) : list N * list N :=
  match cs with
  | [] => ([], [])
  | c :: cs' => if f c then let (a, b) := span f cs' in (c :: a, b) else ([], cs)
  end.

(** superscript run after the first character: consume while the table maps the char *)
Fixpoint span_sup (m : list (N * N)) (cs : list N) : list N * list N :=
  match cs with
  | [] => ([], [])
  | c :: cs' => match assoc c m with
                | Some d => let (a, b) := span_sup m cs' in (d :: a, b)
                | None => ([], cs)
                end
  end.

(** digits and points, at most one point: the scan stops *before* a second point *)
Fixpoint span_onepoint (seen : bool) (cs : list N) : list N * list N :=
  match cs with
  | [] => ([], [])
  | c :: cs' =>
      if c =? ch_dot then
        if seen then ([], cs) else let (a, b) := span_onepoint true cs' in (c :: a, b)
      else if is_digit c then let (a, b) := span_onepoint seen cs' in (c :: a, b)
      else ([], cs)
  end.

Fixpoint find_row (rows : list row) (rest : list N) : option row :=
  match rows with
  | [] => None
  | r :: rows' => if list_eqb (firstn (r_take r) rest) (r_look r) then Some r else find_row rows' rest
  end.

Fixpoint find_arm (arms : list arm) (c : N) : option arm :=
  match arms with
  | [] => None
  | a :: arms' => if a_char a =? c then Some a else find_arm arms' c
  end.

Section Lex.
  Context {V : Type}.
  Variable T : lextab.
  Variable conv : lit -> option V.

  Definition imag_tail (rest : list N) : bool * list N :=
    if lt_imag_suffix T then
      match rest with c :: rest' => if c =? ch_i then (true, rest') else (false, rest) | [] => (false, rest) end
    else (false, rest).

  (** One call of [Tokenizer::next] on a non-empty input. [None] = the Rust [None]
      ("Invalid character"). *)
  Definition lex_step (cs : list N) : option (tok V * list N) :=
    match cs with
    | [] => None
    | c :: rest =>
        if is_digit c then
          let '(body, rest1) :=
            match lt_mode T with
            | IntOnly => span is_digit rest
            | FloatGreedy => span (fun x => is_digit x || (x =? ch_dot)) rest
            | FloatOnePoint => span_onepoint false rest
            end in
          let '(im, rest2) := imag_tail rest1 in
          match conv (LNum (c :: body) im) with
          | Some v => Some (TNum v, rest2)
          | None => None
          end
        else if (c =? ch_dot) && lt_dot T then
          match rest with
          | d :: _ =>
              if is_digit d then
                let '(body, rest1) := span is_digit rest in
                let '(im, rest2) := imag_tail rest1 in
                match conv (LNum (48 :: ch_dot :: body) im) with
                | Some v => Some (TNum v, rest2)
                | None => None
                end
              else None
          | [] => None
          end
        else if (c =? ch_i) && lt_imag_unit T then
          match conv LImagUnit with Some v => Some (TNum v, rest) | None => None end
        else if existsb (N.eqb c) (lt_sup_arms T) then
          match assoc c (lt_sup T) with
          | Some d0 =>
              let '(ds, rest1) := span_sup (lt_sup T) rest in
              match conv (LSup (d0 :: ds)) with
              | Some v => Some (TSup v, rest1)
              | None => None
              end
          | None =>
              let '(ds, rest1) := span_sup (lt_sup T) rest in
              match conv (LSup ds) with
              | Some v => Some (TSup v, rest1)
              | None => None
              end
          end
        else
          match find_arm (lt_arms T) c with
          | None => None
          | Some a =>
              match find_row (a_rows a) rest with
              | Some r => Some (TK (r_kind r), skipn (r_drop r) rest)
              | None => match a_default a with Some k => Some (TK k, rest) | None => None end
              end
          end
    end.

  (** all tokens up to (not including) Eof; [None] if any call returns [None] *)
  Fixpoint tokenize (fuel : nat) (cs : list N) : option (list (tok V)) :=
    match cs with
    | [] => Some []
    | _ :: _ =>
        match fuel with
        | O => None
        | S f =>
            match lex_step cs with
            | None => None
            | Some (t, rest) =>
                match tokenize f rest with
                | Some ts => Some (t :: ts)
                | None => None
                end
            end
        end
    end.

  Definition tokenize_all (cs : list N) : option (list (tok V)) := tokenize (length cs) cs.
End Lex.
