(** Tokens and syntax trees shared by the five evaluators.
    Constructor names are the Rust variant names (token.rs / ast.rs). *)
From Coq Require Import List NArith Bool.
Import ListNotations.

(** NativeFunction (union over the five token.rs files) *)
Inductive fn :=
| FSin | FCos | FTan | FSinh | FCosh | FTanh | FAsin | FAcos | FAtan | FAtan2
| FArcosh | FArsinh | FArtanh | FLn | FLb | FLog | FILog | FPow | FSqrt | FRoot
| FExp | FExp2 | FLambertW | FAbs | FSign | FTruncate | FFloor | FCeil | FRound
| FMin | FMax | FAvg | FMed | FMod | FGcd | FLcm.

Definition all_fn : list fn :=
 [FSin; FCos; FTan; FSinh; FCosh; FTanh; FAsin; FAcos; FAtan; FAtan2;
  FArcosh; FArsinh; FArtanh; FLn; FLb; FLog; FILog; FPow; FSqrt; FRoot;
  FExp; FExp2; FLambertW; FAbs; FSign; FTruncate; FFloor; FCeil; FRound;
  FMin; FMax; FAvg; FMed; FMod; FGcd; FLcm].

Scheme Equality for fn.

(** Token kinds: Token without the numeric payloads *)
Inductive kind :=
| KAdd | KSubtract | KMultiply | KDivide | KCaret | KExclamationMark | KModulo
| KLeftParen | KRightParen | KLeftFloor | KRightFloor | KLeftCeiling | KRightCeiling
| KE | KPi | KComma | KDegToRad | KRadToDeg
| KAmpersand | KBar | KLeftShift | KRightShift
| KFunc (f : fn) | KSuperscript | KNum | KAns | KEof.

Definition kind_eqb (a b : kind) : bool :=
  match a, b with
  | KAdd, KAdd | KSubtract, KSubtract | KMultiply, KMultiply | KDivide, KDivide
  | KCaret, KCaret | KExclamationMark, KExclamationMark | KModulo, KModulo
  | KLeftParen, KLeftParen | KRightParen, KRightParen | KLeftFloor, KLeftFloor
  | KRightFloor, KRightFloor | KLeftCeiling, KLeftCeiling | KRightCeiling, KRightCeiling
  | KE, KE | KPi, KPi | KComma, KComma | KDegToRad, KDegToRad | KRadToDeg, KRadToDeg
  | KAmpersand, KAmpersand | KBar, KBar | KLeftShift, KLeftShift | KRightShift, KRightShift
  | KSuperscript, KSuperscript | KNum, KNum | KAns, KAns | KEof, KEof => true
  | KFunc f, KFunc g => fn_beq f g
  | _, _ => false
  end.

Lemma fn_beq_eq f g : fn_beq f g = true <-> f = g.
Proof. split; [apply internal_fn_dec_bl | apply internal_fn_dec_lb]. Qed.

Lemma kind_eqb_eq a b : kind_eqb a b = true <-> a = b.
Proof.
  split.
  - destruct a, b; simpl; intros H; try discriminate; try reflexivity.
    apply fn_beq_eq in H; now subst.
  - intros ->; destruct b; simpl; try reflexivity. now apply fn_beq_eq.
Qed.

Lemma kind_eqb_refl a : kind_eqb a a = true.
Proof. now apply kind_eqb_eq. Qed.

Definition all_kinds : list kind :=
 [KAdd; KSubtract; KMultiply; KDivide; KCaret; KExclamationMark; KModulo;
  KLeftParen; KRightParen; KLeftFloor; KRightFloor; KLeftCeiling; KRightCeiling;
  KE; KPi; KComma; KDegToRad; KRadToDeg; KAmpersand; KBar; KLeftShift; KRightShift;
  KSuperscript; KNum; KAns; KEof] ++ map KFunc all_fn.

Lemma all_kinds_complete k : In k all_kinds.
Proof. destruct k; try (simpl; tauto). destruct f; simpl; tauto. Qed.

(** Node operators *)
Inductive unop :=
| UNegative | UFactorial | UAbs | UFloor | UCeil | URound | USin | UCos | UTan
| USinh | UCosh | UTanh | UArsinh | UArcosh | UArtanh | UAsin | UAcos | UAtan
| USqrt | ULn | ULb | UExp | UExp2 | UTruncate | USign | ULambertW.
Inductive binop :=
| BAdd | BSubtract | BMultiply | BDivide | BModulo | BAtan2 | BRoot | BPow | BLog | BILog
| BAnd | BOr | BLeftShift | BRightShift.
Inductive aggop := AMin | AMax | AAvg | AMed | AGcd | ALcm.
Scheme Equality for unop.
Scheme Equality for binop.
Scheme Equality for aggop.

Section WithValue.
  Context {V : Type}.

  Inductive tok :=
  | TK (k : kind)          (* payload-free token; k is never KNum / KSuperscript here *)
  | TNum (v : V)
  | TSup (v : V).

  Definition kind_of (t : tok) : kind :=
    match t with TK k => k | TNum _ => KNum | TSup _ => KSuperscript end.

  Inductive node :=
  | NNum (v : V)
  | NUn (u : unop) (a : node)
  | NBin (b : binop) (a c : node)
  | NAgg (g : aggop) (args : list node).

  (** induction principle with the list case *)
  Section node_ind2.
    Variable P : node -> Prop.
    Hypothesis HNum : forall v, P (NNum v).
    Hypothesis HUn : forall u a, P a -> P (NUn u a).
    Hypothesis HBin : forall b a c, P a -> P c -> P (NBin b a c).
    Hypothesis HAgg : forall g args, Forall P args -> P (NAgg g args).
    Fixpoint node_ind2 (n : node) : P n :=
      match n with
      | NNum v => HNum v
      | NUn u a => HUn u a (node_ind2 a)
      | NBin b a c => HBin b a c (node_ind2 a) (node_ind2 c)
      | NAgg g args =>
          HAgg g args ((fix go (l : list node) : Forall P l :=
                          match l with
                          | [] => Forall_nil P
                          | x :: xs => Forall_cons x (node_ind2 x) (go xs)
                          end) args)
      end.
  End node_ind2.
End WithValue.
Arguments tok V : clear implicits.
Arguments node V : clear implicits.

(** Head token of a stream; an exhausted stream keeps producing Eof (Tokenizer::next on "" is
    Some(Eof) again and again). *)
Definition hdk {V} (ts : list (tok V)) : kind :=
  match ts with [] => KEof | t :: _ => kind_of t end.
