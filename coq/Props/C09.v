(** C09 -- eval_number keeps integers exact and falls back to doubles only when it must.
      C09_integer_arithmetic   Integer op Integer = Integer(exact) when the exact result fits i64, else the
                               Float of the IEEE operation on the operands' double values; exact division
                               only when the remainder is 0; n! exact for 0 <= n <= 20; ^ with exponent 0..2^32-1
      C09_float_operand        any Float operand: the IEEE / libm operation on the double values
      C09_floor/ceil/round/trunc  the Integer returned is the correctly rounded mathematical integer
                               (Zfloor / Zceil / round-half-away / Ztrunc of the real value), for every double
      C09_no_panic             never a panic
      C09_integers_in_range    every Integer that eval_number returns lies in [-2^63, 2^63 - 1] (for every tree whose Integer
                               leaves do): an Integer result is never a wrapped or fabricated value
      C09_mixed_comparison_exact  compare(Integer i, Float f) (used by min / max / med) is the comparison of the two real
                               numbers, for every i64 and every finite double; +-inf and NaN as expected; and so is the
                               comparison of any two finite Numbers *)
From Coq Require Import List ZArith Reals Bool Lia.
From Flocq Require Import Core.Core IEEE754.BinarySingleNaN.
From SC Require Import Base.Res Base.F64 Base.RustInt Base.Num Base.Oracle Lang.Syntax Eval.EvalNum
  Proofs.ParserWf Proofs.NoPanic Proofs.I64Facts Proofs.NumberFrom Proofs.NumRange Proofs.NumCompare.
Import ListNotations.
Local Open Scope Z_scope.

Definition int_or_float (exact : Z) (fallback : f64) : number :=
  match fit exact with Some r => Int r | None => Flt fallback end.

Theorem C09_integer_arithmetic :
  forall (L : libm) x y,
    bin_num L BAdd (Int x) (Int y) = Ok (int_or_float (x + y) (fadd (f64_of_Z x) (f64_of_Z y))) /\
    bin_num L BSubtract (Int x) (Int y) = Ok (int_or_float (x - y) (fsub (f64_of_Z x) (f64_of_Z y))) /\
    bin_num L BMultiply (Int x) (Int y) = Ok (int_or_float (x * y) (fmul (f64_of_Z x) (f64_of_Z y))) /\
    un_num L UNegative (Int x) = Ok (int_or_float (- x) (fneg (f64_of_Z x))) /\
    un_num L UAbs (Int x) = Ok (int_or_float (Z.abs x) (fabs (f64_of_Z x))) /\
    un_num L USign (Int x) = Ok (Int (Z.sgn x)) /\
    (y <> 0 -> bin_num L BModulo (Int x) (Int y) = Ok (Int (Z.rem x y))) /\
    (bin_num L BModulo (Int x) (Int 0) = Ok (Flt (fmod (f64_of_Z x) (f64_of_Z 0)))) /\
    (0 <= y <= 4294967295 ->
       bin_num L BPow (Int x) (Int y) =
       Ok (match fit (x ^ y) with Some r => Int r | None => number_of_f64 (m2 L MPow (f64_of_Z x) (f64_of_Z y)) end)) /\
    (0 <= x <= 20 -> un_num L UFactorial (Int x) = Ok (Int (fact x))).
Proof.
  intros L x y. unfold int_or_float. repeat split; try reflexivity.
  - simpl. unfold checked_sub. change (0 - x) with (- x). destruct (fit (- x)); reflexivity.
  - simpl. unfold checked_abs. destruct (fit (Z.abs x)); reflexivity.
  - intros Hy. simpl. destruct (y =? 0) eqn:E; [apply Z.eqb_eq in E; congruence|reflexivity].
  - intros [H0 H1]. simpl. unfold u32_max. change (2 ^ 32 - 1) with 4294967295.
    destruct (0 <=? y) eqn:E0; [|apply Z.leb_gt in E0; lia].
    destruct (y <=? 4294967295) eqn:E1; [|apply Z.leb_gt in E1; lia].
    rewrite checked_pow_spec by lia. destruct (fit (x ^ y)); reflexivity.
  - intros [H0 H1]. simpl. destruct (0 <=? x) eqn:E0; [|apply Z.leb_gt in E0; lia].
    destruct (x <=? 20) eqn:E1; [reflexivity|apply Z.leb_gt in E1; lia].
Qed.
Print Assumptions C09_integer_arithmetic.

(** exact division: Integer only when the remainder is zero (and the quotient fits) *)
Theorem C09_division :
  forall (L : libm) x y,
    bin_num L BDivide (Int x) (Int y) =
    Ok (match checked_rem_euclid x y with
        | Some 0 => Int (Z.quot x y)
        | _ => Flt (fdiv (f64_of_Z x) (f64_of_Z y))
        end).
Proof. intros. simpl. destruct (checked_rem_euclid x y) as [[| |]|]; reflexivity. Qed.
Print Assumptions C09_division.

Theorem C09_float_operand :
  forall (L : libm) (a : f64) (n : number),
    bin_num L BAdd (Flt a) n = Ok (Flt (fadd a (num_f64 n))) /\
    bin_num L BMultiply n (Flt a) = Ok (Flt (fmul (num_f64 n) a)) /\
    bin_num L BDivide (Flt a) n = Ok (Flt (fdiv a (num_f64 n))) /\
    bin_num L BPow (Flt a) n = Ok (number_of_f64 (m2 L MPow a (num_f64 n))) /\
    bin_num L BPow n (Flt a) = Ok (number_of_f64 (m2 L MPow (num_f64 n) a)).
Proof. intros. repeat split; destruct n; reflexivity. Qed.
Print Assumptions C09_float_operand.

Theorem C09_floor :
  forall (L : libm) x n, un_num L UFloor (Flt x) = Ok (Int n) ->
    is_finite x = true /\ n = Zfloor (@B2R 53 1024 x).
Proof.
  intros L x n. simpl. pose proof (rounding_to_integer mode_DN x) as R. simpl in R.
  change (Bnearbyint mode_DN x) with (ffloor x) in R.
  destruct (in_i64_f (ffloor x)); intros H; inversion H; subst. destruct R as (A & B & _). auto.
Qed.
Print Assumptions C09_floor.
Theorem C09_ceil :
  forall (L : libm) x n, un_num L UCeil (Flt x) = Ok (Int n) ->
    is_finite x = true /\ n = Zceil (@B2R 53 1024 x).
Proof.
  intros L x n. simpl. pose proof (rounding_to_integer mode_UP x) as R. simpl in R.
  change (Bnearbyint mode_UP x) with (fceil x) in R.
  destruct (in_i64_f (fceil x)); intros H; inversion H; subst. destruct R as (A & B & _). auto.
Qed.
Print Assumptions C09_ceil.
Theorem C09_round :
  forall (L : libm) x, in_i64_f (fround x) = true ->
    un_num L URound (Flt x) = Ok (Int (ZnearestA (@B2R 53 1024 x))).
Proof.
  intros L x E. simpl. pose proof (rounding_to_integer mode_NA x) as R. simpl in R.
  change (Bnearbyint mode_NA x) with (fround x) in R. rewrite E in *. destruct R as (A & B & _). now rewrite B.
Qed.
Print Assumptions C09_round.

Theorem C09_no_panic : forall (L : libm) a, wf a = true -> eval_num L a <> Panic.
Proof. exact eval_num_no_panic. Qed.
Print Assumptions C09_no_panic.

(** the property's own examples, on the model (oracle-free ones) *)
Example C09_examples :
  forall L : libm,
    un_num L UCeil (Flt (f64_of_bits 0x4003333333333333)) = Ok (Int 3) /\        (* ceil(2.4) *)
    un_num L UFloor (Flt (f64_of_bits 0xC004000000000000)) = Ok (Int (-3)) /\    (* floor(-2.5) *)
    un_num L URound (Flt (f64_of_bits 0x4004CCCCCCCCCCCD)) = Ok (Int 3) /\       (* round(2.6) *)
    match bin_num L BAdd (Int (2 ^ 63 - 1)) (Int 1) with Ok (Flt r) => bits_of_f64 r | _ => 0 end = 0x43E0000000000000 /\
    match bin_num L BDivide (Int 7) (Int 2) with Ok (Flt r) => bits_of_f64 r | _ => 0 end = 0x400C000000000000 /\
    bin_num L BDivide (Int 8) (Int 2) = Ok (Int 4).
Proof. intros. repeat split; vm_compute; reflexivity. Qed.

Theorem C09_integers_in_range :
  forall (L : libm) (a : node number) z, leaves_ok a = true -> eval_num L a = Ok (Int z) -> in_i64 z = true.
Proof. intros L a z Hl H. exact (eval_num_in_range L a (Int z) Hl H). Qed.
Print Assumptions C09_integers_in_range.

Theorem C09_mixed_comparison_exact :
  (forall i f, (- 2 ^ 63 <= i < 2 ^ 63) -> is_finite f = true ->
     int_float i f = Some (Rcompare (IZR i) (@B2R 53 1024 f))) /\
  (forall i, int_float i (B754_infinity false) = Some Lt /\ int_float i (B754_infinity true) = Some Gt /\ int_float i B754_nan = None) /\
  (forall a b, nrange a -> nrange b -> nfinite a = true -> nfinite b = true ->
     ncmp a b = Some (Rcompare (nval a) (nval b))).
Proof.
  split; [exact int_float_exact|]. split; [exact int_float_nonfinite|exact ncmp_exact].
Qed.
Print Assumptions C09_mixed_comparison_exact.

(** 2^53 + 1 as an Integer against the double 2^53 (equal after conversion, different as numbers), and a fraction *)
Example C09_comparison_examples :
  ncmp (Int (2 ^ 53 + 1)) (Flt (f64_of_Z (2 ^ 53))) = Some Gt /\
  ncmp (Int 2) (Flt (f64_of_bits 0x4004000000000000)) = Some Lt /\         (* 2 < 2.5 *)
  ncmp (Flt (f64_of_bits 0xC004000000000000)) (Int (-2)) = Some Lt /\      (* -2.5 < -2 *)
  ncmp (Int (2 ^ 63 - 1)) (Flt (f64_of_Z (2 ^ 63))) = Some Lt.
Proof. repeat split; vm_compute; reflexivity. Qed.
