(** C01 -- no input makes any evaluator panic or abort.
    For every input string (no length bound is needed), every placeholder and every behaviour of
    the external numeric libraries, the model of each entry point returns Ok or Err, never Panic.
    The model has no build-profile parameter: the repaired code contains no operation whose
    behaviour depends on overflow checks (the debug/release clause is carried by the
    correspondence, which runs both builds against this one model). *)
From Coq Require Import List NArith.
From SC Require Import Base.Res Base.Oracle Lang.Syntax Eval.Run Gen.Tables
  Proofs.ParserWf Proofs.NoPanic Proofs.RunFacts.

Theorem C01_i64 : forall (L : libm) s p, run_i64 L s p <> Panic.
Proof. intros L s p. apply run_no_panic. exact (eval_i64_no_panic L). Qed.
Print Assumptions C01_i64.

Theorem C01_f64 : forall (L : libm) s p, run_f64 L s p <> Panic.
Proof. intros L s p. apply run_no_panic. exact (eval_f64_no_panic L). Qed.
Print Assumptions C01_f64.

Theorem C01_number : forall (L : libm) s p, run_num L s p <> Panic.
Proof. intros L s p. apply run_no_panic. exact (eval_num_no_panic L). Qed.
Print Assumptions C01_number.

Theorem C01_complex : forall (C : cpxlib) s p, run_cpx C s p <> Panic.
Proof. intros C s p. apply run_no_panic. intros a _. exact (eval_cpx_no_panic C a). Qed.
Print Assumptions C01_complex.

(** eval_decimal: under the stated assumption on rust_decimal (its infallible methods and the
    operators applied to constants do not fail); every checked_* call may fail freely. *)
Theorem C01_decimal : forall (D : declib), raw_total D -> forall s p, run_dec D s p <> Panic.
Proof. intros D RT s p. apply run_no_panic. exact (eval_dec_no_panic D RT). Qed.
Print Assumptions C01_decimal.

(** the parser invariant the evaluators rely on *)
Theorem C01_parser_returns_wellformed_trees :
  forall V (T : Lang.Parser.ptab V) ph ts n, Lang.Parser.parse T ph ts = Ok n -> wf n = true.
Proof. intros. eapply parse_wf; eassumption. Qed.
Print Assumptions C01_parser_returns_wellformed_trees.
