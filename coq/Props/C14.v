(** C14 -- `@` denotes exactly the caller's placeholder value.
      C14_tree_is_parametric   the parser's tree depends on the placeholder only at the [@] leaves: there is one
                               surface tree [sx], independent of the placeholder, with parse ts = desugar p sx for
                               every p, and [desugar] puts the placeholder -- unchanged -- at exactly the SAns leaves
      C14_*_public             run s p = eval (desugar p sx): the evaluation of E with each @ read as the constant p
      C14_*_at                 the input "@" returns the placeholder itself (bits / variant / scale untouched)
      C14_not_juxtaposed       @ is neither juxtaposition-capable nor a trigger (see C12)
      C14_placeholder_never_juxtaposed
                               for EVERY token sequence of every evaluator: an input in which @ is directly followed by an
                               opening bracket, a function name or a literal, or directly follows a literal, a closing
                               bracket, @, a constant, a postfix operator, a superscript or !, is rejected *)
From Coq Require Import List NArith ZArith Bool.
From SC Require Import Base.Res Base.F64 Base.Dec Base.Num Base.Oracle Lang.Syntax Lang.Lexer Lang.Literal Lang.Parser
  Eval.EvalI64 Eval.EvalF64 Eval.EvalNum Eval.EvalDec Eval.EvalCpx Eval.Run Gen.Tables
  Spec.Surface Proofs.Grammar Proofs.Top Proofs.Adjacent.
Import ListNotations.
Local Open Scope N_scope.

Theorem C14_tree_is_parametric :
  forall V (T : ptab V), pt_trigger T KEof = false -> orb (pt_numnum T) (pt_trigger T KNum) = true ->
  forall ts p a, parse T p ts = Ok a ->
    exists sx, a = desugar T p sx /\ forall p', parse T p' ts = Ok (desugar T p' sx).
Proof. intros V T H H2 ts p a Hp. eapply parse_parametric_in_placeholder; eauto. Qed.
Print Assumptions C14_tree_is_parametric.

Theorem C14_placeholder_at_ans_leaves :
  forall V (T : ptab V) p, desugar T p SAns = NNum p.
Proof. reflexivity. Qed.
Print Assumptions C14_placeholder_at_ans_leaves.

Theorem C14_f64_public :
  forall (L : libm) s p sx, W pt_f64 0 sx -> tokens_of lt_f64 conv_f64 s = Some (print pt_f64 sx) ->
    run_f64 L s p = eval_f64 L (desugar pt_f64 p sx).
Proof. intros L. exact (wellformed_evaluates lt_f64 conv_f64 pt_f64 (eval_f64 L) eq_refl eq_refl). Qed.
Print Assumptions C14_f64_public.
Theorem C14_f64_at : forall (L : libm) p, run_f64 L [64] p = Ok p.
Proof. intros. vm_compute. reflexivity. Qed.
Print Assumptions C14_f64_at.

Theorem C14_i64_public :
  forall (L : libm) s p sx, W pt_i64 0 sx -> tokens_of lt_i64 conv_i64 s = Some (print pt_i64 sx) ->
    run_i64 L s p = eval_i64 L (desugar pt_i64 p sx).
Proof. intros L. exact (wellformed_evaluates lt_i64 conv_i64 pt_i64 (eval_i64 L) eq_refl eq_refl). Qed.
Print Assumptions C14_i64_public.
Theorem C14_i64_at : forall (L : libm) p, run_i64 L [64] p = Ok p.
Proof. intros. vm_compute. reflexivity. Qed.
Print Assumptions C14_i64_at.

Theorem C14_number_public :
  forall (L : libm) s p sx, W pt_number 0 sx -> tokens_of lt_number conv_num s = Some (print pt_number sx) ->
    run_num L s p = eval_num L (desugar pt_number p sx).
Proof. intros L. exact (wellformed_evaluates lt_number conv_num pt_number (eval_num L) eq_refl eq_refl). Qed.
Print Assumptions C14_number_public.
Theorem C14_number_at : forall (L : libm) p, run_num L [64] p = Ok p.
Proof. intros. vm_compute. reflexivity. Qed.
Print Assumptions C14_number_at.

Theorem C14_complex_public :
  forall (C : cpxlib) s p sx, W pt_complex 0 sx -> tokens_of lt_complex conv_cpx s = Some (print pt_complex sx) ->
    run_cpx C s p = eval_cpx C (desugar pt_complex p sx).
Proof. intros C. exact (wellformed_evaluates lt_complex conv_cpx pt_complex (eval_cpx C) eq_refl eq_refl). Qed.
Print Assumptions C14_complex_public.
Theorem C14_complex_at : forall (C : cpxlib) p, run_cpx C [64] p = Ok p.
Proof. intros. vm_compute. reflexivity. Qed.
Print Assumptions C14_complex_at.

Theorem C14_decimal_public :
  forall (D : declib) s p sx, W pt_decimal 0 sx -> tokens_of lt_decimal (conv_dec D) s = Some (print pt_decimal sx) ->
    run_dec D s p = eval_dec D (desugar pt_decimal p sx).
Proof. intros D. exact (wellformed_evaluates lt_decimal (conv_dec D) pt_decimal (eval_dec D) eq_refl eq_refl). Qed.
Print Assumptions C14_decimal_public.
Theorem C14_decimal_at : forall (D : declib) p, run_dec D [64] p = Ok p.
Proof. intros. vm_compute. reflexivity. Qed.
Print Assumptions C14_decimal_at.

Theorem C14_not_juxtaposed :
  @capable f64 SAns = false /\
  forallb (fun b => b) [negb (pt_trigger pt_f64 KAns); negb (pt_trigger pt_i64 KAns); negb (pt_trigger pt_decimal KAns);
                        negb (pt_trigger pt_complex KAns); negb (pt_trigger pt_number KAns)] = true /\
  (forall ph a : f64, parse pt_f64 ph [TK KAns; TK KLeftParen; TNum a; TK KRightParen] = Err /\
                      parse pt_f64 ph [TNum a; TK KAns] = Err /\
                      parse pt_f64 ph [TK KLeftParen; TNum a; TK KRightParen; TK KAns] = Err /\
                      parse pt_f64 ph [TK KAns; TK (KFunc FSin); TK KLeftParen; TNum a; TK KRightParen] = Err).
Proof. split; [reflexivity|]. split; [vm_compute; reflexivity|]. intros. repeat split; vm_compute; reflexivity. Qed.
Print Assumptions C14_not_juxtaposed.

Theorem C14_placeholder_never_juxtaposed :
  (forall (ph : f64) ts x y, adj x y ts ->
     (x = TK KAns /\ trig pt_f64 y = true) \/ (ender pt_f64 x = true /\ y = TK KAns) -> parse pt_f64 ph ts = Err) /\
  (forall (ph : Z) ts x y, adj x y ts ->
     (x = TK KAns /\ trig pt_i64 y = true) \/ (ender pt_i64 x = true /\ y = TK KAns) -> parse pt_i64 ph ts = Err) /\
  (forall (ph : dec) ts x y, adj x y ts ->
     (x = TK KAns /\ trig pt_decimal y = true) \/ (ender pt_decimal x = true /\ y = TK KAns) -> parse pt_decimal ph ts = Err) /\
  (forall (ph : f64 * f64) ts x y, adj x y ts ->
     (x = TK KAns /\ trig pt_complex y = true) \/ (ender pt_complex x = true /\ y = TK KAns) -> parse pt_complex ph ts = Err) /\
  (forall (ph : number) ts x y, adj x y ts ->
     (x = TK KAns /\ trig pt_number y = true) \/ (ender pt_number x = true /\ y = TK KAns) -> parse pt_number ph ts = Err).
Proof.
  repeat split; intros ph ts x y A [[-> Tr]|[En ->]];
    first [ eapply quiet_then_trigger_rejected; eauto; vm_compute; reflexivity
          | eapply ender_then_atom_rejected; eauto; vm_compute; reflexivity ].
Qed.
Print Assumptions C14_placeholder_never_juxtaposed.
