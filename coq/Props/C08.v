(** C08 -- eval_complex is complex-field arithmetic with i*i = -1.
      C08_lexing        `i` is the literal 0+1i, a literal followed by `i` is imaginary, `pi` stays the constant
      C08_field_ops     + - * and unary minus are the textbook component formulas over IEEE operations, for all
                        operands; i*i = -1+0i exactly
      C08_mapping       every other operator / function is the like-named num_complex operation, with the
                        arguments in the documented order (root(n,x) = x^(1/n), log(x,b) = ln x / ln b)
      C08_real_operands one of + - * applied directly to two real operands: the real part is eval_f64's result bit for
                        bit (for ALL doubles, non-finite included) and the imaginary part is a zero (finite operands)
    Partial: the 1e-12 / 1e-9 accuracy of num_complex's division, modulus, powers and elementary functions and
    the agreement with eval_f64 on real operands are properties of external floating-point code: tested on
    every run against Python's cmath and against eval_f64 (exploration-level support), not proved. *)
From Coq Require Import List ZArith NArith Bool.
From SC Require Import Base.Res Base.F64 Base.Oracle Lang.Syntax Lang.Lexer Lang.Literal Lang.Parser Eval.EvalCpx Eval.EvalF64 Gen.Tables Proofs.CpxFacts.
Import ListNotations.
Local Open Scope N_scope.

Theorem C08_lexing :
  (forall rest, match lex_step lt_complex conv_cpx (105 :: rest) with
                | Some (TNum (re, im), r) => bits_of_f64 re = 0%Z /\ bits_of_f64 im = 0x3FF0000000000000%Z /\ r = rest
                | _ => False end) /\
  (forall rest, match lex_step lt_complex conv_cpx ([50; 105] ++ rest) with
                | Some (TNum (re, im), r) => bits_of_f64 re = 0%Z /\ bits_of_f64 im = 0x4000000000000000%Z /\ r = rest
                | _ => False end) /\
  (forall rest, lex_step lt_complex conv_cpx ([112; 105] ++ rest) = Some (TK KPi, rest)) /\
  lt_imag_unit lt_complex = true /\ lt_imag_suffix lt_complex = true /\
  forallb (fun T => negb (lt_imag_unit T) && negb (lt_imag_suffix T)) [lt_f64; lt_i64; lt_decimal; lt_number] = true.
Proof.
  split; [intros; vm_compute; repeat split; reflexivity|]. split; [intros; vm_compute; repeat split; reflexivity|].
  split; [intros; vm_compute; reflexivity|]. repeat split; vm_compute; reflexivity.
Qed.
Print Assumptions C08_lexing.

Theorem C08_field_ops :
  forall (C : cpxlib) (a b : cpx),
    bin_cpx C BAdd a b = Ok (fadd (fst a) (fst b), fadd (snd a) (snd b)) /\
    bin_cpx C BSubtract a b = Ok (fsub (fst a) (fst b), fsub (snd a) (snd b)) /\
    bin_cpx C BMultiply a b = Ok (fsub (fmul (fst a) (fst b)) (fmul (snd a) (snd b)),
                                  fadd (fmul (fst a) (snd b)) (fmul (snd a) (fst b))) /\
    un_cpx C UNegative a = Ok (fneg (fst a), fneg (snd a)).
Proof. intros. repeat split; reflexivity. Qed.
Print Assumptions C08_field_ops.

Theorem C08_i_squared :
  forall C : cpxlib,
    match bin_cpx C BMultiply (fzero, fone) (fzero, fone) with
    | Ok (re, im) => bits_of_f64 re = 0xBFF0000000000000%Z /\ bits_of_f64 im = 0%Z
    | _ => False
    end.
Proof. intros. vm_compute. split; reflexivity. Qed.
Print Assumptions C08_i_squared.

Theorem C08_mapping :
  forall (C : cpxlib) (a b : cpx),
    bin_cpx C BDivide a b = Ok (c2 C CDiv a b) /\ bin_cpx C BPow a b = Ok (c2 C CPowc a b) /\
    bin_cpx C BRoot a b = Ok (c2 C CPowc b (c1 C CInv1 a)) /\
    bin_cpx C BLog a b = Ok (c2 C CDiv (c1 C CLn a) (c1 C CLn b)) /\
    un_cpx C UAbs a = Ok (c1 C CAbs a) /\ un_cpx C USqrt a = Ok (c1 C CSqrt a) /\ un_cpx C UExp a = Ok (c1 C CExp a) /\
    un_cpx C ULn a = Ok (c1 C CLn a) /\ un_cpx C USin a = Ok (c1 C CSin a) /\ un_cpx C UArtanh a = Ok (c1 C CAtanh a).
Proof. intros. repeat split; reflexivity. Qed.
Print Assumptions C08_mapping.

Theorem C08_real_operands :
  forall (C : cpxlib) (L : libm) (o : binop) (a b : f64),
    o = BAdd \/ o = BSubtract \/ o = BMultiply ->
    exists re im, bin_cpx C o (a, fzero) (b, fzero) = Ok (re, im) /\ bin_f64 L o a b = Ok re /\
                  (BinarySingleNaN.is_finite a = true -> BinarySingleNaN.is_finite b = true -> is_zero im = true).
Proof. exact real_binop. Qed.
Print Assumptions C08_real_operands.
