(** C02 -- every evaluation terminates within work linear in the input length.
    Counted steps of one call = calls of Tokenizer::next + nested calls of the parser engine (each
    tick point of parser.rs is one) + one per AST node + the iterations of the looping constructs.
      C02_within_budget      for EVERY input: if the stripped input lexes to the tokens of a surface tree,
                             the static bound  (tokens+2) + (4*tokens+8) + cost_bound(ast)  is at most
                             4096 + 256 * (number of characters), because every construct pays for its
                             nodes and for the cap of its loop with its own tokens (171 per token)
      C02_parser_fuel        parsing a successful input needs at most 4*tokens+8 nested engine calls
      C02_parser_never_out_of_fuel   for EVERY token list, accepted or rejected, the parser finishes (Ok or Err) within
                             4*tokens+8 nested engine calls: rejected inputs are bounded as well, and the recursion
                             depth of the parser is linear in the input
      C02_loop_caps          the loops of the models respect the caps charged by cost_bound, independent
                             of the magnitude of the operands and of what libm returns:
                             n! <= 169 rounds (f64/number), w <= 128 Halley steps, ilog <= 66 rounds,
                             gcd <= 128 rounds per pair (Euclid halves every two rounds)
    The correspondence compares the implementation's measured ticks with this bound on every case. *)
From Coq Require Import List NArith ZArith Arith Lia.
From SC Require Import Base.Res Base.F64 Base.RustInt Base.Oracle Lang.Syntax Lang.Lexer Lang.Literal Lang.Parser
  Eval.EvalF64 Eval.Run Gen.Tables Spec.Surface Spec.Cost Proofs.ParserRel Proofs.Grammar Proofs.LexFacts
  Proofs.LoopBounds Proofs.GcdFacts Proofs.FuelFacts.
Import ListNotations.

Theorem C02_within_budget :
  forall V (LT : lextab) (conv : lit -> option V) (PT : ptab V) ph s sx,
    tokens_of LT conv s = Some (print PT sx) ->
    total_bound (print PT sx) (desugar PT ph sx) <= budget (length s).
Proof.
  intros V LT conv PT ph s sx Et. apply within_budget.
  unfold tokens_of in Et. eapply tokens_le_chars; eauto.
Qed.
Print Assumptions C02_within_budget.

Theorem C02_tokens_at_most_characters :
  forall V (LT : lextab) (conv : lit -> option V) s ts, tokens_of LT conv s = Some ts -> length ts <= length s.
Proof. intros. eapply tokens_le_chars; eauto. Qed.
Print Assumptions C02_tokens_at_most_characters.

Theorem C02_parser_fuel :
  forall V (T : ptab V) ph c ts r, Run T ph c ts r ->
    forall F, 4 * (length ts - length (snd r)) + base c <= F -> Parser.run T ph F c ts = Ok r.
Proof. intros. eapply Run_run; eauto. Qed.
Print Assumptions C02_parser_fuel.

Theorem C02_parser_never_out_of_fuel :
  forall V (T : ptab V) ph ts, parse T ph ts <> Fuel.
Proof. intros. apply parse_never_fuel. Qed.
Print Assumptions C02_parser_never_out_of_fuel.

Theorem C02_loop_caps :
  (forall x : f64, fge x fzero = true -> fgt x f170 = false -> (Z.to_nat (f64_to_usize x - 1) <= 169)%nat) /\
  (forall (L : libm) x, (Z.to_nat (w_iterations L x) <= 128)%nat) /\
  (forall (L : libm) fuel n b x, (ilog_rounds L fuel n b x <= fuel)%nat) /\
  (forall a b f, in_i64 b = true -> (gcd_steps f a b <= 128)%nat) /\
  (forall a b, in_i64 b = true -> exists g, gcd_loop gcd_fuel a b = Ok g).
Proof.
  split; [exact fact_loop_bound|]. split; [exact halley_steps_bound|]. split; [exact ilog_rounds_bound|].
  split; [exact gcd_rounds_bound|exact gcd_loop_i64].
Qed.
Print Assumptions C02_loop_caps.

(** the budget is tight enough to be meaningful: 51 copies of "170!" joined by "+" (254 characters) *)
Example C02_example : 171 * 254 + 5 * 254 + 10 <= budget 254.
Proof. unfold budget. lia. Qed.
