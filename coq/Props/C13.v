(** C13 -- equivalent spellings evaluate identically.
      white space   the outcome is a function of the stripped text; inserting / deleting any of the 25
                    White_Space characters anywhere leaves the stripped text unchanged; no token character
                    of any table is white space
      aliases       each alias pair lexes to the same token for every continuation
      notations     ⌊x⌋ / floor(x), ⌈x⌉ / ceil(x), mod(a,b) / ((a)%(b)), pow(a,b) / ((a)^(b)), a superscript
                    run / ^N, prefix +, redundant brackets: same AST (desugar equalities) *)
From Coq Require Import List NArith ZArith Bool.
From SC Require Import Base.Res Base.F64 Base.Dec Base.Num Base.Oracle Lang.Syntax Lang.Lexer Lang.Literal Lang.Parser
  Eval.Run Gen.Tables Spec.Surface Proofs.Grammar Proofs.Top Proofs.Subst.
Import ListNotations.
Local Open Scope N_scope.

Theorem C13_whitespace_generic :
  forall V LT conv (PT : ptab V) ev s s' p, strip s = strip s' -> run LT conv PT ev s p = run LT conv PT ev s' p.
Proof. intros. now apply strip_invariant. Qed.
Print Assumptions C13_whitespace_generic.

Theorem C13_insert_whitespace : forall a c b, is_ws c = true -> strip (a ++ c :: b) = strip (a ++ b).
Proof. exact strip_insert. Qed.
Print Assumptions C13_insert_whitespace.

(** the 25 White_Space code points (and nothing else below U+3001) *)
Theorem C13_white_space_set :
  filter is_ws (map N.of_nat (seq 0 12290)) =
  [9; 10; 11; 12; 13; 32; 133; 160; 5760; 8192; 8193; 8194; 8195; 8196; 8197; 8198; 8199; 8200; 8201; 8202;
   8232; 8233; 8239; 8287; 12288].
Proof. vm_compute. reflexivity. Qed.
Print Assumptions C13_white_space_set.

Definition token_chars (T : lextab) : list N :=
  flat_map (fun a => a_char a :: flat_map r_look (a_rows a)) (lt_arms T) ++ map fst (lt_sup T) ++ [46; 105] ++
  map N.of_nat (seq 48 10).
Theorem C13_no_token_character_is_white_space :
  forallb (fun T => forallb (fun c => negb (is_ws c)) (token_chars T)) [lt_f64; lt_i64; lt_decimal; lt_complex; lt_number] = true.
Proof. vm_compute. reflexivity. Qed.
Print Assumptions C13_no_token_character_is_white_space.

(** aliases: same token, whatever follows *)
Lemma alias_f64_pi_pi_sym : forall (conv : lit -> option f64) rest,
  lex_step lt_f64 conv ([112; 105] ++ rest) = lex_step lt_f64 conv ([960] ++ rest) /\ exists k, lex_step lt_f64 conv ([112; 105] ++ rest) = Some (TK k, rest).
Proof. intros. split; [vm_compute; reflexivity|eexists; vm_compute; reflexivity]. Qed.
Lemma alias_f64_sgn_sign : forall (conv : lit -> option f64) rest,
  lex_step lt_f64 conv ([115; 103; 110; 40] ++ rest) = lex_step lt_f64 conv ([115; 105; 103; 110; 40] ++ rest) /\ exists k, lex_step lt_f64 conv ([115; 103; 110; 40] ++ rest) = Some (TK k, 40 :: rest).
Proof. intros. split; [vm_compute; reflexivity|eexists; vm_compute; reflexivity]. Qed.
Lemma alias_f64_sgn_signum : forall (conv : lit -> option f64) rest,
  lex_step lt_f64 conv ([115; 103; 110; 40] ++ rest) = lex_step lt_f64 conv ([115; 105; 103; 110; 117; 109; 40] ++ rest) /\ exists k, lex_step lt_f64 conv ([115; 103; 110; 40] ++ rest) = Some (TK k, 40 :: rest).
Proof. intros. split; [vm_compute; reflexivity|eexists; vm_compute; reflexivity]. Qed.
Lemma alias_f64_med_median : forall (conv : lit -> option f64) rest,
  lex_step lt_f64 conv ([109; 101; 100; 40] ++ rest) = lex_step lt_f64 conv ([109; 101; 100; 105; 97; 110; 40] ++ rest) /\ exists k, lex_step lt_f64 conv ([109; 101; 100; 40] ++ rest) = Some (TK k, 40 :: rest).
Proof. intros. split; [vm_compute; reflexivity|eexists; vm_compute; reflexivity]. Qed.
Lemma alias_f64_trunc_truncate : forall (conv : lit -> option f64) rest,
  lex_step lt_f64 conv ([116; 114; 117; 110; 99; 40] ++ rest) = lex_step lt_f64 conv ([116; 114; 117; 110; 99; 97; 116; 101; 40] ++ rest) /\ exists k, lex_step lt_f64 conv ([116; 114; 117; 110; 99; 40] ++ rest) = Some (TK k, 40 :: rest).
Proof. intros. split; [vm_compute; reflexivity|eexists; vm_compute; reflexivity]. Qed.
Lemma alias_f64_w_lambert_w : forall (conv : lit -> option f64) rest,
  lex_step lt_f64 conv ([119; 40] ++ rest) = lex_step lt_f64 conv ([108; 97; 109; 98; 101; 114; 116; 95; 119; 40] ++ rest) /\ exists k, lex_step lt_f64 conv ([119; 40] ++ rest) = Some (TK k, 40 :: rest).
Proof. intros. split; [vm_compute; reflexivity|eexists; vm_compute; reflexivity]. Qed.
Lemma alias_f64_asinh_arsinh : forall (conv : lit -> option f64) rest,
  lex_step lt_f64 conv ([97; 115; 105; 110; 104; 40] ++ rest) = lex_step lt_f64 conv ([97; 114; 115; 105; 110; 104; 40] ++ rest) /\ exists k, lex_step lt_f64 conv ([97; 115; 105; 110; 104; 40] ++ rest) = Some (TK k, 40 :: rest).
Proof. intros. split; [vm_compute; reflexivity|eexists; vm_compute; reflexivity]. Qed.
Lemma alias_f64_acosh_arcosh : forall (conv : lit -> option f64) rest,
  lex_step lt_f64 conv ([97; 99; 111; 115; 104; 40] ++ rest) = lex_step lt_f64 conv ([97; 114; 99; 111; 115; 104; 40] ++ rest) /\ exists k, lex_step lt_f64 conv ([97; 99; 111; 115; 104; 40] ++ rest) = Some (TK k, 40 :: rest).
Proof. intros. split; [vm_compute; reflexivity|eexists; vm_compute; reflexivity]. Qed.
Lemma alias_f64_atanh_artanh : forall (conv : lit -> option f64) rest,
  lex_step lt_f64 conv ([97; 116; 97; 110; 104; 40] ++ rest) = lex_step lt_f64 conv ([97; 114; 116; 97; 110; 104; 40] ++ rest) /\ exists k, lex_step lt_f64 conv ([97; 116; 97; 110; 104; 40] ++ rest) = Some (TK k, 40 :: rest).
Proof. intros. split; [vm_compute; reflexivity|eexists; vm_compute; reflexivity]. Qed.
Lemma alias_i64_sgn_sign : forall (conv : lit -> option Z) rest,
  lex_step lt_i64 conv ([115; 103; 110; 40] ++ rest) = lex_step lt_i64 conv ([115; 105; 103; 110; 40] ++ rest) /\ exists k, lex_step lt_i64 conv ([115; 103; 110; 40] ++ rest) = Some (TK k, 40 :: rest).
Proof. intros. split; [vm_compute; reflexivity|eexists; vm_compute; reflexivity]. Qed.
Lemma alias_i64_sgn_signum : forall (conv : lit -> option Z) rest,
  lex_step lt_i64 conv ([115; 103; 110; 40] ++ rest) = lex_step lt_i64 conv ([115; 105; 103; 110; 117; 109; 40] ++ rest) /\ exists k, lex_step lt_i64 conv ([115; 103; 110; 40] ++ rest) = Some (TK k, 40 :: rest).
Proof. intros. split; [vm_compute; reflexivity|eexists; vm_compute; reflexivity]. Qed.
Lemma alias_i64_med_median : forall (conv : lit -> option Z) rest,
  lex_step lt_i64 conv ([109; 101; 100; 40] ++ rest) = lex_step lt_i64 conv ([109; 101; 100; 105; 97; 110; 40] ++ rest) /\ exists k, lex_step lt_i64 conv ([109; 101; 100; 40] ++ rest) = Some (TK k, 40 :: rest).
Proof. intros. split; [vm_compute; reflexivity|eexists; vm_compute; reflexivity]. Qed.
Lemma alias_decimal_pi_pi_sym : forall (conv : lit -> option dec) rest,
  lex_step lt_decimal conv ([112; 105] ++ rest) = lex_step lt_decimal conv ([960] ++ rest) /\ exists k, lex_step lt_decimal conv ([112; 105] ++ rest) = Some (TK k, rest).
Proof. intros. split; [vm_compute; reflexivity|eexists; vm_compute; reflexivity]. Qed.
Lemma alias_decimal_sgn_sign : forall (conv : lit -> option dec) rest,
  lex_step lt_decimal conv ([115; 103; 110; 40] ++ rest) = lex_step lt_decimal conv ([115; 105; 103; 110; 40] ++ rest) /\ exists k, lex_step lt_decimal conv ([115; 103; 110; 40] ++ rest) = Some (TK k, 40 :: rest).
Proof. intros. split; [vm_compute; reflexivity|eexists; vm_compute; reflexivity]. Qed.
Lemma alias_decimal_sgn_signum : forall (conv : lit -> option dec) rest,
  lex_step lt_decimal conv ([115; 103; 110; 40] ++ rest) = lex_step lt_decimal conv ([115; 105; 103; 110; 117; 109; 40] ++ rest) /\ exists k, lex_step lt_decimal conv ([115; 103; 110; 40] ++ rest) = Some (TK k, 40 :: rest).
Proof. intros. split; [vm_compute; reflexivity|eexists; vm_compute; reflexivity]. Qed.
Lemma alias_decimal_med_median : forall (conv : lit -> option dec) rest,
  lex_step lt_decimal conv ([109; 101; 100; 40] ++ rest) = lex_step lt_decimal conv ([109; 101; 100; 105; 97; 110; 40] ++ rest) /\ exists k, lex_step lt_decimal conv ([109; 101; 100; 40] ++ rest) = Some (TK k, 40 :: rest).
Proof. intros. split; [vm_compute; reflexivity|eexists; vm_compute; reflexivity]. Qed.
Lemma alias_decimal_trunc_truncate : forall (conv : lit -> option dec) rest,
  lex_step lt_decimal conv ([116; 114; 117; 110; 99; 40] ++ rest) = lex_step lt_decimal conv ([116; 114; 117; 110; 99; 97; 116; 101; 40] ++ rest) /\ exists k, lex_step lt_decimal conv ([116; 114; 117; 110; 99; 40] ++ rest) = Some (TK k, 40 :: rest).
Proof. intros. split; [vm_compute; reflexivity|eexists; vm_compute; reflexivity]. Qed.
Lemma alias_decimal_w_lambert_w : forall (conv : lit -> option dec) rest,
  lex_step lt_decimal conv ([119; 40] ++ rest) = lex_step lt_decimal conv ([108; 97; 109; 98; 101; 114; 116; 95; 119; 40] ++ rest) /\ exists k, lex_step lt_decimal conv ([119; 40] ++ rest) = Some (TK k, 40 :: rest).
Proof. intros. split; [vm_compute; reflexivity|eexists; vm_compute; reflexivity]. Qed.
Lemma alias_complex_pi_pi_sym : forall (conv : lit -> option cpx) rest,
  lex_step lt_complex conv ([112; 105] ++ rest) = lex_step lt_complex conv ([960] ++ rest) /\ exists k, lex_step lt_complex conv ([112; 105] ++ rest) = Some (TK k, rest).
Proof. intros. split; [vm_compute; reflexivity|eexists; vm_compute; reflexivity]. Qed.
Lemma alias_complex_asinh_arsinh : forall (conv : lit -> option cpx) rest,
  lex_step lt_complex conv ([97; 115; 105; 110; 104; 40] ++ rest) = lex_step lt_complex conv ([97; 114; 115; 105; 110; 104; 40] ++ rest) /\ exists k, lex_step lt_complex conv ([97; 115; 105; 110; 104; 40] ++ rest) = Some (TK k, 40 :: rest).
Proof. intros. split; [vm_compute; reflexivity|eexists; vm_compute; reflexivity]. Qed.
Lemma alias_complex_acosh_arcosh : forall (conv : lit -> option cpx) rest,
  lex_step lt_complex conv ([97; 99; 111; 115; 104; 40] ++ rest) = lex_step lt_complex conv ([97; 114; 99; 111; 115; 104; 40] ++ rest) /\ exists k, lex_step lt_complex conv ([97; 99; 111; 115; 104; 40] ++ rest) = Some (TK k, 40 :: rest).
Proof. intros. split; [vm_compute; reflexivity|eexists; vm_compute; reflexivity]. Qed.
Lemma alias_complex_atanh_artanh : forall (conv : lit -> option cpx) rest,
  lex_step lt_complex conv ([97; 116; 97; 110; 104; 40] ++ rest) = lex_step lt_complex conv ([97; 114; 116; 97; 110; 104; 40] ++ rest) /\ exists k, lex_step lt_complex conv ([97; 116; 97; 110; 104; 40] ++ rest) = Some (TK k, 40 :: rest).
Proof. intros. split; [vm_compute; reflexivity|eexists; vm_compute; reflexivity]. Qed.
Lemma alias_number_pi_pi_sym : forall (conv : lit -> option number) rest,
  lex_step lt_number conv ([112; 105] ++ rest) = lex_step lt_number conv ([960] ++ rest) /\ exists k, lex_step lt_number conv ([112; 105] ++ rest) = Some (TK k, rest).
Proof. intros. split; [vm_compute; reflexivity|eexists; vm_compute; reflexivity]. Qed.
Lemma alias_number_sgn_sign : forall (conv : lit -> option number) rest,
  lex_step lt_number conv ([115; 103; 110; 40] ++ rest) = lex_step lt_number conv ([115; 105; 103; 110; 40] ++ rest) /\ exists k, lex_step lt_number conv ([115; 103; 110; 40] ++ rest) = Some (TK k, 40 :: rest).
Proof. intros. split; [vm_compute; reflexivity|eexists; vm_compute; reflexivity]. Qed.
Lemma alias_number_sgn_signum : forall (conv : lit -> option number) rest,
  lex_step lt_number conv ([115; 103; 110; 40] ++ rest) = lex_step lt_number conv ([115; 105; 103; 110; 117; 109; 40] ++ rest) /\ exists k, lex_step lt_number conv ([115; 103; 110; 40] ++ rest) = Some (TK k, 40 :: rest).
Proof. intros. split; [vm_compute; reflexivity|eexists; vm_compute; reflexivity]. Qed.
Lemma alias_number_med_median : forall (conv : lit -> option number) rest,
  lex_step lt_number conv ([109; 101; 100; 40] ++ rest) = lex_step lt_number conv ([109; 101; 100; 105; 97; 110; 40] ++ rest) /\ exists k, lex_step lt_number conv ([109; 101; 100; 40] ++ rest) = Some (TK k, 40 :: rest).
Proof. intros. split; [vm_compute; reflexivity|eexists; vm_compute; reflexivity]. Qed.
Lemma alias_number_trunc_truncate : forall (conv : lit -> option number) rest,
  lex_step lt_number conv ([116; 114; 117; 110; 99; 40] ++ rest) = lex_step lt_number conv ([116; 114; 117; 110; 99; 97; 116; 101; 40] ++ rest) /\ exists k, lex_step lt_number conv ([116; 114; 117; 110; 99; 40] ++ rest) = Some (TK k, 40 :: rest).
Proof. intros. split; [vm_compute; reflexivity|eexists; vm_compute; reflexivity]. Qed.
Lemma alias_number_w_lambert_w : forall (conv : lit -> option number) rest,
  lex_step lt_number conv ([119; 40] ++ rest) = lex_step lt_number conv ([108; 97; 109; 98; 101; 114; 116; 95; 119; 40] ++ rest) /\ exists k, lex_step lt_number conv ([119; 40] ++ rest) = Some (TK k, 40 :: rest).
Proof. intros. split; [vm_compute; reflexivity|eexists; vm_compute; reflexivity]. Qed.
Lemma alias_number_asinh_arsinh : forall (conv : lit -> option number) rest,
  lex_step lt_number conv ([97; 115; 105; 110; 104; 40] ++ rest) = lex_step lt_number conv ([97; 114; 115; 105; 110; 104; 40] ++ rest) /\ exists k, lex_step lt_number conv ([97; 115; 105; 110; 104; 40] ++ rest) = Some (TK k, 40 :: rest).
Proof. intros. split; [vm_compute; reflexivity|eexists; vm_compute; reflexivity]. Qed.
Lemma alias_number_acosh_arcosh : forall (conv : lit -> option number) rest,
  lex_step lt_number conv ([97; 99; 111; 115; 104; 40] ++ rest) = lex_step lt_number conv ([97; 114; 99; 111; 115; 104; 40] ++ rest) /\ exists k, lex_step lt_number conv ([97; 99; 111; 115; 104; 40] ++ rest) = Some (TK k, 40 :: rest).
Proof. intros. split; [vm_compute; reflexivity|eexists; vm_compute; reflexivity]. Qed.
Lemma alias_number_atanh_artanh : forall (conv : lit -> option number) rest,
  lex_step lt_number conv ([97; 116; 97; 110; 104; 40] ++ rest) = lex_step lt_number conv ([97; 114; 116; 97; 110; 104; 40] ++ rest) /\ exists k, lex_step lt_number conv ([97; 116; 97; 110; 104; 40] ++ rest) = Some (TK k, 40 :: rest).
Proof. intros. split; [vm_compute; reflexivity|eexists; vm_compute; reflexivity]. Qed.

Theorem C13_aliases :
  (forall conv rest, @lex_step f64 lt_f64 conv ([115; 103; 110; 40] ++ rest) = @lex_step f64 lt_f64 conv ([115; 105; 103; 110; 117; 109; 40] ++ rest)) /\
  (forall conv rest, @lex_step f64 lt_f64 conv ([112; 105] ++ rest) = @lex_step f64 lt_f64 conv ([960] ++ rest)) /\
  (forall conv rest, @lex_step f64 lt_f64 conv ([119; 40] ++ rest) = @lex_step f64 lt_f64 conv ([108; 97; 109; 98; 101; 114; 116; 95; 119; 40] ++ rest)).
Proof.
  split; [intros; apply alias_f64_sgn_signum|]. split; [intros; apply alias_f64_pi_pi_sym|intros; apply alias_f64_w_lambert_w].
Qed.
Print Assumptions C13_aliases.

(** notations: same abstract syntax tree *)
Theorem C13_notations_f64 :
  forall (ph : f64) x a b l v,
    desugar pt_f64 ph (SGroup KLeftFloor x) = desugar pt_f64 ph (SCall1 FFloor x) /\
    desugar pt_f64 ph (SGroup KLeftCeiling x) = desugar pt_f64 ph (SCall1 FCeil x) /\
    desugar pt_f64 ph (SGroup KLeftParen (SBin KModulo (SGroup KLeftParen a) (SGroup KLeftParen b))) = desugar pt_f64 ph (SCall2 FMod a b) /\
    desugar pt_f64 ph (SGroup KLeftParen (SBin KCaret (SGroup KLeftParen a) (SGroup KLeftParen b))) = desugar pt_f64 ph (SCall2 FPow a b) /\
    desugar pt_f64 ph (SSup l v) = desugar pt_f64 ph (SBin KCaret l (SNum v)) /\
    desugar pt_f64 ph (SPos x) = desugar pt_f64 ph x /\
    desugar pt_f64 ph (SGroup KLeftParen x) = desugar pt_f64 ph x.
Proof. intros. repeat split; reflexivity. Qed.
Print Assumptions C13_notations_f64.
Theorem C13_notations_number :
  forall (ph : number) x a b l v,
    desugar pt_number ph (SGroup KLeftFloor x) = desugar pt_number ph (SCall1 FFloor x) /\
    desugar pt_number ph (SGroup KLeftCeiling x) = desugar pt_number ph (SCall1 FCeil x) /\
    desugar pt_number ph (SGroup KLeftParen (SBin KModulo (SGroup KLeftParen a) (SGroup KLeftParen b))) = desugar pt_number ph (SCall2 FMod a b) /\
    desugar pt_number ph (SGroup KLeftParen (SBin KCaret (SGroup KLeftParen a) (SGroup KLeftParen b))) = desugar pt_number ph (SCall2 FPow a b) /\
    desugar pt_number ph (SSup l v) = desugar pt_number ph (SBin KCaret l (SNum v)) /\
    desugar pt_number ph (SPos x) = desugar pt_number ph x /\
    desugar pt_number ph (SGroup KLeftParen x) = desugar pt_number ph x.
Proof. intros. repeat split; reflexivity. Qed.
Print Assumptions C13_notations_number.
Theorem C13_notations_decimal :
  forall (ph : dec) x a b l v,
    desugar pt_decimal ph (SGroup KLeftFloor x) = desugar pt_decimal ph (SCall1 FFloor x) /\
    desugar pt_decimal ph (SGroup KLeftCeiling x) = desugar pt_decimal ph (SCall1 FCeil x) /\
    desugar pt_decimal ph (SGroup KLeftParen (SBin KModulo (SGroup KLeftParen a) (SGroup KLeftParen b))) = desugar pt_decimal ph (SCall2 FMod a b) /\
    desugar pt_decimal ph (SGroup KLeftParen (SBin KCaret (SGroup KLeftParen a) (SGroup KLeftParen b))) = desugar pt_decimal ph (SCall2 FPow a b) /\
    desugar pt_decimal ph (SSup l v) = desugar pt_decimal ph (SBin KCaret l (SNum v)) /\
    desugar pt_decimal ph (SPos x) = desugar pt_decimal ph x /\
    desugar pt_decimal ph (SGroup KLeftParen x) = desugar pt_decimal ph x.
Proof. intros. repeat split; reflexivity. Qed.
Print Assumptions C13_notations_decimal.
Theorem C13_notations_i64 :
  forall (ph : Z) x a b l v,
    desugar pt_i64 ph (SGroup KLeftParen (SBin KModulo (SGroup KLeftParen a) (SGroup KLeftParen b))) = desugar pt_i64 ph (SCall2 FMod a b) /\
    desugar pt_i64 ph (SGroup KLeftParen (SBin KCaret (SGroup KLeftParen a) (SGroup KLeftParen b))) = desugar pt_i64 ph (SCall2 FPow a b) /\
    desugar pt_i64 ph (SSup l v) = desugar pt_i64 ph (SBin KCaret l (SNum v)) /\
    desugar pt_i64 ph (SPos x) = desugar pt_i64 ph x /\
    desugar pt_i64 ph (SGroup KLeftParen x) = desugar pt_i64 ph x.
Proof. intros. repeat split; reflexivity. Qed.
Print Assumptions C13_notations_i64.
Theorem C13_notations_complex :
  forall (ph : cpx) x a b l v,
    desugar pt_complex ph (SGroup KLeftParen (SBin KCaret (SGroup KLeftParen a) (SGroup KLeftParen b))) = desugar pt_complex ph (SCall2 FPow a b) /\
    desugar pt_complex ph (SSup l v) = desugar pt_complex ph (SBin KCaret l (SNum v)) /\
    desugar pt_complex ph (SPos x) = desugar pt_complex ph x /\
    desugar pt_complex ph (SGroup KLeftParen x) = desugar pt_complex ph x.
Proof. intros. repeat split; reflexivity. Qed.
Print Assumptions C13_notations_complex.

(** both spellings are well-formed together (floor / ceil brackets vs calls, redundant brackets, prefix +) *)
Theorem C13_wellformed_together :
  forall (x : @sx f64) p,
    (W pt_f64 p (SGroup KLeftFloor x) <-> W pt_f64 p (SCall1 FFloor x)) /\
    (W pt_f64 p (SGroup KLeftCeiling x) <-> W pt_f64 p (SCall1 FCeil x)) /\
    (W pt_f64 0 x -> W pt_f64 p (SGroup KLeftParen x)).
Proof.
  intros x p. split; [|split].
  - simpl. unfold closer, delim_ok, follow_ok. simpl. split.
    + intros (_ & _ & _ & Wx & [[N O] _]). split; [eauto|]. split; [exact Wx|]. repeat split; auto.
    + intros (_ & Wx & [[N O] _]). repeat split; auto; discriminate.
  - simpl. unfold closer, delim_ok, follow_ok. simpl. split.
    + intros (_ & _ & _ & Wx & [[N O] _]). split; [eauto|]. split; [exact Wx|]. repeat split; auto.
    + intros (_ & Wx & [[N O] _]). repeat split; auto; discriminate.
  - intros Wx. simpl. unfold closer, delim_ok, follow_ok. simpl. repeat split; auto; try discriminate.
    apply noabs_zero.
Qed.
Print Assumptions C13_wellformed_together.
