(** C18 -- Number conversions are lossless and canonical: for ALL doubles (all 2^64 bit patterns, NaNs
    identified), Number::from(v) is Integer(n) exactly when v is finite, integral and inside the i64
    range, and then n = v numerically; otherwise it is Float(v) with v unchanged. *)
From Coq Require Import ZArith Reals.
From Flocq Require Import IEEE754.BinarySingleNaN.
From SC Require Import Base.F64 Base.Num Proofs.NumberFrom.

Theorem C18_from_f64 :
  forall v : f64,
    match number_of_f64 v with
    | Int n => is_finite v = true /\ @B2R 53 1024 v = IZR n /\ (- 2 ^ 63 <= n < 2 ^ 63)%Z
    | Flt x => x = v /\ ~ (is_finite v = true /\ exists n, @B2R 53 1024 v = IZR n /\ (- 2 ^ 63 <= n < 2 ^ 63)%Z)
    end.
Proof. exact number_of_f64_spec. Qed.
Print Assumptions C18_from_f64.

Theorem C18_from_i64 : forall z, number_of_i64 z = Int z.
Proof. reflexivity. Qed.
Print Assumptions C18_from_i64.

(** the finding on the pinned code (inclusive upper bound), kept replayable: 2^63 became i64::MAX *)
Theorem C18_refuted_pinned :
  exists v : f64, number_of_f64_pinned v = Int (2 ^ 63 - 1) /\ bits_of_f64 v = 0x43E0000000000000%Z.
Proof. exists (f64_of_bits 0x43E0000000000000). split; vm_compute; reflexivity. Qed.
Print Assumptions C18_refuted_pinned.

(** non-vacuity: both outcomes occur *)
Example C18_examples :
  number_of_f64 (f64_of_bits 0x4008000000000000) = Int 3 /\
  number_of_f64 (f64_of_bits 0x43E0000000000000) = Flt (f64_of_bits 0x43E0000000000000) /\
  number_of_f64 (f64_of_bits 0xC3E0000000000000) = Int (- 2 ^ 63) /\
  (exists x, number_of_f64 (f64_of_bits 0x3FE0000000000000) = Flt x).
Proof. repeat split; try (vm_compute; reflexivity). eexists. vm_compute. reflexivity. Qed.
