(** C04 -- operator precedence, associativity and bracket overriding.
    The formal precedence table is the grammar [W] (Spec/Surface.v) with the levels of the generated
    tables; [parser_complete] says the parser builds exactly the tree that grammar prescribes, for
    every well-formed input. Made concrete here:
      *_levels          the generated tables carry the property's fixed order
                        | < & < (<< >>) < (+ -) < ( * / % ° rad ) < (^ superscript) < prefix sign < (! function)
                        and every binary operator takes its right operand at its own level (left assoc, ^ included)
      *_operator_pairs  for EVERY pair of binary operators and all operands a b c:
                        a o1 b o2 c  =  (a o1 b) o2 c  if level o2 <= level o1, else  a o1 (b o2 c)
      *_examples        -2^2 = (-2)^2, -3! = -(3!), 2^3! = 2^(3!), 2^3^2 = (2^3)^2, brackets override
    The value clause is C03's *_wellformed_evaluates: run = eval (desugar sx). *)
From Coq Require Import List NArith ZArith Bool.
From SC Require Import Base.Res Base.F64 Base.Dec Base.Num Base.Oracle Lang.Syntax Lang.Parser Gen.Tables
  Spec.Surface Proofs.Grammar Proofs.Levels.
Import ListNotations.

Theorem C04_parser_builds_the_grammar_tree :
  forall V (T : ptab V) ph s,
    orb (pt_numnum T) (pt_trigger T KNum) = true ->
    W T 0 s -> (opn s = true -> pt_trigger T KEof = false) -> parse T ph (print T s) = Ok (desugar T ph s).
Proof. intros. now apply parser_complete. Qed.
Print Assumptions C04_parser_builds_the_grammar_tree.

Theorem C04_brackets_override :
  forall V (T : ptab V) ph e, wrapper T KLeftParen = None -> desugar T ph (SGroup KLeftParen e) = desugar T ph e.
Proof. intros V T ph e H. simpl. now rewrite H. Qed.
Print Assumptions C04_brackets_override.

Ltac all_pairs :=
  repeat match goal with
         | H : _ \/ _ |- _ => destruct H as [<-|H]
         | H : False |- _ => destruct H
         end; vm_compute; reflexivity.

Theorem C04_f64_levels : levels_ok pt_f64 vocab_f64 = true /\ wrapper pt_f64 KLeftParen = None.
Proof. split; vm_compute; reflexivity. Qed.
Print Assumptions C04_f64_levels.
Theorem C04_f64_operator_pairs :
  forall (ph a b c : f64) k1 k2, In k1 (infix_kinds pt_f64) -> In k2 (infix_kinds pt_f64) ->
    parse pt_f64 ph [TNum a; TK k1; TNum b; TK k2; TNum c] = Ok (expected pt_f64 k1 k2 a b c).
Proof. intros ph a b c k1 k2 H1 H2. vm_compute in H1, H2. all_pairs. Qed.
Print Assumptions C04_f64_operator_pairs.
Theorem C04_f64_examples :
  forall (ph a b c : f64),
    parse pt_f64 ph [TK KSubtract; TNum a; TK KCaret; TNum b] = Ok (NBin BPow (NUn UNegative (NNum a)) (NNum b)) /\
    parse pt_f64 ph [TNum a; TK KCaret; TNum b; TK KCaret; TNum c] = Ok (NBin BPow (NBin BPow (NNum a) (NNum b)) (NNum c)) /\
    parse pt_f64 ph [TNum a; TK KCaret; TK KSubtract; TNum b; TK KCaret; TNum c] = Ok (NBin BPow (NBin BPow (NNum a) (NUn UNegative (NNum b))) (NNum c)) /\
    parse pt_f64 ph [TK KLeftParen; TNum a; TK KAdd; TNum b; TK KRightParen; TK KMultiply; TNum c] = Ok (NBin BMultiply (NBin BAdd (NNum a) (NNum b)) (NNum c)) /\
    parse pt_f64 ph [TNum a; TK KMultiply; TK KLeftParen; TNum b; TK KAdd; TNum c; TK KRightParen] = Ok (NBin BMultiply (NNum a) (NBin BAdd (NNum b) (NNum c))) /\
    parse pt_f64 ph [TNum a; TK KAdd; TNum b; TSup c] = Ok (NBin BAdd (NNum a) (NBin BPow (NNum b) (NNum c))).
Proof. intros. repeat split; vm_compute; reflexivity. Qed.
Print Assumptions C04_f64_examples.

Theorem C04_i64_levels : levels_ok pt_i64 vocab_i64 = true /\ wrapper pt_i64 KLeftParen = None.
Proof. split; vm_compute; reflexivity. Qed.
Print Assumptions C04_i64_levels.
Theorem C04_i64_operator_pairs :
  forall (ph a b c : Z) k1 k2, In k1 (infix_kinds pt_i64) -> In k2 (infix_kinds pt_i64) ->
    parse pt_i64 ph [TNum a; TK k1; TNum b; TK k2; TNum c] = Ok (expected pt_i64 k1 k2 a b c).
Proof. intros ph a b c k1 k2 H1 H2. vm_compute in H1, H2. all_pairs. Qed.
Print Assumptions C04_i64_operator_pairs.
Theorem C04_i64_examples :
  forall (ph a b c : Z),
    parse pt_i64 ph [TK KSubtract; TNum a; TK KCaret; TNum b] = Ok (NBin BPow (NUn UNegative (NNum a)) (NNum b)) /\
    parse pt_i64 ph [TNum a; TK KCaret; TNum b; TK KCaret; TNum c] = Ok (NBin BPow (NBin BPow (NNum a) (NNum b)) (NNum c)) /\
    parse pt_i64 ph [TNum a; TK KCaret; TK KSubtract; TNum b; TK KCaret; TNum c] = Ok (NBin BPow (NBin BPow (NNum a) (NUn UNegative (NNum b))) (NNum c)) /\
    parse pt_i64 ph [TK KLeftParen; TNum a; TK KAdd; TNum b; TK KRightParen; TK KMultiply; TNum c] = Ok (NBin BMultiply (NBin BAdd (NNum a) (NNum b)) (NNum c)) /\
    parse pt_i64 ph [TNum a; TK KMultiply; TK KLeftParen; TNum b; TK KAdd; TNum c; TK KRightParen] = Ok (NBin BMultiply (NNum a) (NBin BAdd (NNum b) (NNum c))) /\
    parse pt_i64 ph [TNum a; TK KAdd; TNum b; TSup c] = Ok (NBin BAdd (NNum a) (NBin BPow (NNum b) (NNum c))).
Proof. intros. repeat split; vm_compute; reflexivity. Qed.
Print Assumptions C04_i64_examples.

Theorem C04_decimal_levels : levels_ok pt_decimal vocab_decimal = true /\ wrapper pt_decimal KLeftParen = None.
Proof. split; vm_compute; reflexivity. Qed.
Print Assumptions C04_decimal_levels.
Theorem C04_decimal_operator_pairs :
  forall (ph a b c : dec) k1 k2, In k1 (infix_kinds pt_decimal) -> In k2 (infix_kinds pt_decimal) ->
    parse pt_decimal ph [TNum a; TK k1; TNum b; TK k2; TNum c] = Ok (expected pt_decimal k1 k2 a b c).
Proof. intros ph a b c k1 k2 H1 H2. vm_compute in H1, H2. all_pairs. Qed.
Print Assumptions C04_decimal_operator_pairs.
Theorem C04_decimal_examples :
  forall (ph a b c : dec),
    parse pt_decimal ph [TK KSubtract; TNum a; TK KCaret; TNum b] = Ok (NBin BPow (NUn UNegative (NNum a)) (NNum b)) /\
    parse pt_decimal ph [TNum a; TK KCaret; TNum b; TK KCaret; TNum c] = Ok (NBin BPow (NBin BPow (NNum a) (NNum b)) (NNum c)) /\
    parse pt_decimal ph [TNum a; TK KCaret; TK KSubtract; TNum b; TK KCaret; TNum c] = Ok (NBin BPow (NBin BPow (NNum a) (NUn UNegative (NNum b))) (NNum c)) /\
    parse pt_decimal ph [TK KLeftParen; TNum a; TK KAdd; TNum b; TK KRightParen; TK KMultiply; TNum c] = Ok (NBin BMultiply (NBin BAdd (NNum a) (NNum b)) (NNum c)) /\
    parse pt_decimal ph [TNum a; TK KMultiply; TK KLeftParen; TNum b; TK KAdd; TNum c; TK KRightParen] = Ok (NBin BMultiply (NNum a) (NBin BAdd (NNum b) (NNum c))) /\
    parse pt_decimal ph [TNum a; TK KAdd; TNum b; TSup c] = Ok (NBin BAdd (NNum a) (NBin BPow (NNum b) (NNum c))).
Proof. intros. repeat split; vm_compute; reflexivity. Qed.
Print Assumptions C04_decimal_examples.

Theorem C04_complex_levels : levels_ok pt_complex vocab_complex = true /\ wrapper pt_complex KLeftParen = None.
Proof. split; vm_compute; reflexivity. Qed.
Print Assumptions C04_complex_levels.
Theorem C04_complex_operator_pairs :
  forall (ph a b c : cpx) k1 k2, In k1 (infix_kinds pt_complex) -> In k2 (infix_kinds pt_complex) ->
    parse pt_complex ph [TNum a; TK k1; TNum b; TK k2; TNum c] = Ok (expected pt_complex k1 k2 a b c).
Proof. intros ph a b c k1 k2 H1 H2. vm_compute in H1, H2. all_pairs. Qed.
Print Assumptions C04_complex_operator_pairs.
Theorem C04_complex_examples :
  forall (ph a b c : cpx),
    parse pt_complex ph [TK KSubtract; TNum a; TK KCaret; TNum b] = Ok (NBin BPow (NUn UNegative (NNum a)) (NNum b)) /\
    parse pt_complex ph [TNum a; TK KCaret; TNum b; TK KCaret; TNum c] = Ok (NBin BPow (NBin BPow (NNum a) (NNum b)) (NNum c)) /\
    parse pt_complex ph [TNum a; TK KCaret; TK KSubtract; TNum b; TK KCaret; TNum c] = Ok (NBin BPow (NBin BPow (NNum a) (NUn UNegative (NNum b))) (NNum c)) /\
    parse pt_complex ph [TK KLeftParen; TNum a; TK KAdd; TNum b; TK KRightParen; TK KMultiply; TNum c] = Ok (NBin BMultiply (NBin BAdd (NNum a) (NNum b)) (NNum c)) /\
    parse pt_complex ph [TNum a; TK KMultiply; TK KLeftParen; TNum b; TK KAdd; TNum c; TK KRightParen] = Ok (NBin BMultiply (NNum a) (NBin BAdd (NNum b) (NNum c))) /\
    parse pt_complex ph [TNum a; TK KAdd; TNum b; TSup c] = Ok (NBin BAdd (NNum a) (NBin BPow (NNum b) (NNum c))).
Proof. intros. repeat split; vm_compute; reflexivity. Qed.
Print Assumptions C04_complex_examples.

Theorem C04_number_levels : levels_ok pt_number vocab_number = true /\ wrapper pt_number KLeftParen = None.
Proof. split; vm_compute; reflexivity. Qed.
Print Assumptions C04_number_levels.
Theorem C04_number_operator_pairs :
  forall (ph a b c : number) k1 k2, In k1 (infix_kinds pt_number) -> In k2 (infix_kinds pt_number) ->
    parse pt_number ph [TNum a; TK k1; TNum b; TK k2; TNum c] = Ok (expected pt_number k1 k2 a b c).
Proof. intros ph a b c k1 k2 H1 H2. vm_compute in H1, H2. all_pairs. Qed.
Print Assumptions C04_number_operator_pairs.
Theorem C04_number_examples :
  forall (ph a b c : number),
    parse pt_number ph [TK KSubtract; TNum a; TK KCaret; TNum b] = Ok (NBin BPow (NUn UNegative (NNum a)) (NNum b)) /\
    parse pt_number ph [TNum a; TK KCaret; TNum b; TK KCaret; TNum c] = Ok (NBin BPow (NBin BPow (NNum a) (NNum b)) (NNum c)) /\
    parse pt_number ph [TNum a; TK KCaret; TK KSubtract; TNum b; TK KCaret; TNum c] = Ok (NBin BPow (NBin BPow (NNum a) (NUn UNegative (NNum b))) (NNum c)) /\
    parse pt_number ph [TK KLeftParen; TNum a; TK KAdd; TNum b; TK KRightParen; TK KMultiply; TNum c] = Ok (NBin BMultiply (NBin BAdd (NNum a) (NNum b)) (NNum c)) /\
    parse pt_number ph [TNum a; TK KMultiply; TK KLeftParen; TNum b; TK KAdd; TNum c; TK KRightParen] = Ok (NBin BMultiply (NNum a) (NBin BAdd (NNum b) (NNum c))) /\
    parse pt_number ph [TNum a; TK KAdd; TNum b; TSup c] = Ok (NBin BAdd (NNum a) (NBin BPow (NNum b) (NNum c))).
Proof. intros. repeat split; vm_compute; reflexivity. Qed.
Print Assumptions C04_number_examples.

Theorem C04_f64_factorial_examples :
  forall (ph a b : f64),
    parse pt_f64 ph [TK KSubtract; TNum a; TK KExclamationMark] = Ok (NUn UNegative (NUn UFactorial (NNum a))) /\
    parse pt_f64 ph [TNum a; TK KCaret; TNum b; TK KExclamationMark] = Ok (NBin BPow (NNum a) (NUn UFactorial (NNum b))) /\
    parse pt_f64 ph [TNum a; TK KExclamationMark; TK KCaret; TNum b] = Ok (NBin BPow (NUn UFactorial (NNum a)) (NNum b)).
Proof. intros. repeat split; vm_compute; reflexivity. Qed.
Print Assumptions C04_f64_factorial_examples.
Theorem C04_i64_factorial_examples :
  forall (ph a b : Z),
    parse pt_i64 ph [TK KSubtract; TNum a; TK KExclamationMark] = Ok (NUn UNegative (NUn UFactorial (NNum a))) /\
    parse pt_i64 ph [TNum a; TK KCaret; TNum b; TK KExclamationMark] = Ok (NBin BPow (NNum a) (NUn UFactorial (NNum b))) /\
    parse pt_i64 ph [TNum a; TK KExclamationMark; TK KCaret; TNum b] = Ok (NBin BPow (NUn UFactorial (NNum a)) (NNum b)).
Proof. intros. repeat split; vm_compute; reflexivity. Qed.
Print Assumptions C04_i64_factorial_examples.
Theorem C04_decimal_factorial_examples :
  forall (ph a b : dec),
    parse pt_decimal ph [TK KSubtract; TNum a; TK KExclamationMark] = Ok (NUn UNegative (NUn UFactorial (NNum a))) /\
    parse pt_decimal ph [TNum a; TK KCaret; TNum b; TK KExclamationMark] = Ok (NBin BPow (NNum a) (NUn UFactorial (NNum b))) /\
    parse pt_decimal ph [TNum a; TK KExclamationMark; TK KCaret; TNum b] = Ok (NBin BPow (NUn UFactorial (NNum a)) (NNum b)).
Proof. intros. repeat split; vm_compute; reflexivity. Qed.
Print Assumptions C04_decimal_factorial_examples.
Theorem C04_number_factorial_examples :
  forall (ph a b : number),
    parse pt_number ph [TK KSubtract; TNum a; TK KExclamationMark] = Ok (NUn UNegative (NUn UFactorial (NNum a))) /\
    parse pt_number ph [TNum a; TK KCaret; TNum b; TK KExclamationMark] = Ok (NBin BPow (NNum a) (NUn UFactorial (NNum b))) /\
    parse pt_number ph [TNum a; TK KExclamationMark; TK KCaret; TNum b] = Ok (NBin BPow (NUn UFactorial (NNum a)) (NNum b)).
Proof. intros. repeat split; vm_compute; reflexivity. Qed.
Print Assumptions C04_number_factorial_examples.
