(** C15 -- the five evaluators agree on their common sub-language.
      C15_i64_number       on integer expressions (+ - * % ^ unary minus, abs, sgn, n! with n >= 0, exact /),
                           eval_number returns Integer(v) whenever eval_i64 returns Ok(v) (embedding of trees)
      C15_shared_grammar   the token tables of eval_f64 and eval_number are the same (same lexer rows, same
                           precedences, same function table), so both parse every input to trees of the same shape
      C15_number_f64_ring  on every tree over literals / the placeholder, unary minus, + - * / % whose f64 evaluation
                           keeps every intermediate finite, below 2^53 in magnitude and not -0, eval_number's numeric
                           value is exactly eval_f64's result (Flocq: sums, differences, products, exact quotients and
                           remainders of integers below 2^53 are the images of the exact integer results, signs of
                           zero included; inexact quotients and every Float operand go through the same IEEE operation)
    The other numeric clauses (eval_number vs eval_f64 on ^ and functions, eval_complex and eval_decimal vs
    eval_f64 within 1e-9) compare floating-point / library results: tested on every run by evaluating one
    rendering with two or more evaluators (exploration-level support), not proved. *)
From Coq Require Import List ZArith Bool.
From SC Require Import Base.Res Base.F64 Base.RustInt Base.Oracle Base.Num Lang.Syntax Lang.Lexer Lang.Parser
  Eval.EvalI64 Eval.EvalF64 Eval.EvalNum Gen.Tables Proofs.Agree Proofs.AgreeF64.
Import ListNotations.

Theorem C15_i64_number :
  forall (L : libm) a v, int_lang L a = true -> eval_i64 L a = Ok v -> eval_num L (embed a) = Ok (Int v).
Proof. exact embed_i64_number. Qed.
Print Assumptions C15_i64_number.

Theorem C15_number_f64_ring :
  forall (L : libm) (a : node number),
    ring_lang a = true -> AllFine L (fl a) ->
    exists n v, eval_num L a = Ok n /\ eval_f64 L (fl a) = Ok v /\ num_f64 n = v.
Proof. exact ring_agree. Qed.
Print Assumptions C15_number_f64_ring.

(** non-vacuity: 3*4 - (-5) satisfies the hypotheses and evaluates to Integer(17) *)
Example C15_ring_example : forall L : libm,
  let t := NBin BSubtract (NBin BMultiply (NNum (Int 3)) (NNum (Int 4))) (NUn UNegative (NNum (Int 5))) in
  ring_lang t = true /\ AllFine L (fl t) /\ eval_num L t = Ok (Int 17).
Proof. exact ring_example. Qed.

Fixpoint rows_eqb (a b : list row) : bool :=
  match a, b with
  | [], [] => true
  | x :: a', y :: b' => Nat.eqb (r_take x) (r_take y) && list_eqb (r_look x) (r_look y) && Nat.eqb (r_drop x) (r_drop y) &&
                        kind_eqb (r_kind x) (r_kind y) && rows_eqb a' b'
  | _, _ => false
  end.
Fixpoint arms_eqb (a b : list arm) : bool :=
  match a, b with
  | [], [] => true
  | x :: a', y :: b' => N.eqb (a_char x) (a_char y) && rows_eqb (a_rows x) (a_rows y) &&
                        match a_default x, a_default y with Some k, Some k' => kind_eqb k k' | None, None => true | _, _ => false end &&
                        arms_eqb a' b'
  | _, _ => false
  end.

Theorem C15_shared_grammar_f64_number :
  arms_eqb (lt_arms lt_f64) (lt_arms lt_number) = true /\
  forallb (fun k => Nat.eqb (pt_prec pt_f64 k) (pt_prec pt_number k) && Bool.eqb (pt_trigger pt_f64 k) (pt_trigger pt_number k) &&
                    match pt_infix pt_f64 k, pt_infix pt_number k with
                    | Some (b, l), Some (b', l') => binop_beq b b' && Nat.eqb l l'
                    | None, None => true | _, _ => false end) all_kinds = true /\
  (forall f, pt_fn pt_f64 f = pt_fn pt_number f).
Proof. split; [vm_compute; reflexivity|]. split; [vm_compute; reflexivity|]. intros f; destruct f; reflexivity. Qed.
Print Assumptions C15_shared_grammar_f64_number.

Example C15_example :
  forall L : libm,
    eval_num L (embed (NBin BAdd (NBin BPow (NNum 2%Z) (NNum 10%Z)) (NUn UFactorial (NNum 5%Z)))) = Ok (Int 1144) /\
    eval_i64 L (NBin BDivide (NNum 7%Z) (NNum 2%Z)) = Ok 3%Z /\
    int_lang L (NBin BDivide (NNum 7%Z) (NNum 2%Z)) = false.
Proof. intros. repeat split; vm_compute; reflexivity. Qed.
