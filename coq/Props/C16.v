(** C16 -- evaluation is a pure function of (expression, placeholder).
    The library state is the product of the stateful items found by the whole-crate scan of
    tools/translate.py (static, thread_local!, lazy_static, OnceCell/OnceLock, Cell/RefCell/Mutex/
    RwLock/Atomic*, unsafe, environment / clock / file access), regenerated on every run:
      C16_no_state          the scan finds nothing, so the state type is [unit]
      C16_history_free      over a state of type unit, the answer to a call is the same after any two
                            histories (this theorem stops being the right statement -- and the first
                            one stops compiling -- as soon as the scan finds an item)
    The weight of this property is in the tie: histories of mixed calls are replayed in order, in
    reverse order and concurrently on 16 threads and compared with the model's isolated answers.
    Thread interleavings themselves are runtime behaviour the model cannot exhibit (partial). *)
From Coq Require Import List NArith.
From SC Require Import Base.Res Base.F64 Base.Dec Base.Num Base.Oracle Eval.Run Gen.Tables.
Import ListNotations.

Theorem C16_no_state : stateful_items = [].
Proof. reflexivity. Qed.
Print Assumptions C16_no_state.

Inductive call :=
| CallF64 (s : list N) (p : f64) | CallI64 (s : list N) (p : Z) | CallDec (s : list N) (p : dec)
| CallCpx (s : list N) (p : cpx) | CallNum (s : list N) (p : number).
Inductive answer := AF64 (r : res f64) | AI64 (r : res Z) | ADec (r : res dec) | ACpx (r : res cpx) | ANum (r : res number).

Section History.
  Variable L : libm. Variable D : declib. Variable C : cpxlib.
  Definition state : Type := unit.          (* product over [stateful_items] = [] *)
  Definition step (st : state) (c : call) : state * answer :=
    (tt, match c with
         | CallF64 s p => AF64 (run_f64 L s p) | CallI64 s p => AI64 (run_i64 L s p)
         | CallDec s p => ADec (run_dec D s p) | CallCpx s p => ACpx (run_cpx C s p)
         | CallNum s p => ANum (run_num L s p)
         end).
  Definition after (h : list call) : state := fold_left (fun st c => fst (step st c)) h tt.
End History.

Theorem C16_history_free :
  forall L D C (h1 h2 : list call) (c : call), snd (step L D C (after L D C h1) c) = snd (step L D C (after L D C h2) c).
Proof. intros. reflexivity. Qed.
Print Assumptions C16_history_free.
