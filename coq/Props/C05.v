(** C05 -- eval_f64 is IEEE-754 double arithmetic; non-finite results are values.
    On every tree over + - * / % unary minus ^ abs floor ceil trunc round sqrt, literals, constants and
    the placeholder, eval_f64 returns Ok of the double obtained by applying the IEEE-754 operation
    (Flocq's Bplus/Bminus/Bmult/Bdiv/Bsqrt in round-to-nearest-even, Bopp, Babs, Bnearbyint in the four
    directed modes, the exact fmod of Base/F64.v) or the C library's pow at every node -- never Err.
    C05_remainder: the model's % is the mathematical remainder x - trunc(x/y)*y computed exactly, with the
    sign of the dividend, for all finite x and finite non-zero y; NaN for NaN operands, an infinite dividend
    or a zero divisor; the dividend itself for a zero dividend or an infinite divisor (C fmod).
    What ties Flocq's operations to the machine's is the primitive (L0) and outcome correspondence (bit-exact). *)
From Coq Require Import List ZArith Reals Bool.
From Flocq Require Import Core.Core IEEE754.BinarySingleNaN.
From SC Require Import Base.Res Base.F64 Base.Oracle Lang.Syntax Lang.Literal Lang.Parser Eval.EvalF64 Eval.Run Gen.Tables
  Spec.Surface Proofs.F64Facts Proofs.Top Proofs.NumberFrom Proofs.FmodFacts.
Import ListNotations.

Theorem C05_nodewise_ieee_never_err :
  forall (L : libm) a, ieee_scope a = true -> eval_f64 L a = Ok (denoteF L a).
Proof. exact eval_f64_ieee. Qed.
Print Assumptions C05_nodewise_ieee_never_err.

Theorem C05_public :
  forall (L : libm) s p sx,
    W pt_f64 0 sx -> tokens_of lt_f64 conv_f64 s = Some (print pt_f64 sx) ->
    ieee_scope (desugar pt_f64 p sx) = true ->
    run_f64 L s p = Ok (denoteF L (desugar pt_f64 p sx)).
Proof.
  intros L s p sx Ws Et Sc. unfold run_f64.
  rewrite (wellformed_evaluates lt_f64 conv_f64 pt_f64 (eval_f64 L) eq_refl eq_refl s p sx Ws Et).
  now apply eval_f64_ieee.
Qed.
Print Assumptions C05_public.

Theorem C05_remainder :
  (forall x y : f64, is_finite x = true -> is_finite y = true -> (forall s, y <> B754_zero s) ->
     B2R64 (fmod x y) = (B2R64 x - IZR (Ztrunc (B2R64 x / B2R64 y)) * B2R64 y)%R /\
     is_finite (fmod x y) = true /\ Bsign (fmod x y) = Bsign x) /\
  (forall x y : f64,
     (is_nan x = true \/ is_nan y = true -> fmod x y = fnan) /\
     (is_finite x = false -> fmod x y = fnan) /\
     (forall s, y = B754_zero s -> fmod x y = fnan) /\
     (forall s, x = B754_zero s -> is_nan y = false -> (forall s', y <> B754_zero s') -> fmod x y = x) /\
     (forall s, is_finite x = true -> y = B754_infinity s -> fmod x y = x)).
Proof. split; [exact fmod_spec|exact fmod_special]. Qed.
Print Assumptions C05_remainder.

(** floor / ceil / trunc / round are the mathematical roundings (ties away from zero for round) *)
Theorem C05_roundings :
  forall x : f64,
    @B2R 53 1024 (ffloor x) = IZR (Zfloor (@B2R 53 1024 x)) /\
    @B2R 53 1024 (fceil x) = IZR (Zceil (@B2R 53 1024 x)) /\
    @B2R 53 1024 (ftrunc x) = IZR (Ztrunc (@B2R 53 1024 x)) /\
    @B2R 53 1024 (fround x) = IZR (ZnearestA (@B2R 53 1024 x)).
Proof.
  intros x. repeat split.
  - exact (proj1 (nearbyint_int mode_DN x)).
  - exact (proj1 (nearbyint_int mode_UP x)).
  - exact (proj1 (nearbyint_int mode_ZR x)).
  - exact (proj1 (nearbyint_int mode_NA x)).
Qed.
Print Assumptions C05_roundings.

(** constants pi and e are the doubles of std::f64::consts (nearest doubles: 0x400921FB54442D18, 0x4005BF0A8B145769) *)
Theorem C05_constants :
  pt_const pt_f64 KPi = Some f_pi /\ pt_const pt_f64 KE = Some f_e /\
  bits_of_f64 f_pi = 0x400921FB54442D18%Z /\ bits_of_f64 f_e = 0x4005BF0A8B145769%Z.
Proof. repeat split; vm_compute; reflexivity. Qed.
Print Assumptions C05_constants.

(** non-finite results are values that propagate: 1/0 = +inf, -1/0 = -inf, 0/0 = NaN, inf - inf = NaN, -(0) = -0.0, 5 % 0 = NaN *)
Example C05_examples :
  forall L : libm,
    let one := NNum (f64_of_bits 0x3FF0000000000000) in let zero := NNum (f64_of_bits 0) in
    let bits a := match eval_f64 L a with Ok r => bits_of_f64 r | _ => 0%Z end in
    bits (NBin BDivide one zero) = 0x7FF0000000000000%Z /\
    bits (NBin BDivide (NUn UNegative one) zero) = 0xFFF0000000000000%Z /\
    bits (NBin BDivide zero zero) = 0x7FF8000000000000%Z /\
    bits (NBin BSubtract (NBin BDivide one zero) (NBin BDivide one zero)) = 0x7FF8000000000000%Z /\
    bits (NUn UNegative zero) = 0x8000000000000000%Z /\
    bits (NBin BModulo one zero) = 0x7FF8000000000000%Z /\
    bits (NBin BModulo (NUn UNegative (NNum (f64_of_bits 0x401C000000000000))) (NNum (f64_of_bits 0x4008000000000000))) = 0xBFF0000000000000%Z /\
    bits (NUn URound (NNum (f64_of_bits 0x4004000000000000))) = 0x4008000000000000%Z.
Proof. intros. repeat split; vm_compute; reflexivity. Qed.
