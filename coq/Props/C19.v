(** C19 -- literals denote their exact decimal value; printed results read back unchanged.
      C19_f64_literal_value   DIGITS, DIGITS. and DIGITS.DIGITS (leading zeros allowed) become the double
                              fdiv_pos m (10^k), which is proved to be the round-to-nearest-even of m / 10^k
                              (or +inf when that overflows) -- for digit strings of ANY length
      C19_two_points          a literal text with two points is a lexing error
      C19_i64_literal         eval_i64 literal: exactly the integer, or an error when it exceeds i64
      C19_number_literal      Integer iff no point (and it fits), Float of the same rounding otherwise
      C19_complex_literal     the i suffix moves the value to the imaginary part
      C19_decimal_literal     eval_decimal literal with at most 28 digits in all: coefficient = the digit string read as an
                              integer, scale = number of digits after the point -- exactly the written decimal, no f64
                              round trip, and a valid 96-bit coefficient (the written-out exact path of
                              Decimal::from_str, validated bit for bit by the correspondence); longer literals are
                              rust_decimal's from_str (an oracle)
      C19_i64_display_roundtrip / C19_number_display_roundtrip
                              END TO END (white-space stripping, tokenizer rows of the regenerated tables, parser, evaluator):
                              the Display text of every i64 except i64::MIN -- optional '-' and the digits of the magnitude --
                              evaluates to exactly that value in eval_i64, and to Integer of that value (never a Float) in
                              eval_number, for every placeholder and every libm; the text of i64::MIN is rejected by eval_i64
      C19_literal_end_to_end  first clause END TO END through the public entry points (stripping, tokenizer rows of the
                              regenerated tables in all scanning modes, parser, evaluator; any placeholder, any library):
                              DIGITS and DIGITS.DIGITS of any length evaluate in eval_f64 to the correctly rounded quotient, in
                              eval_number to the Float of the same rounding, in eval_complex to that real number (and to the
                              imaginary number with that coefficient when an i follows directly); with at most
                              28 digits in all, eval_decimal returns exactly the written decimal, and its negation after a prefix
                              minus (the shape Display prints for a Decimal)
      C19_signed_literal_end_to_end
                              a prefix minus on either shape is the exact sign flip (the shape Display prints for negative doubles)
    For eval_f64 / eval_decimal / eval_complex the print / re-read round trip relies
    on std Display printing a shape this grammar reads and on std's own round-trip guarantee: both are
    exercised by the correspondence (format!("{}", v) of pool and random values fed back in). *)
From Coq Require Import ZArith NArith Reals List Bool.
From Flocq Require Import Core.Core IEEE754.BinarySingleNaN.
From SC Require Import Base.Res Base.F64 Base.RustInt Base.Dec Base.Num Base.Oracle Lang.Lexer Lang.Literal Proofs.LiteralFacts Proofs.ShowFacts Proofs.ShowRoundtrip Proofs.LiteralRun Eval.Run.
Import ListNotations.

Theorem C19_f64_literal_text :
  forall ip fp, ip <> [] -> forallb is_digit ip = true -> forallb is_digit fp = true ->
    parse_f64 ip = Some (f64_of_decimal (digits_val 0%N ip) 0) /\
    parse_f64 (ip ++ ch_dot :: fp) = Some (f64_of_decimal (digits_val 0%N (ip ++ fp)) (N.of_nat (length fp))).
Proof. intros. split; [now apply parse_f64_integer|now apply parse_f64_point]. Qed.
Print Assumptions C19_f64_literal_text.

Theorem C19_f64_literal_value :
  forall a b : positive,
    let q := (IZR (Zpos a) / IZR (Zpos b))%R in
    let r := round radix2 (SpecFloat.fexp 53 1024) (round_mode mode_NE) q in
    ((Rabs r < bpow radix2 1024)%R -> @B2R 53 1024 (fdiv_pos a b) = r /\ is_finite (fdiv_pos a b) = true) /\
    (~ (Rabs r < bpow radix2 1024)%R -> B2SF (fdiv_pos a b) = SpecFloat.S754_infinity false).
Proof. intros a b q r. split; [apply fdiv_pos_correct|apply fdiv_pos_overflow]. Qed.
Print Assumptions C19_f64_literal_value.

Theorem C19_f64_of_decimal_is_that_quotient :
  forall (p : positive) (k : N),
    f64_of_decimal (Npos p) k = match (10 ^ Z.of_N k)%Z with Zpos q => fdiv_pos p q | _ => fzero end /\
    f64_of_decimal 0%N k = fzero.
Proof. intros. split; reflexivity. Qed.
Print Assumptions C19_f64_of_decimal_is_that_quotient.

Theorem C19_two_points :
  forall ip fp rest, forallb is_digit ip = true -> parse_f64 (ip ++ ch_dot :: fp ++ ch_dot :: rest) = None.
Proof. exact parse_f64_two_points. Qed.
Print Assumptions C19_two_points.

Theorem C19_i64_literal :
  forall ds z, parse_i64 ds = Some z -> z = Z.of_N (digits_val 0%N ds) /\ (0 <= z <= 2 ^ 63 - 1)%Z.
Proof.
  intros ds z. unfold parse_i64. destruct ds as [|d ds']; [discriminate|].
  destruct (forallb is_digit (d :: ds')); [|discriminate].
  destruct (Z.of_N (digits_val 0%N (d :: ds')) <=? RustInt.i64_max)%Z eqn:E; [|discriminate].
  intros H; inversion H; subst. apply Z.leb_le in E. unfold RustInt.i64_max in E.
  split; [reflexivity|]. split; [apply N2Z.is_nonneg|exact E].
Qed.
Print Assumptions C19_i64_literal.

(** second clause, eval_i64: the decimal text of any non-negative i64 (what Display prints; a negative result is the prefix
    minus applied to such a text) is read back as exactly that value; the text of 2^63 is rejected *)
Theorem C19_i64_text_roundtrip :
  (forall z, (0 <= z <= 2 ^ 63 - 1)%Z -> parse_i64 (show_N (Z.to_N z)) = Some z) /\
  show_N 9223372036854775807 = [57; 50; 50; 51; 51; 55; 50; 48; 51; 54; 56; 53; 52; 55; 55; 53; 56; 48; 55]%N /\
  show_N 0 = [48]%N /\ parse_i64 (show_N 9223372036854775808) = None.
Proof.
  split; [exact parse_show_i64|]. repeat split; vm_compute; reflexivity.
Qed.
Print Assumptions C19_i64_text_roundtrip.

(** second clause, end to end for eval_i64 and for eval_number's Integer results: the Display text of any i64 other than
    i64::MIN goes through stripping, lexing, parsing and evaluation and comes back unchanged *)
Theorem C19_i64_display_roundtrip :
  (forall (L : libm) (p z : Z), (- (2 ^ 63 - 1) <= z <= 2 ^ 63 - 1)%Z -> run_i64 L (display_i64 z) p = Ok z) /\
  (forall (L : libm) (p : Z), run_i64 L (display_i64 (- 2 ^ 63)) p = Err) /\
  display_i64 (-1205) = [45; 49; 50; 48; 53]%N /\ display_i64 0 = [48]%N.
Proof.
  split; [exact i64_display_roundtrip|]. split; [exact i64_min_text_rejected|]. split; vm_compute; reflexivity.
Qed.
Print Assumptions C19_i64_display_roundtrip.

Theorem C19_number_display_roundtrip :
  forall (L : libm) (p : number) (z : Z), (- (2 ^ 63 - 1) <= z <= 2 ^ 63 - 1)%Z -> run_num L (display_i64 z) p = Ok (Int z).
Proof. exact number_display_roundtrip. Qed.
Print Assumptions C19_number_display_roundtrip.

(** first clause, end to end through the public entry points *)
Theorem C19_literal_end_to_end :
  forall ip fp, ip <> [] -> forallb is_digit ip = true -> forallb is_digit fp = true ->
    let v := f64_of_decimal (digits_val 0%N (ip ++ fp)) (N.of_nat (length fp)) in
    (forall (L : libm) p, run_f64 L ip p = Ok (f64_of_decimal (digits_val 0%N ip) 0) /\ run_f64 L (ip ++ ch_dot :: fp) p = Ok v) /\
    (forall (L : libm) p, run_num L (ip ++ ch_dot :: fp) p = Ok (Flt v)) /\
    (forall (C : cpxlib) p, run_cpx C (ip ++ ch_dot :: fp) p = Ok (v, fzero)) /\
    (forall (C : cpxlib) p, run_cpx C ((ip ++ ch_dot :: fp) ++ [ch_i]) p = Ok (fzero, v)) /\
    ((length ip + length fp <= 28)%nat -> forall (D : declib) p,
       let d := {| d_neg := false; d_coef := digits_val 0%N (ip ++ fp); d_scale := N.of_nat (length fp) |} in
       run_dec D ip p = Ok {| d_neg := false; d_coef := digits_val 0%N ip; d_scale := 0%N |} /\
       run_dec D (ip ++ ch_dot :: fp) p = Ok d /\ run_dec D (45%N :: ip ++ ch_dot :: fp) p = Ok (dec_neg d)).
Proof.
  intros ip fp Hne Hi Hf v. split; [|split; [|split; [|split]]].
  - intros L p. split; [now apply f64_integer_literal_run|now apply f64_point_literal_run].
  - intros L p. now apply number_point_literal_run.
  - intros C p. now apply complex_point_literal_run.
  - intros C p. now apply complex_imaginary_literal_run.
  - intros Hl D p d. split.
    + apply decimal_integer_literal_run; [assumption|assumption|]. apply Nat.le_trans with (2 := Hl). apply Nat.le_add_r.
    + exact (decimal_point_literal_run D p ip fp Hne Hi Hf Hl).
Qed.
Print Assumptions C19_literal_end_to_end.

(** the printed form of negative results: a prefix minus on either literal shape is the exact sign flip of the literal's value
    (eval_f64: both shapes; eval_number: the Float shape -- the Integer shape is C19_number_display_roundtrip) *)
Theorem C19_signed_literal_end_to_end :
  forall ip fp, ip <> [] -> forallb is_digit ip = true -> forallb is_digit fp = true ->
    let v := f64_of_decimal (digits_val 0%N (ip ++ fp)) (N.of_nat (length fp)) in
    (forall (L : libm) p, run_f64 L (45%N :: ip) p = Ok (fneg (f64_of_decimal (digits_val 0%N ip) 0)) /\
                          run_f64 L (45%N :: ip ++ ch_dot :: fp) p = Ok (fneg v)) /\
    (forall (L : libm) p, run_num L (45%N :: ip ++ ch_dot :: fp) p = Ok (Flt (fneg v))).
Proof.
  intros ip fp Hne Hi Hf v. split.
  - intros L p. exact (f64_signed_literal_run L p ip fp Hne Hi Hf).
  - intros L p. exact (number_signed_point_literal_run L p ip fp Hne Hi Hf).
Qed.
Print Assumptions C19_signed_literal_end_to_end.

(** eval_i64 literals end to end: exactly the integer, or Err when it exceeds i64::MAX (for digit strings of any length) *)
Theorem C19_i64_literal_end_to_end :
  forall (L : libm) (p : Z) ds, ds <> [] -> forallb is_digit ds = true ->
    run_i64 L ds p = match parse_i64 ds with Some z => Ok z | None => Err end.
Proof. exact i64_literal_run. Qed.
Print Assumptions C19_i64_literal_end_to_end.

(** eval_number integer literals end to end: Integer of exactly that value, or Err above i64::MAX -- never a Float *)
Theorem C19_number_integer_literal_end_to_end :
  forall (L : libm) (p : number) ds, ds <> [] -> forallb is_digit ds = true ->
    run_num L ds p = match parse_i64 ds with Some z => Ok (Int z) | None => Err end.
Proof. exact number_integer_literal_run. Qed.
Print Assumptions C19_number_integer_literal_end_to_end.

Theorem C19_number_literal :
  forall t im, conv_num (LNum t im) = if has_point t then option_map Flt (parse_f64 t) else option_map Int (parse_i64 t).
Proof. reflexivity. Qed.
Print Assumptions C19_number_literal.

Theorem C19_decimal_literal :
  forall (D : declib) ip fp im,
    ip <> [] -> forallb is_digit ip = true -> forallb is_digit fp = true -> (length ip + length fp <= 28)%nat ->
    conv_dec D (LNum ip im) = Some {| d_neg := false; d_coef := digits_val 0%N ip; d_scale := 0%N |} /\
    conv_dec D (LNum (ip ++ ch_dot :: fp) im) =
      Some {| d_neg := false; d_coef := digits_val 0%N (ip ++ fp); d_scale := N.of_nat (length fp) |} /\
    (digits_val 0%N (ip ++ fp) < 2 ^ 96)%N.
Proof.
  intros D ip fp im H1 H2 H3 H4. destruct (parse_dec_exact_spec ip fp H1 H2 H3 H4) as [A [B C]].
  unfold conv_dec, parse_dec. rewrite A, B. repeat split. exact C.
Qed.
Print Assumptions C19_decimal_literal.

Theorem C19_complex_literal :
  forall t v, parse_f64 t = Some v ->
    conv_cpx (LNum t true) = Some (fzero, v) /\ conv_cpx (LNum t false) = Some (v, fzero) /\ conv_cpx LImagUnit = Some (fzero, fone).
Proof. intros t v H. simpl. rewrite H. repeat split. Qed.
Print Assumptions C19_complex_literal.

(** examples: 0.1, 007.50, 9007199254740993 (ties to even), a 400-digit integer is +inf *)
Example C19_examples :
  option_map bits_of_f64 (parse_f64 [48; 46; 49]%N) = Some 0x3FB999999999999A%Z /\
  option_map bits_of_f64 (parse_f64 [48; 48; 55; 46; 53; 48]%N) = Some 0x401E000000000000%Z /\
  option_map bits_of_f64 (parse_f64 [57;48;48;55;49;57;57;50;53;52;55;52;48;57;57;51]%N) = Some 0x4340000000000000%Z /\
  option_map bits_of_f64 (parse_f64 (repeat 57%N 400)) = Some 0x7FF0000000000000%Z /\
  parse_i64 [57;50;50;51;51;55;50;48;51;54;56;53;52;55;55;53;56;48;56]%N = None /\
  parse_i64 [57;50;50;51;51;55;50;48;51;54;56;53;52;55;55;53;56;48;55]%N = Some (2 ^ 63 - 1)%Z /\
  parse_dec_exact [49; 46; 49; 48]%N = Some {| d_neg := false; d_coef := 110%N; d_scale := 2%N |}.
Proof. repeat split; vm_compute; reflexivity. Qed.
