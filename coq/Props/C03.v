(** C03 -- Ok implies that the entire input was one well-formed expression, and conversely.
    [W T 0 sx] is the declarative surface grammar of Spec/Surface.v (a level discipline on surface
    trees, not the parser run backwards); [print] is the token sequence of a tree, [desugar] its AST.
      *_ok_implies_wellformed : Ok v only if the stripped input lexes to [print sx] for a well-formed
                                [sx], and v is the value of [desugar sx]  (so never the value of a prefix,
                                never with unbalanced brackets / missing operands / wrong arity: no
                                well-formed tree prints such a sequence)
      *_wellformed_evaluates  : every well-formed expression is evaluated as its tree says
                                (hence Ok whenever all operations are defined)
      foreign_*               : a function name / operator character outside the evaluator's
                                vocabulary makes the tokenizer fail (for every continuation), hence Err. *)
From Coq Require Import List NArith ZArith.
From SC Require Import Base.Res Base.F64 Base.Dec Base.Num Base.Oracle Lang.Syntax Lang.Lexer Lang.Literal Lang.Parser
  Eval.EvalI64 Eval.EvalF64 Eval.EvalNum Eval.EvalDec Eval.EvalCpx Eval.Run Gen.Tables
  Spec.Surface Proofs.Grammar Proofs.Top.
Import ListNotations.
Local Open Scope N_scope.

(** the grammar theorem itself, for any table set *)
Theorem C03_accepted_iff_wellformed :
  forall V (T : ptab V) ph ts n,
    orb (pt_numnum T) (pt_trigger T KNum) = true ->
    (parse T ph ts = Ok n <->
     exists s, W T 0 s /\ (opn s = true -> pt_trigger T KEof = false) /\ print T s = ts /\ desugar T ph s = n).
Proof. intros. now apply accepted_iff_wellformed. Qed.
Print Assumptions C03_accepted_iff_wellformed.

Theorem C03_f64_ok_implies_wellformed :
  forall (L : libm) s p v, run_f64 L s p = Ok v ->
    exists sx, W pt_f64 0 sx /\ tokens_of lt_f64 conv_f64 s = Some (print pt_f64 sx) /\ eval_f64 L (desugar pt_f64 p sx) = Ok v.
Proof. intros L. exact (ok_implies_wellformed lt_f64 conv_f64 pt_f64 (eval_f64 L)). Qed.
Print Assumptions C03_f64_ok_implies_wellformed.
Theorem C03_f64_wellformed_evaluates :
  forall (L : libm) s p sx, W pt_f64 0 sx -> tokens_of lt_f64 conv_f64 s = Some (print pt_f64 sx) ->
    run_f64 L s p = eval_f64 L (desugar pt_f64 p sx).
Proof. intros L. exact (wellformed_evaluates lt_f64 conv_f64 pt_f64 (eval_f64 L) eq_refl eq_refl). Qed.
Print Assumptions C03_f64_wellformed_evaluates.

Theorem C03_i64_ok_implies_wellformed :
  forall (L : libm) s p v, run_i64 L s p = Ok v ->
    exists sx, W pt_i64 0 sx /\ tokens_of lt_i64 conv_i64 s = Some (print pt_i64 sx) /\ eval_i64 L (desugar pt_i64 p sx) = Ok v.
Proof. intros L. exact (ok_implies_wellformed lt_i64 conv_i64 pt_i64 (eval_i64 L)). Qed.
Print Assumptions C03_i64_ok_implies_wellformed.
Theorem C03_i64_wellformed_evaluates :
  forall (L : libm) s p sx, W pt_i64 0 sx -> tokens_of lt_i64 conv_i64 s = Some (print pt_i64 sx) ->
    run_i64 L s p = eval_i64 L (desugar pt_i64 p sx).
Proof. intros L. exact (wellformed_evaluates lt_i64 conv_i64 pt_i64 (eval_i64 L) eq_refl eq_refl). Qed.
Print Assumptions C03_i64_wellformed_evaluates.

Theorem C03_number_ok_implies_wellformed :
  forall (L : libm) s p v, run_num L s p = Ok v ->
    exists sx, W pt_number 0 sx /\ tokens_of lt_number conv_num s = Some (print pt_number sx) /\ eval_num L (desugar pt_number p sx) = Ok v.
Proof. intros L. exact (ok_implies_wellformed lt_number conv_num pt_number (eval_num L)). Qed.
Print Assumptions C03_number_ok_implies_wellformed.
Theorem C03_number_wellformed_evaluates :
  forall (L : libm) s p sx, W pt_number 0 sx -> tokens_of lt_number conv_num s = Some (print pt_number sx) ->
    run_num L s p = eval_num L (desugar pt_number p sx).
Proof. intros L. exact (wellformed_evaluates lt_number conv_num pt_number (eval_num L) eq_refl eq_refl). Qed.
Print Assumptions C03_number_wellformed_evaluates.

Theorem C03_complex_ok_implies_wellformed :
  forall (C : cpxlib) s p v, run_cpx C s p = Ok v ->
    exists sx, W pt_complex 0 sx /\ tokens_of lt_complex conv_cpx s = Some (print pt_complex sx) /\ eval_cpx C (desugar pt_complex p sx) = Ok v.
Proof. intros C. exact (ok_implies_wellformed lt_complex conv_cpx pt_complex (eval_cpx C)). Qed.
Print Assumptions C03_complex_ok_implies_wellformed.
Theorem C03_complex_wellformed_evaluates :
  forall (C : cpxlib) s p sx, W pt_complex 0 sx -> tokens_of lt_complex conv_cpx s = Some (print pt_complex sx) ->
    run_cpx C s p = eval_cpx C (desugar pt_complex p sx).
Proof. intros C. exact (wellformed_evaluates lt_complex conv_cpx pt_complex (eval_cpx C) eq_refl eq_refl). Qed.
Print Assumptions C03_complex_wellformed_evaluates.

Theorem C03_decimal_ok_implies_wellformed :
  forall (D : declib) s p v, run_dec D s p = Ok v ->
    exists sx, W pt_decimal 0 sx /\ tokens_of lt_decimal (conv_dec D) s = Some (print pt_decimal sx) /\ eval_dec D (desugar pt_decimal p sx) = Ok v.
Proof. intros D. exact (ok_implies_wellformed lt_decimal (conv_dec D) pt_decimal (eval_dec D)). Qed.
Print Assumptions C03_decimal_ok_implies_wellformed.
Theorem C03_decimal_wellformed_evaluates :
  forall (D : declib) s p sx, W pt_decimal 0 sx -> tokens_of lt_decimal (conv_dec D) s = Some (print pt_decimal sx) ->
    run_dec D s p = eval_dec D (desugar pt_decimal p sx).
Proof. intros D. exact (wellformed_evaluates lt_decimal (conv_dec D) pt_decimal (eval_dec D) eq_refl eq_refl). Qed.
Print Assumptions C03_decimal_wellformed_evaluates.

(** a lexing failure anywhere in the input is an error of the call *)
Theorem C03_lex_error_rejected :
  forall V LT conv (PT : ptab V) ev s p, tokens_of LT conv s = None -> run LT conv PT ev s p = Err.
Proof. intros. now apply lex_error_rejected. Qed.
Print Assumptions C03_lex_error_rejected.

(** non-vacuity: the grammar accepts real expressions (6/2(3)!, -2^2, min(1,2)+pi) and rejects "1)" *)
Example C03_example_wellformed :
  forall a b c : f64,
    W pt_f64 0 (SBin KDivide (SNum a) (SJuxt (SNum b) (SFact (SGroup KLeftParen (SNum c))))) /\
    W pt_f64 0 (SBin KAdd (SCallN FMin [SNum a; SNum b]) (SConst KPi)).
Proof. intros. split; apply Wb_sound; vm_compute; reflexivity. Qed.
Example C03_example_rejected :
  forall (a : f64) p, parse pt_f64 p [TNum a; TK KRightParen] = Err /\ parse pt_f64 p [TNum a; TK KPi] = Err
                      /\ parse pt_f64 p [TK KAns; TK KLeftParen; TNum a; TK KRightParen] = Err.
Proof. intros. repeat split; vm_compute; reflexivity. Qed.

(** foreign vocabulary: the tokenizer fails, whatever follows *)
Lemma foreign_f64_gcd : forall (conv : lit -> option f64) rest, lex_step lt_f64 conv ([103; 99; 100; 40] ++ rest) = None.
Proof. intros. vm_compute. reflexivity. Qed.
Lemma foreign_f64_lcm : forall (conv : lit -> option f64) rest, lex_step lt_f64 conv ([108; 99; 109; 40] ++ rest) = None.
Proof. intros. vm_compute. reflexivity. Qed.
Lemma foreign_f64_char_38 : forall (conv : lit -> option f64) rest, lex_step lt_f64 conv (38 :: rest) = None.
Proof. intros. vm_compute. reflexivity. Qed.
Lemma foreign_f64_char_124 : forall (conv : lit -> option f64) rest, lex_step lt_f64 conv (124 :: rest) = None.
Proof. intros. vm_compute. reflexivity. Qed.
Lemma foreign_f64_char_60 : forall (conv : lit -> option f64) rest, lex_step lt_f64 conv (60 :: rest) = None.
Proof. intros. vm_compute. reflexivity. Qed.
Lemma foreign_f64_char_62 : forall (conv : lit -> option f64) rest, lex_step lt_f64 conv (62 :: rest) = None.
Proof. intros. vm_compute. reflexivity. Qed.
Lemma foreign_f64_char_35 : forall (conv : lit -> option f64) rest, lex_step lt_f64 conv (35 :: rest) = None.
Proof. intros. vm_compute. reflexivity. Qed.
Lemma foreign_f64_char_36 : forall (conv : lit -> option f64) rest, lex_step lt_f64 conv (36 :: rest) = None.
Proof. intros. vm_compute. reflexivity. Qed.
Lemma foreign_i64_acos : forall (conv : lit -> option Z) rest, lex_step lt_i64 conv ([97; 99; 111; 115; 40] ++ rest) = None.
Proof. intros. vm_compute. reflexivity. Qed.
Lemma foreign_i64_acosh : forall (conv : lit -> option Z) rest, lex_step lt_i64 conv ([97; 99; 111; 115; 104; 40] ++ rest) = None.
Proof. intros. vm_compute. reflexivity. Qed.
Lemma foreign_i64_arcosh : forall (conv : lit -> option Z) rest, lex_step lt_i64 conv ([97; 114; 99; 111; 115; 104; 40] ++ rest) = None.
Proof. intros. vm_compute. reflexivity. Qed.
Lemma foreign_i64_arsinh : forall (conv : lit -> option Z) rest, lex_step lt_i64 conv ([97; 114; 115; 105; 110; 104; 40] ++ rest) = None.
Proof. intros. vm_compute. reflexivity. Qed.
Lemma foreign_i64_artanh : forall (conv : lit -> option Z) rest, lex_step lt_i64 conv ([97; 114; 116; 97; 110; 104; 40] ++ rest) = None.
Proof. intros. vm_compute. reflexivity. Qed.
Lemma foreign_i64_asin : forall (conv : lit -> option Z) rest, lex_step lt_i64 conv ([97; 115; 105; 110; 40] ++ rest) = None.
Proof. intros. vm_compute. reflexivity. Qed.
Lemma foreign_i64_asinh : forall (conv : lit -> option Z) rest, lex_step lt_i64 conv ([97; 115; 105; 110; 104; 40] ++ rest) = None.
Proof. intros. vm_compute. reflexivity. Qed.
Lemma foreign_i64_atan : forall (conv : lit -> option Z) rest, lex_step lt_i64 conv ([97; 116; 97; 110; 40] ++ rest) = None.
Proof. intros. vm_compute. reflexivity. Qed.
Lemma foreign_i64_atan2 : forall (conv : lit -> option Z) rest, lex_step lt_i64 conv ([97; 116; 97; 110; 50; 40] ++ rest) = None.
Proof. intros. vm_compute. reflexivity. Qed.
Lemma foreign_i64_atanh : forall (conv : lit -> option Z) rest, lex_step lt_i64 conv ([97; 116; 97; 110; 104; 40] ++ rest) = None.
Proof. intros. vm_compute. reflexivity. Qed.
Lemma foreign_i64_ceil : forall (conv : lit -> option Z) rest, lex_step lt_i64 conv ([99; 101; 105; 108; 40] ++ rest) = None.
Proof. intros. vm_compute. reflexivity. Qed.
Lemma foreign_i64_cos : forall (conv : lit -> option Z) rest, lex_step lt_i64 conv ([99; 111; 115; 40] ++ rest) = None.
Proof. intros. vm_compute. reflexivity. Qed.
Lemma foreign_i64_cosh : forall (conv : lit -> option Z) rest, lex_step lt_i64 conv ([99; 111; 115; 104; 40] ++ rest) = None.
Proof. intros. vm_compute. reflexivity. Qed.
Lemma foreign_i64_floor : forall (conv : lit -> option Z) rest, lex_step lt_i64 conv ([102; 108; 111; 111; 114; 40] ++ rest) = None.
Proof. intros. vm_compute. reflexivity. Qed.
Lemma foreign_i64_ilog : forall (conv : lit -> option Z) rest, lex_step lt_i64 conv ([105; 108; 111; 103; 40] ++ rest) = None.
Proof. intros. vm_compute. reflexivity. Qed.
Lemma foreign_i64_lambert_w : forall (conv : lit -> option Z) rest, lex_step lt_i64 conv ([108; 97; 109; 98; 101; 114; 116; 95; 119; 40] ++ rest) = None.
Proof. intros. vm_compute. reflexivity. Qed.
Lemma foreign_i64_round : forall (conv : lit -> option Z) rest, lex_step lt_i64 conv ([114; 111; 117; 110; 100; 40] ++ rest) = None.
Proof. intros. vm_compute. reflexivity. Qed.
Lemma foreign_i64_sin : forall (conv : lit -> option Z) rest, lex_step lt_i64 conv ([115; 105; 110; 40] ++ rest) = None.
Proof. intros. vm_compute. reflexivity. Qed.
Lemma foreign_i64_sinh : forall (conv : lit -> option Z) rest, lex_step lt_i64 conv ([115; 105; 110; 104; 40] ++ rest) = None.
Proof. intros. vm_compute. reflexivity. Qed.
Lemma foreign_i64_tan : forall (conv : lit -> option Z) rest, lex_step lt_i64 conv ([116; 97; 110; 40] ++ rest) = None.
Proof. intros. vm_compute. reflexivity. Qed.
Lemma foreign_i64_tanh : forall (conv : lit -> option Z) rest, lex_step lt_i64 conv ([116; 97; 110; 104; 40] ++ rest) = None.
Proof. intros. vm_compute. reflexivity. Qed.
Lemma foreign_i64_trunc : forall (conv : lit -> option Z) rest, lex_step lt_i64 conv ([116; 114; 117; 110; 99; 40] ++ rest) = None.
Proof. intros. vm_compute. reflexivity. Qed.
Lemma foreign_i64_truncate : forall (conv : lit -> option Z) rest, lex_step lt_i64 conv ([116; 114; 117; 110; 99; 97; 116; 101; 40] ++ rest) = None.
Proof. intros. vm_compute. reflexivity. Qed.
Lemma foreign_i64_w : forall (conv : lit -> option Z) rest, lex_step lt_i64 conv ([119; 40] ++ rest) = None.
Proof. intros. vm_compute. reflexivity. Qed.
Lemma foreign_i64_char_176 : forall (conv : lit -> option Z) rest, lex_step lt_i64 conv (176 :: rest) = None.
Proof. intros. vm_compute. reflexivity. Qed.
Lemma foreign_i64_char_8970 : forall (conv : lit -> option Z) rest, lex_step lt_i64 conv (8970 :: rest) = None.
Proof. intros. vm_compute. reflexivity. Qed.
Lemma foreign_i64_char_8968 : forall (conv : lit -> option Z) rest, lex_step lt_i64 conv (8968 :: rest) = None.
Proof. intros. vm_compute. reflexivity. Qed.
Lemma foreign_i64_char_8971 : forall (conv : lit -> option Z) rest, lex_step lt_i64 conv (8971 :: rest) = None.
Proof. intros. vm_compute. reflexivity. Qed.
Lemma foreign_i64_char_8969 : forall (conv : lit -> option Z) rest, lex_step lt_i64 conv (8969 :: rest) = None.
Proof. intros. vm_compute. reflexivity. Qed.
Lemma foreign_i64_char_960 : forall (conv : lit -> option Z) rest, lex_step lt_i64 conv (960 :: rest) = None.
Proof. intros. vm_compute. reflexivity. Qed.
Lemma foreign_i64_char_46 : forall (conv : lit -> option Z) rest, lex_step lt_i64 conv (46 :: rest) = None.
Proof. intros. vm_compute. reflexivity. Qed.
Lemma foreign_i64_char_35 : forall (conv : lit -> option Z) rest, lex_step lt_i64 conv (35 :: rest) = None.
Proof. intros. vm_compute. reflexivity. Qed.
Lemma foreign_i64_char_36 : forall (conv : lit -> option Z) rest, lex_step lt_i64 conv (36 :: rest) = None.
Proof. intros. vm_compute. reflexivity. Qed.
Lemma foreign_decimal_acos : forall (conv : lit -> option dec) rest, lex_step lt_decimal conv ([97; 99; 111; 115; 40] ++ rest) = None.
Proof. intros. vm_compute. reflexivity. Qed.
Lemma foreign_decimal_acosh : forall (conv : lit -> option dec) rest, lex_step lt_decimal conv ([97; 99; 111; 115; 104; 40] ++ rest) = None.
Proof. intros. vm_compute. reflexivity. Qed.
Lemma foreign_decimal_arcosh : forall (conv : lit -> option dec) rest, lex_step lt_decimal conv ([97; 114; 99; 111; 115; 104; 40] ++ rest) = None.
Proof. intros. vm_compute. reflexivity. Qed.
Lemma foreign_decimal_arsinh : forall (conv : lit -> option dec) rest, lex_step lt_decimal conv ([97; 114; 115; 105; 110; 104; 40] ++ rest) = None.
Proof. intros. vm_compute. reflexivity. Qed.
Lemma foreign_decimal_artanh : forall (conv : lit -> option dec) rest, lex_step lt_decimal conv ([97; 114; 116; 97; 110; 104; 40] ++ rest) = None.
Proof. intros. vm_compute. reflexivity. Qed.
Lemma foreign_decimal_asin : forall (conv : lit -> option dec) rest, lex_step lt_decimal conv ([97; 115; 105; 110; 40] ++ rest) = None.
Proof. intros. vm_compute. reflexivity. Qed.
Lemma foreign_decimal_asinh : forall (conv : lit -> option dec) rest, lex_step lt_decimal conv ([97; 115; 105; 110; 104; 40] ++ rest) = None.
Proof. intros. vm_compute. reflexivity. Qed.
Lemma foreign_decimal_atan : forall (conv : lit -> option dec) rest, lex_step lt_decimal conv ([97; 116; 97; 110; 40] ++ rest) = None.
Proof. intros. vm_compute. reflexivity. Qed.
Lemma foreign_decimal_atan2 : forall (conv : lit -> option dec) rest, lex_step lt_decimal conv ([97; 116; 97; 110; 50; 40] ++ rest) = None.
Proof. intros. vm_compute. reflexivity. Qed.
Lemma foreign_decimal_atanh : forall (conv : lit -> option dec) rest, lex_step lt_decimal conv ([97; 116; 97; 110; 104; 40] ++ rest) = None.
Proof. intros. vm_compute. reflexivity. Qed.
Lemma foreign_decimal_cos : forall (conv : lit -> option dec) rest, lex_step lt_decimal conv ([99; 111; 115; 40] ++ rest) = None.
Proof. intros. vm_compute. reflexivity. Qed.
Lemma foreign_decimal_cosh : forall (conv : lit -> option dec) rest, lex_step lt_decimal conv ([99; 111; 115; 104; 40] ++ rest) = None.
Proof. intros. vm_compute. reflexivity. Qed.
Lemma foreign_decimal_gcd : forall (conv : lit -> option dec) rest, lex_step lt_decimal conv ([103; 99; 100; 40] ++ rest) = None.
Proof. intros. vm_compute. reflexivity. Qed.
Lemma foreign_decimal_lcm : forall (conv : lit -> option dec) rest, lex_step lt_decimal conv ([108; 99; 109; 40] ++ rest) = None.
Proof. intros. vm_compute. reflexivity. Qed.
Lemma foreign_decimal_sin : forall (conv : lit -> option dec) rest, lex_step lt_decimal conv ([115; 105; 110; 40] ++ rest) = None.
Proof. intros. vm_compute. reflexivity. Qed.
Lemma foreign_decimal_sinh : forall (conv : lit -> option dec) rest, lex_step lt_decimal conv ([115; 105; 110; 104; 40] ++ rest) = None.
Proof. intros. vm_compute. reflexivity. Qed.
Lemma foreign_decimal_tan : forall (conv : lit -> option dec) rest, lex_step lt_decimal conv ([116; 97; 110; 40] ++ rest) = None.
Proof. intros. vm_compute. reflexivity. Qed.
Lemma foreign_decimal_tanh : forall (conv : lit -> option dec) rest, lex_step lt_decimal conv ([116; 97; 110; 104; 40] ++ rest) = None.
Proof. intros. vm_compute. reflexivity. Qed.
Lemma foreign_decimal_char_38 : forall (conv : lit -> option dec) rest, lex_step lt_decimal conv (38 :: rest) = None.
Proof. intros. vm_compute. reflexivity. Qed.
Lemma foreign_decimal_char_124 : forall (conv : lit -> option dec) rest, lex_step lt_decimal conv (124 :: rest) = None.
Proof. intros. vm_compute. reflexivity. Qed.
Lemma foreign_decimal_char_60 : forall (conv : lit -> option dec) rest, lex_step lt_decimal conv (60 :: rest) = None.
Proof. intros. vm_compute. reflexivity. Qed.
Lemma foreign_decimal_char_62 : forall (conv : lit -> option dec) rest, lex_step lt_decimal conv (62 :: rest) = None.
Proof. intros. vm_compute. reflexivity. Qed.
Lemma foreign_decimal_char_176 : forall (conv : lit -> option dec) rest, lex_step lt_decimal conv (176 :: rest) = None.
Proof. intros. vm_compute. reflexivity. Qed.
Lemma foreign_decimal_char_35 : forall (conv : lit -> option dec) rest, lex_step lt_decimal conv (35 :: rest) = None.
Proof. intros. vm_compute. reflexivity. Qed.
Lemma foreign_decimal_char_36 : forall (conv : lit -> option dec) rest, lex_step lt_decimal conv (36 :: rest) = None.
Proof. intros. vm_compute. reflexivity. Qed.
Lemma foreign_complex_atan2 : forall (conv : lit -> option cpx) rest, lex_step lt_complex conv ([97; 116; 97; 110; 50; 40] ++ rest) = None.
Proof. intros. vm_compute. reflexivity. Qed.
Lemma foreign_complex_avg : forall (conv : lit -> option cpx) rest, lex_step lt_complex conv ([97; 118; 103; 40] ++ rest) = None.
Proof. intros. vm_compute. reflexivity. Qed.
Lemma foreign_complex_ceil : forall (conv : lit -> option cpx) rest, lex_step lt_complex conv ([99; 101; 105; 108; 40] ++ rest) = None.
Proof. intros. vm_compute. reflexivity. Qed.
Lemma foreign_complex_floor : forall (conv : lit -> option cpx) rest, lex_step lt_complex conv ([102; 108; 111; 111; 114; 40] ++ rest) = None.
Proof. intros. vm_compute. reflexivity. Qed.
Lemma foreign_complex_gcd : forall (conv : lit -> option cpx) rest, lex_step lt_complex conv ([103; 99; 100; 40] ++ rest) = None.
Proof. intros. vm_compute. reflexivity. Qed.
Lemma foreign_complex_lambert_w : forall (conv : lit -> option cpx) rest, lex_step lt_complex conv ([108; 97; 109; 98; 101; 114; 116; 95; 119; 40] ++ rest) = None.
Proof. intros. vm_compute. reflexivity. Qed.
Lemma foreign_complex_lcm : forall (conv : lit -> option cpx) rest, lex_step lt_complex conv ([108; 99; 109; 40] ++ rest) = None.
Proof. intros. vm_compute. reflexivity. Qed.
Lemma foreign_complex_max : forall (conv : lit -> option cpx) rest, lex_step lt_complex conv ([109; 97; 120; 40] ++ rest) = None.
Proof. intros. vm_compute. reflexivity. Qed.
Lemma foreign_complex_med : forall (conv : lit -> option cpx) rest, lex_step lt_complex conv ([109; 101; 100; 40] ++ rest) = None.
Proof. intros. vm_compute. reflexivity. Qed.
Lemma foreign_complex_median : forall (conv : lit -> option cpx) rest, lex_step lt_complex conv ([109; 101; 100; 105; 97; 110; 40] ++ rest) = None.
Proof. intros. vm_compute. reflexivity. Qed.
Lemma foreign_complex_min : forall (conv : lit -> option cpx) rest, lex_step lt_complex conv ([109; 105; 110; 40] ++ rest) = None.
Proof. intros. vm_compute. reflexivity. Qed.
Lemma foreign_complex_mod : forall (conv : lit -> option cpx) rest, lex_step lt_complex conv ([109; 111; 100; 40] ++ rest) = None.
Proof. intros. vm_compute. reflexivity. Qed.
Lemma foreign_complex_round : forall (conv : lit -> option cpx) rest, lex_step lt_complex conv ([114; 111; 117; 110; 100; 40] ++ rest) = None.
Proof. intros. vm_compute. reflexivity. Qed.
Lemma foreign_complex_sgn : forall (conv : lit -> option cpx) rest, lex_step lt_complex conv ([115; 103; 110; 40] ++ rest) = None.
Proof. intros. vm_compute. reflexivity. Qed.
Lemma foreign_complex_sign : forall (conv : lit -> option cpx) rest, lex_step lt_complex conv ([115; 105; 103; 110; 40] ++ rest) = None.
Proof. intros. vm_compute. reflexivity. Qed.
Lemma foreign_complex_signum : forall (conv : lit -> option cpx) rest, lex_step lt_complex conv ([115; 105; 103; 110; 117; 109; 40] ++ rest) = None.
Proof. intros. vm_compute. reflexivity. Qed.
Lemma foreign_complex_trunc : forall (conv : lit -> option cpx) rest, lex_step lt_complex conv ([116; 114; 117; 110; 99; 40] ++ rest) = None.
Proof. intros. vm_compute. reflexivity. Qed.
Lemma foreign_complex_truncate : forall (conv : lit -> option cpx) rest, lex_step lt_complex conv ([116; 114; 117; 110; 99; 97; 116; 101; 40] ++ rest) = None.
Proof. intros. vm_compute. reflexivity. Qed.
Lemma foreign_complex_w : forall (conv : lit -> option cpx) rest, lex_step lt_complex conv ([119; 40] ++ rest) = None.
Proof. intros. vm_compute. reflexivity. Qed.
Lemma foreign_complex_char_38 : forall (conv : lit -> option cpx) rest, lex_step lt_complex conv (38 :: rest) = None.
Proof. intros. vm_compute. reflexivity. Qed.
Lemma foreign_complex_char_124 : forall (conv : lit -> option cpx) rest, lex_step lt_complex conv (124 :: rest) = None.
Proof. intros. vm_compute. reflexivity. Qed.
Lemma foreign_complex_char_60 : forall (conv : lit -> option cpx) rest, lex_step lt_complex conv (60 :: rest) = None.
Proof. intros. vm_compute. reflexivity. Qed.
Lemma foreign_complex_char_62 : forall (conv : lit -> option cpx) rest, lex_step lt_complex conv (62 :: rest) = None.
Proof. intros. vm_compute. reflexivity. Qed.
Lemma foreign_complex_char_33 : forall (conv : lit -> option cpx) rest, lex_step lt_complex conv (33 :: rest) = None.
Proof. intros. vm_compute. reflexivity. Qed.
Lemma foreign_complex_char_37 : forall (conv : lit -> option cpx) rest, lex_step lt_complex conv (37 :: rest) = None.
Proof. intros. vm_compute. reflexivity. Qed.
Lemma foreign_complex_char_8970 : forall (conv : lit -> option cpx) rest, lex_step lt_complex conv (8970 :: rest) = None.
Proof. intros. vm_compute. reflexivity. Qed.
Lemma foreign_complex_char_8968 : forall (conv : lit -> option cpx) rest, lex_step lt_complex conv (8968 :: rest) = None.
Proof. intros. vm_compute. reflexivity. Qed.
Lemma foreign_complex_char_8971 : forall (conv : lit -> option cpx) rest, lex_step lt_complex conv (8971 :: rest) = None.
Proof. intros. vm_compute. reflexivity. Qed.
Lemma foreign_complex_char_8969 : forall (conv : lit -> option cpx) rest, lex_step lt_complex conv (8969 :: rest) = None.
Proof. intros. vm_compute. reflexivity. Qed.
Lemma foreign_complex_char_35 : forall (conv : lit -> option cpx) rest, lex_step lt_complex conv (35 :: rest) = None.
Proof. intros. vm_compute. reflexivity. Qed.
Lemma foreign_complex_char_36 : forall (conv : lit -> option cpx) rest, lex_step lt_complex conv (36 :: rest) = None.
Proof. intros. vm_compute. reflexivity. Qed.
Lemma foreign_number_gcd : forall (conv : lit -> option number) rest, lex_step lt_number conv ([103; 99; 100; 40] ++ rest) = None.
Proof. intros. vm_compute. reflexivity. Qed.
Lemma foreign_number_lcm : forall (conv : lit -> option number) rest, lex_step lt_number conv ([108; 99; 109; 40] ++ rest) = None.
Proof. intros. vm_compute. reflexivity. Qed.
Lemma foreign_number_char_38 : forall (conv : lit -> option number) rest, lex_step lt_number conv (38 :: rest) = None.
Proof. intros. vm_compute. reflexivity. Qed.
Lemma foreign_number_char_124 : forall (conv : lit -> option number) rest, lex_step lt_number conv (124 :: rest) = None.
Proof. intros. vm_compute. reflexivity. Qed.
Lemma foreign_number_char_60 : forall (conv : lit -> option number) rest, lex_step lt_number conv (60 :: rest) = None.
Proof. intros. vm_compute. reflexivity. Qed.
Lemma foreign_number_char_62 : forall (conv : lit -> option number) rest, lex_step lt_number conv (62 :: rest) = None.
Proof. intros. vm_compute. reflexivity. Qed.
Lemma foreign_number_char_35 : forall (conv : lit -> option number) rest, lex_step lt_number conv (35 :: rest) = None.
Proof. intros. vm_compute. reflexivity. Qed.
Lemma foreign_number_char_36 : forall (conv : lit -> option number) rest, lex_step lt_number conv (36 :: rest) = None.
Proof. intros. vm_compute. reflexivity. Qed.

Theorem C03_foreign_vocabulary_is_a_lex_error :
  (forall conv rest, @lex_step f64 lt_f64 conv ([103; 99; 100; 40] ++ rest) = None) /\
  (forall conv rest, @lex_step Z lt_i64 conv ([115; 105; 110; 40] ++ rest) = None) /\
  (forall conv rest, @lex_step dec lt_decimal conv ([97; 116; 97; 110; 50; 40] ++ rest) = None) /\
  (forall conv rest, @lex_step cpx lt_complex conv ([102; 108; 111; 111; 114; 40] ++ rest) = None).
Proof. split; [exact foreign_f64_gcd|]. split; [exact foreign_i64_sin|]. split; [exact foreign_decimal_atan2|exact foreign_complex_floor]. Qed.
Print Assumptions C03_foreign_vocabulary_is_a_lex_error.
