(** C17 -- every feature subset builds and each evaluator behaves identically in it.
    Model regenerated from Cargo.toml / src/lib.rs / utils/operator_category.rs on every run:
    the items of lib.rs with their cfg predicates, the optional dependencies of each feature, the
    declaration order of OperatorCategory with the feature gating each variant. For ALL 31 non-empty
    subsets of {eval_f64, eval_i64, eval_decimal, eval_complex, eval_number} (features 0..4):
      C17_uses_resolve      every enabled `pub use m::x` refers to a module that is enabled too
      C17_exports           the exported names are exactly eval_<f> for the selected features, Number with
                            eval_number, and ParseError
      C17_precedence_stable the derived PartialOrd of OperatorCategory restricted to the enabled variants is
                            the same order in every subset (levels ascend in declaration order), and an
                            evaluator only uses categories that are enabled whenever it is: so each parser
                            table, hence each evaluator's behaviour, does not depend on the subset
      C17_optional_deps     rust_decimal / num-complex are pulled in exactly by eval_decimal / eval_complex
    "rustc accepts the configuration" itself is decided by building (all 31 in the thorough tier), not
    by a theorem (partial); the builds are run on a fixed corpus and compared with the default build. *)
From Coq Require Import List NArith Bool Arith String.
From SC Require Import Base.Res Lang.Syntax Lang.Parser Gen.Tables Proofs.Top.
Import ListNotations.
Local Open Scope N_scope.

Definition features : list N := [0; 1; 2; 3; 4].
Fixpoint subsets (l : list N) : list (list N) :=
  match l with [] => [[]] | x :: xs => let r := subsets xs in r ++ map (cons x) r end.
Definition nonempty_subsets : list (list N) := filter (fun s => negb (Nat.eqb (List.length s) 0)) (subsets features).

Definition mem (x : N) (l : list N) : bool := existsb (N.eqb x) l.
Definition enabled (cfg : option (list N)) (S : list N) : bool :=
  match cfg with None => true | Some fs => existsb (fun f => mem f S) fs end.
Fixpoint str_eqb (a b : list N) : bool :=
  match a, b with [] , [] => true | x :: a', y :: b' => (x =? y) && str_eqb a' b' | _, _ => false end.

Definition uses_resolve (S : list N) : bool :=
  forallb (fun u => let '(m, _, cfg) := u in
                    negb (enabled cfg S) ||
                    existsb (fun md => str_eqb (fst md) m && enabled (snd md) S) lib_mods) lib_uses.

Definition feature_name (f : N) : list N :=
  s2n (match f with 0 => "eval_f64" | 1 => "eval_i64" | 2 => "eval_decimal" | 3 => "eval_complex" | _ => "eval_number" end)%string.
Definition expected_exports (S : list N) : list (list N) :=
  map feature_name S ++ (if mem 4 S then [s2n "Number"%string] else []) ++ [s2n "ParseError"%string].
Definition actual_exports (S : list N) : list (list N) :=
  map (fun u => snd (fst u)) (filter (fun u => enabled (snd u) S) lib_uses).
Definition same_set (a b : list (list N)) : bool :=
  forallb (fun x => existsb (str_eqb x) b) a && forallb (fun x => existsb (str_eqb x) a) b &&
  Nat.eqb (List.length a) (List.length b).

Fixpoint ascending (l : list N) : bool :=
  match l with x :: ((y :: _) as t) => (x <? y) && ascending t | _ => true end.
(** categories an evaluator (feature index j) may use: ungated ones and those gated by its own feature *)
Definition cats_for (j : N) : list N :=
  map fst (filter (fun c => match snd c with None => true | Some g => g =? j end) cat_order).
Definition uses_only {V} (T : ptab V) (vocab : list kind) (j : N) : bool :=
  forallb (fun k => mem (N.of_nat (pt_prec T k)) (cats_for j)) vocab &&
  mem (N.of_nat (pt_neg_level T)) (cats_for j) && mem (N.of_nat (pt_impl_level T)) (cats_for j).

Theorem C17_subsets : List.length nonempty_subsets = 31%nat.
Proof. reflexivity. Qed.
Print Assumptions C17_subsets.

Theorem C17_uses_resolve : forallb uses_resolve nonempty_subsets = true.
Proof. vm_compute. reflexivity. Qed.
Print Assumptions C17_uses_resolve.

Theorem C17_exports : forallb (fun S => same_set (actual_exports S) (expected_exports S)) nonempty_subsets = true.
Proof. vm_compute. reflexivity. Qed.
Print Assumptions C17_exports.

Theorem C17_precedence_stable :
  ascending (map fst cat_order) = true /\
  uses_only pt_f64 vocab_f64 0 = true /\ uses_only pt_i64 vocab_i64 1 = true /\ uses_only pt_decimal vocab_decimal 2 = true /\
  uses_only pt_complex vocab_complex 3 = true /\ uses_only pt_number vocab_number 4 = true.
Proof. repeat split; vm_compute; reflexivity. Qed.
Print Assumptions C17_precedence_stable.

Theorem C17_optional_deps :
  forallb (fun fd => match fst fd with
                     | 2 => same_set (snd fd) [s2n "dep:rust_decimal"%string]
                     | 3 => same_set (snd fd) [s2n "dep:num-complex"%string]
                     | _ => match snd fd with [] => true | _ => false end
                     end) feature_deps = true /\
  same_set (map (fun f => [f]) default_features) (map (fun f => [f]) features) = true.
Proof. split; vm_compute; reflexivity. Qed.
Print Assumptions C17_optional_deps.
