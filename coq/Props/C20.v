(** C20 -- compositionality: a bracketed subexpression can be replaced by its value.
    A context is a well-formed surface tree [c]; its holes are its [@] leaves. For every well-formed
    [e] that evaluates to Ok v (with placeholder p), C[(E)] = [subst (SGroup ( e) c] is again well-formed
    -- in every operand / argument position, whatever follows the hole -- and evaluating it with
    placeholder p gives exactly the outcome (Ok value or Err, same class) of evaluating C[@] with
    placeholder v. Lifted to the public entry points on the strings that lex to these trees. *)
From Coq Require Import List NArith ZArith Bool.
From SC Require Import Base.Res Base.F64 Base.Dec Base.Num Base.Oracle Lang.Syntax Lang.Lexer Lang.Literal Lang.Parser
  Eval.EvalI64 Eval.EvalF64 Eval.EvalNum Eval.EvalDec Eval.EvalCpx Eval.Run Gen.Tables
  Spec.Surface Proofs.Grammar Proofs.Top Proofs.Subst Proofs.Compositional.
Import ListNotations.

Theorem C20_generic :
  forall V (T : ptab V) ev (C : compositional ev), compose_ok T = true ->
  forall p v e c, W T 0 c -> W T 0 e -> ev (desugar T p e) = Ok v ->
    W T 0 (subst (SGroup KLeftParen e) c) /\
    ev (desugar T p (subst (SGroup KLeftParen e) c)) = ev (desugar T v c).
Proof. intros. now apply compositionality. Qed.
Print Assumptions C20_generic.

Theorem C20_f64 :
  forall (L : libm) p v e c s_plugged s_hole,
    W pt_f64 0 c -> W pt_f64 0 e -> eval_f64 L (desugar pt_f64 p e) = Ok v ->
    tokens_of lt_f64 conv_f64 s_plugged = Some (print pt_f64 (subst (SGroup KLeftParen e) c)) ->
    tokens_of lt_f64 conv_f64 s_hole = Some (print pt_f64 c) ->
    run_f64 L s_plugged p = run_f64 L s_hole v.
Proof.
  intros L p v e c s1 s2 Wc We Hv E1 E2. unfold run_f64.
  destruct (compositionality pt_f64 (eval_f64 L) (comp_f64 L) eq_refl p v e c Wc We Hv) as [Ws Hev].
  rewrite (wellformed_evaluates lt_f64 conv_f64 pt_f64 (eval_f64 L) eq_refl eq_refl s1 p _ Ws E1).
  rewrite (wellformed_evaluates lt_f64 conv_f64 pt_f64 (eval_f64 L) eq_refl eq_refl s2 v _ Wc E2).
  exact Hev.
Qed.
Print Assumptions C20_f64.

Theorem C20_i64 :
  forall (L : libm) p v e c s_plugged s_hole,
    W pt_i64 0 c -> W pt_i64 0 e -> eval_i64 L (desugar pt_i64 p e) = Ok v ->
    tokens_of lt_i64 conv_i64 s_plugged = Some (print pt_i64 (subst (SGroup KLeftParen e) c)) ->
    tokens_of lt_i64 conv_i64 s_hole = Some (print pt_i64 c) ->
    run_i64 L s_plugged p = run_i64 L s_hole v.
Proof.
  intros L p v e c s1 s2 Wc We Hv E1 E2. unfold run_i64.
  destruct (compositionality pt_i64 (eval_i64 L) (comp_i64 L) eq_refl p v e c Wc We Hv) as [Ws Hev].
  rewrite (wellformed_evaluates lt_i64 conv_i64 pt_i64 (eval_i64 L) eq_refl eq_refl s1 p _ Ws E1).
  rewrite (wellformed_evaluates lt_i64 conv_i64 pt_i64 (eval_i64 L) eq_refl eq_refl s2 v _ Wc E2).
  exact Hev.
Qed.
Print Assumptions C20_i64.

Theorem C20_number :
  forall (L : libm) p v e c s_plugged s_hole,
    W pt_number 0 c -> W pt_number 0 e -> eval_num L (desugar pt_number p e) = Ok v ->
    tokens_of lt_number conv_num s_plugged = Some (print pt_number (subst (SGroup KLeftParen e) c)) ->
    tokens_of lt_number conv_num s_hole = Some (print pt_number c) ->
    run_num L s_plugged p = run_num L s_hole v.
Proof.
  intros L p v e c s1 s2 Wc We Hv E1 E2. unfold run_num.
  destruct (compositionality pt_number (eval_num L) (comp_num L) eq_refl p v e c Wc We Hv) as [Ws Hev].
  rewrite (wellformed_evaluates lt_number conv_num pt_number (eval_num L) eq_refl eq_refl s1 p _ Ws E1).
  rewrite (wellformed_evaluates lt_number conv_num pt_number (eval_num L) eq_refl eq_refl s2 v _ Wc E2).
  exact Hev.
Qed.
Print Assumptions C20_number.

Theorem C20_complex :
  forall (C : cpxlib) p v e c s_plugged s_hole,
    W pt_complex 0 c -> W pt_complex 0 e -> eval_cpx C (desugar pt_complex p e) = Ok v ->
    tokens_of lt_complex conv_cpx s_plugged = Some (print pt_complex (subst (SGroup KLeftParen e) c)) ->
    tokens_of lt_complex conv_cpx s_hole = Some (print pt_complex c) ->
    run_cpx C s_plugged p = run_cpx C s_hole v.
Proof.
  intros C p v e c s1 s2 Wc We Hv E1 E2. unfold run_cpx.
  destruct (compositionality pt_complex (eval_cpx C) (comp_cpx C) eq_refl p v e c Wc We Hv) as [Ws Hev].
  rewrite (wellformed_evaluates lt_complex conv_cpx pt_complex (eval_cpx C) eq_refl eq_refl s1 p _ Ws E1).
  rewrite (wellformed_evaluates lt_complex conv_cpx pt_complex (eval_cpx C) eq_refl eq_refl s2 v _ Wc E2).
  exact Hev.
Qed.
Print Assumptions C20_complex.

Theorem C20_decimal :
  forall (D : declib) p v e c s_plugged s_hole,
    W pt_decimal 0 c -> W pt_decimal 0 e -> eval_dec D (desugar pt_decimal p e) = Ok v ->
    tokens_of lt_decimal (conv_dec D) s_plugged = Some (print pt_decimal (subst (SGroup KLeftParen e) c)) ->
    tokens_of lt_decimal (conv_dec D) s_hole = Some (print pt_decimal c) ->
    run_dec D s_plugged p = run_dec D s_hole v.
Proof.
  intros D p v e c s1 s2 Wc We Hv E1 E2. unfold run_dec.
  destruct (compositionality pt_decimal (eval_dec D) (comp_dec D) eq_refl p v e c Wc We Hv) as [Ws Hev].
  rewrite (wellformed_evaluates lt_decimal (conv_dec D) pt_decimal (eval_dec D) eq_refl eq_refl s1 p _ Ws E1).
  rewrite (wellformed_evaluates lt_decimal (conv_dec D) pt_decimal (eval_dec D) eq_refl eq_refl s2 v _ Wc E2).
  exact Hev.
Qed.
Print Assumptions C20_decimal.

(** non-vacuity: a context with the hole as left operand of ^ under a prefix sign, inside an argument *)
Example C20_example :
  forall (a b : f64),
    let c := SCallN FMax [SBin KCaret (SNeg SAns) (SNum a); SFact SAns] in
    let e := SBin KAdd (SNum a) (SNum b) in
    W pt_f64 0 c /\ W pt_f64 0 e /\ W pt_f64 0 (subst (SGroup KLeftParen e) c).
Proof. intros. split; [|split]; apply Wb_sound; vm_compute; reflexivity. Qed.
