(** C12 -- juxtaposition means multiplication and binds tighter than explicit operators.
      C12_*_juxt_is_product   for every well-formed implicit product [A R] (R = the right factor with its ^,
                              superscript and ! suffixes, as parsed at the multiplicative level): the explicit
                              rendering (A*(R)) is well-formed in every context and has the same tree
      C12_*_shape             by the grammar only a literal, a bracketed group or a call (or a factorial) can
                              be the left factor, and the right factor starts with ( ⌊ ⌈, a function name or a
                              literal; constants, @, superscripts, ° and rad are not in the trigger set and are
                              not juxtaposition-capable
      C12_*_examples          6/2(3), 2^3(4), -2(3)!; and the rejected forms  @(1)  pi(1)  1 pi  1 @  1²(2)  1°(2)
      C12_forbidden_juxtapositions_rejected
                              for EVERY token sequence of every evaluator: if the placeholder, a constant, a postfix
                              degree / radian operator or a superscript exponent is directly followed by a token that
                              would start an implicit right factor (an opening bracket, a function name, a literal), or if
                              the placeholder or a constant directly follows a token that ends an operand (a literal, a
                              closing bracket, @, a constant, ° / rad, a superscript, !), the input is rejected (Err)
      C12_literal_literal_rejected
                              a number literal directly followed by a number literal is NOT a product (the property lists
                              the implicit products; `.5.5`, `1.5.5`, `1..5`, `2ii` are not among them): every token
                              sequence of eval_f64 / eval_decimal / eval_complex / eval_number in which a literal token
                              is directly followed by a literal token is rejected (after the repair; eval_i64's lexer
                              cannot produce two adjacent literal tokens) *)
From Coq Require Import List NArith ZArith Bool.
From SC Require Import Base.Res Base.F64 Base.Dec Base.Num Base.Oracle Lang.Syntax Lang.Lexer Lang.Literal Lang.Parser Gen.Tables
  Eval.Run Spec.Surface Proofs.Grammar Proofs.Subst Proofs.Juxt Proofs.Adjacent.
Import ListNotations.

Theorem C12_f64_juxt_is_product :
  forall (ph : f64) a r p, W pt_f64 p (SJuxt a r) ->
    (forall q, W pt_f64 q (SGroup KLeftParen (SBin KMultiply a (SGroup KLeftParen r)))) /\
    desugar pt_f64 ph (SGroup KLeftParen (SBin KMultiply a (SGroup KLeftParen r))) = desugar pt_f64 ph (SJuxt a r).
Proof. intros ph a r p H. exact (juxt_is_product pt_f64 ph eq_refl a r p H). Qed.
Print Assumptions C12_f64_juxt_is_product.
Theorem C12_f64_shape :
  (forall (a r : @sx f64) p, W pt_f64 p (SJuxt a r) -> capable a = true /\ pt_trigger pt_f64 (hdk (print pt_f64 r)) = true /\
                                                       numjuxt_ok pt_f64 a (hdk (print pt_f64 r)) = true) /\
  forallb (fun k => negb (pt_trigger pt_f64 k)) [KAns; KPi; KE; KSuperscript; KDegToRad; KRadToDeg; KEof; KRightParen; KComma] = true /\
  @capable f64 SAns = false /\ @capable f64 (SConst KPi) = false.
Proof. split; [intros a r p H; exact (juxt_shape pt_f64 a r p H)|]. repeat split; vm_compute; reflexivity. Qed.
Print Assumptions C12_f64_shape.
Theorem C12_f64_examples :
  forall (ph a b c : f64),
    (* a / b ( c )  =  a / (b*c) *)
    parse pt_f64 ph [TNum a; TK KDivide; TNum b; TK KLeftParen; TNum c; TK KRightParen]
      = Ok (NBin BDivide (NNum a) (NBin BMultiply (NNum b) (NNum c))) /\
    (* a ^ b ( c )  =  a ^ (b*c) *)
    parse pt_f64 ph [TNum a; TK KCaret; TNum b; TK KLeftParen; TNum c; TK KRightParen]
      = Ok (NBin BPow (NNum a) (NBin BMultiply (NNum b) (NNum c))) /\
    (* rejected: @ ( a ),  a @,  a ² ( b ) *)
    parse pt_f64 ph [TK KAns; TK KLeftParen; TNum a; TK KRightParen] = Err /\
    parse pt_f64 ph [TNum a; TK KAns] = Err /\
    parse pt_f64 ph [TNum a; TSup b; TK KLeftParen; TNum c; TK KRightParen] = Err.
Proof. intros. repeat split; vm_compute; reflexivity. Qed.
Print Assumptions C12_f64_examples.

Theorem C12_i64_juxt_is_product :
  forall (ph : Z) a r p, W pt_i64 p (SJuxt a r) ->
    (forall q, W pt_i64 q (SGroup KLeftParen (SBin KMultiply a (SGroup KLeftParen r)))) /\
    desugar pt_i64 ph (SGroup KLeftParen (SBin KMultiply a (SGroup KLeftParen r))) = desugar pt_i64 ph (SJuxt a r).
Proof. intros ph a r p H. exact (juxt_is_product pt_i64 ph eq_refl a r p H). Qed.
Print Assumptions C12_i64_juxt_is_product.
Theorem C12_i64_shape :
  (forall (a r : @sx Z) p, W pt_i64 p (SJuxt a r) -> capable a = true /\ pt_trigger pt_i64 (hdk (print pt_i64 r)) = true /\
      numjuxt_ok pt_i64 a (hdk (print pt_i64 r)) = true) /\
  forallb (fun k => negb (pt_trigger pt_i64 k)) [KAns; KPi; KE; KSuperscript; KDegToRad; KRadToDeg; KEof; KRightParen; KComma] = true /\
  @capable Z SAns = false /\ @capable Z (SConst KPi) = false.
Proof. split; [intros a r p H; exact (juxt_shape pt_i64 a r p H)|]. repeat split; vm_compute; reflexivity. Qed.
Print Assumptions C12_i64_shape.
Theorem C12_i64_examples :
  forall (ph a b c : Z),
    (* a / b ( c )  =  a / (b*c) *)
    parse pt_i64 ph [TNum a; TK KDivide; TNum b; TK KLeftParen; TNum c; TK KRightParen]
      = Ok (NBin BDivide (NNum a) (NBin BMultiply (NNum b) (NNum c))) /\
    (* a ^ b ( c )  =  a ^ (b*c) *)
    parse pt_i64 ph [TNum a; TK KCaret; TNum b; TK KLeftParen; TNum c; TK KRightParen]
      = Ok (NBin BPow (NNum a) (NBin BMultiply (NNum b) (NNum c))) /\
    (* rejected: @ ( a ),  a @,  a ² ( b ) *)
    parse pt_i64 ph [TK KAns; TK KLeftParen; TNum a; TK KRightParen] = Err /\
    parse pt_i64 ph [TNum a; TK KAns] = Err /\
    parse pt_i64 ph [TNum a; TSup b; TK KLeftParen; TNum c; TK KRightParen] = Err.
Proof. intros. repeat split; vm_compute; reflexivity. Qed.
Print Assumptions C12_i64_examples.

Theorem C12_decimal_juxt_is_product :
  forall (ph : dec) a r p, W pt_decimal p (SJuxt a r) ->
    (forall q, W pt_decimal q (SGroup KLeftParen (SBin KMultiply a (SGroup KLeftParen r)))) /\
    desugar pt_decimal ph (SGroup KLeftParen (SBin KMultiply a (SGroup KLeftParen r))) = desugar pt_decimal ph (SJuxt a r).
Proof. intros ph a r p H. exact (juxt_is_product pt_decimal ph eq_refl a r p H). Qed.
Print Assumptions C12_decimal_juxt_is_product.
Theorem C12_decimal_shape :
  (forall (a r : @sx dec) p, W pt_decimal p (SJuxt a r) -> capable a = true /\ pt_trigger pt_decimal (hdk (print pt_decimal r)) = true /\
      numjuxt_ok pt_decimal a (hdk (print pt_decimal r)) = true) /\
  forallb (fun k => negb (pt_trigger pt_decimal k)) [KAns; KPi; KE; KSuperscript; KDegToRad; KRadToDeg; KEof; KRightParen; KComma] = true /\
  @capable dec SAns = false /\ @capable dec (SConst KPi) = false.
Proof. split; [intros a r p H; exact (juxt_shape pt_decimal a r p H)|]. repeat split; vm_compute; reflexivity. Qed.
Print Assumptions C12_decimal_shape.
Theorem C12_decimal_examples :
  forall (ph a b c : dec),
    (* a / b ( c )  =  a / (b*c) *)
    parse pt_decimal ph [TNum a; TK KDivide; TNum b; TK KLeftParen; TNum c; TK KRightParen]
      = Ok (NBin BDivide (NNum a) (NBin BMultiply (NNum b) (NNum c))) /\
    (* a ^ b ( c )  =  a ^ (b*c) *)
    parse pt_decimal ph [TNum a; TK KCaret; TNum b; TK KLeftParen; TNum c; TK KRightParen]
      = Ok (NBin BPow (NNum a) (NBin BMultiply (NNum b) (NNum c))) /\
    (* rejected: @ ( a ),  a @,  a ² ( b ) *)
    parse pt_decimal ph [TK KAns; TK KLeftParen; TNum a; TK KRightParen] = Err /\
    parse pt_decimal ph [TNum a; TK KAns] = Err /\
    parse pt_decimal ph [TNum a; TSup b; TK KLeftParen; TNum c; TK KRightParen] = Err.
Proof. intros. repeat split; vm_compute; reflexivity. Qed.
Print Assumptions C12_decimal_examples.

Theorem C12_complex_juxt_is_product :
  forall (ph : cpx) a r p, W pt_complex p (SJuxt a r) ->
    (forall q, W pt_complex q (SGroup KLeftParen (SBin KMultiply a (SGroup KLeftParen r)))) /\
    desugar pt_complex ph (SGroup KLeftParen (SBin KMultiply a (SGroup KLeftParen r))) = desugar pt_complex ph (SJuxt a r).
Proof. intros ph a r p H. exact (juxt_is_product pt_complex ph eq_refl a r p H). Qed.
Print Assumptions C12_complex_juxt_is_product.
Theorem C12_complex_shape :
  (forall (a r : @sx cpx) p, W pt_complex p (SJuxt a r) -> capable a = true /\ pt_trigger pt_complex (hdk (print pt_complex r)) = true /\
      numjuxt_ok pt_complex a (hdk (print pt_complex r)) = true) /\
  forallb (fun k => negb (pt_trigger pt_complex k)) [KAns; KPi; KE; KSuperscript; KDegToRad; KRadToDeg; KEof; KRightParen; KComma] = true /\
  @capable cpx SAns = false /\ @capable cpx (SConst KPi) = false.
Proof. split; [intros a r p H; exact (juxt_shape pt_complex a r p H)|]. repeat split; vm_compute; reflexivity. Qed.
Print Assumptions C12_complex_shape.
Theorem C12_complex_examples :
  forall (ph a b c : cpx),
    (* a / b ( c )  =  a / (b*c) *)
    parse pt_complex ph [TNum a; TK KDivide; TNum b; TK KLeftParen; TNum c; TK KRightParen]
      = Ok (NBin BDivide (NNum a) (NBin BMultiply (NNum b) (NNum c))) /\
    (* a ^ b ( c )  =  a ^ (b*c) *)
    parse pt_complex ph [TNum a; TK KCaret; TNum b; TK KLeftParen; TNum c; TK KRightParen]
      = Ok (NBin BPow (NNum a) (NBin BMultiply (NNum b) (NNum c))) /\
    (* rejected: @ ( a ),  a @,  a ² ( b ) *)
    parse pt_complex ph [TK KAns; TK KLeftParen; TNum a; TK KRightParen] = Err /\
    parse pt_complex ph [TNum a; TK KAns] = Err /\
    parse pt_complex ph [TNum a; TSup b; TK KLeftParen; TNum c; TK KRightParen] = Err.
Proof. intros. repeat split; vm_compute; reflexivity. Qed.
Print Assumptions C12_complex_examples.

Theorem C12_number_juxt_is_product :
  forall (ph : number) a r p, W pt_number p (SJuxt a r) ->
    (forall q, W pt_number q (SGroup KLeftParen (SBin KMultiply a (SGroup KLeftParen r)))) /\
    desugar pt_number ph (SGroup KLeftParen (SBin KMultiply a (SGroup KLeftParen r))) = desugar pt_number ph (SJuxt a r).
Proof. intros ph a r p H. exact (juxt_is_product pt_number ph eq_refl a r p H). Qed.
Print Assumptions C12_number_juxt_is_product.
Theorem C12_number_shape :
  (forall (a r : @sx number) p, W pt_number p (SJuxt a r) -> capable a = true /\ pt_trigger pt_number (hdk (print pt_number r)) = true /\
      numjuxt_ok pt_number a (hdk (print pt_number r)) = true) /\
  forallb (fun k => negb (pt_trigger pt_number k)) [KAns; KPi; KE; KSuperscript; KDegToRad; KRadToDeg; KEof; KRightParen; KComma] = true /\
  @capable number SAns = false /\ @capable number (SConst KPi) = false.
Proof. split; [intros a r p H; exact (juxt_shape pt_number a r p H)|]. repeat split; vm_compute; reflexivity. Qed.
Print Assumptions C12_number_shape.
Theorem C12_number_examples :
  forall (ph a b c : number),
    (* a / b ( c )  =  a / (b*c) *)
    parse pt_number ph [TNum a; TK KDivide; TNum b; TK KLeftParen; TNum c; TK KRightParen]
      = Ok (NBin BDivide (NNum a) (NBin BMultiply (NNum b) (NNum c))) /\
    (* a ^ b ( c )  =  a ^ (b*c) *)
    parse pt_number ph [TNum a; TK KCaret; TNum b; TK KLeftParen; TNum c; TK KRightParen]
      = Ok (NBin BPow (NNum a) (NBin BMultiply (NNum b) (NNum c))) /\
    (* rejected: @ ( a ),  a @,  a ² ( b ) *)
    parse pt_number ph [TK KAns; TK KLeftParen; TNum a; TK KRightParen] = Err /\
    parse pt_number ph [TNum a; TK KAns] = Err /\
    parse pt_number ph [TNum a; TSup b; TK KLeftParen; TNum c; TK KRightParen] = Err.
Proof. intros. repeat split; vm_compute; reflexivity. Qed.
Print Assumptions C12_number_examples.

Theorem C12_f64_more_examples :
  forall (ph a b c : f64),
    (* - a ( b ) !  =  -(a * (b!)) *)
    parse pt_f64 ph [TK KSubtract; TNum a; TK KLeftParen; TNum b; TK KRightParen; TK KExclamationMark]
      = Ok (NUn UNegative (NBin BMultiply (NNum a) (NUn UFactorial (NNum b)))) /\
    parse pt_f64 ph [TK KPi; TK KLeftParen; TNum a; TK KRightParen] = Err /\
    parse pt_f64 ph [TNum a; TK KPi] = Err /\
    parse pt_f64 ph [TNum a; TK KDegToRad; TK KLeftParen; TNum b; TK KRightParen] = Err /\
    parse pt_f64 ph [TK KLeftParen; TNum a; TK KRightParen; TK KRadToDeg; TNum b] = Err /\
    (* a ! ( b ) = (a!) * b ;  ( a ) b = a * b ; sin(a) ( b ) *)
    parse pt_f64 ph [TNum a; TK KExclamationMark; TK KLeftParen; TNum b; TK KRightParen]
      = Ok (NBin BMultiply (NUn UFactorial (NNum a)) (NNum b)) /\
    parse pt_f64 ph [TK KLeftParen; TNum a; TK KRightParen; TNum b] = Ok (NBin BMultiply (NNum a) (NNum b)) /\
    parse pt_f64 ph [TK KLeftFloor; TNum a; TK KRightFloor; TK (KFunc FSin); TK KLeftParen; TNum b; TK KRightParen]
      = Ok (NBin BMultiply (NUn UFloor (NNum a)) (NUn USin (NNum b))).
Proof. intros. repeat split; vm_compute; reflexivity. Qed.
Print Assumptions C12_f64_more_examples.

(** the general rejection theorem, for all inputs *)
Theorem C12_forbidden_juxtapositions_rejected :
  (forall (ph : f64) ts x y, adj x y ts ->
     (quiet pt_f64 x = true /\ trig pt_f64 y = true) \/ (ender pt_f64 x = true /\ atom pt_f64 y = true) -> parse pt_f64 ph ts = Err) /\
  (forall (ph : Z) ts x y, adj x y ts ->
     (quiet pt_i64 x = true /\ trig pt_i64 y = true) \/ (ender pt_i64 x = true /\ atom pt_i64 y = true) -> parse pt_i64 ph ts = Err) /\
  (forall (ph : dec) ts x y, adj x y ts ->
     (quiet pt_decimal x = true /\ trig pt_decimal y = true) \/ (ender pt_decimal x = true /\ atom pt_decimal y = true) -> parse pt_decimal ph ts = Err) /\
  (forall (ph : f64 * f64) ts x y, adj x y ts ->
     (quiet pt_complex x = true /\ trig pt_complex y = true) \/ (ender pt_complex x = true /\ atom pt_complex y = true) -> parse pt_complex ph ts = Err) /\
  (forall (ph : number) ts x y, adj x y ts ->
     (quiet pt_number x = true /\ trig pt_number y = true) \/ (ender pt_number x = true /\ atom pt_number y = true) -> parse pt_number ph ts = Err).
Proof.
  repeat split; intros ph ts x y A [[Q Tr]|[En At]];
    first [ eapply quiet_then_trigger_rejected; eauto; vm_compute; reflexivity
          | eapply ender_then_atom_rejected; eauto; vm_compute; reflexivity ].
Qed.
Print Assumptions C12_forbidden_juxtapositions_rejected.

Theorem C12_literal_literal_rejected :
  (forall (ph : f64) ts a b, adj (TNum a) (TNum b) ts -> parse pt_f64 ph ts = Err) /\
  (forall (ph : dec) ts a b, adj (TNum a) (TNum b) ts -> parse pt_decimal ph ts = Err) /\
  (forall (ph : f64 * f64) ts a b, adj (TNum a) (TNum b) ts -> parse pt_complex ph ts = Err) /\
  (forall (ph : number) ts a b, adj (TNum a) (TNum b) ts -> parse pt_number ph ts = Err).
Proof. repeat split; intros ph ts a b A; eapply num_then_num_rejected; eauto. Qed.
Print Assumptions C12_literal_literal_rejected.

(** the witnesses that used to be accepted as products: `.5 .5`, `1.5 .5` as token sequences *)
Example C12_literal_literal_examples :
  forall (ph a b : f64), parse pt_f64 ph [TNum a; TNum b] = Err /\ parse pt_f64 ph [TK KLeftParen; TNum a; TNum b; TK KRightParen] = Err /\
                         parse pt_f64 ph [TNum a; TK KLeftParen; TNum b; TK KRightParen] = Ok (NBin BMultiply (NNum a) (NNum b)) /\
                         parse pt_f64 ph [TK KLeftParen; TNum a; TK KRightParen; TNum b] = Ok (NBin BMultiply (NNum a) (NNum b)).
Proof. intros. repeat split; vm_compute; reflexivity. Qed.

(** ... and through the public entry points: an input whose token sequence has two literal tokens in a row is an error of the call *)
Theorem C12_literal_literal_public :
  (forall (L : libm) s p ts a b, tokens_of lt_f64 conv_f64 s = Some ts -> adj (TNum a) (TNum b) ts -> run_f64 L s p = Err) /\
  (forall (L : libm) s p ts a b, tokens_of lt_number conv_num s = Some ts -> adj (TNum a) (TNum b) ts -> run_num L s p = Err) /\
  (forall (C : cpxlib) s p ts a b, tokens_of lt_complex conv_cpx s = Some ts -> adj (TNum a) (TNum b) ts -> run_cpx C s p = Err) /\
  (forall (D : declib) s p ts a b, tokens_of lt_decimal (conv_dec D) s = Some ts -> adj (TNum a) (TNum b) ts -> run_dec D s p = Err).
Proof.
  repeat split; intros X s p ts a b Et A; unfold run_f64, run_num, run_cpx, run_dec, run, ast_of; rewrite Et;
    (erewrite (num_then_num_rejected _ _ eq_refl ts a b A) || erewrite num_then_num_rejected by eauto); reflexivity.
Qed.
Print Assumptions C12_literal_literal_public.

(** what the four token classes are, on the regenerated tables (eval_f64 shown; the other tables pass the same side conditions) *)
Example C12_token_classes :
  forall v : f64,
    forallb (quiet pt_f64) [TK KAns; TK KPi; TK KE; TK KDegToRad; TK KRadToDeg; TSup v] = true /\
    forallb (trig pt_f64) [TK KLeftParen; TK KLeftFloor; TK KLeftCeiling; TK (KFunc FSin); TK (KFunc FMin); TNum v] = true /\
    forallb (atom pt_f64) [TK KAns; TK KPi; TK KE] = true /\
    forallb (ender pt_f64) [TNum v; TK KRightParen; TK KRightFloor; TK KRightCeiling; TK KAns; TK KPi; TK KDegToRad; TSup v; TK KExclamationMark] = true /\
    forallb (fun t => negb (quiet pt_f64 t)) [TNum v; TK KRightParen; TK KExclamationMark; TK KAdd] = true.
Proof. intros. repeat split; vm_compute; reflexivity. Qed.

(** through the public entry points: whatever the evaluator does afterwards, an input whose token sequence contains a
    forbidden adjacency is an error of the call (generic in the tables; the five instances are the five evaluators) *)
Theorem C12_public_rejection :
  forall V (LT : Lexer.lextab) (conv : Lexer.lit -> option V) (PT : ptab V) (ev : node V -> res V) s p ts x y,
    adj_tab_ok PT = true -> adj_tab_ok2 PT = true -> pt_infix PT KExclamationMark = None -> pt_open PT KExclamationMark = None ->
    tokens_of LT conv s = Some ts -> adj x y ts ->
    (quiet PT x = true /\ trig PT y = true) \/ (ender PT x = true /\ atom PT y = true) ->
    run LT conv PT ev s p = Err.
Proof.
  intros V LT conv PT ev s p ts x y T1 T2 NB NO Et A H. unfold run, ast_of. rewrite Et.
  assert (E : parse PT p ts = Err).
  { destruct H as [[Q Tr]|[En At]]; [eapply quiet_then_trigger_rejected; eauto|eapply ender_then_atom_rejected; eauto]. }
  rewrite E. reflexivity.
Qed.
Print Assumptions C12_public_rejection.
