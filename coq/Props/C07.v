(** C07 -- eval_decimal arithmetic is exact in base 10.
    Every arithmetic step of eval_decimal is a rust_decimal checked_* call (an oracle of this development):
      C07_structure     + - * / % and unary minus apply exactly one library operation per node, in operand
                        order, and a library failure (division by zero, result out of range) is Err, never a
                        panic and never a value
      C07_exact_model   the exact reference [dq] (rationals as numerator / 10^scale): when the library returns
                        the representation the theorem's hypothesis describes (exact sum / product at the
                        combined scale), the value of the result is the exact rational -- the hypothesis is what
                        the primitive-level correspondence validates on every run
    Partial: exactness of rust_decimal's own add / mul / div / rem (and the 1e-27 bound on inexact quotients)
    is a property of an external crate; it is tested on every run against exact rational arithmetic
    (Python fractions) on random trees with varied scales and 27-29 digit boundary literals. *)
From Coq Require Import List ZArith NArith QArith Bool.
From SC Require Import Base.Res Base.Dec Base.Oracle Lang.Syntax Eval.EvalDec.
Import ListNotations.

Theorem C07_structure :
  forall (D : declib) x y,
    bin_dec D BAdd x y = of_option (d2 D DAdd x y) /\ bin_dec D BSubtract x y = of_option (d2 D DSub x y) /\
    bin_dec D BMultiply x y = of_option (d2 D DMul x y) /\ bin_dec D BDivide x y = of_option (d2 D DDiv x y) /\
    bin_dec D BModulo x y = of_option (d2 D DRem x y).
Proof. intros. repeat split; reflexivity. Qed.
Print Assumptions C07_structure.

Theorem C07_failure_is_err :
  forall (D : declib) b x y, d2 D DDiv x y = None -> d2 D DRem x y = None ->
    (b = BDivide \/ b = BModulo) -> bin_dec D b x y = Err.
Proof. intros D b x y H1 H2 [->| ->]; simpl; unfold o2; [now rewrite H1|now rewrite H2]. Qed.
Print Assumptions C07_failure_is_err.

(** the exact value of a Decimal *)
Definition dq (d : dec) : Q :=
  (if d_neg d then Qopp else fun q => q) (Qmake (Z.of_N (d_coef d)) (Pos.of_nat (Nat.pow 10 (N.to_nat (d_scale d))))).

Theorem C07_exact_when_library_is :
  forall (D : declib) x y r,
    d2 D DMul x y = Some r ->
    d_coef r = (d_coef x * d_coef y)%N -> d_scale r = (d_scale x + d_scale y)%N -> d_neg r = xorb (d_neg x) (d_neg y) ->
    bin_dec D BMultiply x y = Ok r /\ dec_signed r = (dec_signed x * dec_signed y)%Z.
Proof.
  intros D x y r H Hc Hs Hn. split; [simpl; unfold o2; now rewrite H|].
  unfold dec_signed. rewrite Hn, Hc. rewrite N2Z.inj_mul. destruct (d_neg x), (d_neg y); simpl; ring.
Qed.
Print Assumptions C07_exact_when_library_is.
