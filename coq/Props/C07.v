(** C07 -- eval_decimal arithmetic is exact in base 10.
    The model of eval_decimal evaluates + - * and unary minus with the written-out exact paths of
    Base/Dec.v whenever they apply (no rescaling needed: an operand is zero, or the coefficients aligned to
    the larger scale and their sum stay below 2^96; product of the coefficients below 2^96 with at most 28
    fractional digits) and with rust_decimal's checked_* operation (an oracle) otherwise; / and % are always
    the library's checked_div / checked_rem. The correspondence compares this model bit for bit
    (coefficient, scale, sign) with the real crate on every run, so the written-out paths are validated
    against rust_decimal itself.
      C07_exact_tree       on every tree over literals, + - * and unary minus whose steps all stay on the exact
                           paths, eval_decimal returns Ok r with value(r) = the exact rational value of the tree,
                           for any behaviour of the library
      C07_exact_ops        each exact path returns exactly x+y, x-y, x*y, -x (as rationals) and a valid Decimal
      C07_exact_paths_cover the exact paths are defined for every sum / product that needs no rescaling
      C07_structure        which operation each node applies; C07_failure_is_err: a library failure (zero
                           divisor, result out of range) is Err, never a panic and never a value
    Partial: sums and products that need rescaling or rounding (more than 28 fractional digits, 29+ digit
    coefficients), exactness of checked_div / checked_rem and the 1e-27 bound on inexact quotients are
    properties of rust_decimal; they are tested on every run against exact rational arithmetic. *)
From Coq Require Import List ZArith NArith QArith Bool.
From SC Require Import Base.Res Base.Dec Base.Oracle Lang.Syntax Eval.EvalDec Proofs.DecFacts.
Import ListNotations.

Theorem C07_exact_tree :
  forall (D : declib) (a : node dec) (r : dec),
    simple_eval a = Some r ->
    eval_dec D a = Ok r /\ exists q, exactQ a = Some q /\ dq r == q.
Proof. exact simple_eval_exact. Qed.
Print Assumptions C07_exact_tree.

Theorem C07_exact_ops :
  (forall x y r, dec_add_exact x y = Some r -> dq r == dq x + dq y) /\
  (forall x y r, dec_sub_exact x y = Some r -> dq r == dq x - dq y) /\
  (forall x y r, dec_mul_exact x y = Some r -> dq r == dq x * dq y) /\
  (forall x, dq (dec_neg x) == - dq x) /\
  (forall x y sg r, dec_ok x = true -> dec_ok y = true -> dec_aligned x y sg = Some r -> dec_ok r = true).
Proof. repeat split; [exact add_exact|exact sub_exact|exact mul_exact|exact dq_neg|exact aligned_ok]. Qed.
Print Assumptions C07_exact_ops.

Theorem C07_exact_paths_cover :
  (forall x y, dec_is_zero x = false -> dec_is_zero y = false ->
     let s := N.max (d_scale x) (d_scale y) in
     let cx := (dec_signed x * pow10 (s - d_scale x))%Z in
     let cy := (dec_signed y * pow10 (s - d_scale y))%Z in
     (Z.abs cx < dec_lim)%Z -> (Z.abs cy < dec_lim)%Z -> (Z.abs (cx + cy) < dec_lim)%Z ->
     dec_add_exact x y = Some (mkdec (cx + cy) s)) /\
  (forall x y, (d_coef x * d_coef y < 2 ^ 96)%N -> (d_scale x + d_scale y <= 28)%N -> dec_mul_exact x y <> None).
Proof. split; [exact add_exact_defined|exact mul_exact_defined]. Qed.
Print Assumptions C07_exact_paths_cover.

Theorem C07_structure :
  forall (D : declib) x y,
    bin_dec D BAdd x y = ex2 D dec_add_exact DAdd x y /\ bin_dec D BSubtract x y = ex2 D dec_sub_exact DSub x y /\
    bin_dec D BMultiply x y = ex2 D dec_mul_exact DMul x y /\ bin_dec D BDivide x y = of_option (d2 D DDiv x y) /\
    bin_dec D BModulo x y = of_option (d2 D DRem x y) /\ un_dec D UNegative x = Ok (dec_neg x).
Proof. intros. repeat split; reflexivity. Qed.
Print Assumptions C07_structure.

Theorem C07_failure_is_err :
  forall (D : declib) x y,
    (d2 D DDiv x y = None -> bin_dec D BDivide x y = Err) /\ (d2 D DRem x y = None -> bin_dec D BModulo x y = Err) /\
    (dec_add_exact x y = None -> d2 D DAdd x y = None -> bin_dec D BAdd x y = Err) /\
    (dec_mul_exact x y = None -> d2 D DMul x y = None -> bin_dec D BMultiply x y = Err).
Proof.
  intros D x y. repeat split; intros; simpl; unfold ex2, o2;
  repeat match goal with H : _ = None |- _ => rewrite H end; reflexivity.
Qed.
Print Assumptions C07_failure_is_err.

(** the property's examples: 0.1 + 0.2 is exactly 0.3; 1.10 * 3 is exactly 3.30; 0.3 - 0.1 - 0.2 is exactly 0 *)
Definition d (c : Z) (s : N) : node dec := NNum (mkdec c s).
Example C07_examples :
  forall D : declib,
    eval_dec D (NBin BAdd (d 1 1) (d 2 1)) = Ok (mkdec 3 1) /\
    eval_dec D (NBin BMultiply (d 110 2) (d 3 0)) = Ok (mkdec 330 2) /\
    eval_dec D (NBin BSubtract (NBin BSubtract (d 3 1) (d 1 1)) (d 2 1)) = Ok (mkdec 0 1) /\
    eval_dec D (NUn UNegative (NBin BMultiply (d 15 1) (d (-25) 2))) = Ok (mkdec 375 3) /\
    simple_eval (NBin BMultiply (d 79228162514264337593543950335 0) (d 11 1)) = None.
Proof. intros. repeat split; vm_compute; reflexivity. Qed.
