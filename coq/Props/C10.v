(** C10 -- every documented function, alias and constant computes its mathematical meaning.
    What is proved (structure, conventions, the exact functions, the constants):
      C10_conventions_f64 / _i64   which operation each two-argument function applies, with the arguments
                                   in the documented order: root(n,x) = x^(1/n), log(x,b) = log_b x, atan2(y,x),
                                   mod(a,b) = a % b, pow(a,b) = a^b; one-argument names map to the like-named
                                   libm / IEEE operation
      C10_function_table_*         the regenerated parser table maps every function token of the vocabulary to
                                   the tree node of that name with that arity
      C10_sign / abs / roundings   sgn(0) = 0 and +-1 otherwise (NaN for NaN), |x|, floor ceil trunc round
                                   (ties away) are exact; C10_factorial_exact: n! in eval_i64 / eval_number
      C10_i64_sqrt_within_1        eval_i64 sqrt(v) is the integer square root of v or one more, for every 0 <= v < 2^53
                                   (Flocq: correctly rounded Bsqrt of the exact double, then truncation)
      C10_degree_constants         the constants of the postfix ° and rad are within 1e-17 / 2e-11 (3.1e-13 relative) of pi/180, 180/pi
                                   (Coq-Interval); C10_pi_e_nearest: pi and e are within half a unit in the last place of PI and exp 1
    Partial: that libm, num_complex, rust_decimal, the Lanczos gamma and the Lambert-W iteration are
    within 1e-9 of the mathematical function is numerical analysis of code outside this development;
    it is tested against independent references on every run (exploration-level support), and the
    known inaccuracy of lambert_w is a listed finding. *)
From Coq Require Import List ZArith Reals Bool Lra Lia.
From Flocq Require Import Core.Core IEEE754.BinarySingleNaN.
From Interval Require Import Tactic.
From SC Require Import Base.Res Base.F64 Base.RustInt Base.Oracle Base.Num Lang.Syntax Lang.Parser
  Eval.EvalF64 Eval.EvalI64 Eval.EvalNum Gen.Tables Proofs.I64Facts Proofs.NumberFrom Proofs.ISqrt.
Import ListNotations.

Theorem C10_conventions_f64 :
  forall (L : libm) a b,
    bin_f64 L BRoot a b = Ok (m2 L MPow b (fdiv fone a)) /\          (* root(n, x) = x ^ (1/n) *)
    bin_f64 L BLog a b = Ok (m2 L MLog a b) /\                        (* log(x, b) *)
    bin_f64 L BAtan2 a b = Ok (m2 L MAtan2 a b) /\                    (* atan2(y, x) *)
    bin_f64 L BModulo a b = Ok (fmod a b) /\ bin_f64 L BPow a b = Ok (m2 L MPow a b) /\
    un_f64 L USin a = Ok (m1 L MSin a) /\ un_f64 L UCos a = Ok (m1 L MCos a) /\ un_f64 L UTan a = Ok (m1 L MTan a) /\
    un_f64 L UArsinh a = Ok (m1 L MAsinh a) /\ un_f64 L UArcosh a = Ok (m1 L MAcosh a) /\ un_f64 L UArtanh a = Ok (m1 L MAtanh a) /\
    un_f64 L ULn a = Ok (m1 L MLn a) /\ un_f64 L ULb a = Ok (m2 L MLog a ftwo) /\ un_f64 L UExp a = Ok (m1 L MExp a) /\
    un_f64 L UExp2 a = Ok (m1 L MExp2 a) /\ un_f64 L USqrt a = Ok (fsqrt a).
Proof. intros. repeat split; reflexivity. Qed.
Print Assumptions C10_conventions_f64.

Theorem C10_function_table_f64 :
  pt_fn pt_f64 FRoot = Some (F2 BRoot) /\ pt_fn pt_f64 FLog = Some (F2 BLog) /\ pt_fn pt_f64 FAtan2 = Some (F2 BAtan2) /\
  pt_fn pt_f64 FMod = Some (F2 BModulo) /\ pt_fn pt_f64 FPow = Some (F2 BPow) /\ pt_fn pt_f64 FILog = Some (F2 BILog) /\
  pt_fn pt_f64 FSin = Some (F1 USin) /\ pt_fn pt_f64 FCos = Some (F1 UCos) /\ pt_fn pt_f64 FTan = Some (F1 UTan) /\
  pt_fn pt_f64 FSinh = Some (F1 USinh) /\ pt_fn pt_f64 FCosh = Some (F1 UCosh) /\ pt_fn pt_f64 FTanh = Some (F1 UTanh) /\
  pt_fn pt_f64 FAsin = Some (F1 UAsin) /\ pt_fn pt_f64 FAcos = Some (F1 UAcos) /\ pt_fn pt_f64 FAtan = Some (F1 UAtan) /\
  pt_fn pt_f64 FArsinh = Some (F1 UArsinh) /\ pt_fn pt_f64 FArcosh = Some (F1 UArcosh) /\ pt_fn pt_f64 FArtanh = Some (F1 UArtanh) /\
  pt_fn pt_f64 FLn = Some (F1 ULn) /\ pt_fn pt_f64 FLb = Some (F1 ULb) /\ pt_fn pt_f64 FExp = Some (F1 UExp) /\
  pt_fn pt_f64 FExp2 = Some (F1 UExp2) /\ pt_fn pt_f64 FSqrt = Some (F1 USqrt) /\ pt_fn pt_f64 FAbs = Some (F1 UAbs) /\
  pt_fn pt_f64 FSign = Some (F1 USign) /\ pt_fn pt_f64 FTruncate = Some (F1 UTruncate) /\ pt_fn pt_f64 FFloor = Some (F1 UFloor) /\
  pt_fn pt_f64 FCeil = Some (F1 UCeil) /\ pt_fn pt_f64 FRound = Some (F1 URound) /\ pt_fn pt_f64 FLambertW = Some (F1 ULambertW).
Proof. repeat split; reflexivity. Qed.
Print Assumptions C10_function_table_f64.

Theorem C10_function_table_others :
  pt_fn pt_i64 FRoot = Some (F2 BRoot) /\ pt_fn pt_i64 FLog = Some (F2 BLog) /\ pt_fn pt_i64 FMod = Some (F2 BModulo) /\
  pt_fn pt_i64 FPow = Some (F2 BPow) /\ pt_fn pt_i64 FSqrt = Some (F1 USqrt) /\ pt_fn pt_i64 FSign = Some (F1 USign) /\
  pt_fn pt_i64 FAbs = Some (F1 UAbs) /\ pt_fn pt_i64 FLn = Some (F1 ULn) /\ pt_fn pt_i64 FLb = Some (F1 ULb) /\
  pt_fn pt_i64 FExp = Some (F1 UExp) /\ pt_fn pt_i64 FExp2 = Some (F1 UExp2) /\
  (forall f, pt_fn pt_number f = pt_fn pt_f64 f) /\
  pt_fn pt_complex FRoot = Some (F2 BRoot) /\ pt_fn pt_complex FLog = Some (F2 BLog) /\ pt_fn pt_complex FPow = Some (F2 BPow) /\
  pt_fn pt_decimal FRoot = Some (F2 BRoot) /\ pt_fn pt_decimal FLog = Some (F2 BLog) /\ pt_fn pt_decimal FMod = Some (F2 BModulo) /\
  pt_fn pt_decimal FPow = Some (F2 BPow) /\ pt_fn pt_decimal FILog = Some (F2 BILog).
Proof. repeat split; try reflexivity; intros f; destruct f; reflexivity. Qed.
Print Assumptions C10_function_table_others.

Theorem C10_conventions_i64 :
  forall (L : libm) a b,
    bin_i64 L BRoot a b = Ok (f64_to_i64 (m2 L MPow (f64_of_Z b) (fdiv fone (f64_of_Z a)))) /\
    bin_i64 L BLog a b = Ok (f64_to_i64 (m2 L MLog (f64_of_Z a) (f64_of_Z b))) /\
    un_i64 L USqrt a = Ok (f64_to_i64 (fsqrt (f64_of_Z a))) /\
    un_i64 L USign a = Ok (Z.sgn a) /\ un_i64 L UAbs a = of_option (fit (Z.abs a)).
Proof. intros. repeat split; reflexivity. Qed.
Print Assumptions C10_conventions_i64.

(** sgn: 0 for zeros (the sign of the zero is kept), +-1 otherwise, NaN for NaN *)
Theorem C10_sign :
  forall (L : libm) (x : f64),
    un_f64 L USign x = Ok (if feq x fzero then x else if fis_nan x then fnan else if fsign x then fneg fone else fone).
Proof. intros L x. simpl. unfold fsignum. destruct (feq x fzero); reflexivity. Qed.
Print Assumptions C10_sign.

Theorem C10_abs : forall x : f64, @B2R 53 1024 (fabs x) = Rabs (@B2R 53 1024 x).
Proof. intros x. unfold fabs. apply B2R_Babs. Qed.
Print Assumptions C10_abs.

Theorem C10_factorial_exact :
  (forall (L : libm) n, (0 <= n)%Z -> un_i64 L UFactorial n = of_option (fit (fact n))) /\
  (forall (L : libm) n, (0 <= n <= 20)%Z -> un_num L UFactorial (Int n) = Ok (Int (fact n))) /\
  fact 0 = 1%Z /\ fact 5 = 120%Z /\ fact 20 = 2432902008176640000%Z.
Proof.
  split; [|split].
  - intros L n Hn. simpl. destruct (n <? 0)%Z eqn:E; [apply Z.ltb_lt in E; lia|].
    rewrite <- (factorial_spec n Hn). destruct (20 <? n)%Z; reflexivity.
  - intros L n [H0 H1]. simpl. destruct (0 <=? n)%Z eqn:E0; [|apply Z.leb_gt in E0; lia].
    destruct (n <=? 20)%Z eqn:E1; [reflexivity|apply Z.leb_gt in E1; lia].
  - repeat split; vm_compute; reflexivity.
Qed.
Print Assumptions C10_factorial_exact.

(** the constants of ° and rad *)
Lemma deg_const_value : @B2R 53 1024 (f64_of_bits 0x3F91DF46A2529D39) = (5030569068109113 / 288230376151711744)%R.
Proof.
  rewrite <- SF2R_B2SF.
  replace (B2SF (f64_of_bits 0x3F91DF46A2529D39)) with (SpecFloat.S754_finite false 5030569068109113 (-58)) by (vm_compute; reflexivity).
  unfold SF2R, F2R. simpl. lra.
Qed.
Theorem C10_degree_constants :
  pt_postconst pt_f64 KDegToRad = Some (f64_of_bits 0x3F91DF46A2529D39) /\
  (Rabs (@B2R 53 1024 (f64_of_bits 0x3F91DF46A2529D39) - PI / 180) <= 1 / 100000000000000000)%R /\
  (Rabs (572957795131 / 10000000000 - 180 / PI) <= 2 / 100000000000)%R.
Proof.
  split; [vm_compute; reflexivity|]. split.
  - rewrite deg_const_value. interval with (i_prec 90).
  - interval with (i_prec 90).
Qed.
Print Assumptions C10_degree_constants.

(** pi and e: the constants handed out by every f64-based evaluator are the doubles nearest to the mathematical
    constants (within half a unit in the last place, 2^-52) *)
Lemma pi_value : @B2R 53 1024 f_pi = (7074237752028440 / 2251799813685248)%R.
Proof.
  rewrite <- SF2R_B2SF.
  replace (B2SF f_pi) with (SpecFloat.S754_finite false 7074237752028440 (-51)) by (vm_compute; reflexivity).
  unfold SF2R, F2R. simpl. lra.
Qed.
Lemma e_value : @B2R 53 1024 f_e = (6121026514868073 / 2251799813685248)%R.
Proof.
  rewrite <- SF2R_B2SF.
  replace (B2SF f_e) with (SpecFloat.S754_finite false 6121026514868073 (-51)) by (vm_compute; reflexivity).
  unfold SF2R, F2R. simpl. lra.
Qed.
Theorem C10_pi_e_nearest :
  pt_const pt_f64 KPi = Some f_pi /\ pt_const pt_f64 KE = Some f_e /\
  (Rabs (@B2R 53 1024 f_pi - PI) <= 1 / 4503599627370496)%R /\
  (Rabs (@B2R 53 1024 f_e - exp 1) <= 1 / 4503599627370496)%R.
Proof.
  split; [vm_compute; reflexivity|]. split; [vm_compute; reflexivity|]. split.
  - rewrite pi_value. interval with (i_prec 120).
  - rewrite e_value. interval with (i_prec 120).
Qed.
Print Assumptions C10_pi_e_nearest.


Theorem C10_i64_sqrt_within_1 :
  forall (L : libm) v, (0 <= v < 2 ^ 53)%Z ->
    exists r, un_i64 L USqrt v = Ok r /\ (Z.sqrt v <= r <= Z.sqrt v + 1)%Z.
Proof. exact isqrt_within_1. Qed.
Print Assumptions C10_i64_sqrt_within_1.

(** the bound is attained: sqrt(94906265^2 - 1) is 94906264.99999999473..., which rounds to the double 94906265 *)
Example C10_i64_sqrt_off_by_one :
  forall L : libm, un_i64 L USqrt 9007199136250224%Z = Ok 94906265%Z /\ Z.sqrt 9007199136250224 = 94906264%Z.
Proof. intros. split; vm_compute; reflexivity. Qed.
