(** C11 -- aggregates return the true aggregate for any arity and argument order.
      C11_arguments          an aggregate is evaluated on the values of ALL its arguments; the first argument
                             that fails makes the aggregate fail (no panic: C01)
      C11_empty              avg() is the literal 0; every other aggregate with no argument is not well-formed
      C11_i64_order          eval_i64 min / max / avg / med / gcd / lcm do not depend on the order of the arguments
      C11_i64_min / max / gcd / lcm / avg_med
                             min / max are the least / greatest argument; gcd and lcm are Z.gcd / Z.lcm folded over the
                             magnitudes (Err exactly when the value does not fit i64; lcm with a zero argument is 0), for every
                             arity >= 1; avg and the even-count med are the truncated quotients; med is the middle of the sorted vector
      C11_sorting            the insertion sort of the models returns a sorted permutation of its input and
                             depends only on the multiset of keys
      C11_f64_med_order      eval_f64 med / median does not depend on the order of the arguments (any values, NaN
                             included; any libm): the total_cmp key is injective
      C11_f64_med_member     without NaN and for an odd count the median is one of the arguments
      C11_f64_med_sorted     without NaN the vector that med indexes (middle element, or mean of the two middle ones) is a
                             permutation of the arguments sorted by numeric value: the total_cmp key orders the doubles
                             numerically (smaller key => smaller or equal value, -0.0 before +0.0; infinities included)
      C11_f64_avg            avg is the left-to-right IEEE sum divided by the count (order matters only through
                             rounding, as the property allows)
      C11_number_min_max     eval_number min / max over finite arguments (Integers and Floats mixed): the result is one
                             of the arguments and is <= / >= every argument as a real number (the mixed comparison
                             is exact: C09_mixed_comparison_exact); its VALUE does not depend on the argument order
      C11_number_med         eval_number's sort is a permutation sorted by real value whose values depend only on the
                             multiset of arguments; for an odd count the VALUE of med does not depend on the order *)
From Coq Require Import List ZArith Reals Bool Permutation Sorting.Sorted.
From SC Require Import Base.Res Base.RustInt Base.F64 Base.Oracle Lang.Syntax Lang.Parser Eval.Common Eval.EvalI64 Eval.EvalF64 Gen.Tables
  Spec.Surface Proofs.NoPanic Proofs.AggFacts Proofs.KeyOrder Proofs.AggF64 Proofs.NumCompare Eval.EvalNum Base.Num.
Import ListNotations.
Local Open Scope Z_scope.

Theorem C11_arguments :
  forall V R (ev : node V -> res R) args vs, go_args ev args = Ok vs -> Forall2 (fun a v => ev a = Ok v) args vs.
Proof. intros. now apply go_args_ok. Qed.
Print Assumptions C11_arguments.

Theorem C11_failing_argument :
  forall V R (ev : node V -> res R) pre x post vs,
    go_args ev pre = Ok vs -> ev x = Err -> go_args ev (pre ++ x :: post) = Err.
Proof. intros. eapply go_args_err; eauto. Qed.
Print Assumptions C11_failing_argument.

Theorem C11_empty :
  forall ph : Z,
    desugar pt_i64 ph (SCallN FAvg []) = NNum 0 /\
    ~ W pt_i64 0 (SCallN FMin []) /\ ~ W pt_i64 0 (SCallN FMax []) /\ ~ W pt_i64 0 (SCallN FMed []) /\
    ~ W pt_i64 0 (SCallN FGcd []) /\ ~ W pt_i64 0 (SCallN FLcm []) /\ W pt_i64 0 (SCallN FAvg []).
Proof.
  intros ph. split; [reflexivity|].
  repeat split; try (intros ((g & ez & Hf & Hez) & _); simpl in Hf; inversion Hf; subst; specialize (Hez eq_refl); discriminate).
  - eexists _, _. split; [reflexivity|reflexivity].
  - intros x xs H; discriminate.
Qed.
Print Assumptions C11_empty.

Theorem C11_i64_order :
  forall g vs vs', Forall (fun v => in_i64 v = true) vs -> Permutation vs vs' ->
    agg_i64 g vs = agg_i64 g vs'.
Proof.
  intros g vs vs' Hr P. destruct g;
    try (apply agg_i64_perm; [discriminate|discriminate|assumption]).
  - now apply agg_gcd_perm.
  - now apply agg_lcm_perm.
Qed.
Print Assumptions C11_i64_order.

Theorem C11_i64_min :
  forall vs r, Forall (fun v => in_i64 v = true) vs -> vs <> [] ->
    agg_i64 AMin vs = Ok r -> In r vs /\ Forall (fun v => r <= v) vs.
Proof. exact agg_min_value. Qed.
Print Assumptions C11_i64_min.

Theorem C11_i64_max :
  forall vs r, Forall (fun v => in_i64 v = true) vs -> vs <> [] ->
    agg_i64 AMax vs = Ok r -> In r vs /\ Forall (fun v => v <= r) vs.
Proof. exact agg_max_value. Qed.
Print Assumptions C11_i64_max.

(** avg is the sum divided by the count, med of an even count the mean of the two middle values: both truncated toward zero *)
Theorem C11_i64_avg_med :
  (forall v vs, agg_i64 AAvg (v :: vs) = Ok (Z.quot (fold_left Z.add (v :: vs) 0) (Z.of_nat (length (v :: vs))))) /\
  (forall vs, vs <> [] -> Nat.even (length vs) = true ->
     agg_i64 AMed vs = (let* a := index (sortZ vs) (Nat.div2 (length vs)) in
                        let* b := index (sortZ vs) (Nat.div2 (length vs) - 1) in Ok (Z.quot (a + b) 2))) /\
  (forall vs, Nat.even (length vs) = false -> agg_i64 AMed vs = index (sortZ vs) (Nat.div2 (length vs))).
Proof.
  split; [reflexivity|]. split.
  - intros vs Hne He. unfold agg_i64. rewrite He. destruct vs; [congruence|reflexivity].
  - intros vs He. unfold agg_i64. now rewrite He.
Qed.
Print Assumptions C11_i64_avg_med.

Theorem C11_i64_lcm :
  forall vs, Forall (fun v => in_i64 v = true) vs ->
    agg_i64 ALcm vs = if existsb (Z.eqb 0) (map Z.abs vs) then Ok 0 else of_option (fit (list_lcm vs)).
Proof. exact agg_lcm_value. Qed.
Print Assumptions C11_i64_lcm.

Theorem C11_i64_gcd :
  forall vs, Forall (fun v => in_i64 v = true) vs -> agg_i64 AGcd vs = of_option (fit (list_gcd vs)).
Proof. exact agg_gcd_value. Qed.
Print Assumptions C11_i64_gcd.

Theorem C11_sorting :
  (forall l, StronglySorted Z.le (sortZ l)) /\ (forall l, Permutation l (sortZ l)) /\
  (forall l l', Permutation l l' -> sortZ l = sortZ l').
Proof.
  split; [exact sortZ_sorted|]. split; [exact sortZ_perm|].
  intros l l' P. apply (isort_perm (fun z => z)); auto.
Qed.
Print Assumptions C11_sorting.

Theorem C11_f64_med_order :
  forall (L : libm) vs vs', Permutation vs vs' -> agg_f64 L AMed vs = agg_f64 L AMed vs'.
Proof. exact agg_f64_med_perm. Qed.
Print Assumptions C11_f64_med_order.

Theorem C11_f64_med_member :
  forall (L : libm) vs r, existsb fis_nan vs = false -> Nat.even (length vs) = false ->
    agg_f64 L AMed vs = Ok r -> In r vs.
Proof. exact agg_f64_med_odd. Qed.
Print Assumptions C11_f64_med_member.

Theorem C11_f64_med_sorted :
  (forall vs, existsb fis_nan vs = false -> Permutation vs (sortF vs) /\ StronglySorted num_le (sortF vs)) /\
  (forall x y : f64, x <> Flocq.IEEE754.BinarySingleNaN.B754_nan -> y <> Flocq.IEEE754.BinarySingleNaN.B754_nan ->
     (total_key x <= total_key y)%Z -> num_le x y) /\
  (forall x y : f64, Flocq.IEEE754.BinarySingleNaN.Bcompare x y = Some Lt -> (total_key x < total_key y)%Z) /\
  (forall (L : libm) vs, existsb fis_nan vs = false -> Nat.even (length vs) = false ->
     agg_f64 L AMed vs = index (sortF vs) (Nat.div2 (length vs))).
Proof.
  split; [exact sortF_spec|]. split; [exact key_le_num|]. split; [exact num_lt_key|].
  intros L vs Hn He. unfold agg_f64. now rewrite Hn, He.
Qed.
Print Assumptions C11_f64_med_sorted.

Theorem C11_f64_avg :
  forall (L : libm) vs, agg_f64 L AAvg vs = Ok (fdiv (fold_left fadd vs fzero) (f64_of_Z (Z.of_nat (length vs)))).
Proof. exact agg_f64_avg_def. Qed.
Print Assumptions C11_f64_avg.

Theorem C11_number_min_max :
  forall vs r, nfin_all vs -> vs <> [] ->
    (agg_num AMin vs = Ok r -> In r vs /\ Forall (fun v => (nval r <= nval v)%R) vs) /\
    (agg_num AMax vs = Ok r -> In r vs /\ Forall (fun v => (nval v <= nval r)%R) vs).
Proof. intros vs r HF Hne. split; [now apply agg_num_min|now apply agg_num_max]. Qed.
Print Assumptions C11_number_min_max.

Theorem C11_number_min_max_order :
  forall g vs vs' r r', g = AMin \/ g = AMax -> nfin_all vs -> vs <> [] -> Permutation vs vs' ->
    agg_num g vs = Ok r -> agg_num g vs' = Ok r' -> nval r = nval r'.
Proof. exact agg_num_minmax_perm. Qed.
Print Assumptions C11_number_min_max_order.

Theorem C11_number_med :
  (forall l, Permutation l (sortN l)) /\
  (forall l, nfin_all l -> StronglySorted (fun a b => (nval a <= nval b)%R) (sortN l)) /\
  (forall l l', nfin_all l -> Permutation l l' -> map nval (sortN l) = map nval (sortN l')) /\
  (forall vs vs' r r', nfin_all vs -> Permutation vs vs' -> Nat.even (length vs) = false ->
     agg_num AMed vs = Ok r -> agg_num AMed vs' = Ok r' -> nval r = nval r').
Proof.
  split; [exact sortN_perm|]. split; [exact sortN_sorted|]. split; [exact sortN_values_perm|exact agg_num_med_odd_perm].
Qed.
Print Assumptions C11_number_med.

Example C11_examples :
  agg_i64 AMin [3; -1; 2] = Ok (-1) /\ agg_i64 AMax [3; -1; 2] = Ok 3 /\ agg_i64 AAvg [7; -2] = Ok 2 /\
  agg_i64 AMed [5; 2; 8; 9] = Ok 6 /\ agg_i64 AMed [5; 2; 8; 9; 7] = Ok 7 /\
  agg_i64 AGcd [12; -18; 27] = Ok 3 /\ agg_i64 ALcm [4; 6] = Ok 12 /\ agg_i64 ALcm [4; 0; 6] = Ok 0 /\
  agg_i64 AGcd [- 2 ^ 63] = Err /\ agg_i64 AMed [2 ^ 63 - 1; 2 ^ 63 - 1] = Ok (2 ^ 63 - 1).
Proof. repeat split; vm_compute; reflexivity. Qed.
