(** C06 -- eval_i64 returns the exact integer result or Err, never a wrapped value.
    [denoteZ] evaluates the tree in unbounded Z with Z.quot / Z.rem (truncation, sign of the dividend),
    Z.land / Z.lor (two's complement), x * 2^y and floor (x / 2^y) for shifts by 0..63, x ^ y for
    exponents 0..4294967295, n! -- and checks after every step that the result lies in
    [-2^63, 2^63 - 1]. The model of eval_i64 agrees with it on every tree over the property's
    operators: Ok v exactly when every intermediate fits, Err otherwise.
    The model has no overflow-checks parameter at all: the repaired code uses no operation whose
    behaviour depends on the build profile, so "identical in debug and release" is carried by the
    correspondence (both builds are compared with this one model on every case). *)
From Coq Require Import List ZArith Bool.
From SC Require Import Base.Res Base.RustInt Base.Oracle Lang.Syntax Lang.Literal Eval.EvalI64 Eval.Run Gen.Tables
  Spec.Surface Proofs.I64Facts Proofs.GcdFacts Proofs.Top Proofs.I64Range.
Import ListNotations.
Local Open Scope Z_scope.

Theorem C06_exact_or_err :
  forall (L : libm) a, scope a = true -> eval_i64 L a = of_option (denoteZ a).
Proof. exact eval_i64_exact. Qed.
Print Assumptions C06_exact_or_err.

(** every value of the reference semantics (hence every Ok result of eval_i64 on an in-scope tree, and every
    intermediate) lies in [-2^63, 2^63 - 1]: & | % >> cannot leave the range, all other steps are range-checked *)
Theorem C06_results_in_range :
  (forall a v, scope a = true -> denoteZ a = Some v -> in_i64 v = true) /\
  (forall x y, in_i64 x = true -> in_i64 y = true -> in_i64 (Z.land x y) = true /\ in_i64 (Z.lor x y) = true) /\
  (forall x y, in_i64 y = true -> y <> 0 -> in_i64 (Z.rem x y) = true) /\
  (forall x c, in_i64 x = true -> 0 <= c -> in_i64 (x / 2 ^ c) = true).
Proof.
  split; [exact denoteZ_range|]. split; [intros; split; [now apply land_range|now apply lor_range]|].
  split; [exact rem_range|exact shr_range].
Qed.
Print Assumptions C06_results_in_range.

(** through the public entry point: a well-formed expression over the property's operators *)
Theorem C06_public :
  forall (L : libm) s p sx,
    W pt_i64 0 sx -> tokens_of lt_i64 conv_i64 s = Some (print pt_i64 sx) ->
    scope (desugar pt_i64 p sx) = true ->
    run_i64 L s p = of_option (denoteZ (desugar pt_i64 p sx)).
Proof.
  intros L s p sx Ws Et Sc. unfold run_i64. rewrite (wellformed_evaluates lt_i64 conv_i64 pt_i64 (eval_i64 L) eq_refl eq_refl s p sx Ws Et).
  now apply eval_i64_exact.
Qed.
Print Assumptions C06_public.

(** the bridges that are not definitional *)
Theorem C06_checked_pow_is_exact : forall a e, 0 <= e -> checked_pow a e = fit (a ^ e).
Proof. exact checked_pow_spec. Qed.
Print Assumptions C06_checked_pow_is_exact.
Theorem C06_factorial_is_exact : forall n, 0 <= n -> (if 20 <? n then None else Some (fact n)) = fit (fact n).
Proof. exact factorial_spec. Qed.
Print Assumptions C06_factorial_is_exact.
Theorem C06_shift_right_is_floor : forall a c, 0 <= c -> shr a c = a / 2 ^ c.
Proof. exact shr_spec. Qed.
Print Assumptions C06_shift_right_is_floor.

(** literals: exactly the integer, or a lexing error when it does not fit *)
Theorem C06_literal :
  forall ds z, parse_i64 ds = Some z -> z = Z.of_N (digits_val 0%N ds) /\ 0 <= z <= 2 ^ 63 - 1.
Proof.
  intros ds z. unfold parse_i64. destruct ds as [|d ds']; [discriminate|].
  destruct (forallb Lexer.is_digit (d :: ds')); [|discriminate].
  destruct (Z.of_N (digits_val 0%N (d :: ds')) <=? i64_max) eqn:E; [|discriminate].
  intros H; inversion H; subst. apply Z.leb_le in E. unfold i64_max in E. split; [reflexivity|]. split; [apply N2Z.is_nonneg|exact E].
Qed.
Print Assumptions C06_literal.

(** non-vacuity: in-scope trees exist on both sides *)
Example C06_examples :
  forall L : libm,
    eval_i64 L (NBin BMultiply (NBin BPow (NNum 2) (NNum 62)) (NNum 2)) = Err /\
    eval_i64 L (NBin BDivide (NNum 7) (NUn UNegative (NNum 2))) = Ok (-3) /\
    eval_i64 L (NBin BModulo (NUn UNegative (NNum 7)) (NNum 3)) = Ok (-1) /\
    eval_i64 L (NBin BRightShift (NUn UNegative (NNum 7)) (NNum 1)) = Ok (-4) /\
    eval_i64 L (NBin BLeftShift (NNum 1) (NNum 63)) = Err /\
    eval_i64 L (NBin BPow (NNum 3) (NNum 4294967296)) = Err /\
    eval_i64 L (NUn UFactorial (NNum 21)) = Err.
Proof. intros. repeat split; vm_compute; reflexivity. Qed.
