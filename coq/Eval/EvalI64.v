(** Model of src/eval_i64/ast.rs::eval (repaired tree). *)
From Coq Require Import List ZArith Bool.
From SC Require Import Base.Res Base.F64 Base.RustInt Base.Oracle Lang.Syntax Eval.Common.
Import ListNotations.
Local Open Scope Z_scope.

Section EvalI64.
  Variable L : libm.

  Definition as_f (z : Z) : f64 := f64_of_Z z.

  Definition un_i64 (u : unop) (v : Z) : res Z :=
    match u with
    | UNegative => of_option (checked_neg v)
    | UFactorial => if v <? 0 then Ok 0 else if 20 <? v then Err else Ok (fact v)
    | UAbs => of_option (checked_abs v)
    | USqrt => Ok (f64_to_i64 (fsqrt (as_f v)))
    | ULn => Ok (f64_to_i64 (m1 L MLn (as_f v)))
    | ULb => Ok (f64_to_i64 (m2 L MLog (as_f v) ftwo))
    | UExp => Ok (f64_to_i64 (m1 L MExp (as_f v)))
    | UExp2 => if v <? 0 then Ok 0 else if 63 <=? v then Err else Ok (2 ^ v)
    | USign => Ok (signum v)
    | _ => Err
    end.

  Definition shift_ok (c : Z) : bool := (0 <=? c) && (c <=? 63).

  Definition bin_i64 (b : binop) (x y : Z) : res Z :=
    match b with
    | BAnd => Ok (Z.land x y)
    | BOr => Ok (Z.lor x y)
    | BLeftShift => if shift_ok y then of_option (shl_fit x y) else Err
    | BRightShift => if shift_ok y then Ok (shr x y) else Err
    | BAdd => of_option (checked_add x y)
    | BSubtract => of_option (checked_sub x y)
    | BMultiply => of_option (checked_mul x y)
    | BDivide => of_option (checked_div x y)
    | BModulo => if y =? 0 then Err else Ok (wrapping_rem x y)
    | BPow => if (0 <=? y) && (y <=? u32_max) then of_option (checked_pow x y) else Err
    | BRoot => Ok (f64_to_i64 (m2 L MPow (as_f y) (fdiv fone (as_f x))))   (* Root(n, x) = x^(1/n) *)
    | BLog => Ok (f64_to_i64 (m2 L MLog (as_f x) (as_f y)))
    | _ => Err
    end.

  Definition sortZ : list Z -> list Z := isort (fun z => z).

  Definition agg_i64 (g : aggop) (vs : list Z) : res Z :=
    let len := length vs in
    match g with
    | AMin => if (1 <? len)%nat then Ok (fold_left (fun acc v => Z.min v acc) vs i64_max)
              else match vs with v :: _ => Ok v | [] => Ok 0 end
    | AMax => if (1 <? len)%nat then Ok (fold_left (fun acc v => Z.max v acc) vs i64_min)
              else match vs with v :: _ => Ok v | [] => Ok 0 end
    | AAvg => match vs with
              | [] => Panic                                   (* i128 division by zero *)
              | _ => Ok (Z.quot (fold_left Z.add vs 0) (Z.of_nat len))
              end
    | AMed => let s := sortZ vs in
              if Nat.even len then
                let* a := index s (Nat.div2 len) in
                let* b := index s (Nat.div2 len - 1) in      (* usize underflow -> index panic *)
                match vs with [] => Panic | _ => Ok (Z.quot (a + b) 2) end
              else index s (Nat.div2 len)
    | AGcd => let* r := rfold ugcd 0 (map Z.abs vs) in of_option (fit r)
    | ALcm => let ms := map Z.abs vs in
              if existsb (Z.eqb 0) ms then Ok 0
              else let* r := rfold ulcm 1 ms in of_option (fit r)
    end.

  Fixpoint eval_i64 (a : node Z) : res Z :=
    match a with
    | NNum v => Ok v
    | NUn u x => let* v := eval_i64 x in un_i64 u v
    | NBin b x y => let* v := eval_i64 x in let* w := eval_i64 y in bin_i64 b v w
    | NAgg g args =>
        let* vs := (fix go (l : list (node Z)) : res (list Z) :=
                      match l with
                      | [] => Ok []
                      | x :: xs => let* v := eval_i64 x in let* vs := go xs in Ok (v :: vs)
                      end) args in
        agg_i64 g vs
    end.
End EvalI64.
