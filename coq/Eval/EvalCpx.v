(** Model of src/eval_complex/ast.rs::eval. + - * and unary minus are the component formulas of
    num_complex over IEEE operations; everything else is an oracle of num_complex. *)
From Coq Require Import List ZArith Bool.
From SC Require Import Base.Res Base.F64 Base.Oracle Lang.Syntax Eval.Common.
Import ListNotations.

Section EvalCpx.
  Variable C : cpxlib.

  Definition cadd (a b : cpx) : cpx := (fadd (fst a) (fst b), fadd (snd a) (snd b)).
  Definition csub (a b : cpx) : cpx := (fsub (fst a) (fst b), fsub (snd a) (snd b)).
  Definition cmul (a b : cpx) : cpx :=
    (fsub (fmul (fst a) (fst b)) (fmul (snd a) (snd b)),
     fadd (fmul (fst a) (snd b)) (fmul (snd a) (fst b))).
  Definition cneg (a : cpx) : cpx := (fneg (fst a), fneg (snd a)).

  Definition un_cpx (u : unop) (v : cpx) : res cpx :=
    match u with
    | UNegative => Ok (cneg v)
    | UAbs => Ok (c1 C CAbs v)
    | USin => Ok (c1 C CSin v) | UCos => Ok (c1 C CCos v) | UTan => Ok (c1 C CTan v)
    | USinh => Ok (c1 C CSinh v) | UCosh => Ok (c1 C CCosh v) | UTanh => Ok (c1 C CTanh v)
    | UAsin => Ok (c1 C CAsin v) | UAcos => Ok (c1 C CAcos v) | UAtan => Ok (c1 C CAtan v)
    | UArsinh => Ok (c1 C CAsinh v) | UArcosh => Ok (c1 C CAcosh v) | UArtanh => Ok (c1 C CAtanh v)
    | USqrt => Ok (c1 C CSqrt v)
    | ULn => Ok (c1 C CLn v)
    | ULb => Ok (c1 C CLb v)
    | UExp => Ok (c1 C CExp v)
    | UExp2 => Ok (c1 C CExp2 v)
    | _ => Err
    end.

  Definition bin_cpx (b : binop) (x y : cpx) : res cpx :=
    match b with
    | BAdd => Ok (cadd x y)
    | BSubtract => Ok (csub x y)
    | BMultiply => Ok (cmul x y)
    | BDivide => Ok (c2 C CDiv x y)
    | BPow => Ok (c2 C CPowc x y)
    | BRoot => Ok (c2 C CPowc y (c1 C CInv1 x))            (* Root(n, x) = x.powc(1.0 / n) *)
    | BLog => Ok (c2 C CDiv (c1 C CLn x) (c1 C CLn y))
    | _ => Err
    end.

  Fixpoint eval_cpx (a : node cpx) : res cpx :=
    match a with
    | NNum v => Ok v
    | NUn u x => let* v := eval_cpx x in un_cpx u v
    | NBin b x y => let* v := eval_cpx x in let* w := eval_cpx y in bin_cpx b v w
    | NAgg _ _ => Err
    end.
End EvalCpx.
