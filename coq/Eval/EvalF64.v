(** Model of src/eval_f64/ast.rs::eval (repaired tree). IEEE operations are Flocq's; everything
    that goes through libm is a field of the oracle record [L]. *)
From Coq Require Import List ZArith NArith Bool.
From SC Require Import Base.Res Base.F64 Base.Oracle Lang.Syntax Eval.Common.
Import ListNotations.
Local Open Scope Z_scope.

(** decimal constant m * 10^-k as the nearest double (how rustc reads a float literal) *)
Definition dlit (m : Z) (k : N) : f64 :=
  match m with
  | Z0 => fzero
  | Zpos p => f64_of_decimal (Npos p) k
  | Zneg p => fneg (f64_of_decimal (Npos p) k)
  end.

Definition f_pi : f64 := f64_of_bits 0x400921FB54442D18.   (* std::f64::consts::PI *)
Definition f_e : f64 := f64_of_bits 0x4005BF0A8B145769.    (* std::f64::consts::E *)

Section EvalF64.
  Variable L : libm.

  (** Lanczos coefficients of ast.rs::gamma *)
  Definition g_c0 := dlit 24857408913875355 21.
  Definition g_cs : list f64 :=
    [ dlit 10514237858172197 16; dlit (-34568709722201625) 16; dlit 4512277094668948 15;
      dlit (-29828522532357664) 16; dlit 1056397115771267 15; dlit (-19542877319164587) 17;
      dlit 1709705434044412 17; dlit (-5719261174043057) 19; dlit 4633994733599057 21;
      dlit (-27199490848860772) 25 ].
  Definition g_scale := dlit 18603827342052657 16.
  Definition g_shift := dlit 10400511 6.
  Definition g_shift1 := dlit 11400511 6.
  Definition f_half := dlit 5 1.

  (** s += c_k / d_k, k = 0..9, with d_k = (k+1) - a (reflection) or a + k *)
  Fixpoint gsum (s : f64) (cs : list f64) (d : Z -> f64) (k : Z) : f64 :=
    match cs with
    | [] => s
    | c :: cs' => gsum (fadd s (fdiv c (d k))) cs' d (k + 1)
    end.

  Definition gamma (a : f64) : f64 :=
    if flt a f_half then
      let s := gsum g_c0 g_cs (fun k => fsub (f64_of_Z (k + 1)) a) 0 in
      fdiv f_pi
        (fmul (fmul (fmul (m1 L MSin (fmul f_pi a)) s) g_scale)
              (m2 L MPow (fdiv (fsub g_shift1 a) f_e) (fsub f_half a)))
    else
      let s := gsum g_c0 g_cs (fun k => if k =? 0 then a else fadd a (f64_of_Z k)) 0 in
      fmul (fmul s g_scale) (m2 L MPow (fdiv (fadd a g_shift) f_e) (fsub a f_half)).

  (** [for i in 2..=n { r *= i as f64 }] *)
  Fixpoint fact_loop (n : nat) (i : Z) (r : f64) : f64 :=
    match n with O => r | S n' => fact_loop n' (i + 1) (fmul r (f64_of_Z i)) end.
  Definition fact_f (x : f64) : f64 :=
    let n := f64_to_usize x in
    fact_loop (Z.to_nat (n - 1)) 2 fone.

  Definition f170 := f64_of_Z 170.

  Definition factorial_f (x : f64) : f64 :=
    if fge x fzero then
      if fgt (fmod x fone) fzero then gamma (fadd x fone)
      else if fgt x f170 then finf
      else fact_f x
    else if feq (fmod x fone) fzero then fnan
    else gamma (fadd x fone).

  (** Halley iteration of LambertW *)
  Fixpoint halley (n : nat) (x w : f64) : f64 :=
    match n with
    | O => w
    | S n' =>
        let ew := m1 L MExp w in
        let f := fsub (fmul w ew) x in
        let w' := fsub w (fdiv f (fsub (fmul ew (fadd w fone))
                                       (fdiv (fmul (fadd w ftwo) f) (fadd (fmul ftwo w) ftwo)))) in
        halley n' x w'
    end.
  Definition f3 := f64_of_Z 3.
  Definition w_iterations (x : f64) : Z :=
    Z.min 128 (Z.max 4 (f64_to_i32 (fceil (fdiv (m1 L MLog10 x) f3)))).
  Definition lambert_w (x : f64) : res f64 :=
    if flt x (fneg (m1 L MExp (fneg fone))) then Err
    else if feq x finf && negb (fsign x) then Ok finf
    else Ok (halley (Z.to_nat (w_iterations x)) x fzero).

  (** iterated logarithm with the 64-round cap *)
  Fixpoint ilog_loop (fuel : nat) (n b x : f64) : f64 :=
    match fuel with
    | O => finf
    | S f =>
        if fgt n fone then
          if fge x (f64_of_Z 64) then finf
          else ilog_loop f (ffloor (fdiv (m1 L MLog10 n) (m1 L MLog10 b))) b (fadd x fone)
        else x
    end.
  Definition ilog (n b : f64) : f64 := ilog_loop 66 n b fzero.

  Definition un_f64 (u : unop) (v : f64) : res f64 :=
    match u with
    | UNegative => Ok (fneg v)
    | UFactorial => Ok (factorial_f v)
    | UAbs => Ok (fabs v)
    | UFloor => Ok (ffloor v)
    | UCeil => Ok (fceil v)
    | URound => Ok (fround v)
    | UTruncate => Ok (ftrunc v)
    | USin => Ok (m1 L MSin v) | UCos => Ok (m1 L MCos v) | UTan => Ok (m1 L MTan v)
    | USinh => Ok (m1 L MSinh v) | UCosh => Ok (m1 L MCosh v) | UTanh => Ok (m1 L MTanh v)
    | UAsin => Ok (m1 L MAsin v) | UAcos => Ok (m1 L MAcos v) | UAtan => Ok (m1 L MAtan v)
    | UArsinh => Ok (m1 L MAsinh v) | UArcosh => Ok (m1 L MAcosh v) | UArtanh => Ok (m1 L MAtanh v)
    | USqrt => Ok (fsqrt v)
    | ULn => Ok (m1 L MLn v)
    | ULb => Ok (m2 L MLog v ftwo)
    | UExp => Ok (m1 L MExp v)
    | UExp2 => Ok (m1 L MExp2 v)
    | USign => if feq v fzero then Ok v else Ok (fsignum v)
    | ULambertW => lambert_w v
    end.

  Definition bin_f64 (b : binop) (x y : f64) : res f64 :=
    match b with
    | BAdd => Ok (fadd x y)
    | BSubtract => Ok (fsub x y)
    | BMultiply => Ok (fmul x y)
    | BDivide => Ok (fdiv x y)
    | BModulo => Ok (fmod x y)
    | BPow => Ok (m2 L MPow x y)
    | BRoot => Ok (m2 L MPow y (fdiv fone x))          (* Root(n, x) = x.powf(1/n) *)
    | BLog => Ok (m2 L MLog x y)
    | BILog => Ok (ilog x y)
    | BAtan2 => Ok (m2 L MAtan2 x y)
    | _ => Err
    end.

  Definition sortF : list f64 -> list f64 := isort total_key.

  Definition agg_f64 (g : aggop) (vs : list f64) : res f64 :=
    let len := length vs in
    match g with
    | AMin => if (1 <? len)%nat then Ok (fold_left (fun acc v => m2 L MMin v acc) vs finf)
              else match vs with v :: _ => Ok v | [] => Ok fzero end
    | AMax => if (1 <? len)%nat then Ok (fold_left (fun acc v => m2 L MMax v acc) vs fninf)
              else match vs with v :: _ => Ok v | [] => Ok fzero end
    | AAvg => Ok (fdiv (fold_left fadd vs fzero) (f64_of_Z (Z.of_nat len)))
    | AMed => if existsb fis_nan vs then Ok fnan else
              let s := sortF vs in
              if Nat.even len then
                let* a := index s (Nat.div2 len) in
                let* b := index s (Nat.div2 len - 1) in
                Ok (fdiv (fadd a b) ftwo)
              else index s (Nat.div2 len)
    | _ => Err
    end.

  Fixpoint eval_f64 (a : node f64) : res f64 :=
    match a with
    | NNum v => Ok v
    | NUn u x => let* v := eval_f64 x in un_f64 u v
    | NBin b x y => let* v := eval_f64 x in let* w := eval_f64 y in bin_f64 b v w
    | NAgg g args =>
        let* vs := (fix go (l : list (node f64)) : res (list f64) :=
                      match l with
                      | [] => Ok []
                      | x :: xs => let* v := eval_f64 x in let* vs := go xs in Ok (v :: vs)
                      end) args in
        agg_f64 g vs
    end.
End EvalF64.
