(** Model of src/eval_number/ast.rs::eval (repaired tree). *)
From Coq Require Import List ZArith NArith Bool.
From Flocq Require IEEE754.BinarySingleNaN.
From SC Require Import Base.Res Base.F64 Base.RustInt Base.Oracle Base.Num Lang.Syntax Eval.Common Eval.EvalF64.
Import ListNotations.
Local Open Scope Z_scope.

Section EvalNum.
  Variable L : libm.

  Definition nf (n : number) : f64 := num_f64 n.
  Definition of_f (x : f64) : number := number_of_f64 x.

  (** the [match (a, b)] ladders of Add / Subtract / Multiply *)
  Definition arith (ci : Z -> Z -> option Z) (cf : f64 -> f64 -> f64) (a b : number) : number :=
    match a, b with
    | Int x, Int y => match ci x y with Some r => Int r | None => Flt (cf (f64_of_Z x) (f64_of_Z y)) end
    | _, _ => Flt (cf (nf a) (nf b))
    end.

  Definition float_factorial (x : f64) : f64 := factorial_f L x.   (* same text as eval_f64's arm *)

  Definition in_i64_f (f : f64) : bool :=
    flt f (f64_of_Z RustInt.i64_max) && fge f (f64_of_Z RustInt.i64_min).

  Definition ilog_n_loop := ilog_loop L.

  (** ILog counts in an i64 and returns Integer(x), +inf Float after 64 rounds *)
  Fixpoint ilog_num (fuel : nat) (n b : f64) (x : Z) : number :=
    match fuel with
    | O => Flt finf
    | S f =>
        if fgt n fone then
          if 64 <=? x then Flt finf
          else ilog_num f (ffloor (fdiv (m1 L MLog10 n) (m1 L MLog10 b))) b (x + 1)
        else Int x
    end.

  Definition un_num (u : unop) (v : number) : res number :=
    let viaf (f : f64 -> f64) := Ok (of_f (f (nf v))) in
    match u with
    | UNegative => match v with
                   | Int z => match checked_sub 0 z with Some r => Ok (Int r) | None => Ok (Flt (fneg (f64_of_Z z))) end
                   | Flt x => Ok (Flt (fneg x))
                   end
    | UFactorial => match v with
                    | Int n => if (0 <=? n) && (n <=? 20) then Ok (Int (fact n))
                               else Ok (Flt (float_factorial (f64_of_Z n)))
                    | Flt x => Ok (Flt (float_factorial x))
                    end
    | ULambertW => let* w := lambert_w L (nf v) in Ok (Flt w)
    | UAbs => match v with
              | Int z => match checked_abs z with Some r => Ok (Int r) | None => Ok (Flt (fabs (f64_of_Z z))) end
              | Flt x => Ok (Flt (fabs x))
              end
    | UFloor => match v with
                | Int _ => Ok v
                | Flt x => let f := ffloor x in
                           if in_i64_f f then Ok (Int (f64_to_i64 f)) else Ok (Flt f)
                end
    | UCeil => match v with
               | Int _ => Ok v
               | Flt x => let f := fceil x in
                          if in_i64_f f then Ok (Int (f64_to_i64 f)) else Ok (Flt f)
               end
    | URound => match v with
                | Int _ => Ok v
                | Flt x => let f := fround x in
                           if in_i64_f f then Ok (Int (f64_to_i64 f)) else Ok (of_f f)
                end
    | UTruncate => match v with Int _ => Ok v | Flt x => Ok (of_f (ftrunc x)) end
    | USign => match v with
               | Int z => Ok (Int (signum z))
               | Flt x => if fgt x fzero then Ok (Int 1) else if feq x fzero then Ok (Int 0) else Ok (Int (-1))
               end
    | USin => viaf (m1 L MSin) | UCos => viaf (m1 L MCos) | UTan => viaf (m1 L MTan)
    | USinh => viaf (m1 L MSinh) | UCosh => viaf (m1 L MCosh) | UTanh => viaf (m1 L MTanh)
    | UAsin => viaf (m1 L MAsin) | UAcos => viaf (m1 L MAcos) | UAtan => viaf (m1 L MAtan)
    | UArsinh => viaf (m1 L MAsinh) | UArcosh => viaf (m1 L MAcosh) | UArtanh => viaf (m1 L MAtanh)
    | USqrt => viaf fsqrt
    | ULn => viaf (m1 L MLn)
    | ULb => viaf (fun x => m2 L MLog x ftwo)
    | UExp => viaf (m1 L MExp)
    | UExp2 => viaf (m1 L MExp2)
    end.

  Definition i32_min : Z := - 2 ^ 31.

  Definition bin_num (b : binop) (x y : number) : res number :=
    match b with
    | BAdd => Ok (arith checked_add fadd x y)
    | BSubtract => Ok (arith checked_sub fsub x y)
    | BMultiply => Ok (arith checked_mul fmul x y)
    | BDivide =>
        match x, y with
        | Int a, Int c =>
            match checked_rem_euclid a c with
            | Some r => if r =? 0 then Ok (Int (Z.quot a c))
                        else Ok (Flt (fdiv (f64_of_Z a) (f64_of_Z c)))
            | None => Ok (Flt (fdiv (f64_of_Z a) (f64_of_Z c)))
            end
        | _, _ => Ok (Flt (fdiv (nf x) (nf y)))
        end
    | BModulo =>
        match x, y with
        | Int a, Int c => if c =? 0 then Ok (Flt (fmod (f64_of_Z a) (f64_of_Z c)))
                          else Ok (Int (wrapping_rem a c))
        | _, _ => Ok (Flt (fmod (nf x) (nf y)))
        end
    | BPow =>
        match x, y with
        | Int a, Int e =>
            if 0 <=? e then
              if e <=? u32_max then
                match checked_pow a e with
                | Some p => Ok (Int p)
                | None => Ok (of_f (m2 L MPow (f64_of_Z a) (f64_of_Z e)))
                end
              else Ok (of_f (m2 L MPow (f64_of_Z a) (f64_of_Z e)))
            else if e <? i32_min then Ok (of_f (m2 L MPow (f64_of_Z a) (f64_of_Z e)))
            else Ok (of_f (mpowi L (f64_of_Z a) e))
        | _, _ => Ok (of_f (m2 L MPow (nf x) (nf y)))
        end
    | BRoot => Ok (of_f (m2 L MPow (nf y) (fdiv fone (nf x))))      (* Root(n, x) *)
    | BILog => Ok (ilog_num 66 (nf x) (nf y) 0)
    | BLog => Ok (of_f (m2 L MLog (nf x) (nf y)))
    | BAtan2 => Ok (of_f (m2 L MAtan2 (nf x) (nf y)))
    | _ => Err
    end.

  (** compare(a, b): exact numeric comparison, None when a NaN is involved *)
  Definition f_2p63 : f64 := f64_of_Z (2 ^ 63).
  Definition f_m2p63 : f64 := f64_of_Z (- 2 ^ 63).
  Definition int_float (i : Z) (f : f64) : option comparison :=
    if fis_nan f then None
    else if fge f f_2p63 then Some Lt
    else if flt f f_m2p63 then Some Gt
    else
      let whole := ftrunc f in
      match Z.compare i (f64_to_i64 whole) with
      | Eq => BinarySingleNaN.Bcompare fzero (fsub f whole)
      | c => Some c
      end.
  Definition ncmp (a b : number) : option comparison :=
    match a, b with
    | Int x, Int y => Some (Z.compare x y)
    | Flt x, Flt y => BinarySingleNaN.Bcompare x y
    | Int x, Flt y => int_float x y
    | Flt x, Int y => option_map CompOpp (int_float y x)
    end.

  (** Min / Max keep the *Number* (variant included) of the winning argument *)
  Fixpoint pick (want : comparison) (acc : option number) (vs : list number) : option number :=
    match vs with
    | [] => acc
    | r :: vs' =>
        match acc with
        | None => pick want (Some r) vs'
        | Some l => pick want (Some (match ncmp l r with
                                     | Some c => if match c, want with Lt, Lt | Gt, Gt => true | _, _ => false end then l else r
                                     | None => r
                                     end)) vs'
        end
    end.

  (** stable insertion sort with compare(a,b).unwrap_or(Equal) *)
  Definition nle (x y : number) : bool := match ncmp x y with Some Gt => false | _ => true end.
  Fixpoint ninsert (x : number) (l : list number) : list number :=
    match l with
    | [] => [x]
    | y :: l' => if nle x y then x :: l else y :: ninsert x l'
    end.
  Fixpoint sortN (l : list number) : list number :=
    match l with [] => [] | x :: l' => ninsert x (sortN l') end.

  Definition agg_num (g : aggop) (vs : list number) : res number :=
    let len := length vs in
    match g with
    | AMin => if (1 <? len)%nat then
                match pick Lt None vs with Some r => Ok r | None => Panic end
              else match vs with v :: _ => Ok v | [] => Ok (Int 0) end
    | AMax => if (1 <? len)%nat then
                match pick Gt None vs with Some r => Ok r | None => Panic end
              else match vs with v :: _ => Ok v | [] => Ok (Int 0) end
    | AAvg => Ok (of_f (fdiv (fold_left (fun acc v => fadd acc (nf v)) vs fzero) (f64_of_Z (Z.of_nat len))))
    | AMed => if existsb (fun n => match n with Flt x => fis_nan x | Int _ => false end) vs then Ok (Flt fnan) else
              let s := sortN vs in
              if Nat.even len then
                let* a := index s (Nat.div2 len) in
                let* b := index s (Nat.div2 len - 1) in
                Ok (of_f (fdiv (fadd (nf a) (nf b)) ftwo))
              else index s (Nat.div2 len)
    | _ => Err
    end.

  Fixpoint eval_num (a : node number) : res number :=
    match a with
    | NNum v => Ok v
    | NUn u x => let* v := eval_num x in un_num u v
    | NBin b x y => let* v := eval_num x in let* w := eval_num y in bin_num b v w
    | NAgg g args =>
        let* vs := (fix go (l : list (node number)) : res (list number) :=
                      match l with
                      | [] => Ok []
                      | x :: xs => let* v := eval_num x in let* vs := go xs in Ok (v :: vs)
                      end) args in
        agg_num g vs
    end.
End EvalNum.
