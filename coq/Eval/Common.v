(** Helpers shared by the evaluator models. *)
From Coq Require Import List ZArith Bool.
From SC Require Import Base.Res Lang.Syntax.
Import ListNotations.

(** stable insertion sort by an integer key ([sort_by] with a total order is determined by the
    multiset of keys, up to the order of equal-key elements, which a stable sort preserves) *)
Section Sort.
  Context {A : Type}.
  Variable key : A -> Z.
  Fixpoint insert (x : A) (l : list A) : list A :=
    match l with
    | [] => [x]
    | y :: l' => if (key x <=? key y)%Z then x :: l else y :: insert x l'
    end.
  (* fold from the right so that equal keys keep their input order *)
  Fixpoint isort (l : list A) : list A :=
    match l with [] => [] | x :: l' => insert x (isort l') end.
End Sort.

Lemma insert_length {A} key (x : A) l : length (insert key x l) = S (length l).
Proof. induction l as [|y l IH]; simpl; [reflexivity|]. destruct (key x <=? key y)%Z; simpl; auto. Qed.
Lemma isort_length {A} key (l : list A) : length (isort key l) = length l.
Proof. induction l as [|x l IH]; simpl; [reflexivity|]. now rewrite insert_length, IH. Qed.

(** [v[i]] : Rust indexing panics when out of range *)
Definition index {A} (l : list A) (i : nat) : res A :=
  match nth_error l i with Some x => Ok x | None => Panic end.

(** evaluate arguments left to right, stop at the first failure (the [for arg ... eval(arg)?] loops) *)
Section EvalArgs.
  Context {V R : Type}.
  Variable ev : node V -> res R.
  Fixpoint eval_args (l : list (node V)) : res (list R) :=
    match l with
    | [] => Ok []
    | x :: xs => let* v := ev x in let* vs := eval_args xs in Ok (v :: vs)
    end.
End EvalArgs.
