(** The five public entry points (src/eval_*/mod.rs):
      strip white space; tokenize; parse (whole input); evaluate. *)
From Coq Require Import List ZArith NArith Bool.
From SC Require Import Base.Res Base.F64 Base.Dec Base.Num Base.Oracle
  Lang.Syntax Lang.Lexer Lang.Literal Lang.Parser
  Eval.EvalI64 Eval.EvalF64 Eval.EvalNum Eval.EvalDec Eval.EvalCpx Gen.Tables.
Import ListNotations.

Section Generic.
  Context {V : Type}.
  Variable LT : lextab.
  Variable conv : lit -> option V.
  Variable PT : ptab V.
  Variable ev : node V -> res V.

  Definition tokens_of (s : list N) : option (list (tok V)) := tokenize_all LT conv (strip s).
  Definition ast_of (s : list N) (ph : V) : res (node V) :=
    match tokens_of s with
    | None => Err
    | Some ts => parse PT ph ts
    end.
  Definition run (s : list N) (ph : V) : res V :=
    let* a := ast_of s ph in ev a.
End Generic.

Definition run_i64 (L : libm) := run lt_i64 conv_i64 pt_i64 (eval_i64 L).
Definition run_f64 (L : libm) := run lt_f64 conv_f64 pt_f64 (eval_f64 L).
Definition run_num (L : libm) := run lt_number conv_num pt_number (eval_num L).
Definition run_dec (D : declib) := run lt_decimal (conv_dec D) pt_decimal (eval_dec D).
Definition run_cpx (C : cpxlib) := run lt_complex conv_cpx pt_complex (eval_cpx C).
