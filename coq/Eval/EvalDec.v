(** Model of src/eval_decimal/ast.rs::eval (repaired tree). Every rust_decimal operation is a
    field of the oracle record; what is modelled is which operation is applied to what, in which
    order, and what happens when one reports failure. *)
From Coq Require Import List ZArith NArith Bool.
From SC Require Import Base.Res Base.Dec Base.Oracle Lang.Syntax Eval.Common.
Import ListNotations.
Local Open Scope Z_scope.

Section EvalDec.
  Variable D : declib.

  Definition o1 (op : d1op) (x : dec) : res dec := of_option (d1 D op x).
  Definition o2 (op : d2op) (x y : dec) : res dec := of_option (d2 D op x y).
  (** an operation the code calls through a *raw* operator or an infallible method:
      a failure of the library there is a panic *)
  (** add / sub / mul: the written-out exact path when it applies, the library otherwise *)
  Definition ex2 (f : dec -> dec -> option dec) (op : d2op) (x y : dec) : res dec :=
    match f x y with Some r => Ok r | None => o2 op x y end.
  Definition raw1 (op : d1op) (x : dec) : res dec :=
    match d1 D op x with Some r => Ok r | None => Panic end.
  Definition raw2 (op : d2op) (x y : dec) : res dec :=
    match d2 D op x y with Some r => Ok r | None => Panic end.

  Definition dnew (m : Z) (s : N) : dec := {| d_neg := m <? 0; d_coef := Z.abs_N m; d_scale := s |}.
  Definition d_one := dnew 1 0.
  Definition d_two := dnew 2 0.
  Definition d_half := dnew 5 1.

  Definition g0 := dnew 2485740891387535655 23.
  Definition gcs : list dec :=
    [ dnew 1051423785817219742 18; dnew (-3456870972220162354) 18; dnew 4512277094668948237 18;
      dnew (-2982852253235766557) 18; dnew 1056397115771267131 18; dnew (-1954287731916458696) 19;
      dnew 1709705434044412243 20; dnew (-5719261174043057813) 22; dnew 4633994733599056367 24;
      dnew (-2719949084886077039) 27 ].
  Definition d_pi18 := dnew 3141592653589793238 18.
  Definition d_e18 := dnew 2718281828459045235 18.
  Definition d_gscale := dnew 1860382734205265717 18.
  Definition d_shift := dnew 10400511 6.
  Definition d_shift1 := dnew 11400511 6.

  (** term(s, c, divisor) = s.checked_add(c.checked_div(divisor?)?) *)
  Fixpoint dgsum (s : dec) (cs : list dec) (dv : Z -> res dec) (k : Z) : res dec :=
    match cs with
    | [] => Ok s
    | c :: cs' =>
        let* d := dv k in
        let* q := o2 DDiv c d in
        let* s' := o2 DAdd s q in
        dgsum s' cs' dv (k + 1)
    end.

  Definition dgamma (a : dec) : res dec :=
    if dec_lt a d_half then
      let* s := dgsum g0 gcs (fun k => o2 DSub (dnew (k + 1) 0) a) 0 in
      let* pa := o2 DMul d_pi18 a in
      let* sn := o1 DSin pa in
      let* b0 := o2 DSub d_shift1 a in
      let* b1 := o2 DDiv b0 d_e18 in
      let* ex := o2 DSub d_half a in
      let* pw := o2 DPowd b1 ex in
      let* t1 := o2 DMul sn s in
      let* t2 := o2 DMul t1 d_gscale in
      let* t3 := o2 DMul t2 pw in
      o2 DDiv d_pi18 t3
    else
      let* s := dgsum g0 gcs (fun k => if k =? 0 then Ok a else o2 DAdd a (dnew k 0)) 0 in
      let* b0 := o2 DAdd a d_shift in
      let* b1 := o2 DDiv b0 d_e18 in
      let* ex := o2 DSub a d_half in
      let* pw := o2 DPowd b1 ex in
      let* t1 := o2 DMul s d_gscale in
      o2 DMul t1 pw.

  (** for i in 2..=n { r = chk(r.checked_mul(Decimal::new(i, 0)))? } *)
  Fixpoint dfact_loop (fuel : nat) (i n : Z) (r : dec) : res dec :=
    match fuel with
    | O => Fuel
    | S f => if n <? i then Ok r
             else let* r' := o2 DMul r (dnew i 0) in dfact_loop f (i + 1) n r'
    end.
  Definition dfact_fuel : nat := 64.

  Definition dfactorial (x : dec) : res dec :=
    let* frac := raw2 DRem x d_one in
    if dec_ge x dec_zero then
      if dec_gt frac dec_zero then let* x1 := o2 DAdd x d_one in dgamma x1
      else
        match d_to_i64 D x with
        | None => Err
        | Some n => dfact_loop dfact_fuel 2 n d_one
        end
    else if dec_eq frac dec_zero then Err
    else let* x1 := o2 DAdd x d_one in dgamma x1.

  Fixpoint dhalley (n : nat) (x w : dec) : res dec :=
    match n with
    | O => Ok w
    | S n' =>
        let* ew := o1 DExp w in
        let* wew := o2 DMul w ew in
        let* resid := o2 DSub wew x in
        let* w2 := o2 DAdd w d_two in
        let* num := o2 DMul w2 resid in
        let* tw := o2 DMul d_two w in
        let* den := o2 DAdd tw d_two in
        let* corr := o2 DDiv num den in
        let* w1 := o2 DAdd w d_one in
        let* s1 := o2 DMul w1 ew in
        let* slope := o2 DSub s1 corr in
        let* step := o2 DDiv resid slope in
        let* w' := o2 DSub w step in
        dhalley n' x w'
    end.

  Definition d_three := dnew 3 0.
  Definition d_four := dnew 4 0.

  Definition dlambert (x : dec) : res dec :=
    let* em1 := raw1 DExp (dnew (-1) 0) in
    let* bound := raw1 DNeg em1 in
    if dec_lt x bound then Err
    else
      let* cand := match d1 D DLog10 x with
                   | Some l => let* q := raw2 DDiv l d_three in raw1 DCeil q
                   | None => Ok dec_zero
                   end in
      let* mx := raw2 DMax d_four cand in
      let its := match d_to_i32 D mx with Some n => n | None => 4 end in
      dhalley (Z.to_nat (Z.min its 128)) x dec_zero.

  Fixpoint dilog_loop (fuel : nat) (n b x : dec) : res dec :=
    match fuel with
    | O => Fuel
    | S f =>
        if dec_gt n d_one then
          if dec_ge x (dnew 64 0) then Err
          else
            let* x' := raw2 DAdd x d_one in
            let* ln := o1 DLog10 n in
            let* lb := o1 DLog10 b in
            let* q := o2 DDiv ln lb in
            let* n' := raw1 DFloor q in
            dilog_loop f n' b x'
        else Ok x
    end.

  Definition un_dec (u : unop) (v : dec) : res dec :=
    match u with
    | UNegative => Ok (dec_neg v)
    | UAbs => raw1 DAbs v
    | UFloor => raw1 DFloor v
    | UCeil => raw1 DCeil v
    | URound => raw1 DRound v
    | UTruncate => raw1 DTrunc v
    | USign => raw1 DSignum v
    | ULn => o1 DLn v
    | ULb => let* l := o1 DLn v in let* l2 := raw1 DLn d_two in o2 DDiv l l2
    | UExp => o1 DExp v
    | UExp2 => o2 DPowd d_two v
    | UFactorial => dfactorial v
    | ULambertW => dlambert v
    | USqrt => o1 DSqrt (if dec_is_zero v then {| d_neg := false; d_coef := d_coef v; d_scale := d_scale v |} else v)
    | _ => Err
    end.

  Definition bin_dec (b : binop) (x y : dec) : res dec :=
    match b with
    | BAdd => ex2 dec_add_exact DAdd x y
    | BSubtract => ex2 dec_sub_exact DSub x y
    | BMultiply => ex2 dec_mul_exact DMul x y
    | BDivide => o2 DDiv x y
    | BModulo => o2 DRem x y
    | BPow => o2 DPowd x y
    | BLog => let* lx := o1 DLn x in let* ly := o1 DLn y in o2 DDiv lx ly
    | BILog => dilog_loop 66 x y dec_zero
    | BRoot => let* ex := o2 DDiv d_one x in o2 DPowd y ex     (* Root(n, x) = x.powd(1/n) *)
    | _ => Err
    end.

  Definition d_max := {| d_neg := false; d_coef := (2 ^ 96 - 1)%N; d_scale := 0%N |}.
  Definition d_min := {| d_neg := true; d_coef := (2 ^ 96 - 1)%N; d_scale := 0%N |}.

  Fixpoint dfold (f : dec -> dec -> res dec) (acc : dec) (vs : list dec) : res dec :=
    match vs with
    | [] => Ok acc
    | v :: vs' => let* a := f acc v in dfold f a vs'
    end.

  (** stable insertion sort with the library comparison *)
  Fixpoint dinsert (x : dec) (l : list dec) : list dec :=
    match l with
    | [] => [x]
    | y :: l' => if dec_gt x y then y :: dinsert x l' else x :: l
    end.
  Fixpoint dsort (l : list dec) : list dec :=
    match l with [] => [] | x :: l' => dinsert x (dsort l') end.

  Definition agg_dec (g : aggop) (vs : list dec) : res dec :=
    let len := length vs in
    match g with
    | AMin => if (1 <? len)%nat then dfold (fun acc v => raw2 DMin v acc) d_max vs
              else match vs with v :: _ => Ok v | [] => Ok dec_zero end
    | AMax => if (1 <? len)%nat then dfold (fun acc v => raw2 DMax v acc) d_min vs
              else match vs with v :: _ => Ok v | [] => Ok dec_zero end
    | AAvg => let* s := dfold (fun acc v => o2 DAdd acc v) dec_zero vs in
              o2 DDiv s (dnew (Z.of_nat len) 0)
    | AMed => let s := dsort vs in
              if Nat.even len then
                let* a := index s (Nat.div2 len) in
                let* b := index s (Nat.div2 len - 1) in
                let* ab := o2 DAdd a b in
                o2 DDiv ab d_two
              else index s (Nat.div2 len)
    | _ => Err
    end.

  Fixpoint eval_dec (a : node dec) : res dec :=
    match a with
    | NNum v => Ok v
    | NUn u x => let* v := eval_dec x in un_dec u v
    | NBin b x y => let* v := eval_dec x in let* w := eval_dec y in bin_dec b v w
    | NAgg g args =>
        let* vs := (fix go (l : list (node dec)) : res (list dec) :=
                      match l with
                      | [] => Ok []
                      | x :: xs => let* v := eval_dec x in let* vs := go xs in Ok (v :: vs)
                      end) args in
        agg_dec g vs
    end.
End EvalDec.
