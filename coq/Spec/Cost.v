(** Step budget of C02: a static bound on the counted steps of one call.
      lexing   <= tokens + 2            calls of Tokenizer::next
      parsing  <= 4 * tokens + 8        nested calls of the engine (every parser tick point is one)
      eval     <= cost_bound ast        one per node + the cap of each looping construct *)
From Coq Require Import List Arith Lia.
From SC Require Import Base.Res Lang.Syntax Lang.Parser Spec.Surface.
Import ListNotations.

Definition budget (len : nat) : nat := 4096 + 256 * len.

Definition ub_un (u : unop) : nat := match u with UFactorial => 170 | ULambertW => 128 | _ => 0 end.
Definition ub_bin (b : binop) : nat := match b with BILog => 66 | _ => 0 end.
Definition ub_agg (g : aggop) (n : nat) : nat := match g with AGcd | ALcm => 130 * n | _ => 0 end.

Section Cost.
  Context {V : Type}.
  Fixpoint cost_bound (a : node V) : nat :=
    match a with
    | NNum _ => 1
    | NUn u x => 1 + ub_un u + cost_bound x
    | NBin b x y => 1 + ub_bin b + cost_bound x + cost_bound y
    | NAgg g l => 1 + ub_agg g (length l) + fold_right (fun x acc => cost_bound x + acc) 0 l
    end.

  Definition total_bound (ts : list (tok V)) (a : node V) : nat :=
    (length ts + 2) + parse_fuel ts + cost_bound a.

  Variable T : ptab V.
  Variable ph : V.

  Lemma ub_un_le u : ub_un u <= 170. Proof. destruct u; simpl; lia. Qed.
  Lemma ub_bin_le b : ub_bin b <= 66. Proof. destruct b; simpl; lia. Qed.
  Lemma ub_agg_le g n : ub_agg g n <= 130 * n. Proof. destruct g; simpl; lia. Qed.

  Lemma commas_length (ls : list (list (tok V))) :
    ls <> [] -> length (commas ls) + 1 = fold_right (fun l acc => length l + 1 + acc) 0 ls.
  Proof.
    induction ls as [|l ls IH]; [congruence|]. intros _. destruct ls as [|l' ls'].
    - cbn [commas fold_right]. lia.
    - change (commas (l :: l' :: ls')) with (l ++ TK KComma :: commas (l' :: ls')).
      rewrite app_length. cbn [length]. specialize (IH ltac:(discriminate)).
      change (fold_right (fun l0 acc => length l0 + 1 + acc) 0 (l :: l' :: ls'))
        with (length l + 1 + fold_right (fun l0 acc => length l0 + 1 + acc) 0 (l' :: ls')).
      lia.
  Qed.

  (** every surface tree pays for its AST with its own tokens, 171 steps per token *)
  Theorem cost_per_token : forall s : @sx V, cost_bound (desugar T ph s) + 1 <= 171 * length (print T s).
  Proof.
    induction s as [v| |k|k e IHe|f a IHa|f a b IHa IHb|f args IHargs|e IHe|e IHe|a r IHa IHr
                   |k l r IHl IHr|l IHl|l r IHl IHr|k l IHl|l v IHl] using sx_ind2;
      cbn [desugar print]; cbn [length]; rewrite ?app_length; cbn [length]; rewrite ?app_length; cbn [length cost_bound].
    - lia.
    - lia.
    - destruct (pt_const T k); simpl; lia.
    - destruct (wrapper T k) as [u|]; cbn [wrap cost_bound]; [pose proof (ub_un_le u)|]; lia.
    - destruct (pt_fn T f) as [[u| |]|]; cbn [cost_bound dflt]; try (pose proof (ub_un_le u)); lia.
    - rewrite ?app_length. cbn [length].
      destruct (pt_fn T f) as [[|o|]|]; cbn [cost_bound dflt]; try (pose proof (ub_bin_le o)); lia.
    - assert (Hsum : fold_right (fun x acc => cost_bound x + acc) 0 (map (desugar T ph) args) + length args
                     <= 171 * fold_right (fun l acc => length l + acc) 0 (map (print T) args)).
      { induction IHargs as [|x xs Hx _ IH]; simpl; [lia|]. lia. }
      destruct (pt_fn T f) as [[| |g ez]|]; cbn [cost_bound dflt].
      1,2,4: destruct args; simpl; lia.
      destruct args as [|x xs]; [simpl; lia|].
      cbn [cost_bound]. rewrite map_length.
      pose proof (ub_agg_le g (length (x :: xs))).
      pose proof (commas_length (map (print T) (x :: xs)) ltac:(discriminate)) as Hc.
      assert (Hf : fold_right (fun l acc => length l + 1 + acc) 0 (map (print T) (x :: xs))
                   = fold_right (fun l acc => length l + acc) 0 (map (print T) (x :: xs)) + length (x :: xs)).
      { clear. induction (x :: xs); simpl; lia. }
      lia.
    - cbn [ub_un]. lia.
    - lia.
    - cbn [ub_bin]. lia.
    - destruct (pt_infix T k) as [[b lvl]|]; cbn [cost_bound dflt]; [pose proof (ub_bin_le b)|]; lia.
    - cbn [ub_un]. lia.
    - cbn [ub_un ub_bin]. lia.
    - destruct (pt_postconst T k); cbn [cost_bound dflt ub_bin]; lia.
    - cbn [ub_bin]. lia.
  Qed.

  (** the step budget of the property is never exceeded *)
  Theorem within_budget (s : @sx V) (chars : nat) :
    length (print T s) <= chars -> total_bound (print T s) (desugar T ph s) <= budget chars.
  Proof.
    intros H. unfold total_bound, parse_fuel, budget. pose proof (cost_per_token s). lia.
  Qed.
End Cost.
