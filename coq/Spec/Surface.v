(** The declarative surface grammar: what a well-formed expression *is*, independently of how the
    parser runs. Surface trees keep all the sugar; [print] gives their token sequence, [desugar]
    their abstract syntax tree, and [W p s] says that [s] is a complete operand in a context of
    level [p] (a level discipline, not the parser run backwards). *)
From Coq Require Import List Bool Arith Lia.
From SC Require Import Base.Res Lang.Syntax Lang.Parser.
Import ListNotations.

Section Surface.
  Context {V : Type}.
  Variable T : ptab V.
  Variable ph : V.
  Notation tok := (tok V).
  Notation node := (node V).

  Inductive sx :=
  | SNum (v : V)                         (* number literal *)
  | SAns                                 (* @ *)
  | SConst (k : kind)                    (* pi, e *)
  | SGroup (k : kind) (e : sx)           (* ( e )   ⌊ e ⌋   ⌈ e ⌉ : k is the opening token *)
  | SCall1 (f : fn) (a : sx)
  | SCall2 (f : fn) (a b : sx)
  | SCallN (f : fn) (args : list sx)
  | SNeg (e : sx)
  | SPos (e : sx)
  | SJuxt (a r : sx)                     (* a r   : implicit product *)
  | SBin (k : kind) (l r : sx)           (* l k r *)
  | SFact (l : sx)                       (* l !   *)
  | SFactJuxt (l r : sx)                 (* l ! r : factorial followed by an implicit factor *)
  | SPost (k : kind) (l : sx)            (* l °   l rad *)
  | SSup (l : sx) (v : V).               (* l ²   *)

  Section sx_ind2.
    Variable P : sx -> Prop.
    Hypothesis HNum : forall v, P (SNum v).
    Hypothesis HAns : P SAns.
    Hypothesis HConst : forall k, P (SConst k).
    Hypothesis HGroup : forall k e, P e -> P (SGroup k e).
    Hypothesis HCall1 : forall f a, P a -> P (SCall1 f a).
    Hypothesis HCall2 : forall f a b, P a -> P b -> P (SCall2 f a b).
    Hypothesis HCallN : forall f args, Forall P args -> P (SCallN f args).
    Hypothesis HNeg : forall e, P e -> P (SNeg e).
    Hypothesis HPos : forall e, P e -> P (SPos e).
    Hypothesis HJuxt : forall a r, P a -> P r -> P (SJuxt a r).
    Hypothesis HBin : forall k l r, P l -> P r -> P (SBin k l r).
    Hypothesis HFact : forall l, P l -> P (SFact l).
    Hypothesis HFactJuxt : forall l r, P l -> P r -> P (SFactJuxt l r).
    Hypothesis HPost : forall k l, P l -> P (SPost k l).
    Hypothesis HSup : forall l v, P l -> P (SSup l v).
    Fixpoint sx_ind2 (s : sx) : P s :=
      match s with
      | SNum v => HNum v
      | SAns => HAns
      | SConst k => HConst k
      | SGroup k e => HGroup k e (sx_ind2 e)
      | SCall1 f a => HCall1 f a (sx_ind2 a)
      | SCall2 f a b => HCall2 f a b (sx_ind2 a) (sx_ind2 b)
      | SCallN f args =>
          HCallN f args ((fix go (l : list sx) : Forall P l :=
                            match l with
                            | [] => Forall_nil P
                            | x :: xs => Forall_cons x (sx_ind2 x) (go xs)
                            end) args)
      | SNeg e => HNeg e (sx_ind2 e)
      | SPos e => HPos e (sx_ind2 e)
      | SJuxt a r => HJuxt a r (sx_ind2 a) (sx_ind2 r)
      | SBin k l r => HBin k l r (sx_ind2 l) (sx_ind2 r)
      | SFact l => HFact l (sx_ind2 l)
      | SFactJuxt l r => HFactJuxt l r (sx_ind2 l) (sx_ind2 r)
      | SPost k l => HPost k l (sx_ind2 l)
      | SSup l v => HSup l v (sx_ind2 l)
      end.
  End sx_ind2.

  Definition closer (k : kind) : kind :=
    match pt_open T k with Some (c, _) => c | None => KRightParen end.
  Definition wrapper (k : kind) : option unop :=
    match pt_open T k with Some (_, w) => w | None => None end.

  (** comma-separated argument lists *)
  Fixpoint commas (ls : list (list tok)) : list tok :=
    match ls with
    | [] => []
    | [l] => l
    | l :: ls' => l ++ TK KComma :: commas ls'
    end.

  Fixpoint print (s : sx) : list tok :=
    match s with
    | SNum v => [TNum v]
    | SAns => [TK KAns]
    | SConst k => [TK k]
    | SGroup k e => TK k :: print e ++ [TK (closer k)]
    | SCall1 f a => TK (KFunc f) :: TK KLeftParen :: print a ++ [TK KRightParen]
    | SCall2 f a b => TK (KFunc f) :: TK KLeftParen :: print a ++ TK KComma :: print b ++ [TK KRightParen]
    | SCallN f args => TK (KFunc f) :: TK KLeftParen :: commas (map print args) ++ [TK KRightParen]
    | SNeg e => TK KSubtract :: print e
    | SPos e => TK KAdd :: print e
    | SJuxt a r => print a ++ print r
    | SBin k l r => print l ++ TK k :: print r
    | SFact l => print l ++ [TK KExclamationMark]
    | SFactJuxt l r => print l ++ TK KExclamationMark :: print r
    | SPost k l => print l ++ [TK k]
    | SSup l v => print l ++ [TSup v]
    end.

  Definition dflt : node := NNum (pt_zero T).

  Fixpoint desugar (s : sx) : node :=
    match s with
    | SNum v => NNum v
    | SAns => NNum ph
    | SConst k => match pt_const T k with Some c => NNum c | None => dflt end
    | SGroup k e => wrap (wrapper k) (desugar e)
    | SCall1 f a => match pt_fn T f with Some (F1 u) => NUn u (desugar a) | _ => dflt end
    | SCall2 f a b => match pt_fn T f with Some (F2 o) => NBin o (desugar a) (desugar b) | _ => dflt end
    | SCallN f args =>
        match pt_fn T f with
        | Some (FList g _) => match args with [] => NNum (pt_zero T) | _ => NAgg g (map desugar args) end
        | _ => dflt
        end
    | SNeg e => NUn UNegative (desugar e)
    | SPos e => desugar e
    | SJuxt a r => NBin BMultiply (desugar a) (desugar r)
    | SBin k l r => match pt_infix T k with Some (b, _) => NBin b (desugar l) (desugar r) | None => dflt end
    | SFact l => NUn UFactorial (desugar l)
    | SFactJuxt l r => NBin BMultiply (NUn UFactorial (desugar l)) (desugar r)
    | SPost k l => match pt_postconst T k with Some c => NBin BMultiply (desugar l) (NNum c) | None => dflt end
    | SSup l v => NBin BPow (desugar l) (NNum v)
    end.

  (** level at which the right operand of infix [k] is parsed *)
  Definition rlevel (k : kind) : nat :=
    match pt_infix T k with Some (_, l) => l | None => 0 end.

  (** [noabs q s]: a following token of precedence [q] is not absorbed by any operand that is
      still open along the right edge of [s] *)
  Fixpoint noabs (q : nat) (s : sx) : bool :=
    match s with
    | SNeg e | SPos e => (q <=? pt_neg_level T) && noabs q e
    | SJuxt _ r | SFactJuxt _ r => (q <=? pt_impl_level T) && noabs q r
    | SBin k _ r => (q <=? rlevel k) && noabs q r
    | _ => true
    end.

  (** [opn s]: the right edge of [s] ends in a primary after which implicit_multiply looks at
      the next token *)
  Fixpoint opn (s : sx) : bool :=
    match s with
    | SNum _ | SGroup _ _ | SCall1 _ _ | SCall2 _ _ _ | SCallN _ _ | SFact _ => true
    | SAns | SConst _ | SPost _ _ | SSup _ _ => false
    | SNeg e | SPos e => opn e
    | SJuxt _ r | SFactJuxt _ r | SBin _ _ r => opn r
    end.

  Definition follow_ok (s : sx) (k : kind) : Prop :=
    noabs (pt_prec T k) s = true /\ (opn s = true -> pt_trigger T k = false).

  (** juxtaposition-capable primaries *)
  Definition capable (s : sx) : bool :=
    match s with SNum _ | SGroup _ _ | SCall1 _ _ | SCall2 _ _ _ | SCallN _ _ => true | _ => false end.

  Definition starts_trigger (s : sx) : bool := pt_trigger T (hdk (print s)).

  (** a number literal is not multiplied with a directly following number literal (`.5.5`, `1.5.5`): the Num arm of
      parse_number rejects it (tables with [pt_numnum = false]) *)
  Definition numjuxt_ok (a : sx) (k : kind) : bool :=
    match a with SNum _ => pt_numnum T || negb (kind_eqb k KNum) | _ => true end.

  (** what may follow [s] in a token stream: the next token, or the end of input (where every loop
      stops and only implicit_multiply still looks at the -- Eof -- token) *)
  Definition follows (s : sx) (rest : list tok) : Prop :=
    match rest with
    | [] => opn s = true -> pt_trigger T KEof = false
    | t :: _ => follow_ok s (kind_of t)
    end.

  (** delimiters that end an operand parsed at level 0 *)
  Definition delim_ok (s : sx) (k : kind) : Prop := follow_ok s k /\ pt_prec T k = 0.

  Fixpoint W (p : nat) (s : sx) {struct s} : Prop :=
    match s with
    | SNum _ => True
    | SAns => pt_ans T = true
    | SConst k => is_plain k = true /\ pt_const T k <> None
    | SGroup k e => is_plain k = true /\ pt_const T k = None /\ pt_open T k <> None /\
                    W 0 e /\ delim_ok e (closer k)
    | SCall1 f a => (exists u, pt_fn T f = Some (F1 u)) /\ W 0 a /\ delim_ok a KRightParen
    | SCall2 f a b => (exists o, pt_fn T f = Some (F2 o)) /\ W 0 a /\ delim_ok a KComma /\
                      W 0 b /\ delim_ok b KRightParen
    | SCallN f args =>
        (exists g ez, pt_fn T f = Some (FList g ez) /\ (args = [] -> ez = true)) /\
        (forall x xs, args = x :: xs -> hdk (print x) <> KRightParen) /\
        (fix all (l : list sx) : Prop :=
           match l with
           | [] => True
           | x :: xs => W 0 x /\ delim_ok x (match xs with [] => KRightParen | _ => KComma end) /\ all xs
           end) args
    | SNeg e => pt_neg T = true /\ W (pt_neg_level T) e
    | SPos e => pt_pos T = true /\ W (pt_neg_level T) e
    | SJuxt a r => capable a = true /\ W 0 a /\ starts_trigger r = true /\ W (pt_impl_level T) r /\
                   numjuxt_ok a (hdk (print r)) = true
    | SBin k l r => (exists b lvl, pt_infix T k = Some (b, lvl)) /\ p < pt_prec T k /\
                    noabs (pt_prec T k) l = true /\ (opn l = true -> pt_trigger T k = false) /\
                    W p l /\ W (rlevel k) r
    | SFact l => pt_bang T = true /\ pt_infix T KExclamationMark = None /\ p < pt_prec T KExclamationMark /\
                 noabs (pt_prec T KExclamationMark) l = true /\
                 (opn l = true -> pt_trigger T KExclamationMark = false) /\ W p l
    | SFactJuxt l r => pt_bang T = true /\ pt_infix T KExclamationMark = None /\ p < pt_prec T KExclamationMark /\
                 noabs (pt_prec T KExclamationMark) l = true /\
                 (opn l = true -> pt_trigger T KExclamationMark = false) /\ W p l /\
                 starts_trigger r = true /\ W (pt_impl_level T) r
    | SPost k l => pt_infix T k = None /\ (kind_eqb k KExclamationMark && pt_bang T) = false /\
                   pt_postconst T k <> None /\ p < pt_prec T k /\
                   noabs (pt_prec T k) l = true /\ (opn l = true -> pt_trigger T k = false) /\ W p l
    | SSup l v => pt_sup T = true /\ p < pt_prec T KSuperscript /\
                  noabs (pt_prec T KSuperscript) l = true /\
                  (opn l = true -> pt_trigger T KSuperscript = false) /\ W p l
    end.
End Surface.

(** * A boolean recogniser for [W] (used to discharge concrete instances by computation) *)
Section Decide.
  Context {V : Type}.
  Variable T : ptab V.

  Definition is_some {A} (o : option A) : bool := match o with Some _ => true | None => false end.
  Definition follow_okb (s : @sx V) (k : kind) : bool :=
    noabs T (pt_prec T k) s && (negb (opn s) || negb (pt_trigger T k)).
  Definition delim_okb (s : @sx V) (k : kind) : bool := follow_okb s k && (pt_prec T k =? 0).

  Fixpoint Wb (p : nat) (s : @sx V) {struct s} : bool :=
    match s with
    | SNum _ => true
    | SAns => pt_ans T
    | SConst k => is_plain k && is_some (pt_const T k)
    | SGroup k e => is_plain k && negb (is_some (pt_const T k)) && is_some (pt_open T k) &&
                    Wb 0 e && delim_okb e (closer T k)
    | SCall1 f a => match pt_fn T f with Some (F1 _) => true | _ => false end && Wb 0 a && delim_okb a KRightParen
    | SCall2 f a b => match pt_fn T f with Some (F2 _) => true | _ => false end &&
                      Wb 0 a && delim_okb a KComma && Wb 0 b && delim_okb b KRightParen
    | SCallN f args =>
        match pt_fn T f with
        | Some (FList _ ez) => match args with [] => ez | _ => true end
        | _ => false
        end &&
        match args with [] => true | x :: _ => negb (kind_eqb (hdk (print T x)) KRightParen) end &&
        (fix all (l : list sx) : bool :=
           match l with
           | [] => true
           | x :: xs => Wb 0 x && delim_okb x (match xs with [] => KRightParen | _ => KComma end) && all xs
           end) args
    | SNeg e => pt_neg T && Wb (pt_neg_level T) e
    | SPos e => pt_pos T && Wb (pt_neg_level T) e
    | SJuxt a r => capable a && Wb 0 a && starts_trigger T r && Wb (pt_impl_level T) r && numjuxt_ok T a (hdk (print T r))
    | SBin k l r => is_some (pt_infix T k) && (p <? pt_prec T k) && follow_okb l k && Wb p l && Wb (rlevel T k) r
    | SFact l => pt_bang T && negb (is_some (pt_infix T KExclamationMark)) && (p <? pt_prec T KExclamationMark) &&
                 follow_okb l KExclamationMark && Wb p l
    | SFactJuxt l r => pt_bang T && negb (is_some (pt_infix T KExclamationMark)) && (p <? pt_prec T KExclamationMark) &&
                 follow_okb l KExclamationMark && Wb p l && starts_trigger T r && Wb (pt_impl_level T) r
    | SPost k l => negb (is_some (pt_infix T k)) && negb (kind_eqb k KExclamationMark && pt_bang T) &&
                   is_some (pt_postconst T k) && (p <? pt_prec T k) && follow_okb l k && Wb p l
    | SSup l v => pt_sup T && (p <? pt_prec T KSuperscript) && follow_okb l KSuperscript && Wb p l
    end.

  Lemma follow_okb_sound s k : follow_okb s k = true -> follow_ok T s k.
  Proof.
    unfold follow_okb, follow_ok. intros H. apply andb_prop in H. destruct H as [H1 H2]. split; [exact H1|].
    intros O. rewrite O in H2. simpl in H2. now apply negb_true_iff in H2.
  Qed.
  Lemma delim_okb_sound s k : delim_okb s k = true -> delim_ok T s k.
  Proof.
    unfold delim_okb, delim_ok. intros H. apply andb_prop in H. destruct H as [H1 H2]. split.
    - now apply follow_okb_sound.
    - now apply Nat.eqb_eq.
  Qed.

  Arguments follow_okb : simpl never.
  Arguments delim_okb : simpl never.

  Ltac bs :=
    repeat match goal with
           | H : _ && _ = true |- _ => apply andb_prop in H; destruct H
           end;
    repeat match goal with
           | H : follow_okb _ _ = true |- _ => apply follow_okb_sound in H; destruct H
           | H : delim_okb _ _ = true |- _ => apply delim_okb_sound in H
           | H : (_ <? _) = true |- _ => apply Nat.ltb_lt in H
           | H : negb _ = true |- _ => apply negb_true_iff in H
           end.
  Ltac opt :=
    repeat match goal with
           | H : is_some ?o = true |- _ => destruct o eqn:?; [clear H|discriminate H]
           | H : is_some ?o = false |- _ => destruct o eqn:?; [discriminate H|clear H]
           end.

  Lemma Wb_sound : forall s p, Wb p s = true -> W T p s.
  Proof.
    induction s as [v| |k|k e IHe|f a IHa|f a b IHa IHb|f args IHargs|e IHe|e IHe|a r IHa IHr
                   |k l r IHl IHr|l IHl|l r IHl IHr|k l IHl|l v IHl] using sx_ind2; intros p H; simpl in H |- *.
    - trivial.
    - exact H.
    - bs. opt. split; [assumption|discriminate].
    - bs. opt. split; [assumption|]. split; [reflexivity|]. split; [discriminate|]. split; [auto|assumption].
    - bs. split; [destruct (pt_fn T f) as [[u| |]|]; try discriminate; eauto|]. split; auto.
    - bs. split; [destruct (pt_fn T f) as [[|o|]|]; try discriminate; eauto|].
      split; [auto|]. split; [assumption|]. split; [auto|assumption].
    - apply andb_prop in H. destruct H as [H Hall]. apply andb_prop in H. destruct H as [Hf Hhd].
      split; [|split].
      + destruct (pt_fn T f) as [[| |g ez]|]; try discriminate. exists g, ez. split; [reflexivity|].
        intros ->. exact Hf.
      + intros x xs ->. intros E. rewrite E in Hhd. discriminate.
      + clear Hf Hhd. induction args as [|x xs IH]; [trivial|].
        inversion IHargs as [|? ? Hx Hxs]; subst.
        apply andb_prop in Hall. destruct Hall as [Hall Hrest]. apply andb_prop in Hall. destruct Hall as [Wx Dx].
        split; [now apply Hx|]. split; [now apply delim_okb_sound|]. now apply IH.
    - bs. split; auto.
    - bs. split; auto.
    - bs. repeat split; auto.
    - bs. opt. destruct p0 as [b lvl]. split; [eauto|]. repeat split; auto.
    - bs. opt. repeat split; auto.
    - bs. opt. repeat split; auto.
    - bs. opt. repeat split; auto; discriminate.
    - bs. repeat split; auto.
  Qed.
End Decide.
