(** eval_number::Number *)
From Coq Require Import ZArith Bool.
From SC Require Import Base.F64 Base.RustInt.
Local Open Scope Z_scope.

Inductive number := Int (z : Z) | Flt (x : f64).

Definition num_f64 (n : number) : f64 :=
  match n with Int z => f64_of_Z z | Flt x => x end.

(** [impl From<f64> for Number] (after the repair: the upper bound is strict) *)
Definition number_of_f64 (v : f64) : number :=
  let fl := ffloor v in
  if feq (fsub v fl) fzero then
    if fge fl (f64_of_Z RustInt.i64_min) && flt fl (f64_of_Z RustInt.i64_max)
    then Int (f64_to_i64 fl) else Flt v
  else Flt v.

(** the pinned (unrepaired) conversion, kept to document the finding *)
Definition number_of_f64_pinned (v : f64) : number :=
  let fl := ffloor v in
  if feq (fsub v fl) fzero then
    if fge fl (f64_of_Z RustInt.i64_min) && fle fl (f64_of_Z RustInt.i64_max)
    then Int (f64_to_i64 fl) else Flt v
  else Flt v.

Definition number_of_i64 (z : Z) : number := Int z.
