(** IEEE-754 binary64 as Flocq's [BinarySingleNaN.binary_float 53 1024] (one NaN: the properties
    identify all NaNs), with the Rust-level operations the evaluators use. *)
From Coq Require Import ZArith Bool List Lia.
From Flocq Require Import Core.Zaux Core.FLT IEEE754.BinarySingleNaN.
From Flocq Require IEEE754.Binary IEEE754.Bits.
Import ListNotations.
Local Open Scope Z_scope.

Definition prec := 53.
Definition emax := 1024.
Global Instance Hprec : FLX.Prec_gt_0 prec. Proof. reflexivity. Qed.
Global Instance Hemax : Prec_lt_emax prec emax. Proof. reflexivity. Qed.

Definition f64 := BinarySingleNaN.binary_float prec emax.

Definition f64_of_bits (z : Z) : f64 := Binary.B2BSN 53 1024 (Bits.b64_of_bits z).
Definition bits_of_f64 (x : f64) : Z := Bits.bits_of_b64 (Binary.BSN2B 53 1024 Bits.default_nan_pl64 x).

Notation NE := BinarySingleNaN.mode_NE.

Definition fadd : f64 -> f64 -> f64 := BinarySingleNaN.Bplus NE.
Definition fsub : f64 -> f64 -> f64 := BinarySingleNaN.Bminus NE.
Definition fmul : f64 -> f64 -> f64 := BinarySingleNaN.Bmult NE.
Definition fdiv : f64 -> f64 -> f64 := BinarySingleNaN.Bdiv NE.
Definition fsqrt : f64 -> f64 := BinarySingleNaN.Bsqrt NE.
Definition fneg : f64 -> f64 := BinarySingleNaN.Bopp.
Definition fabs : f64 -> f64 := BinarySingleNaN.Babs.
Definition ffloor : f64 -> f64 := BinarySingleNaN.Bnearbyint BinarySingleNaN.mode_DN.
Definition fceil : f64 -> f64 := BinarySingleNaN.Bnearbyint BinarySingleNaN.mode_UP.
Definition ftrunc : f64 -> f64 := BinarySingleNaN.Bnearbyint BinarySingleNaN.mode_ZR.
Definition fround : f64 -> f64 := BinarySingleNaN.Bnearbyint BinarySingleNaN.mode_NA.

Definition flt : f64 -> f64 -> bool := BinarySingleNaN.Bltb.
Definition fle : f64 -> f64 -> bool := BinarySingleNaN.Bleb.
Definition feq : f64 -> f64 -> bool := BinarySingleNaN.Beqb.
Definition fgt (a b : f64) : bool := flt b a.
Definition fge (a b : f64) : bool := fle b a.
Definition fis_nan : f64 -> bool := BinarySingleNaN.is_nan.
Definition fis_finite : f64 -> bool := BinarySingleNaN.is_finite.
Definition fsign : f64 -> bool := BinarySingleNaN.Bsign.

Definition fzero : f64 := B754_zero false.
Definition fnzero : f64 := B754_zero true.
Definition finf : f64 := B754_infinity false.
Definition fninf : f64 := B754_infinity true.
Definition fnan : f64 := B754_nan.

(** [z as f64] (round to nearest even) *)
Definition f64_of_Z (z : Z) : f64 := BinarySingleNaN.binary_normalize prec emax Hprec Hemax NE z 0 false.
Definition fone : f64 := f64_of_Z 1.
Definition ftwo : f64 := f64_of_Z 2.

(** correctly rounded quotient of two positive integers (no bound on their size): the division
    core of Flocq applied to raw mantissas; validity comes from [Bdiv_correct_aux], which has no
    boundedness premise *)
Definition fdiv_pos (a b : positive) : f64 :=
  BinarySingleNaN.SF2B _ (proj1 (BinarySingleNaN.Bdiv_correct_aux prec emax Hprec Hemax NE false a 0 false b 0)).

(** the double nearest to m / 10^k : what [str::parse::<f64>] returns for a plain decimal literal *)
Definition f64_of_decimal (m : N) (k : N) : f64 :=
  match m with
  | N0 => fzero
  | Npos p => match (10 ^ Z.of_N k) with Zpos q => fdiv_pos p q | _ => fzero end
  end.

(** Rust [%] on f64 = C fmod: exact, sign of the dividend *)
Definition fmod (x y : f64) : f64 :=
  match x, y with
  | B754_nan, _ | _, B754_nan => B754_nan
  | B754_infinity _, _ => B754_nan
  | _, B754_zero _ => B754_nan
  | B754_zero _, _ => x
  | B754_finite _ _ _ _, B754_infinity _ => x
  | B754_finite sx mx ex _, B754_finite _ my ey _ =>
      let e := Z.min ex ey in
      let a := Zpos mx * 2 ^ (ex - e) in
      let b := Zpos my * 2 ^ (ey - e) in
      let r := Z.rem a b in
      BinarySingleNaN.binary_normalize prec emax Hprec Hemax NE (if sx then - r else r) e sx
  end.

Definition i64_min : Z := - 2 ^ 63.
Definition i64_max : Z := 2 ^ 63 - 1.

(** saturating float-to-int casts ([as i64], [as i32], [as usize]); NaN becomes 0 *)
Definition sat_cast (lo hi : Z) (x : f64) : Z :=
  match x with
  | B754_nan => 0
  | B754_infinity s => if s then lo else hi
  | _ => let z := BinarySingleNaN.Btrunc x in Z.max lo (Z.min hi z)
  end.
Definition f64_to_i64 : f64 -> Z := sat_cast i64_min i64_max.
Definition f64_to_i32 : f64 -> Z := sat_cast (- 2 ^ 31) (2 ^ 31 - 1).
Definition f64_to_usize : f64 -> Z := sat_cast 0 (2 ^ 64 - 1).

(** Rust [f64::signum]: 1.0 / -1.0 by sign bit (also for zeros and infinities), NaN for NaN *)
Definition fsignum (x : f64) : f64 :=
  if fis_nan x then fnan else if fsign x then fneg fone else fone.

(** [f64::total_cmp] as an integer key: sign-magnitude bits mapped monotonically *)
Definition total_key (x : f64) : Z :=
  let b := bits_of_f64 x in
  if b <? 2 ^ 63 then b else (2 ^ 63 - 1) - b.
