(** Outcomes of a modelled Rust computation. *)
From Coq Require Import List.
Import ListNotations.

Inductive res (A : Type) : Type :=
| Ok (a : A)      (* returned a value / Ok(..) *)
| Err             (* returned None / Err(ParseError) -- the payload is not modelled *)
| Panic           (* Rust panic (or abort) *)
| Fuel.           (* model ran out of fuel: never an outcome of the code, excluded by theorems *)
Arguments Ok {A} a.
Arguments Err {A}.
Arguments Panic {A}.
Arguments Fuel {A}.

Definition bind {A B} (r : res A) (f : A -> res B) : res B :=
  match r with Ok a => f a | Err => Err | Panic => Panic | Fuel => Fuel end.
Definition rmap {A B} (f : A -> B) (r : res A) : res B := bind r (fun a => Ok (f a)).
Definition of_option {A} (o : option A) : res A := match o with Some a => Ok a | None => Err end.

Declare Scope res_scope.
Notation "'let*' x ':=' c1 'in' c2" := (bind c1 (fun x => c2))
  (at level 61, x pattern, c1 at next level, right associativity) : res_scope.
Open Scope res_scope.

Lemma bind_Ok_inv {A B} (r : res A) (f : A -> res B) b :
  bind r f = Ok b -> exists a, r = Ok a /\ f a = Ok b.
Proof. destruct r; simpl; intros H; try discriminate; eauto. Qed.

(** mapM over a list, left to right, first failure wins *)
Fixpoint mapM {A B} (f : A -> res B) (l : list A) : res (list B) :=
  match l with
  | [] => Ok []
  | x :: xs => let* y := f x in let* ys := mapM f xs in Ok (y :: ys)
  end.
