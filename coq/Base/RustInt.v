(** i64 operations as the repaired eval_i64 / eval_number use them (checked_* and friends).
    Values are unbounded [Z] constrained to the i64 range. *)
From Coq Require Import ZArith Bool Lia List.
From SC Require Import Base.Res.
Local Open Scope Z_scope.

Definition i64_min : Z := - 2 ^ 63.
Definition i64_max : Z := 2 ^ 63 - 1.
Definition u32_max : Z := 2 ^ 32 - 1.
Definition in_i64 (z : Z) : bool := (i64_min <=? z) && (z <=? i64_max).

(** [Some] exactly when the mathematical result fits *)
Definition fit (z : Z) : option Z := if in_i64 z then Some z else None.

Definition checked_add (a b : Z) := fit (a + b).
Definition checked_sub (a b : Z) := fit (a - b).
Definition checked_mul (a b : Z) := fit (a * b).
Definition checked_neg (a : Z) := fit (- a).
Definition checked_abs (a : Z) := fit (Z.abs a).
Definition checked_div (a b : Z) : option Z := if b =? 0 then None else fit (Z.quot a b).
(** [wrapping_rem] with a non-zero divisor: the remainder always fits (MIN rem -1 = 0) *)
Definition wrapping_rem (a b : Z) : Z := Z.rem a b.
(** [checked_rem_euclid]: None for b = 0 and for MIN / -1 *)
Definition checked_rem_euclid (a b : Z) : option Z :=
  if b =? 0 then None
  else if (a =? i64_min) && (b =? -1) then None
  else Some (a mod Z.abs b).

(** [checked_pow] with a u32 exponent. The square-and-multiply loop of std overflows exactly when
    the mathematical power does not fit (see Proofs/RustIntFacts); large exponents are cut short so
    that the model never builds an astronomically large integer. *)
Definition checked_pow (a e : Z) : option Z :=
  if e =? 0 then Some 1
  else if a =? 0 then Some 0
  else if a =? 1 then Some 1
  else if a =? -1 then Some (if Z.even e then 1 else -1)
  else if 64 <=? e then None
  else fit (a ^ e).

(** [i64::try_from((value as i128) << count)] for count in 0..=63 *)
Definition shl_fit (a c : Z) : option Z := fit (a * 2 ^ c).
(** [value >> count] (arithmetic) for count in 0..=63 *)
Definition shr (a c : Z) : Z := Z.shiftr a c.

Definition signum (a : Z) : Z := Z.sgn a.

Fixpoint fact_nat (n : nat) : Z :=
  match n with O => 1 | S k => Z.of_nat (S k) * fact_nat k end.
Definition fact (n : Z) : Z := fact_nat (Z.to_nat n).

(** Euclid as written in ast.rs (after the repair), with explicit fuel; the result is
    [checked_abs] of the last non-zero remainder *)
Fixpoint gcd_loop (fuel : nat) (a b : Z) : res Z :=
  match fuel with
  | O => Fuel
  | S f => if b =? 0 then Ok a else gcd_loop f b (wrapping_rem a b)
  end.
Definition gcd_fuel : nat := 200.
Definition u64_max : Z := 2 ^ 64 - 1.
(** gcd / lcm on u64 magnitudes (non-negative operands, so [%] is [Z.rem] = [mod]) *)
Definition ugcd (a b : Z) : res Z := gcd_loop gcd_fuel a b.
Definition ulcm (a b : Z) : res Z :=
  if (a =? 0) || (b =? 0) then Ok 0
  else
    let* g := ugcd a b in
    let m := Z.quot a g * b in
    if m <=? u64_max then Ok m else Err.       (* u64::checked_mul *)
Fixpoint rfold (f : Z -> Z -> res Z) (acc : Z) (vs : list Z) : res Z :=
  match vs with
  | nil => Ok acc
  | cons v vs' => let* a := f acc v in rfold f a vs'
  end.
(** number of loop iterations of [gcd] (for the cost model) *)
Fixpoint gcd_steps (fuel : nat) (a b : Z) : nat :=
  match fuel with
  | O => O
  | S f => if b =? 0 then O else S (gcd_steps f b (wrapping_rem a b))
  end.
