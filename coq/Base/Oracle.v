(** External numeric code (glibc libm through Rust std, rust_decimal, num_complex) enters the
    model as records of functions bound by [Section] variables: every theorem holds for any
    implementation of them. At run time the extracted driver fills them by asking the Rust
    process harness/src/bin/primsrv.rs, which calls the very functions the crate links. *)
From Coq Require Import ZArith.
From SC Require Import Base.F64 Base.Dec.

Inductive m1op := MSin | MCos | MTan | MSinh | MCosh | MTanh | MAsin | MAcos | MAtan
                | MAsinh | MAcosh | MAtanh | MLn | MLog10 | MExp | MExp2.
Inductive m2op := MPow | MAtan2 | MLog | MMin | MMax.

Record libm := {
  m1 : m1op -> f64 -> f64;
  m2 : m2op -> f64 -> f64 -> f64;
  mpowi : f64 -> Z -> f64
}.

(** rust_decimal: [None] is the checked_* functions' None / an Err *)
Inductive d1op := DNeg | DAbs | DFloor | DCeil | DRound | DTrunc | DSignum
                | DLn | DLog10 | DExp | DSqrt | DSin.
Inductive d2op := DAdd | DSub | DMul | DDiv | DRem | DPowd | DMin | DMax.
Record declib := {
  d1 : d1op -> dec -> option dec;
  d2 : d2op -> dec -> dec -> option dec;
  d_to_i64 : dec -> option Z;          (* ToPrimitive::to_i64 *)
  d_to_i32 : dec -> option Z;
  d_parse : list N -> option dec       (* Decimal::from_str on the literal text *)
}.

(** num_complex *)
Definition cpx := (f64 * f64)%type.
Inductive c1op := CSin | CCos | CTan | CSinh | CCosh | CTanh | CAsin | CAcos | CAtan
                | CAsinh | CAcosh | CAtanh | CSqrt | CLn | CLb | CExp | CExp2 | CAbs | CInv1.
Inductive c2op := CDiv | CPowc.
Record cpxlib := {
  c1 : c1op -> cpx -> cpx;
  c2 : c2op -> cpx -> cpx -> cpx
}.
