(** rust_decimal::Decimal as (sign, 96-bit coefficient, scale 0..28) *)
From Coq Require Import ZArith NArith Bool.
Local Open Scope N_scope.

Record dec := { d_neg : bool; d_coef : N; d_scale : N }.

Definition dec_ok (d : dec) : bool := (d_coef d <? 2 ^ 96) && (d_scale d <=? 28).
Definition dec_int (z : Z) : dec := {| d_neg := (z <? 0)%Z; d_coef := Z.abs_N z; d_scale := 0 |}.
Definition dec_zero : dec := dec_int 0.
Definition dec_is_zero (d : dec) : bool := d_coef d =? 0.

(** numeric comparison (sign of zero ignored), by cross-multiplying the scales *)
Definition dec_signed (d : dec) : Z := if d_neg d then (- Z.of_N (d_coef d))%Z else Z.of_N (d_coef d).
Definition dec_cmp (a b : dec) : comparison :=
  Z.compare (dec_signed a * 10 ^ Z.of_N (d_scale b))%Z (dec_signed b * 10 ^ Z.of_N (d_scale a))%Z.
Definition dec_lt a b := match dec_cmp a b with Lt => true | _ => false end.
Definition dec_gt a b := match dec_cmp a b with Gt => true | _ => false end.
Definition dec_ge a b := negb (dec_lt a b).
Definition dec_eq a b := match dec_cmp a b with Eq => true | _ => false end.

(** ** Exact paths of rust_decimal's add / sub / mul / neg, written out.
    [dec_add_exact x y] is defined exactly when the sum needs no rescaling: one operand is zero (the
    library then returns the other operand unchanged) or both coefficients, aligned to the larger scale,
    and their sum stay below 2^96; the result then has the larger scale. [dec_mul_exact] is defined when
    an operand is zero (result 0 with scale 0) or the product of the coefficients stays below 2^96 and the
    scales add up to at most 28. Everything else (rounding, rescaling, range errors) is left to the oracle. *)
Definition pow10 (n : N) : Z := (10 ^ Z.of_N n)%Z.
Definition dec_lim : Z := (2 ^ 96)%Z.
Definition mkdec (z : Z) (s : N) : dec := {| d_neg := (z <? 0)%Z; d_coef := Z.abs_N z; d_scale := s |}.
Definition dec_neg (x : dec) : dec := {| d_neg := negb (d_neg x); d_coef := d_coef x; d_scale := d_scale x |}.

Definition dec_aligned (x y : dec) (sy : Z) : option dec :=
  let s := N.max (d_scale x) (d_scale y) in
  let cx := (dec_signed x * pow10 (s - d_scale x))%Z in
  let cy := (sy * dec_signed y * pow10 (s - d_scale y))%Z in
  if ((Z.abs cx <? dec_lim) && (Z.abs cy <? dec_lim) && (Z.abs (cx + cy) <? dec_lim))%Z
  then Some (mkdec (cx + cy) s) else None.

Definition dec_add_exact (x y : dec) : option dec :=
  if dec_is_zero x then Some y
  else if dec_is_zero y then Some x
  else dec_aligned x y 1.

Definition dec_sub_exact (x y : dec) : option dec :=
  if dec_is_zero x then Some (if dec_is_zero y then y else dec_neg y)
  else if dec_is_zero y then Some x
  else dec_aligned x y (-1).

Definition dec_mul_exact (x y : dec) : option dec :=
  if dec_is_zero x || dec_is_zero y then Some dec_zero
  else
    let c := d_coef x * d_coef y in
    let s := d_scale x + d_scale y in
    if (c <? 2 ^ 96) && (s <=? 28) then Some {| d_neg := xorb (d_neg x) (d_neg y); d_coef := c; d_scale := s |}
    else None.
