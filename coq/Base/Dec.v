(** rust_decimal::Decimal as (sign, 96-bit coefficient, scale 0..28) *)
From Coq Require Import ZArith NArith Bool.
Local Open Scope N_scope.

Record dec := { d_neg : bool; d_coef : N; d_scale : N }.

Definition dec_ok (d : dec) : bool := (d_coef d <? 2 ^ 96) && (d_scale d <=? 28).
Definition dec_int (z : Z) : dec := {| d_neg := (z <? 0)%Z; d_coef := Z.abs_N z; d_scale := 0 |}.
Definition dec_zero : dec := dec_int 0.
Definition dec_is_zero (d : dec) : bool := d_coef d =? 0.

(** numeric comparison (sign of zero ignored), by cross-multiplying the scales *)
Definition dec_signed (d : dec) : Z := if d_neg d then (- Z.of_N (d_coef d))%Z else Z.of_N (d_coef d).
Definition dec_cmp (a b : dec) : comparison :=
  Z.compare (dec_signed a * 10 ^ Z.of_N (d_scale b))%Z (dec_signed b * 10 ^ Z.of_N (d_scale a))%Z.
Definition dec_lt a b := match dec_cmp a b with Lt => true | _ => false end.
Definition dec_gt a b := match dec_cmp a b with Gt => true | _ => false end.
Definition dec_ge a b := negb (dec_lt a b).
Definition dec_eq a b := match dec_cmp a b with Eq => true | _ => false end.
