(** The model side of the correspondence check: one request line in, one canonical line out.
    The only thing supplied by OCaml is [ask : string -> string], a round trip to primsrv. *)
From Coq Require Import List ZArith NArith Bool String Ascii.
From SC Require Import Base.Res Base.F64 Base.RustInt Base.Dec Base.Num Base.Oracle
  Lang.Syntax Lang.Lexer Lang.Literal Lang.Parser Eval.Run Gen.Tables Spec.Surface Spec.Cost Extract.Wire.
Import ListNotations.
Local Open Scope string_scope.

Section Driver.
  Variable ask : string -> string.

  Definition name_m1 (o : m1op) : string :=
    match o with
    | MSin => "sin" | MCos => "cos" | MTan => "tan" | MSinh => "sinh" | MCosh => "cosh" | MTanh => "tanh"
    | MAsin => "asin" | MAcos => "acos" | MAtan => "atan" | MAsinh => "asinh" | MAcosh => "acosh"
    | MAtanh => "atanh" | MLn => "ln" | MLog10 => "log10" | MExp => "exp" | MExp2 => "exp2"
    end.
  Definition name_m2 (o : m2op) : string :=
    match o with MPow => "pow" | MAtan2 => "atan2" | MLog => "log" | MMin => "min" | MMax => "max" end.
  Definition f_reply (s : string) : f64 := match read_f64 s with Some r => r | None => fnan end.

  Definition the_libm : libm := {|
    m1 := fun o x => f_reply (ask (name_m1 o ++ " " ++ show_f64 x));
    m2 := fun o x y => f_reply (ask (name_m2 o ++ " " ++ show_f64 x ++ " " ++ show_f64 y));
    mpowi := fun x n => f_reply (ask ("powi " ++ show_f64 x ++ " " ++ show_Z n))
  |}.

  Definition name_d1 (o : d1op) : string :=
    match o with
    | DNeg => "dneg" | DAbs => "dabs" | DFloor => "dfloor" | DCeil => "dceil" | DRound => "dround"
    | DTrunc => "dtrunc" | DSignum => "dsignum" | DLn => "dln" | DLog10 => "dlog10" | DExp => "dexp"
    | DSqrt => "dsqrt" | DSin => "dsin"
    end.
  Definition name_d2 (o : d2op) : string :=
    match o with
    | DAdd => "dadd" | DSub => "dsub" | DMul => "dmul" | DDiv => "ddiv" | DRem => "drem"
    | DPowd => "dpowd" | DMin => "dmin" | DMax => "dmax"
    end.

  Definition the_declib : declib := {|
    d1 := fun o x => read_dec_val (ask (name_d1 o ++ " " ++ show_dec x));
    d2 := fun o x y => read_dec_val (ask (name_d2 o ++ " " ++ show_dec x ++ " " ++ show_dec y));
    d_to_i64 := fun x => read_Z (ask ("dtoi64 " ++ show_dec x));
    d_to_i32 := fun x => read_Z (ask ("dtoi32 " ++ show_dec x));
    d_parse := fun t => read_dec_val (ask ("dparse " ++ show_cps t))
  |}.

  Definition name_c1 (o : c1op) : string :=
    match o with
    | CSin => "csin" | CCos => "ccos" | CTan => "ctan" | CSinh => "csinh" | CCosh => "ccosh"
    | CTanh => "ctanh" | CAsin => "casin" | CAcos => "cacos" | CAtan => "catan" | CAsinh => "casinh"
    | CAcosh => "cacosh" | CAtanh => "catanh" | CSqrt => "csqrt" | CLn => "cln" | CLb => "clb"
    | CExp => "cexp" | CExp2 => "cexp2" | CAbs => "cabs" | CInv1 => "cinv1"
    end.
  Definition name_c2 (o : c2op) : string := match o with CDiv => "cdiv" | CPowc => "cpowc" end.
  Definition c_reply (s : string) : cpx := match read_cpx s with Some r => r | None => (fnan, fnan) end.
  Definition the_cpxlib : cpxlib := {|
    c1 := fun o x => c_reply (ask (name_c1 o ++ " " ++ show_cpx x));
    c2 := fun o x y => c_reply (ask (name_c2 o ++ " " ++ show_cpx x ++ " " ++ show_cpx y))
  |}.

  Definition bad := "BAD".

  Definition go {V} (LT : lextab) (conv : lit -> option V) (PT : ptab V) (ev : node V -> res V)
             (rd : string -> option V) (sv : V -> string) (leaf : string)
             (mode ph ex : string) : string :=
    match read_expr ex with
    | None => bad
    | Some s =>
        if String.eqb mode "tokens" then
          match tokens_of LT conv s with
          | Some ts => "OK " ++ show_toks sv ts
          | None => "ERR"
          end
        else
          match rd ph with
          | None => bad
          | Some p =>
              if String.eqb mode "cost" then
                match tokens_of LT conv s with
                | None => "ERR"
                | Some ts => match parse PT p ts with
                             | Ok a => "OK " ++ show_N (N.of_nat (total_bound ts a))
                             | _ => "ERR"
                             end
                end
              else
              if String.eqb mode "ast" then show_res (show_node sv leaf) (ast_of LT conv PT s p)
              else if String.eqb mode "eval" then show_res sv (run LT conv PT ev s p)
              else bad
          end
    end.


  (** primitive-by-primitive observation (level L0): the Gallina definition of one Rust primitive applied to
      wire-format operands; the harness compares the line with what the real primitive returns *)
  Definition show_b (b : bool) : string := if b then "1" else "0".
  Definition show_oZ (o : option Z) : string := match o with Some z => show_Z z | None => "none" end.
  Definition show_od (o : option dec) : string := match o with Some d => show_dec d | None => "skip" end.
  Definition show_cmp (c : comparison) : string := match c with Lt => "-1" | Eq => "0" | Gt => "1" end.

  Definition prim (op a b : string) : string :=
    let f1 (g : f64 -> string) := match read_f64 a with Some x => g x | None => bad end in
    let f2 (g : f64 -> f64 -> string) := match read_f64 a, read_f64 b with Some x, Some y => g x y | _, _ => bad end in
    let z1 (g : Z -> string) := match read_Z a with Some x => g x | None => bad end in
    let z2 (g : Z -> Z -> string) := match read_Z a, read_Z b with Some x, Some y => g x y | _, _ => bad end in
    let d1' (g : dec -> string) := match read_dec_val a with Some x => g x | None => bad end in
    let d2' (g : dec -> dec -> string) := match read_dec_val a, read_dec_val b with Some x, Some y => g x y | _, _ => bad end in
    let is := String.eqb op in
    if is "add" then f2 (fun x y => show_f64 (fadd x y)) else if is "sub" then f2 (fun x y => show_f64 (fsub x y))
    else if is "mul" then f2 (fun x y => show_f64 (fmul x y)) else if is "div" then f2 (fun x y => show_f64 (fdiv x y))
    else if is "rem" then f2 (fun x y => show_f64 (fmod x y))
    else if is "sqrt" then f1 (fun x => show_f64 (fsqrt x)) else if is "neg" then f1 (fun x => show_f64 (fneg x))
    else if is "abs" then f1 (fun x => show_f64 (fabs x)) else if is "floor" then f1 (fun x => show_f64 (ffloor x))
    else if is "ceil" then f1 (fun x => show_f64 (fceil x)) else if is "round" then f1 (fun x => show_f64 (fround x))
    else if is "trunc" then f1 (fun x => show_f64 (ftrunc x)) else if is "signum" then f1 (fun x => show_f64 (fsignum x))
    else if is "lt" then f2 (fun x y => show_b (flt x y)) else if is "le" then f2 (fun x y => show_b (fle x y))
    else if is "eq" then f2 (fun x y => show_b (feq x y))
    else if is "tcmp" then f2 (fun x y => show_cmp (Z.compare (total_key x) (total_key y)))
    else if is "f2i" then f1 (fun x => show_Z (f64_to_i64 x)) else if is "f2i32" then f1 (fun x => show_Z (f64_to_i32 x))
    else if is "f2usize" then f1 (fun x => show_Z (f64_to_usize x))
    else if is "i2f" then z1 (fun x => show_f64 (f64_of_Z x))
    else if is "iadd" then z2 (fun x y => show_oZ (checked_add x y)) else if is "isub" then z2 (fun x y => show_oZ (checked_sub x y))
    else if is "imul" then z2 (fun x y => show_oZ (checked_mul x y)) else if is "idiv" then z2 (fun x y => show_oZ (checked_div x y))
    else if is "ineg" then z1 (fun x => show_oZ (checked_neg x)) else if is "iabs" then z1 (fun x => show_oZ (checked_abs x))
    else if is "irem" then z2 (fun x y => if (y =? 0)%Z then "none" else show_Z (wrapping_rem x y))
    else if is "iremeuclid" then z2 (fun x y => show_oZ (checked_rem_euclid x y))
    else if is "ipow" then z2 (fun x y => if ((0 <=? y) && (y <=? u32_max))%Z then show_oZ (checked_pow x y) else "skip")
    else if is "ishl" then z2 (fun x y => if ((0 <=? y) && (y <=? 63))%Z then show_oZ (shl_fit x y) else "skip")
    else if is "ishr" then z2 (fun x y => if ((0 <=? y) && (y <=? 63))%Z then show_Z (shr x y) else "skip")
    else if is "isignum" then z1 (fun x => show_Z (signum x))
    else if is "iand" then z2 (fun x y => show_Z (Z.land x y)) else if is "ior" then z2 (fun x y => show_Z (Z.lor x y))
    else if is "dadd" then d2' (fun x y => show_od (dec_add_exact x y)) else if is "dsub" then d2' (fun x y => show_od (dec_sub_exact x y))
    else if is "dmul" then d2' (fun x y => show_od (dec_mul_exact x y)) else if is "dneg" then d1' (fun x => show_dec (dec_neg x))
    else if is "dcmp" then d2' (fun x y => show_cmp (dec_cmp x y))
    else bad.

  Definition tab : ascii := ascii_of_N 9.

  Definition run_line (line : string) : string :=
    match split_all tab line with
    | [ev; mode; ph; ex] =>
        if String.eqb ev "i64" then
          go lt_i64 conv_i64 pt_i64 (EvalI64.eval_i64 the_libm) read_Z show_Z "Number" mode ph ex
        else if String.eqb ev "f64" then
          go lt_f64 conv_f64 pt_f64 (EvalF64.eval_f64 the_libm) read_f64 show_f64 "Number" mode ph ex
        else if String.eqb ev "number" then
          if String.eqb mode "from_f64" then
            match read_f64 ph with Some x => "OK " ++ show_num (number_of_f64 x) | None => bad end
          else if String.eqb mode "from_i64" then
            match read_Z ph with Some z => "OK " ++ show_num (number_of_i64 z) | None => bad end
          else
          go lt_number conv_num pt_number (EvalNum.eval_num the_libm) read_num show_num "Num" mode ph ex
        else if String.eqb ev "decimal" then
          go lt_decimal (conv_dec the_declib) pt_decimal (EvalDec.eval_dec the_declib)
             read_dec_val show_dec "Number" mode ph ex
        else if String.eqb ev "prim" then prim mode ph ex
        else if String.eqb ev "complex" then
          go lt_complex conv_cpx pt_complex (EvalCpx.eval_cpx the_cpxlib) read_cpx show_cpx "Number" mode ph ex
        else bad
    | _ => bad
    end.
End Driver.
