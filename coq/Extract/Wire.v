(** Wire formats of the correspondence harness, written in Gallina so that the extracted driver
    and the in-kernel cross-check ([Eval vm_compute] in cases.v) print the very same text. *)
From Coq Require Import List ZArith NArith Bool String Ascii.
From SC Require Import Base.Res Base.F64 Base.Dec Base.Num Base.Oracle Lang.Syntax.
Import ListNotations.
Local Open Scope string_scope.

(** * numbers <-> text *)
Definition hex_digit (n : N) : ascii :=
  ascii_of_N (if (n <? 10)%N then 48 + n else 87 + n).

Fixpoint hex_fixed (digits : nat) (z : N) (acc : string) : string :=
  match digits with
  | O => acc
  | S d => hex_fixed d (z / 16)%N (String (hex_digit (z mod 16)%N) acc)
  end.

Fixpoint dec_pos_fuel (fuel : nat) (n : N) (acc : string) : string :=
  match fuel with
  | O => acc
  | S f => if (n <? 10)%N then String (ascii_of_N (48 + n)) acc
           else dec_pos_fuel f (n / 10)%N (String (ascii_of_N (48 + n mod 10)%N) acc)
  end.
Definition show_N (n : N) : string := dec_pos_fuel (S (N.to_nat (N.log2 n))) n "".
Definition show_Z (z : Z) : string :=
  match z with
  | Zneg p => String "-" (show_N (Npos p))
  | _ => show_N (Z.to_N z)
  end.

Definition hexval (c : ascii) : option N :=
  let n := N_of_ascii c in
  if (48 <=? n)%N && (n <=? 57)%N then Some (n - 48)%N
  else if (97 <=? n)%N && (n <=? 102)%N then Some (n - 87)%N
  else if (65 <=? n)%N && (n <=? 70)%N then Some (n - 55)%N
  else None.
Fixpoint read_hex (acc : N) (s : string) : option N :=
  match s with
  | EmptyString => Some acc
  | String c s' => match hexval c with Some d => read_hex (acc * 16 + d)%N s' | None => None end
  end.
Fixpoint read_dec (acc : N) (s : string) : option N :=
  match s with
  | EmptyString => Some acc
  | String c s' =>
      let n := N_of_ascii c in
      if (48 <=? n)%N && (n <=? 57)%N then read_dec (acc * 10 + (n - 48))%N s' else None
  end.
Definition read_Z (s : string) : option Z :=
  match s with
  | String "-" s' => match s' with EmptyString => None | _ => option_map (fun n => (- Z.of_N n)%Z) (read_dec 0 s') end
  | EmptyString => None
  | _ => option_map Z.of_N (read_dec 0 s)
  end.

(** split at the first occurrence of a separator *)
Fixpoint split_at (sep : ascii) (s : string) : string * option string :=
  match s with
  | EmptyString => (EmptyString, None)
  | String c s' => if Ascii.eqb c sep then (EmptyString, Some s')
                   else let (a, b) := split_at sep s' in (String c a, b)
  end.
Fixpoint split_all_fuel (fuel : nat) (sep : ascii) (s : string) : list string :=
  match fuel with
  | O => [s]
  | S f => match split_at sep s with
           | (a, None) => [a]
           | (a, Some b) => a :: split_all_fuel f sep b
           end
  end.
Definition split_all (sep : ascii) (s : string) : list string := split_all_fuel (String.length s) sep s.

(** * values *)
Definition show_f64 (x : f64) : string := hex_fixed 16 (Z.to_N (bits_of_f64 x)) "".
Definition read_f64 (s : string) : option f64 :=
  option_map (fun n => f64_of_bits (Z.of_N n)) (read_hex 0 s).

Definition show_dec (d : dec) : string :=
  (if d_neg d then "-" else "") ++ show_N (d_coef d) ++ "/" ++ show_N (d_scale d).
Definition read_dec_val (s : string) : option dec :=
  let '(neg, body) := match s with String "-" r => (true, r) | _ => (false, s) end in
  match split_at "/" body with
  | (c, Some sc) =>
      match read_dec 0 c, read_dec 0 sc with
      | Some cv, Some sv => match c, sc with
                            | EmptyString, _ | _, EmptyString => None
                            | _, _ => Some {| d_neg := neg; d_coef := cv; d_scale := sv |}
                            end
      | _, _ => None
      end
  | _ => None
  end.

Definition show_cpx (c : cpx) : string := show_f64 (fst c) ++ "," ++ show_f64 (snd c).
Definition read_cpx (s : string) : option cpx :=
  match split_at "," s with
  | (a, Some b) => match read_f64 a, read_f64 b with Some x, Some y => Some (x, y) | _, _ => None end
  | _ => None
  end.

Definition show_num (n : number) : string :=
  match n with Int z => "I" ++ show_Z z | Flt x => "F" ++ show_f64 x end.
Definition read_num (s : string) : option number :=
  match s with
  | String "I" r => option_map Int (read_Z r)
  | String "F" r => option_map Flt (read_f64 r)
  | _ => None
  end.

(** expression: code points in hex separated by '.'; "-" or "" is the empty string *)
Fixpoint read_cps (l : list string) : option (list N) :=
  match l with
  | [] => Some []
  | x :: xs => match x with
               | EmptyString => None
               | _ => match read_hex 0 x, read_cps xs with
                      | Some c, Some cs => Some (c :: cs)
                      | _, _ => None
                      end
               end
  end.
Definition read_expr (s : string) : option (list N) :=
  match s with
  | EmptyString => Some []
  | String "-" EmptyString => Some []
  | _ => read_cps (split_all "." s)
  end.
Fixpoint show_cps (l : list N) : string :=
  match l with
  | [] => ""
  | [c] => hex_fixed 2 c ""
  | c :: cs => hex_fixed 2 c "" ++ "." ++ show_cps cs
  end.

(** * names (the Rust [Debug] names) *)
Definition show_fn (f : fn) : string :=
  match f with
  | FSin => "Sin" | FCos => "Cos" | FTan => "Tan" | FSinh => "Sinh" | FCosh => "Cosh" | FTanh => "Tanh"
  | FAsin => "Asin" | FAcos => "Acos" | FAtan => "Atan" | FAtan2 => "Atan2" | FArcosh => "Arcosh"
  | FArsinh => "Arsinh" | FArtanh => "Artanh" | FLn => "Ln" | FLb => "Lb" | FLog => "Log" | FILog => "ILog"
  | FPow => "Pow" | FSqrt => "Sqrt" | FRoot => "Root" | FExp => "Exp" | FExp2 => "Exp2"
  | FLambertW => "LambertW" | FAbs => "Abs" | FSign => "Sign" | FTruncate => "Truncate" | FFloor => "Floor"
  | FCeil => "Ceil" | FRound => "Round" | FMin => "Min" | FMax => "Max" | FAvg => "Avg" | FMed => "Med"
  | FMod => "Mod" | FGcd => "Gcd" | FLcm => "Lcm"
  end.
Definition show_kind (k : kind) : string :=
  match k with
  | KAdd => "Add" | KSubtract => "Subtract" | KMultiply => "Multiply" | KDivide => "Divide" | KCaret => "Caret"
  | KExclamationMark => "ExclamationMark" | KModulo => "Modulo" | KLeftParen => "LeftParen"
  | KRightParen => "RightParen" | KLeftFloor => "LeftFloor" | KRightFloor => "RightFloor"
  | KLeftCeiling => "LeftCeiling" | KRightCeiling => "RightCeiling" | KE => "E" | KPi => "Pi" | KComma => "Comma"
  | KDegToRad => "DegToRad" | KRadToDeg => "RadToDeg" | KAmpersand => "Ampersand" | KBar => "Bar"
  | KLeftShift => "LeftShift" | KRightShift => "RightShift"
  | KFunc f => "ExplicitFunction(" ++ show_fn f ++ ")"
  | KSuperscript => "Superscript" | KNum => "Num" | KAns => "Ans" | KEof => "Eof"
  end.
Definition show_unop (u : unop) : string :=
  match u with
  | UNegative => "Negative" | UFactorial => "Factorial" | UAbs => "Abs" | UFloor => "Floor" | UCeil => "Ceil"
  | URound => "Round" | USin => "Sin" | UCos => "Cos" | UTan => "Tan" | USinh => "Sinh" | UCosh => "Cosh"
  | UTanh => "Tanh" | UArsinh => "Arsinh" | UArcosh => "Arcosh" | UArtanh => "Artanh" | UAsin => "Asin"
  | UAcos => "Acos" | UAtan => "Atan" | USqrt => "Sqrt" | ULn => "Ln" | ULb => "Lb" | UExp => "Exp"
  | UExp2 => "Exp2" | UTruncate => "Truncate" | USign => "Sign" | ULambertW => "LambertW"
  end.
Definition show_binop (b : binop) : string :=
  match b with
  | BAdd => "Add" | BSubtract => "Subtract" | BMultiply => "Multiply" | BDivide => "Divide" | BModulo => "Modulo"
  | BAtan2 => "Atan2" | BRoot => "Root" | BPow => "Pow" | BLog => "Log" | BILog => "ILog" | BAnd => "And"
  | BOr => "Or" | BLeftShift => "LeftShift" | BRightShift => "RightShift"
  end.
Definition show_aggop (g : aggop) : string :=
  match g with AMin => "Min" | AMax => "Max" | AAvg => "Avg" | AMed => "Med" | AGcd => "Gcd" | ALcm => "Lcm" end.

Section ShowV.
  Context {V : Type}.
  Variable sv : V -> string.
  Variable leaf : string.          (* "Number" or "Num" *)

  Definition show_tok (t : tok V) : string :=
    match t with
    | TK k => show_kind k
    | TNum v => "Num(" ++ sv v ++ ")"
    | TSup v => "Superscript(" ++ sv v ++ ")"
    end.
  Fixpoint show_toks (ts : list (tok V)) : string :=
    match ts with
    | [] => ""
    | [t] => show_tok t
    | t :: ts' => show_tok t ++ " " ++ show_toks ts'
    end.

  Fixpoint show_node (n : node V) : string :=
    match n with
    | NNum v => leaf ++ "(" ++ sv v ++ ")"
    | NUn u a => show_unop u ++ "(" ++ show_node a ++ ")"
    | NBin b a c => show_binop b ++ "(" ++ show_node a ++ "," ++ show_node c ++ ")"
    | NAgg g args =>
        show_aggop g ++ "([" ++
        (fix go (l : list (node V)) : string :=
           match l with
           | [] => ""
           | [x] => show_node x
           | x :: xs => show_node x ++ "," ++ go xs
           end) args ++ "])"
    end.

  Definition show_res {A} (sa : A -> string) (r : res A) : string :=
    match r with
    | Ok a => "OK " ++ sa a
    | Err => "ERR"
    | Panic => "PANIC"
    | Fuel => "FUEL"
    end.
End ShowV.
