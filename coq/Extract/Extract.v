From Coq Require Import Extraction ExtrOcamlBasic.
From SC Require Import Extract.Driver.
Extraction Language OCaml.
Extraction "model.ml" Driver.run_line.
