#!/bin/sh
set -e
cd "$(dirname "$0")"
echo "setup: placeholder"
