#!/bin/sh
# Build everything the checks need, offline, from files on disk: tables from /repo, the Coq
# development (full .vo build), the extracted OCaml model runner, the Rust harness (debug+release).
set -e
cd "$(dirname "$0")"
export CARGO_NET_OFFLINE=true
python3 - <<'PY'
import sys
sys.path.insert(0, 'tools')
import vlib
rep = vlib.translate()
print('translate:', rep.get('ok'), rep.get('same_as_committed'))
ok, out = vlib.coq_make()
if not ok:
    print(out[-3000:]); sys.exit(1)
vlib.build_driver()
vlib.build_harness(release=True)
vlib.build_stack_probe()
print('setup done')
PY
